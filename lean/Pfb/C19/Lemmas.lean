/-
  Pfb.C19.Lemmas — helper lemmas about the C19 model (membership characterisations of the
  folds in `exports`, the `__all__` scan over an appended list, `ignoreShadowed`).
-/
import Pfb.C19.Model
namespace Pfb.C19
open Pfb

/-- needed only so that the concrete witnesses in Props.lean can be closed by `decide` -/
instance instDecEqExcept {ε α : Type} [DecidableEq ε] [DecidableEq α] : DecidableEq (Except ε α) :=
  fun a b => match a, b with
  | .ok x, .ok y => if h : x = y then isTrue (by rw [h]) else isFalse (by intro hh; cases hh; exact h rfl)
  | .error x, .error y => if h : x = y then isTrue (by rw [h]) else isFalse (by intro hh; cases hh; exact h rfl)
  | .ok _, .error _ => isFalse (by intro h; cases h)
  | .error _, .ok _ => isFalse (by intro h; cases h)

/-! ### filters -/

theorem mem_publicNames {n : Str} {ns : List Str} :
    n ∈ publicNames ns ↔ n ∈ ns ∧ isPrivate n = false ∧ isDotted n = false := by
  simp only [publicNames, List.mem_filter, Bool.not_eq_eq_eq_not, Bool.not_true]
  constructor
  · rintro ⟨⟨h1, h2⟩, h3⟩; exact ⟨h1, h2, h3⟩
  · rintro ⟨h1, h2, h3⟩; exact ⟨⟨h1, h2⟩, h3⟩

theorem entryStrs_ok_iff {es : List Entry} {ss : List Str} :
    entryStrs es = .ok ss ↔ es = ss.map Entry.str := by
  induction es generalizing ss with
  | nil => cases ss <;> simp [entryStrs]
  | cons e rest ih =>
    cases e with
    | nonstr => cases ss <;> simp [entryStrs]
    | str s =>
      simp only [entryStrs]
      cases h : entryStrs rest with
      | error e =>
        simp only [reduceCtorEq, false_iff]
        intro hc
        cases ss with
        | nil => simp at hc
        | cons a as =>
          simp only [List.map_cons, List.cons.injEq, Entry.str.injEq] at hc
          have := (ih (ss := as)).mpr hc.2
          rw [h] at this; cases this
      | ok ss' =>
        have h' := (ih (ss := ss')).mp h
        constructor
        · intro hc; cases hc; simp [h']
        · intro hc
          cases ss with
          | nil => simp at hc
          | cons a as =>
            simp only [List.map_cons, List.cons.injEq, Entry.str.injEq] at hc
            obtain ⟨rfl, hr⟩ := hc
            have := (ih (ss := as)).mpr hr
            rw [h] at this; cases this; rfl

theorem entryStrs_error_iff {es : List Entry} :
    (∃ e, entryStrs es = .error e) ↔ Entry.nonstr ∈ es := by
  induction es with
  | nil => simp [entryStrs]
  | cons e rest ih =>
    cases e with
    | nonstr => simp [entryStrs]
    | str s =>
      simp only [entryStrs, List.mem_cons, reduceCtorEq, false_or]
      rw [← ih]
      cases h : entryStrs rest with
      | error e => simp
      | ok ss => simp

theorem entryStrs_error_kind {es : List Entry} {e : Err} (h : entryStrs es = .error e) :
    e = .attributeError := by
  induction es with
  | nil => simp [entryStrs] at h
  | cons x rest ih =>
    cases x with
    | nonstr => simp [entryStrs] at h; exact h.symm
    | str s =>
      simp only [entryStrs] at h
      cases h' : entryStrs rest with
      | error e' => rw [h'] at h; simp at h; subst h; exact ih h'
      | ok ss => rw [h'] at h; simp at h

/-! ### own-package test -/

theorem startsWith_iff {m pre : ModName} : startsWith m pre = true ↔ pre <+: m := by
  unfold startsWith
  rw [List.prefix_iff_eq_take]
  simp only [beq_iff_eq]
  exact eq_comm

/-! ### re-exports -/

theorem mem_aliasMembers {v : Variant} {env : Env} {fm : ModName} {als : List Alias} {n : Str} :
    n ∈ aliasMembers v env fm als ↔
      ∃ a ∈ als, a.name ≠ star ∧ env.exists_ (fm ++ [probe v a]) = false ∧ n = a.bound := by
  unfold aliasMembers
  simp only [List.mem_filterMap]
  constructor
  · rintro ⟨a, ha, h⟩
    refine ⟨a, ha, ?_⟩
    split at h
    · rename_i hc
      simp only [Bool.and_eq_true, bne_iff_ne, ne_eq, Bool.not_eq_eq_eq_not, Bool.not_true] at hc
      simp only [Option.some.injEq] at h
      exact ⟨hc.1, hc.2, h.symm⟩
    · simp at h
  · rintro ⟨a, ha, h1, h2, h3⟩
    refine ⟨a, ha, ?_⟩
    simp [h1, h2, h3]

theorem reexports_ok_mem {v : Variant} {env : Env} {items : List Item} {re : List Str}
    (h : reexports v env items = .ok re) (n : Str) :
    n ∈ re ↔ ∃ pre it post, items = pre ++ it :: post ∧
      ∃ xs, reexportsOf v env it = .ok xs ∧ n ∈ xs ∧ n ∉ delLater v post := by
  induction items generalizing re with
  | nil => simp [reexports] at h; subst h; simp
  | cons it rest ih =>
    simp only [reexports] at h
    cases h1 : reexportsOf v env it with
    | error e => rw [h1] at h; simp at h
    | ok xs =>
      rw [h1] at h
      cases h2 : reexports v env rest with
      | error e => rw [h2] at h; simp at h
      | ok ys =>
        rw [h2] at h
        simp only [Except.ok.injEq] at h
        subst h
        rw [List.mem_append, ih h2]
        constructor
        · rintro (hf | ⟨pre, it', post, rfl, xs', hx, hn, hd⟩)
          · rw [List.mem_filter] at hf
            refine ⟨[], it, rest, rfl, xs, h1, hf.1, ?_⟩
            simpa using hf.2
          · exact ⟨it :: pre, it', post, rfl, xs', hx, hn, hd⟩
        · rintro ⟨pre, it', post, heq, xs', hx, hn, hd⟩
          cases pre with
          | nil =>
            simp only [List.nil_append, List.cons.injEq] at heq
            obtain ⟨rfl, rfl⟩ := heq
            rw [h1] at hx; simp only [Except.ok.injEq] at hx; subst hx
            left; rw [List.mem_filter]; exact ⟨hn, by simpa using hd⟩
          | cons p pre' =>
            simp only [List.cons_append, List.cons.injEq] at heq
            obtain ⟨rfl, rfl⟩ := heq
            right; exact ⟨pre', it', post, rfl, xs', hx, hn, hd⟩

theorem fromMod_total {env : Env} {lvl : Nat} {mod : Option ModName} (h : ¬ (lvl = 0 ∧ mod = none)) :
    ∃ r, fromMod env lvl mod = .ok r := by
  unfold fromMod
  by_cases h0 : lvl = 0
  · subst h0
    cases mod with
    | none => exact absurd ⟨rfl, rfl⟩ h
    | some m =>
      simp only [↓reduceIte]
      by_cases hs : startsWith m env.self = true <;> simp [hs]
  · simp only [h0, ↓reduceIte]
    by_cases hc : (decide (lvl = 1) && env.isInit) = true <;> simp [hc]

/-- Without a level-0 `from` statement lacking a module (which `ast.parse` never produces)
    the re-export scan cannot fail. -/
theorem reexports_total {v : Variant} {env : Env} {items : List Item}
    (hwf : ∀ als, Item.importFrom 0 none als ∉ items) :
    ∃ re, reexports v env items = .ok re := by
  induction items with
  | nil => exact ⟨[], rfl⟩
  | cons it rest ih =>
    have hrest : ∀ als, Item.importFrom 0 none als ∉ rest :=
      fun als hm => hwf als (List.mem_cons_of_mem _ hm)
    obtain ⟨ys, hys⟩ := ih hrest
    have : ∃ xs, reexportsOf v env it = .ok xs := by
      cases it with
      | importFrom lvl mod als =>
        have hne : ¬ (lvl = 0 ∧ mod = none) := by
          rintro ⟨rfl, rfl⟩
          exact hwf als List.mem_cons_self
        obtain ⟨r, hr⟩ := fromMod_total (env := env) hne
        simp only [reexportsOf, hr]
        cases r <;> simp
      | _ => exact ⟨[], rfl⟩
    obtain ⟨xs, hxs⟩ := this
    exact ⟨xs.filter (fun n => !(delLater v rest).contains n) ++ ys, by simp [reexports, hxs, hys]⟩

/-! ### the ordered, `del`-aware pass -/

theorem mem_foldl_live {f d : Item → List Str} {n : Str} (items : List Item) (acc : List Str) :
    n ∈ items.foldl (fun acc it => acc.filter (fun m => !(d it).contains m) ++ f it) acc ↔
      (n ∈ acc ∧ ∀ j ∈ items, n ∉ d j) ∨
      ∃ pre it post, items = pre ++ it :: post ∧ n ∈ f it ∧ ∀ j ∈ post, n ∉ d j := by
  induction items generalizing acc with
  | nil => simp
  | cons x rest ih =>
    simp only [List.foldl_cons]
    rw [ih]
    simp only [List.mem_append, List.mem_filter, Bool.not_eq_eq_eq_not, Bool.not_true,
      List.contains_eq_mem, decide_eq_false_iff_not]
    constructor
    · rintro (⟨(⟨ha, hx⟩ | hfx), hrest⟩ | ⟨pre, it, post, rfl, hf, hp⟩)
      · left
        refine ⟨ha, ?_⟩
        intro j hj
        rcases List.mem_cons.mp hj with rfl | h
        · exact hx
        · exact hrest j h
      · right; exact ⟨[], x, rest, rfl, hfx, hrest⟩
      · right; exact ⟨x :: pre, it, post, rfl, hf, hp⟩
    · rintro (⟨ha, hall⟩ | ⟨pre, it, post, heq, hf, hp⟩)
      · left
        exact ⟨Or.inl ⟨ha, hall x List.mem_cons_self⟩, fun j hj => hall j (List.mem_cons_of_mem _ hj)⟩
      · cases pre with
        | nil =>
          simp only [List.nil_append, List.cons.injEq] at heq
          obtain ⟨rfl, rfl⟩ := heq
          left; exact ⟨Or.inr hf, hp⟩
        | cons y pre' =>
          simp only [List.cons_append, List.cons.injEq] at heq
          obtain ⟨rfl, rfl⟩ := heq
          right; exact ⟨pre', it, post, rfl, hf, hp⟩

/-- **Characterisation of the ordered pass**: a name is live iff some statement adds it and no
    later statement removes it. -/
theorem mem_live_iff {f d : Item → List Str} {n : Str} {items : List Item} :
    n ∈ live f d items ↔
      ∃ pre it post, items = pre ++ it :: post ∧ n ∈ f it ∧ ∀ j ∈ post, n ∉ d j := by
  unfold live
  rw [mem_foldl_live]
  simp

theorem live_sub_flatMap {f d : Item → List Str} {n : Str} {items : List Item}
    (h : n ∈ live f d items) : ∃ it ∈ items, n ∈ f it := by
  obtain ⟨pre, it, post, rfl, hf, _⟩ := mem_live_iff.mp h
  exact ⟨it, by simp, hf⟩

/-- without removals the pass is a plain concatenation -/
theorem mem_live_of_no_del {f d : Item → List Str} {n : Str} {items : List Item} {it : Item}
    (hit : it ∈ items) (hf : n ∈ f it) (hd : ∀ j ∈ items, n ∉ d j) : n ∈ live f d items := by
  obtain ⟨pre, post, rfl⟩ := List.append_of_mem hit
  exact mem_live_iff.mpr ⟨pre, it, post, rfl, hf, fun j hj => hd j (by simp [hj])⟩

theorem delSeen_sub_delAll (v : Variant) (it : Item) : ∀ n ∈ delSeen v it, n ∈ delAll it := by
  intro n hn
  cases it with
  | del ns nested =>
    simp only [delSeen] at hn
    split at hn
    · split at hn
      · simpa [delAll] using hn
      · simp [delAll, hn]
    · simp at hn
  | _ => simp [delSeen] at hn

theorem delAll_sub_delSeen {v : Variant} {items : List Item} (h : delsSeen v items = true)
    {it : Item} (hit : it ∈ items) : ∀ n ∈ delAll it, n ∈ delSeen v it := by
  intro n hn
  simp only [delsSeen, List.all_eq_true] at h
  simpa using h it hit n hn

/-! ### members / bound -/

theorem targetMembers_sub_binds (v : Variant) (t : Target) :
    ∀ n ∈ targetMembers v t, n ∈ targetBinds t := by
  intro n hn
  cases t with
  | name m => simpa [targetMembers, targetBinds] using hn
  | pattern b l =>
    simp only [targetMembers] at hn
    split at hn
    · simpa [targetBinds] using hn
    · simp at hn
  | other l => simp [targetMembers] at hn

theorem memberFromNode_sub_defBinds (v : Variant) (it : Item) :
    ∀ n ∈ memberFromNode v it, n ∈ defBinds it := by
  intro n hn
  cases it with
  | assign ts val =>
    simp only [memberFromNode, List.mem_flatMap] at hn
    obtain ⟨t, ht, hn⟩ := hn
    simp only [defBinds, itemBinds, List.mem_flatMap]
    exact ⟨t, ht, targetMembers_sub_binds v t n hn⟩
  | annAssign t hv val =>
    simp only [memberFromNode] at hn
    split at hn
    · rename_i hc
      simp only [Bool.and_eq_true] at hc
      simp only [defBinds, itemBinds, hc.2, ↓reduceIte]
      exact targetMembers_sub_binds v t n hn
    · simp at hn
  | augAssign t val => simp [memberFromNode] at hn
  | classDef m => simpa [memberFromNode, defBinds, itemBinds] using hn
  | funcDef m => simpa [memberFromNode, defBinds, itemBinds] using hn
  | asyncFuncDef m =>
    simp only [memberFromNode] at hn
    split at hn
    · simpa [defBinds, itemBinds] using hn
    · simp at hn
  | importFrom l m a => simp [memberFromNode] at hn
  | import_ a => simp [memberFromNode] at hn
  | del a b => simp [memberFromNode] at hn
  | other => simp [memberFromNode] at hn

theorem defBinds_sub_itemBinds (it : Item) : ∀ n ∈ defBinds it, n ∈ itemBinds it := by
  intro n hn
  cases it <;> first | exact hn | simp [defBinds] at hn

theorem members_sub_defNames (v : Variant) (items : List Item) :
    ∀ n ∈ members v items, n ∈ defNames items := by
  intro n hn
  obtain ⟨it, hit, hn⟩ := live_sub_flatMap hn
  simp only [defNames, List.mem_flatMap]
  exact ⟨it, hit, memberFromNode_sub_defBinds v it n hn⟩

theorem liveDefs_sub_defNames (items : List Item) : ∀ n ∈ liveDefs items, n ∈ defNames items := by
  intro n hn
  obtain ⟨it, hit, hn⟩ := live_sub_flatMap hn
  simp only [defNames, List.mem_flatMap]
  exact ⟨it, hit, hn⟩

/-- When every `del` is one the code sees, the members are live definitions. -/
theorem members_sub_liveDefs {v : Variant} {items : List Item} (hdel : delsSeen v items = true) :
    ∀ n ∈ members v items, n ∈ liveDefs items := by
  intro n hn
  obtain ⟨pre, it, post, rfl, hf, hp⟩ := mem_live_iff.mp hn
  refine mem_live_iff.mpr ⟨pre, it, post, rfl, memberFromNode_sub_defBinds v it n hf, ?_⟩
  intro j hj hc
  exact hp j hj (delAll_sub_delSeen hdel (by simp [hj]) n hc)

theorem liveDefs_sub_bound (items : List Item) : ∀ n ∈ liveDefs items, n ∈ bound items := by
  intro n hn
  obtain ⟨pre, it, post, rfl, hf, hp⟩ := mem_live_iff.mp hn
  exact mem_live_iff.mpr ⟨pre, it, post, rfl, defBinds_sub_itemBinds it n hf, hp⟩

/-- With D8 fixed, or on a statement of none of the D8 forms, `_member_from_node` finds
    every name the statement binds as a def / class / assignment. -/
theorem defBinds_sub_memberFromNode (v : Variant) (it : Item)
    (h : v.d8 = true ∨ noD8Form it = true) :
    ∀ n ∈ defBinds it, n ∈ memberFromNode v it := by
  intro n hn
  cases it with
  | assign ts val =>
    simp only [defBinds, itemBinds, List.mem_flatMap] at hn
    obtain ⟨t, ht, hn⟩ := hn
    simp only [memberFromNode, List.mem_flatMap]
    refine ⟨t, ht, ?_⟩
    cases t with
    | name m => simpa [targetMembers, targetBinds] using hn
    | pattern b l =>
      simp only [targetBinds] at hn
      rcases h with h | h
      · simp [targetMembers, h, hn]
      · simp only [noD8Form, List.all_eq_true] at h
        have := h _ ht
        simp only [List.isEmpty_iff] at this
        subst this
        simp at hn
    | other l => simp [targetBinds] at hn
  | annAssign t hv val =>
    simp only [defBinds, itemBinds] at hn
    split at hn
    · rename_i hhv
      rcases h with h | h
      · simp only [memberFromNode, h, hhv, Bool.and_self, ↓reduceIte]
        cases t with
        | name m => simpa [targetMembers, targetBinds] using hn
        | pattern b l => simpa [targetMembers, targetBinds, h] using hn
        | other l => simp [targetBinds] at hn
      · simp only [noD8Form, hhv, Bool.not_true, Bool.false_or, List.isEmpty_iff] at h
        rw [h] at hn
        simp at hn
    · simp at hn
  | augAssign t val => simp [defBinds, itemBinds] at hn
  | classDef m => simpa [memberFromNode, defBinds, itemBinds] using hn
  | funcDef m => simpa [memberFromNode, defBinds, itemBinds] using hn
  | asyncFuncDef m =>
    rcases h with h | h
    · simpa [memberFromNode, defBinds, itemBinds, h] using hn
    · simp [noD8Form] at h
  | importFrom l m a => simp [defBinds] at hn
  | import_ a => simp [defBinds] at hn
  | del a b => simp [defBinds, itemBinds] at hn
  | other => simp [defBinds, itemBinds] at hn

/-! ### the `__all__` scan -/

theorem allScan_append (v : Variant) (xs ys : List Item) :
    allScan v (xs ++ ys) = ys.foldl (allStep v) (allScan v xs) := by
  simp [allScan, List.foldl_append]

theorem allScan_snoc (v : Variant) (xs : List Item) (it : Item) :
    allScan v (xs ++ [it]) = allStep v (allScan v xs) it := by
  simp [allScan_append]

/-- An item that `allAssignVal` recognises has `__all__` among its members. -/
theorem allAssignVal_member {v : Variant} {it : Item} {val : Val} (h : allAssignVal v it = some val) :
    allName ∈ memberFromNode v it := by
  cases it with
  | assign ts val' =>
    simp only [allAssignVal] at h
    split at h
    · rename_i hany
      simp only [List.any_eq_true] at hany
      obtain ⟨t, ht, htt⟩ := hany
      simp only [memberFromNode, List.mem_flatMap]
      refine ⟨t, ht, ?_⟩
      cases t with
      | name m => simp [isAllTarget] at htt; simp [targetMembers, htt]
      | pattern b l => simp [isAllTarget] at htt
      | other l => simp [isAllTarget] at htt
    · simp at h
  | annAssign t hv val' =>
    simp only [allAssignVal] at h
    split at h
    · rename_i hc
      simp only [Bool.and_eq_true] at hc
      obtain ⟨⟨h8, hhv⟩, htt⟩ := hc
      simp only [memberFromNode, h8, hhv, Bool.and_self, ↓reduceIte]
      cases t with
      | name m => simp [isAllTarget] at htt; simp [targetMembers, htt]
      | pattern b l => simp [isAllTarget] at htt
      | other l => simp [isAllTarget] at htt
    · simp at h
  | _ => simp [allAssignVal] at h

/-! ### ignoreShadowed -/

theorem ignoreShadowed_sublist (l : List Imp) : (ignoreShadowed l).Sublist l := by
  induction l with
  | nil => exact List.Sublist.slnil
  | cons i rest ih =>
    simp only [ignoreShadowed]
    split
    · exact ih.cons_cons i
    · exact ih.cons i

theorem mem_ignoreShadowed_of_star {l : List Imp} {i : Imp} (hi : i ∈ l) (hs : isStar i = true) :
    i ∈ ignoreShadowed l := by
  induction l with
  | nil => cases hi
  | cons j rest ih =>
    simp only [ignoreShadowed]
    rcases List.mem_cons.mp hi with rfl | hr
    · simp [hs]
    · split
      · exact List.mem_cons_of_mem _ (ih hr)
      · exact ih hr

theorem shadowedBy_of_sublist {i : Imp} {l l' : List Imp} (h : l'.Sublist l)
    (hs : shadowedBy i l' = true) : shadowedBy i l = true := by
  simp only [shadowedBy, List.any_eq_true] at hs ⊢
  obtain ⟨j, hj, hp⟩ := hs
  exact ⟨j, h.subset hj, hp⟩

/-! ## Specification vocabulary (independent of the fold in `exports`) -/

/-- A `from` statement reads the module's own package: `from <self or a descendant> import …`
    (absolute), or `from .[sub] import …` inside an `__init__.py`. -/
def OwnModule (env : Env) (level : Nat) (module : Option ModName) (fm : ModName) : Prop :=
  (level = 0 ∧ module = some fm ∧ env.self <+: fm) ∨
  (level = 1 ∧ env.isInit = true ∧ fm = env.self ++ module.getD [])

/-- `n` is re-exported from the module's own package by a top-level `from` statement, and the
    thing imported is not itself a module (`probe`: the unfixed code tests the alias, D31); with
    CD-D repaired, moreover, no `del` after that statement names `n` (`delLater`; it is `[]` on
    the tree without that repair, where the clause is vacuous). -/
def OwnReexport (v : Variant) (env : Env) (items : List Item) (n : Str) : Prop :=
  ∃ pre post lvl mod als fm a, items = pre ++ Item.importFrom lvl mod als :: post ∧
    OwnModule env lvl mod fm ∧
    a ∈ als ∧ a.name ≠ star ∧ env.exists_ (fm ++ [probe v a]) = false ∧ n = a.bound ∧
    n ∉ delLater v post

/-- The value of `__all__` is statically a literal: the last plain (or, with D8 fixed, annotated)
    assignment to `__all__` has a literal value `es`, later `__all__ += <literal>` extend it,
    and no other later statement writes `__all__`.  Statements *before* that assignment are
    unconstrained. -/
inductive LitAll (v : Variant) : List Item → List Entry → Prop where
  | assign {pre : List Item} {it : Item} {es : List Entry} :
      allAssignVal v it = some (.lit es) → LitAll v (pre ++ [it]) es
  | aug {items : List Item} {es es' : List Entry} {t : Target} :
      LitAll v items es → isAllTarget t = true →
      LitAll v (items ++ [.augAssign t (.lit es')]) (es ++ es')
  | skip {items : List Item} {es : List Entry} {it : Item} :
      LitAll v items es → allAssignVal v it = none →
      (∀ t val, it = .augAssign t val → isAllTarget t = false) →
      allName ∉ delSeen v it →
      LitAll v (items ++ [it]) es

theorem fromMod_some_iff {env : Env} {lvl : Nat} {mod : Option ModName} {fm : ModName} :
    fromMod env lvl mod = .ok (some fm) ↔ OwnModule env lvl mod fm := by
  unfold fromMod OwnModule
  by_cases h0 : lvl = 0
  · subst h0
    cases mod with
    | none => simp
    | some m =>
      simp only [↓reduceIte, Option.some.injEq, true_and, Nat.zero_ne_one, false_and, or_false]
      by_cases hs : startsWith m env.self = true
      · simp only [hs, ↓reduceIte, Except.ok.injEq, Option.some.injEq]
        constructor
        · rintro rfl; exact ⟨rfl, startsWith_iff.mp hs⟩
        · rintro ⟨rfl, _⟩; rfl
      · simp only [hs, ↓reduceIte, Except.ok.injEq, reduceCtorEq, false_iff]
        rintro ⟨rfl, hp⟩
        exact hs (startsWith_iff.mpr hp)
  · simp only [h0, ↓reduceIte, false_and, false_or]
    by_cases h1 : lvl = 1
    · subst h1
      cases hi : env.isInit <;> simp [eq_comm]
    · simp [h1]

theorem reexportsOf_mem {v : Variant} {env : Env} {it : Item} {xs : List Str} {n : Str}
    (h : reexportsOf v env it = .ok xs) :
    n ∈ xs ↔ ∃ lvl mod als fm a, it = .importFrom lvl mod als ∧ OwnModule env lvl mod fm ∧
      a ∈ als ∧ a.name ≠ star ∧ env.exists_ (fm ++ [probe v a]) = false ∧ n = a.bound := by
  cases it with
  | importFrom lvl mod als =>
    simp only [reexportsOf] at h
    cases hf : fromMod env lvl mod with
    | error e => rw [hf] at h; simp at h
    | ok r =>
      rw [hf] at h
      cases r with
      | none =>
        simp only [Except.ok.injEq] at h; subst h
        simp only [List.not_mem_nil, Item.importFrom.injEq, false_iff, not_exists, not_and]
        rintro lvl' mod' als' fm a ⟨rfl, rfl, rfl⟩ hown
        rw [← fromMod_some_iff, hf] at hown
        cases hown
      | some fm =>
        simp only [Except.ok.injEq] at h; subst h
        rw [mem_aliasMembers]
        constructor
        · rintro ⟨a, ha, h1, h2, h3⟩
          exact ⟨lvl, mod, als, fm, a, rfl, fromMod_some_iff.mp hf, ha, h1, h2, h3⟩
        · rintro ⟨lvl', mod', als', fm', a, heq, hown, ha, h1, h2, h3⟩
          simp only [Item.importFrom.injEq] at heq
          obtain ⟨rfl, rfl, rfl⟩ := heq
          rw [← fromMod_some_iff, hf] at hown
          simp only [Except.ok.injEq, Option.some.injEq] at hown
          subst hown
          exact ⟨a, ha, h1, h2, h3⟩
  | _ =>
    simp only [reexportsOf, Except.ok.injEq] at h
    subst h
    simp

theorem reexports_mem {v : Variant} {env : Env} {items : List Item} {re : List Str}
    (h : reexports v env items = .ok re) (n : Str) : n ∈ re ↔ OwnReexport v env items n := by
  rw [reexports_ok_mem h]
  constructor
  · rintro ⟨pre, it, post, heq, xs, hxs, hn, hd⟩
    obtain ⟨lvl, mod, als, fm, a, rfl, hown, ha, h1, h2, h3⟩ := (reexportsOf_mem hxs).mp hn
    exact ⟨pre, post, lvl, mod, als, fm, a, heq, hown, ha, h1, h2, h3, hd⟩
  · rintro ⟨pre, post, lvl, mod, als, fm, a, heq, hown, ha, h1, h2, h3, hd⟩
    have hf := fromMod_some_iff.mpr hown
    refine ⟨pre, _, post, heq, aliasMembers v env fm als, ?_, ?_, hd⟩
    · simp [reexportsOf, hf]
    · exact mem_aliasMembers.mpr ⟨a, ha, h1, h2, h3⟩

/-- the statement of an own re-export is one of the module's statements -/
theorem OwnReexport.stmt {v : Variant} {env : Env} {items : List Item} {n : Str}
    (h : OwnReexport v env items n) :
    ∃ lvl mod als fm a, Item.importFrom lvl mod als ∈ items ∧ OwnModule env lvl mod fm ∧
      a ∈ als ∧ a.name ≠ star ∧ env.exists_ (fm ++ [probe v a]) = false ∧ n = a.bound := by
  obtain ⟨pre, post, lvl, mod, als, fm, a, rfl, hown, ha, h1, h2, h3, _⟩ := h
  exact ⟨lvl, mod, als, fm, a, by simp, hown, ha, h1, h2, h3⟩

/-- without the CD-D repair every own-package `from` statement of the module re-exports -/
theorem OwnReexport.of_stmt {v : Variant} {env : Env} {items : List Item} {n : Str}
    (hv : v.cdd = false) {lvl : Nat} {mod : Option ModName} {als : List Alias} {fm : ModName} {a : Alias}
    (hit : Item.importFrom lvl mod als ∈ items) (hown : OwnModule env lvl mod fm) (ha : a ∈ als)
    (h1 : a.name ≠ star) (h2 : env.exists_ (fm ++ [probe v a]) = false) (h3 : n = a.bound) :
    OwnReexport v env items n := by
  obtain ⟨pre, post, rfl⟩ := List.append_of_mem hit
  exact ⟨pre, post, lvl, mod, als, fm, a, rfl, hown, ha, h1, h2, h3, by simp [delLater, hv]⟩

theorem mem_members_snoc {v : Variant} {items : List Item} {it : Item} {n : Str}
    (h : n ∈ members v items) (hd : n ∉ delSeen v it) : n ∈ members v (items ++ [it]) := by
  obtain ⟨pre, it0, post, rfl, hf, hp⟩ := mem_live_iff.mp h
  refine mem_live_iff.mpr ⟨pre, it0, post ++ [it], by simp, hf, ?_⟩
  intro j hj
  rcases List.mem_append.mp hj with h1 | h1
  · exact hp j h1
  · simp only [List.mem_singleton] at h1; subst h1; exact hd

theorem litAll_scan {v : Variant} {items : List Item} {es : List Entry} (h : LitAll v items es) :
    allScan v items = (true, es) ∧ allName ∈ members v items := by
  induction h with
  | @assign pre it es hv =>
    constructor
    · rw [allScan_snoc]; simp [allStep, hv]
    · exact mem_live_iff.mpr ⟨pre, it, [], rfl, allAssignVal_member hv, by simp⟩
  | @aug items es es' t _ ht ih =>
    constructor
    · rw [allScan_snoc, ih.1]; simp [allStep, allAssignVal, ht]
    · exact mem_members_snoc ih.2 (by simp [delSeen])
  | @skip items es it _ hv hna hnd ih =>
    constructor
    · rw [allScan_snoc, ih.1]
      simp only [allStep, hv]
      cases it with
      | augAssign t val => simp [hna t val rfl]
      | _ => rfl
    · exact mem_members_snoc ih.2 hnd

end Pfb.C19
