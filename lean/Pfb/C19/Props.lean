/-
  Pfb.C19.Props — property theorems for C19 (export lists and star-import replacements
  are exact and importable).  Property theorems only; helper lemmas live in Pfb.C19.Lemmas.

  Everything here is about the model `Pfb.C19.exports` / `Pfb.C19.replaceStar`; the model is
  tied to `ModuleHandle.exports` / `replace_star_imports` by harness/c19.py (differential run).
  "Importable" and "bound to the same object" are CPython's and are decided by the direct
  oracle on the real code; the theorems below state their model-level counterparts.

  All theorems quantify over every `Variant` (the tree as it is, and the tree with
  fixes/C19-D8.diff / fixes/C19-D31.diff) unless a hypothesis says otherwise.
-/
import Pfb.C19.Lemmas
namespace Pfb.C19
open Pfb

/-! The specification vocabulary used below — `OwnModule`, `OwnReexport`, the inductive `LitAll` — is
    defined in Pfb.C19.Lemmas (section "Specification vocabulary") together with the lemmas that tie it to
    the folds (`fromMod_some_iff`, `reexports_mem`, `litAll_scan`). -/

/-! ## C19_public — no exported name is private or dotted -/

/-- **C19_public.**  Whatever the module contains, whatever exists on disk, and for a literal,
    computed or absent `__all__` alike: no exported name starts with `_` and none contains `.`. -/
theorem C19_public (v : Variant) (env : Env) (items : List Item) (xs : List Str)
    (h : exports v env items = .ok xs) :
    ∀ n ∈ xs, n.head? ≠ some '_' ∧ '.' ∉ n := by
  intro n hn
  have key : isPrivate n = false ∧ isDotted n = false := by
    unfold exports at h
    simp only at h
    split at h
    · split at h
      · cases h
      · simp only [Except.ok.injEq] at h; subst h
        exact (mem_publicNames.mp hn).2
    · split at h
      · cases h
      · simp only [Except.ok.injEq] at h; subst h
        exact (mem_publicNames.mp hn).2
  obtain ⟨hp, hd⟩ := key
  constructor
  · intro hc; simp [isPrivate, hc] at hp
  · intro hc; simp [isDotted, hc] at hd

example : exports Variant.current ⟨["m".toList], false, fun _ => false⟩
    [.funcDef "f".toList, .assign [.name "_g".toList] .nonlit, .classDef "K".toList]
    = .ok ["f".toList, "K".toList] := by decide

/-! ## C19_all — a literal `__all__` decides the exports alone -/

/-- **C19_all.**  If the value of `__all__` is statically a literal (`LitAll`: last assignment
    literal, only literal `+=` after it) with string entries `ss`, the exports are exactly the
    public entries — independently of every def, class, assignment, import, re-export, of what
    exists on disk and of the variant. -/
theorem C19_all (v : Variant) (env : Env) (items : List Item) (ss : List Str)
    (h : LitAll v items (ss.map Entry.str)) :
    exports v env items = .ok (publicNames ss) := by
  obtain ⟨hscan, hmem⟩ := litAll_scan h
  unfold exports
  simp only [allState, hmem, ↓reduceIte, hscan]
  rw [entryStrs_ok_iff.mpr rfl]

/-- … and a non-string entry makes `exports` raise (the star import is then kept, `C19_replace_kept`). -/
theorem C19_all_nonstr (v : Variant) (env : Env) (items : List Item) (es : List Entry)
    (h : LitAll v items es) (hns : Entry.nonstr ∈ es) :
    exports v env items = .error .attributeError := by
  obtain ⟨hscan, hmem⟩ := litAll_scan h
  unfold exports
  simp only [allState, hmem, ↓reduceIte, hscan]
  obtain ⟨e, he⟩ := entryStrs_error_iff.mpr hns
  rw [he, entryStrs_error_kind he]

/-- The hypothesis of `C19_all` is met by a module that defines things before and after,
    assigns `__all__` twice and extends it. -/
example : LitAll Variant.current
    [.funcDef "f".toList, .assign [.name allName] .nonlit,
     .assign [.name allName, .name "alias".toList] (.lit [.str "f".toList, .str "_p".toList]),
     .importFrom 0 (some ["os".toList]) [⟨"sep".toList, none⟩],
     .augAssign (.name allName) (.lit [.str "sep".toList])]
    ([Entry.str "f".toList, .str "_p".toList] ++ [.str "sep".toList]) :=
  LitAll.aug (items := [_, _, _, _])
    (LitAll.skip (items := [_, _, _])
      (LitAll.assign (pre := [_, _]) (by decide)) (by decide) (by intro t val h; cases h) (by decide))
    (by decide)

example : exports Variant.current ⟨["m".toList], false, fun _ => false⟩
    [.funcDef "f".toList, .assign [.name allName] .nonlit,
     .assign [.name allName, .name "alias".toList] (.lit [.str "f".toList, .str "_p".toList]),
     .importFrom 0 (some ["os".toList]) [⟨"sep".toList, none⟩],
     .augAssign (.name allName) (.lit [.str "sep".toList])]
    = .ok ["f".toList, "sep".toList] := by decide

/-! ## C19_own — without a literal `__all__` nothing foreign is exported -/

/-- **C19_own.**  When `__all__` is absent or not a literal, every exported name is bound at top
    level by a def / async def / class / assignment, or is re-exported from the module's own
    package (`OwnReexport`). -/
theorem C19_own (v : Variant) (env : Env) (items : List Item) (xs : List Str)
    (hg : (allState v items).1 = false) (h : exports v env items = .ok xs) :
    ∀ n ∈ xs, n ∈ defNames items ∨ OwnReexport v env items n := by
  intro n hn
  unfold exports at h
  simp only [hg, Bool.false_eq_true, ↓reduceIte] at h
  cases hre : reexports v env items with
  | error e => rw [hre] at h; cases h
  | ok re =>
    rw [hre] at h
    simp only [Except.ok.injEq] at h; subst h
    have := (mem_publicNames.mp hn).1
    rcases List.mem_append.mp this with hm | hr
    · exact Or.inl (members_sub_defNames v items n hm)
    · exact Or.inr ((reexports_mem hre n).mp hr)

/-- **C19_never_foreign.**  A name that the module binds *only* through imports that are not
    from its own package (plain `import`, `from elsewhere import`, relative imports of a
    non-package, level ≥ 2) is never exported. -/
theorem C19_never_foreign (v : Variant) (env : Env) (items : List Item) (xs : List Str) (n : Str)
    (hg : (allState v items).1 = false) (h : exports v env items = .ok xs)
    (hdef : n ∉ defNames items)
    (hforeign : ∀ lvl mod als a, Item.importFrom lvl mod als ∈ items → a ∈ als → a.bound = n →
      ∀ fm, ¬ OwnModule env lvl mod fm) :
    n ∉ xs := by
  intro hn
  rcases C19_own v env items xs hg h n hn with hd | hre
  · exact hdef hd
  · obtain ⟨lvl, mod, als, fm, a, hit, hown, ha, _, _, hb⟩ := hre.stmt
    exact hforeign lvl mod als a hit ha hb.symm fm hown

/-! ## C19_exact — exactness (with D8 fixed, or in the absence of the D8 forms) -/

/-- **C19_exact_partial.**  Target (full strength, no hypotheses `hd8`, `hdel`): without a literal
    `__all__` the exports are *exactly* the public names among the top-level defs / classes /
    assigned names that no later `del` removed (`liveDefs`) and the own-package re-exports.
    Proved under `hd8` (D8 is fixed, or the module has no `async def`, no annotated assignment
    with a value and no tuple/list target; refuted otherwise by `Witness.d8_*`) and `hdel`
    (every `del` is one the code sees: D53 fixed and no parenthesised `del (a, b)`, or no `del`
    at all; refuted otherwise by `Witness.d53_current`, `Witness.del_nested_fixed`). -/
theorem C19_exact_partial (v : Variant) (env : Env) (items : List Item) (xs : List Str)
    (hd8 : v.d8 = true ∨ noD8Forms items = true) (hdel : delsSeen v items = true)
    (hg : (allState v items).1 = false) (h : exports v env items = .ok xs) (n : Str) :
    n ∈ xs ↔ (n.head? ≠ some '_' ∧ '.' ∉ n ∧ (n ∈ liveDefs items ∨ OwnReexport v env items n)) := by
  have hpub := C19_public v env items xs h n
  unfold exports at h
  simp only [hg, Bool.false_eq_true, ↓reduceIte] at h
  cases hre : reexports v env items with
  | error e => rw [hre] at h; cases h
  | ok re =>
    rw [hre] at h
    simp only [Except.ok.injEq] at h; subst h
    constructor
    · intro hn
      obtain ⟨h1, h2⟩ := hpub hn
      refine ⟨h1, h2, ?_⟩
      rcases List.mem_append.mp (mem_publicNames.mp hn).1 with hm | hr
      · exact Or.inl (members_sub_liveDefs hdel n hm)
      · exact Or.inr ((reexports_mem hre n).mp hr)
    · rintro ⟨hp, hd, hsrc⟩
      rw [mem_publicNames]
      refine ⟨?_, ?_, ?_⟩
      · rcases hsrc with hdn | hown
        · apply List.mem_append_left
          obtain ⟨pre, it, post, rfl, hf, hpost⟩ := mem_live_iff.mp hdn
          refine mem_live_iff.mpr ⟨pre, it, post, rfl, defBinds_sub_memberFromNode v it ?_ n hf, ?_⟩
          · rcases hd8 with h8 | h8
            · exact Or.inl h8
            · exact Or.inr (List.all_eq_true.mp h8 it (by simp))
          · intro j hj hc
            exact hpost j hj (delSeen_sub_delAll v j n hc)
        · exact List.mem_append_right _ ((reexports_mem hre n).mpr hown)
      · cases hh : n.head? with
        | none => simp [isPrivate, hh]
        | some c =>
          simp only [isPrivate, hh, beq_eq_false_iff_ne, ne_eq, Option.some.injEq]
          intro hc; exact hp (by rw [hh, hc])
      · simpa [isDotted] using hd

/-- **C19_exact_fixed.**  With the fixes applied (D8, D31, D53) the exactness clause holds for every
    module without a literal `__all__` whose `del` statements name their targets plainly. -/
theorem C19_exact_fixed (env : Env) (items : List Item) (xs : List Str)
    (hdel : delsSeen Variant.fixed items = true)
    (hg : (allState Variant.fixed items).1 = false) (h : exports Variant.fixed env items = .ok xs)
    (n : Str) :
    n ∈ xs ↔ (n.head? ≠ some '_' ∧ '.' ∉ n ∧
      (n ∈ liveDefs items ∨ OwnReexport Variant.fixed env items n)) :=
  C19_exact_partial Variant.fixed env items xs (Or.inl rfl) hdel hg h n

/-- **C19_deleted_not_exported.**  (D53 fixed.)  A name whose last top-level event is `del` — no
    later statement makes it a member again — and that is not an own-package re-export is not
    exported, whatever came before the `del`. -/
theorem C19_deleted_not_exported (v : Variant) (env : Env) (pre post : List Item)
    (ns nested : List Str) (xs : List Str) (n : Str)
    (h53 : v.d53 = true) (hn : n ∈ ns)
    (hpost : ∀ it ∈ post, n ∉ memberFromNode v it)
    (hg : (allState v (pre ++ .del ns nested :: post)).1 = false)
    (hre : ¬ OwnReexport v env (pre ++ .del ns nested :: post) n)
    (h : exports v env (pre ++ .del ns nested :: post) = .ok xs) :
    n ∉ xs := by
  intro hx
  unfold exports at h
  simp only [hg, Bool.false_eq_true, ↓reduceIte] at h
  cases hr : reexports v env (pre ++ .del ns nested :: post) with
  | error e => rw [hr] at h; cases h
  | ok re =>
    rw [hr] at h
    simp only [Except.ok.injEq] at h; subst h
    rcases List.mem_append.mp (mem_publicNames.mp hx).1 with hm | hr'
    · obtain ⟨pre', it, post', heq, hf, hp⟩ := mem_live_iff.mp hm
      -- where does `it` sit relative to the `del`?
      have hcases := List.append_eq_append_iff.mp heq
      rcases hcases with ⟨as, h1, h2⟩ | ⟨bs, h1, h2⟩
      · -- pre' = pre ++ as, del :: post = as ++ it :: post'
        cases as with
        | nil =>
          simp only [List.nil_append, List.cons.injEq] at h2
          obtain ⟨rfl, _⟩ := h2
          simp [memberFromNode] at hf
        | cons a as' =>
          simp only [List.cons_append, List.cons.injEq] at h2
          obtain ⟨_, rfl⟩ := h2
          exact hpost it (by simp) hf
      · -- pre = pre' ++ bs, it :: post' = bs ++ del :: post
        cases bs with
        | nil =>
          simp only [List.nil_append, List.cons.injEq] at h2
          obtain ⟨rfl, _⟩ := h2
          simp [memberFromNode] at hf
        | cons b bs' =>
          simp only [List.cons_append, List.cons.injEq] at h2
          obtain ⟨_, rfl⟩ := h2
          exact hp (.del ns nested) (by simp) (by
            simp only [delSeen, h53, if_true]
            split <;> simp [hn])
    · exact hre ((reexports_mem hr n).mp hr')

/-- With CD-E repaired every `del` is seen in full by the code. -/
theorem delsSeen_of_cde (v : Variant) (h53 : v.d53 = true) (hcde : v.cde = true) (items : List Item) :
    delsSeen v items = true := by
  simp only [delsSeen, List.all_eq_true]
  intro it _ n hn
  cases it with
  | del ns nested => simpa [delSeen, h53, hcde, delAll] using hn
  | _ => simp [delAll] at hn

/-- **C19_exact_fixed5.**  With CD-E and CD-D repaired as well the exactness clause needs no
    hypothesis about `del`: without a literal `__all__` the exports are exactly the public names
    among the top-level definitions that no later `del` (of any target shape) removed and the
    own-package re-exports that no later `del` names. -/
theorem C19_exact_fixed5 (env : Env) (items : List Item) (xs : List Str)
    (hg : (allState Variant.fixed5 items).1 = false) (h : exports Variant.fixed5 env items = .ok xs)
    (n : Str) :
    n ∈ xs ↔ (n.head? ≠ some '_' ∧ '.' ∉ n ∧
      (n ∈ liveDefs items ∨ OwnReexport Variant.fixed5 env items n)) :=
  C19_exact_partial Variant.fixed5 env items xs (Or.inl rfl)
    (delsSeen_of_cde Variant.fixed5 rfl rfl items) hg h n

/-- **C19_deleted_reexport_not_exported.**  (CD-D repaired.)  A name whose last top-level event is
    `del` — no later statement makes it a member or imports it from the own package again — is
    not exported, even when it was an own-package re-export before the `del`. -/
theorem C19_deleted_reexport_not_exported (v : Variant) (env : Env) (pre post : List Item)
    (ns nested : List Str) (xs : List Str) (n : Str)
    (h53 : v.d53 = true) (hcdd : v.cdd = true) (hn : n ∈ ns)
    (hpost : ∀ it ∈ post, n ∉ memberFromNode v it)
    (hpostre : ∀ lvl mod als, Item.importFrom lvl mod als ∈ post → ∀ a ∈ als, a.bound ≠ n)
    (hg : (allState v (pre ++ .del ns nested :: post)).1 = false)
    (h : exports v env (pre ++ .del ns nested :: post) = .ok xs) :
    n ∉ xs := by
  apply C19_deleted_not_exported v env pre post ns nested xs n h53 hn hpost hg ?_ h
  rintro ⟨pre', post', lvl, mod, als, fm, a, heq, _, ha, _, _, hb, hd⟩
  rcases List.append_eq_append_iff.mp heq with ⟨as, h1, h2⟩ | ⟨bs, h1, h2⟩
  · cases as with
    | nil => simp at h2
    | cons x as' =>
      simp only [List.cons_append, List.cons.injEq] at h2
      obtain ⟨_, rfl⟩ := h2
      exact hpostre lvl mod als (by simp) a ha hb.symm
  · cases bs with
    | nil => simp at h2
    | cons x bs' =>
      simp only [List.cons_append, List.cons.injEq] at h2
      obtain ⟨_, rfl⟩ := h2
      apply hd
      simp only [delLater, hcdd, if_true, List.mem_flatMap]
      exact ⟨.del ns nested, by simp, by
        simp only [delSeen, h53, if_true]
        split <;> simp [hn]⟩

/-- `exports` never fails when there is no literal `__all__` (the only error branch left is
    `DottedIdentifier(None)`, which `ast.parse` output cannot reach). -/
theorem C19_total (v : Variant) (env : Env) (items : List Item)
    (hg : (allState v items).1 = false) (hwf : ∀ als, Item.importFrom 0 none als ∉ items) :
    ∃ xs, exports v env items = .ok xs := by
  obtain ⟨re, hre⟩ := reexports_total (v := v) (env := env) hwf
  exact ⟨publicNames (members v items ++ re), by simp [exports, hg, hre]⟩

example : noD8Forms [.funcDef "f".toList, .assign [.name "x".toList, .other ["os".toList]] .nonlit,
    .annAssign (.name "y".toList) false .nonlit, .importFrom 1 (some ["sub".toList]) [⟨"z".toList, none⟩]]
    = true := by decide

/-! ## C19_store_only — only Store-context names of assignment targets matter -/

/-- forget the Load-context names (`os`, `k` in `os.environ[k] = …`, `dec` in `dec.FLAG, a = …`) -/
def Target.eraseLoads : Target → Target
  | .name n => .name n
  | .pattern b _ => .pattern b []
  | .other _ => .other []

def Item.eraseLoads : Item → Item
  | .assign ts v => .assign (ts.map Target.eraseLoads) v
  | .annAssign t hv v => .annAssign t.eraseLoads hv v
  | .augAssign t v => .augAssign t.eraseLoads v
  | it => it

theorem targetMembers_eraseLoads (v : Variant) (t : Target) :
    targetMembers v t.eraseLoads = targetMembers v t := by
  cases t <;> rfl

theorem isAllTarget_eraseLoads (t : Target) : isAllTarget t.eraseLoads = isAllTarget t := by
  cases t <;> rfl

theorem memberFromNode_eraseLoads (v : Variant) (it : Item) :
    memberFromNode v it.eraseLoads = memberFromNode v it := by
  cases it with
  | assign ts val =>
    simp only [Item.eraseLoads, memberFromNode, List.flatMap_map]
    congr 1; funext t; exact targetMembers_eraseLoads v t
  | annAssign t hv val => simp [Item.eraseLoads, memberFromNode, targetMembers_eraseLoads]
  | _ => rfl

theorem allStep_eraseLoads (v : Variant) (st : Bool × List Entry) (it : Item) :
    allStep v st it.eraseLoads = allStep v st it := by
  cases it with
  | assign ts val =>
    have : (ts.map Target.eraseLoads).any isAllTarget = ts.any isAllTarget := by
      simp [List.any_map, Function.comp_def, isAllTarget_eraseLoads]
    simp [Item.eraseLoads, allStep, allAssignVal, this]
  | annAssign t hv val => simp [Item.eraseLoads, allStep, allAssignVal, isAllTarget_eraseLoads]
  | augAssign t val => simp [Item.eraseLoads, allStep, allAssignVal, isAllTarget_eraseLoads]
  | _ => rfl

theorem delLater_eraseLoads (v : Variant) (items : List Item) :
    delLater v (items.map Item.eraseLoads) = delLater v items := by
  have hd : ∀ it : Item, delSeen v it.eraseLoads = delSeen v it := by intro it; cases it <;> rfl
  unfold delLater
  split
  · induction items with
    | nil => rfl
    | cons x xs ih => simp only [List.map_cons, List.flatMap_cons, hd, ih]
  · rfl

theorem reexports_eraseLoads (v : Variant) (env : Env) (items : List Item) :
    reexports v env (items.map Item.eraseLoads) = reexports v env items := by
  induction items with
  | nil => rfl
  | cons it rest ih =>
    have h : reexportsOf v env it.eraseLoads = reexportsOf v env it := by cases it <;> rfl
    simp only [List.map_cons, reexports, h, ih, delLater_eraseLoads]

/-- **C19_store_only.**  The exports do not depend on which names occur in Load context inside
    assignment targets (bases / indices of attribute and subscript targets, alone or as elements
    of a tuple target): a module that writes `os.environ[k] = v` or `decoder.FLAG, a = …` exports
    exactly what it would export without mentioning `os`, `k`, `decoder` there. -/
theorem C19_store_only (v : Variant) (env : Env) (items : List Item) :
    exports v env (items.map Item.eraseLoads) = exports v env items := by
  have hm : members v (items.map Item.eraseLoads) = members v items := by
    have hd : ∀ it : Item, delSeen v it.eraseLoads = delSeen v it := by intro it; cases it <;> rfl
    simp only [members, live, List.foldl_map]
    congr 1; funext acc it; rw [memberFromNode_eraseLoads, hd]
  have hs : allScan v (items.map Item.eraseLoads) = allScan v items := by
    simp only [allScan, List.foldl_map]
    congr 1; funext st it; exact allStep_eraseLoads v st it
  unfold exports allState
  rw [hm, hs, reexports_eraseLoads]

/-! ## C19_importable — every export is bound by straight-line execution of the items -/

/-- **C19_importable_partial.**  Every exported name is bound after straight-line execution of the
    modelled items in order (`bound`: assignments incl. tuple/annotated targets, defs, classes,
    imports bind; `del` unbinds).
    Hypotheses: `hall` — when a literal `__all__` decides the exports, its string entries are names
    the module binds (a module listing unbound names in `__all__` is not star-importable at all);
    `hdel` — every `del` is one the code sees (D53 fixed and no parenthesised `del (a, b)`; refuted
    otherwise by `Witness.d53_current` / `del_nested_fixed`); `hre` — no `del` names an own-package
    re-export (the code adds those after the pass; refuted otherwise by `Witness.del_reexport_fixed`).
    Not covered: bindings/unbindings inside compound statements (`Item.other`). -/
theorem C19_importable_partial (v : Variant) (env : Env) (items : List Item) (xs : List Str)
    (h : exports v env items = .ok xs)
    (hall : (allState v items).1 = true →
      ∀ s, Entry.str s ∈ (allState v items).2 → s ∈ bound items)
    (hdel : delsSeen v items = true)
    (hre : ∀ j ∈ items, ∀ m ∈ delAll j, ¬ OwnReexport v env items m) :
    ∀ n ∈ xs, n ∈ bound items := by
  intro n hn
  unfold exports at h
  simp only at h
  split at h
  · rename_i hgood
    cases hes : entryStrs (allState v items).2 with
    | error e => rw [hes] at h; cases h
    | ok ss =>
      rw [hes] at h
      simp only [Except.ok.injEq] at h; subst h
      have hmem := (mem_publicNames.mp hn).1
      apply hall hgood n
      rw [entryStrs_ok_iff.mp hes]
      exact List.mem_map.mpr ⟨n, hmem, rfl⟩
  · cases hr : reexports v env items with
    | error e => rw [hr] at h; cases h
    | ok re =>
      rw [hr] at h
      simp only [Except.ok.injEq] at h; subst h
      rcases List.mem_append.mp (mem_publicNames.mp hn).1 with hm | hr'
      · exact liveDefs_sub_bound items n (members_sub_liveDefs hdel n hm)
      · have hown := (reexports_mem hr n).mp hr'
        have hown' := hown
        obtain ⟨lvl, mod, als, fm, a, hit, _, ha, hne, _, hb⟩ := hown'.stmt
        refine mem_live_of_no_del hit ?_ (fun j hj hc => hre j hj n hc hown)
        simp only [itemBinds, List.mem_map, List.mem_filter, bne_iff_ne, ne_eq]
        exact ⟨a, ⟨ha, hne⟩, hb.symm⟩

/-! ## C19_replace — the star-replacement loop -/

/-- **C19_replace_kept.**  A star import whose module is relative, cannot be inspected
    (`exportsOf` fails) or exports nothing is still in the result — whatever else the block
    contains. -/
theorem C19_replace_kept (exportsOf : Str → Inspect) (imps : List Imp) (imp : Imp)
    (hin : imp ∈ imps) (hstar : imp.member = star) (has : imp.importAs = star)
    (hkeep : imp.module = none ∨ ∃ m, imp.module = some m ∧
      (isRelative m = true ∨ exportsOf m = .fail ∨ exportsOf m = .ok [])) :
    imp ∈ replaceStar exportsOf imps := by
  unfold replaceStar newImports
  apply mem_ignoreShadowed_of_star
  · rw [List.mem_flatMap]
    refine ⟨imp, hin, ?_⟩
    unfold replaceOne
    simp only [hstar, bne_self_eq_false, Bool.false_eq_true, ↓reduceIte]
    rcases hkeep with hnone | ⟨m, hm, hk⟩
    · simp [hnone]
    · simp only [hm]
      by_cases hr : isRelative m = true
      · simp [hr]
      · simp only [hr, Bool.false_eq_true, ↓reduceIte]
        rcases hk with hk | hk | hk
        · exact absurd hk hr
        · simp [hk]
        · simp [hk]
  · simp [isStar, has]

/-- **C19_replace_sound.**  Nothing is invented: every import of the result is an import of the
    block, or `from m import n` for a star import of `m` in the block whose (non-relative,
    inspectable) module exports `n`. -/
theorem C19_replace_sound (exportsOf : Str → Inspect) (imps : List Imp) (i : Imp)
    (h : i ∈ replaceStar exportsOf imps) :
    i ∈ imps ∨ ∃ s ∈ imps, ∃ m ns n, s.member = star ∧ s.module = some m ∧ isRelative m = false ∧
      exportsOf m = .ok ns ∧ n ∈ ns ∧ i = ⟨some m, n, n⟩ := by
  have h' := (ignoreShadowed_sublist _).subset h
  unfold newImports at h'
  rw [List.mem_flatMap] at h'
  obtain ⟨s, hs, hi⟩ := h'
  unfold replaceOne at hi
  split at hi
  · simp only [List.mem_singleton] at hi; subst hi; exact Or.inl hs
  · rename_i hmem
    simp only [bne_iff_ne, ne_eq, Decidable.not_not] at hmem
    split at hi
    · simp only [List.mem_singleton] at hi; subst hi; exact Or.inl hs
    · rename_i m hm
      split at hi
      · simp only [List.mem_singleton] at hi; subst hi; exact Or.inl hs
      · rename_i hrel
        split at hi
        · simp only [List.mem_singleton] at hi; subst hi; exact Or.inl hs
        · simp only [List.mem_singleton] at hi; subst hi; exact Or.inl hs
        · rename_i n ns hex
          rw [List.mem_map] at hi
          obtain ⟨x, hx, rfl⟩ := hi
          refine Or.inr ⟨s, hs, m, n :: ns, x, hmem, hm, ?_, hex, hx, rfl⟩
          simpa using hrel

/-- **C19_replace_no_star_left.**  A star import of an inspectable, non-relative module with a
    non-empty export list does not survive (hypothesis: `*` itself is never an export). -/
theorem C19_replace_no_star_left (exportsOf : Str → Inspect) (imps : List Imp) (s : Imp) (m : Str)
    (n : Str) (ns : List Str)
    (hstar : s.member = star) (hm : s.module = some m) (hrel : isRelative m = false)
    (hex : exportsOf m = .ok (n :: ns))
    (hnostar : ∀ m' ns', exportsOf m' = .ok ns' → star ∉ ns') :
    s ∉ replaceStar exportsOf imps := by
  intro h
  have h' := (ignoreShadowed_sublist _).subset h
  unfold newImports at h'
  rw [List.mem_flatMap] at h'
  obtain ⟨j, _, hi⟩ := h'
  unfold replaceOne at hi
  split at hi
  · rename_i hj
    simp only [List.mem_singleton] at hi; subst hi
    simp [hstar] at hj
  · split at hi
    · rename_i hjm
      simp only [List.mem_singleton] at hi; subst hi
      rw [hm] at hjm; cases hjm
    · rename_i m' hjm
      split at hi
      · rename_i hr
        simp only [List.mem_singleton] at hi; subst hi
        rw [hm] at hjm; cases hjm
        rw [hrel] at hr; cases hr
      · split at hi
        · rename_i hf
          simp only [List.mem_singleton] at hi; subst hi
          rw [hm] at hjm; cases hjm
          rw [hex] at hf; cases hf
        · rename_i hf
          simp only [List.mem_singleton] at hi; subst hi
          rw [hm] at hjm; cases hjm
          rw [hex] at hf; cases hf
        · rename_i n' ns' hex'
          rw [List.mem_map] at hi
          obtain ⟨x, hx, hsx⟩ := hi
          have : s.member = x := by rw [← hsx]
          rw [hstar] at this
          exact hnostar m' _ hex' (this ▸ hx)

/-- **C19_shadow_unique.**  After `ignore_shadowed` no two non-star imports bind the same
    `import_as`: the result binds every such name exactly once, so the order in which the block
    is printed cannot change what a non-star import binds. -/
theorem C19_shadow_unique (l : List Imp) :
    (ignoreShadowed l).Pairwise
      (fun i j => isStar i = true ∨ isStar j = true ∨ i.importAs ≠ j.importAs) := by
  induction l with
  | nil => exact List.Pairwise.nil
  | cons i rest ih =>
    simp only [ignoreShadowed]
    split
    · rename_i hc
      refine List.Pairwise.cons ?_ ih
      intro j hj
      have hj' := (ignoreShadowed_sublist rest).subset hj
      simp only [Bool.or_eq_true, Bool.not_eq_eq_eq_not, Bool.not_true] at hc
      rcases hc with hs | hns
      · exact Or.inl hs
      · by_cases hjs : isStar j = true
        · exact Or.inr (Or.inl hjs)
        · refine Or.inr (Or.inr ?_)
          intro heq
          have : shadowedBy i rest = true := by
            simp only [shadowedBy, List.any_eq_true, Bool.and_eq_true, Bool.not_eq_eq_eq_not,
              Bool.not_true, beq_iff_eq]
            exact ⟨j, hj', by simpa using hjs, heq.symm⟩
          rw [this] at hns; cases hns
    · exact ih

/-- **C19_shadow_last.**  The import that binds a name last in the block (sequential execution:
    the later binding wins) is the one that is kept. -/
theorem C19_shadow_last (pre post : List Imp) (i : Imp) (hlast : shadowedBy i post = false) :
    i ∈ ignoreShadowed (pre ++ i :: post) := by
  induction pre with
  | nil =>
    simp only [List.nil_append, ignoreShadowed, hlast, Bool.not_false, Bool.or_true, ↓reduceIte]
    exact List.mem_cons_self
  | cons j rest ih =>
    simp only [List.cons_append, ignoreShadowed]
    split
    · exact List.mem_cons_of_mem _ ih
    · exact ih

/-- **C19_shadow_bound.**  Every name bound by a non-star import of the expanded block is still
    bound by a non-star import of the result. -/
theorem C19_shadow_bound (l : List Imp) (i : Imp) (hi : i ∈ l) (hns : isStar i = false) :
    ∃ j ∈ ignoreShadowed l, isStar j = false ∧ j.importAs = i.importAs := by
  induction l generalizing i with
  | nil => cases hi
  | cons k rest ih =>
    rcases List.mem_cons.mp hi with rfl | hr
    · by_cases hsh : shadowedBy i rest = true
      · simp only [shadowedBy, List.any_eq_true, Bool.and_eq_true, Bool.not_eq_eq_eq_not,
          Bool.not_true, beq_iff_eq] at hsh
        obtain ⟨j, hj, hjs, hja⟩ := hsh
        obtain ⟨j', hj', h1, h2⟩ := ih j hj hjs
        refine ⟨j', ?_, h1, h2.trans hja⟩
        simp only [ignoreShadowed]
        split
        · exact List.mem_cons_of_mem _ hj'
        · exact hj'
      · refine ⟨i, ?_, hns, rfl⟩
        simp only [ignoreShadowed]
        have : shadowedBy i rest = false := by simpa using hsh
        simp [this]
    · obtain ⟨j', hj', h1, h2⟩ := ih i hr hns
      refine ⟨j', ?_, h1, h2⟩
      simp only [ignoreShadowed]
      split
      · exact List.mem_cons_of_mem _ hj'
      · exact hj'

/-- **C19_replace_exports_bound.**  Every name exported by a module whose star import is
    replaced is bound by a non-star import of the result (by `from m import n` itself or by an
    import that shadows it). -/
theorem C19_replace_exports_bound (exportsOf : Str → Inspect) (imps : List Imp) (s : Imp) (m : Str)
    (ns : List Str) (n : Str)
    (hs : s ∈ imps) (hstar : s.member = star) (hm : s.module = some m) (hrel : isRelative m = false)
    (hex : exportsOf m = .ok ns) (hn : n ∈ ns) (hne : n ≠ star) :
    ∃ j ∈ replaceStar exportsOf imps, isStar j = false ∧ j.importAs = n := by
  have hmem : (⟨some m, n, n⟩ : Imp) ∈ newImports exportsOf imps := by
    unfold newImports
    rw [List.mem_flatMap]
    refine ⟨s, hs, ?_⟩
    unfold replaceOne
    simp only [hstar, bne_self_eq_false, Bool.false_eq_true, ↓reduceIte, hm, hrel, hex]
    cases ns with
    | nil => cases hn
    | cons a as => exact List.mem_map.mpr ⟨n, hn, rfl⟩
  have hns : isStar (⟨some m, n, n⟩ : Imp) = false := by
    simp [isStar, hne]
  obtain ⟨j, hj, h1, h2⟩ := C19_shadow_bound _ _ hmem hns
  exact ⟨j, hj, h1, h2⟩

/-- The hypotheses of the replacement theorems are met by an ordinary block. -/
example : replaceStar (fun m => if m = "m".toList then .ok ["f".toList, "g".toList] else .fail)
    [⟨some "a".toList, "f".toList, "f".toList⟩, ⟨some "m".toList, star, star⟩,
     ⟨some "zz".toList, star, star⟩, ⟨some "b".toList, "y".toList, "g".toList⟩]
    = [⟨some "m".toList, "f".toList, "f".toList⟩, ⟨some "zz".toList, star, star⟩,
       ⟨some "b".toList, "y".toList, "g".toList⟩] := by decide

/-! ## Witnesses: where the unfixed tree violates the full-strength statements (D8, D31) -/

namespace Witness

def envM : Env := ⟨["modq".toList], false, fun _ => false⟩

/-- DESIGN.md D8: `async def aown`, `x: int = 3`, `a, b = 1, 2`,
    `from os.path import join as helper`, `def own`. -/
def d8Items : List Item :=
  [.asyncFuncDef "aown".toList, .annAssign (.name "x".toList) true .nonlit,
   .assign [.pattern ["a".toList, "b".toList] []] .nonlit,
   .importFrom 0 (some ["os".toList, "path".toList]) [⟨"join".toList, some "helper".toList⟩],
   .funcDef "own".toList]

/-- what the tree computes today … -/
theorem d8_current : exports Variant.current envM d8Items = .ok ["own".toList] := by decide

/-- … and with fixes/C19-D8.diff (the merely imported `helper` stays out either way). -/
theorem d8_fixed : exports Variant.fixed envM d8Items =
    .ok ["aown".toList, "x".toList, "a".toList, "b".toList, "own".toList] := by decide

/-- The conclusion of `C19_exact_partial` is false on the unfixed tree for each of the three
    forms: the name is a public top-level definition and is not exported. -/
theorem d8_async_missed : "aown".toList ∈ defNames d8Items ∧
    ∀ xs, exports Variant.current envM d8Items = .ok xs → "aown".toList ∉ xs := by
  refine ⟨by decide, ?_⟩
  intro xs h; rw [d8_current] at h; cases h; decide

theorem d8_annassign_missed : "x".toList ∈ defNames d8Items ∧
    ∀ xs, exports Variant.current envM d8Items = .ok xs → "x".toList ∉ xs := by
  refine ⟨by decide, ?_⟩
  intro xs h; rw [d8_current] at h; cases h; decide

theorem d8_tuple_missed : "a".toList ∈ defNames d8Items ∧
    ∀ xs, exports Variant.current envM d8Items = .ok xs → "a".toList ∉ xs := by
  refine ⟨by decide, ?_⟩
  intro xs h; rw [d8_current] at h; cases h; decide

/-- Full-strength exactness (no hypothesis on the statement forms) is refuted for the unfixed tree. -/
theorem d8_exact_fails :
    ¬ (∀ (env : Env) (items : List Item) (xs : List Str) (n : Str),
        (allState Variant.current items).1 = false → exports Variant.current env items = .ok xs →
        (n ∈ defNames items → n.head? ≠ some '_' → '.' ∉ n → n ∈ xs)) := by
  intro hall
  have := hall envM d8Items ["own".toList] "aown".toList (by decide) d8_current (by decide)
    (by decide) (by decide)
  revert this; decide

/-- An annotated `__all__` is not seen by the unfixed tree: `__all__: list = ['a']; a = 1; b = 2`. -/
def annAllItems : List Item :=
  [.annAssign (.name allName) true (.lit [.str "a".toList]),
   .assign [.name "a".toList] .nonlit, .assign [.name "b".toList] .nonlit]

theorem d8_ann_all_current :
    exports Variant.current envM annAllItems = .ok ["a".toList, "b".toList] := by decide
theorem d8_ann_all_fixed : exports Variant.fixed envM annAllItems = .ok ["a".toList] := by decide

/-- Seeded C19-r3-1: `import os; from json import decoder; os.environ["K"] = "v";
    decoder.FLAG = True; decoder.x, a = 1, 2; settings = {}; settings["d"] = 3`: the merely
    imported `os` / `decoder` are not exported, `a` and `settings` are. -/
def loadCtxItems : List Item :=
  [.import_ [(["os".toList], none)],
   .importFrom 0 (some ["json".toList]) [⟨"decoder".toList, none⟩],
   .assign [.other ["os".toList]] .nonlit,
   .assign [.other ["decoder".toList]] .nonlit,
   .assign [.pattern ["a".toList] ["decoder".toList]] .nonlit,
   .assign [.name "settings".toList] .nonlit,
   .assign [.other ["settings".toList]] .nonlit]

theorem load_ctx_fixed :
    exports Variant.fixed envM loadCtxItems = .ok ["a".toList, "settings".toList] := by decide
theorem load_ctx_current :
    exports Variant.current envM loadCtxItems = .ok ["settings".toList] := by decide

/-- D53 (fixed by commit 499e9c3): `tmp = [1]; keep = [2]; del tmp`. -/
def d53Items : List Item :=
  [.assign [.name "tmp".toList] .nonlit, .assign [.name "keep".toList] .nonlit, .del ["tmp".toList] []]

theorem d53_current : exports Variant.current envM d53Items = .ok ["tmp".toList, "keep".toList] := by decide
theorem d53_fixed : exports Variant.fixed envM d53Items = .ok ["keep".toList] := by decide

/-- delete, then bind again: the name is an export; `del a, b` removes both. -/
theorem d53_rebind : exports Variant.fixed envM
    [.assign [.name "a".toList] .nonlit, .funcDef "b".toList, .classDef "c".toList,
     .del ["a".toList, "b".toList] [], .funcDef "a".toList]
    = .ok ["c".toList, "a".toList] := by decide

/-- Residual (candidate CD-E): `a = b = 1; del (a, b)` — the parenthesised target is not seen. -/
theorem del_nested_fixed : exports Variant.fixed envM
    [.assign [.name "a".toList, .name "b".toList] .nonlit, .del [] ["a".toList, "b".toList]]
    = .ok ["a".toList, "b".toList] := by decide

/-- D31: in package `p` (an `__init__.py`), `from .sp import spx as leaf` where `p.sp.leaf` is a
    module: the re-exported *name* `leaf` is dropped because the alias is probed. -/
def envP : Env := ⟨["p".toList], true,
  fun m => m == ["p".toList] || m == ["p".toList, "sp".toList] ||
           m == ["p".toList, "sp".toList, "leaf".toList]⟩

def d31Items : List Item :=
  [.importFrom 1 (some ["sp".toList]) [⟨"spx".toList, some "leaf".toList⟩],
   .importFrom 1 (some ["sp".toList]) [⟨"leaf".toList, some "L".toList⟩]]

theorem d31_current : exports Variant.current envP d31Items = .ok ["L".toList] := by decide
theorem d31_fixed : exports Variant.fixed envP d31Items = .ok ["leaf".toList] := by decide

/-- Residual (candidate CD-D): `from .sp import spx; del spx` in a package `__init__`: the
    re-export is added after the pass, so the deleted name is still exported. -/
theorem del_reexport_fixed : exports Variant.fixed envP
    [.importFrom 1 (some ["sp".toList]) [⟨"spx".toList, none⟩], .del ["spx".toList] []]
    = .ok ["spx".toList] := by decide

/-- CD-E repaired: `a = b = c = 1; keep = 2; del (a, b); del [c]` exports `[keep]`
    (`Variant.fixed`: all four, see `del_nested_fixed`). -/
def cdeItems : List Item :=
  [.assign [.name "a".toList, .name "b".toList, .name "c".toList] .nonlit,
   .assign [.name "keep".toList] .nonlit,
   .del [] ["a".toList, "b".toList], .del [] ["c".toList]]

theorem cde_before : exports Variant.fixed envM cdeItems =
    .ok ["a".toList, "b".toList, "c".toList, "keep".toList] := by decide
theorem cde_fixed5 : exports Variant.fixed5 envM cdeItems = .ok ["keep".toList] := by decide

/-- CD-D repaired: `from .sp import spx as a, spx as y, spx as z; keep = 2; del a, z;
    from .sp import spx as z` in a package `__init__`: `a` is gone, `z` was imported again. -/
def cddItems : List Item :=
  [.importFrom 1 (some ["sp".toList])
     [⟨"spx".toList, some "a".toList⟩, ⟨"spx".toList, some "y".toList⟩, ⟨"spx".toList, some "z".toList⟩],
   .assign [.name "keep".toList] .nonlit,
   .del ["a".toList, "z".toList] [],
   .importFrom 1 (some ["sp".toList]) [⟨"spx".toList, some "z".toList⟩]]

theorem cdd_before : exports Variant.fixed envP cddItems =
    .ok ["keep".toList, "a".toList, "y".toList, "z".toList, "z".toList] := by decide
theorem cdd_fixed5 : exports Variant.fixed5 envP cddItems =
    .ok ["keep".toList, "y".toList, "z".toList] := by decide

end Witness

end Pfb.C19
