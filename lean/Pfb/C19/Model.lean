/-
  Pfb.C19.Model — executable model of

    * `ModuleHandle.exports` / `_member_from_node`      (lib/python/pyflyby/_modules.py)
    * the star-replacement loop of `replace_star_imports` and the
      `ignore_shadowed` pass of `ImportSet._from_imports`
                                                         (_imports2s.py, _importclns.py)

  A module source is abstracted to the list of its top-level statements
  (`Item`), computed by the harness with stdlib `ast`.  What the code asks the
  outside world is a parameter: `Env.exists` (= `ModuleHandle(name).exists`),
  `Env.isInit` (= `filename.base == "__init__.py"`), and for the replacement
  loop `exportsOf` (= `module.exports`, which may raise).

  `Variant` selects the code that is modelled: the tree as it is
  (`⟨false, false⟩`) or the tree with fixes/C19-D8.diff and/or
  fixes/C19-D31.diff applied.  The harness picks the variant from the status
  of D8 / D31 in known_findings/C19.json, never by probing the implementation.

  Core only, no Mathlib.
-/
import Pfb.Basic
namespace Pfb.C19
open Pfb

/-- `DottedIdentifier.parts` -/
abbrev ModName := List Str

def allName : Str := ['_', '_', 'a', 'l', 'l', '_', '_']
def star : Str := ['*']

/-- An assignment target.  `pattern` is a tuple / list / starred target, flattened by the
    harness (nested patterns included) into `bound`, the `ast.Name`s in **Store** context (the
    names the target binds), and `loads`, every `ast.Name` that occurs in **Load** context inside
    it (bases and indices of attribute / subscript elements: `os` and `k` in `os.environ[k], a = …`).
    `other` is an attribute or subscript target (binds no module-level name) with the
    Load-context names it mentions.  The code (`_target_names`: Name / Tuple / List / Starred
    only) and therefore the model look at Store-context names only. -/
inductive Target where
  | name (n : Str)
  | pattern (bound : List Str) (loads : List Str)
  | other (loads : List Str)
deriving DecidableEq, Repr

/-- One element of `list(ast.literal_eval(value))`. -/
inductive Entry where
  | str (s : Str)
  | nonstr
deriving DecidableEq, Repr

/-- The right-hand side of an assignment as `exports` looks at it:
    `list(ast.literal_eval(value))` succeeded with these elements, or raised
    `ValueError` / `TypeError`. -/
inductive Val where
  | lit (es : List Entry)
  | nonlit
deriving DecidableEq, Repr

structure Alias where
  name : Str
  asname : Option Str
deriving DecidableEq, Repr

/-- `n.asname or n.name` -/
def Alias.bound (a : Alias) : Str := a.asname.getD a.name

/-- A top-level statement of the module (`ast.parse(text).body`). -/
inductive Item where
  | assign (targets : List Target) (v : Val)
  | annAssign (t : Target) (hasValue : Bool) (v : Val)
  | augAssign (t : Target) (v : Val)
  | classDef (n : Str)
  | funcDef (n : Str)
  | asyncFuncDef (n : Str)
  | importFrom (level : Nat) (module : Option ModName) (aliases : List Alias)
  | import_ (aliases : List (ModName × Option Str))
  /-- `del t1, t2, …`: `names` are the targets that are plain `ast.Name`s (what the code looks at),
      `nested` the names deleted through a parenthesised tuple / list target (`del (a, b)`), which
      the code does not see; attribute / subscript targets are dropped. -/
  | del (names : List Str) (nested : List Str)
  | other
deriving DecidableEq, Repr

structure Variant where
  d8 : Bool     -- fixes/C19-D8.diff: async def, annotated and tuple/list targets are members
  d31 : Bool    -- fixes/C19-D31.diff: the submodule test looks at the imported name, not at the alias
  d53 : Bool    -- commit 499e9c3: `del name` at top level removes the name from the members collected so far
  cde : Bool    -- fixes/C19-CDE.diff: `del (a, b)` / `del [c]` delete through the tuple / list target
  cdd : Bool    -- fixes/C19-CDD.diff: an own-package re-export that a later `del` names is dropped
deriving DecidableEq, Repr

def Variant.current : Variant := ⟨false, false, false, false, false⟩
/-- the tree with D8, D31 and D53 repaired (rounds 1–4) -/
def Variant.fixed : Variant := ⟨true, true, true, false, false⟩
/-- … and with CD-E and CD-D repaired as well -/
def Variant.fixed5 : Variant := ⟨true, true, true, true, true⟩

structure Env where
  self : ModName
  isInit : Bool
  exists_ : ModName → Bool

inductive Err where
  | attributeError   -- `n.startswith("_")` on a non-string entry of `__all__`
  | typeError        -- `DottedIdentifier(None)`: unreachable from `ast.parse` output (level 0 has a module)
deriving DecidableEq, Repr

/-! ### `_member_from_node` -/

/-- Names of a target that `_member_from_node` extracts.  Unfixed tree:
    `[t.id for t in x.targets if isinstance(t, ast.Name)]`. -/
def targetMembers (v : Variant) : Target → List Str
  | .name n => [n]
  | .pattern b _ => if v.d8 then b else []
  | .other _ => []

def memberFromNode (v : Variant) : Item → List Str
  | .assign ts _ => ts.flatMap (targetMembers v)
  | .annAssign t hv _ => if v.d8 && hv then targetMembers v t else []
  | .classDef n => [n]
  | .funcDef n => [n]
  | .asyncFuncDef n => if v.d8 then [n] else []
  | _ => []

/-- One pass over the top-level statements, in order, keeping the names that are "live":
    each statement first removes the names `d it` and then adds the names `f it`. -/
def live (f d : Item → List Str) (items : List Item) : List Str :=
  items.foldl (fun acc it => acc.filter (fun n => !(d it).contains n) ++ f it) []

/-- `deleted = set(t.id for t in n.targets if isinstance(t, ast.Name))` of an `ast.Delete`
    (before commit 499e9c3 `del` statements were ignored); with CD-E repaired
    `set(name for t in n.targets for name in self._target_names(t))`. -/
def delSeen (v : Variant) : Item → List Str
  | .del ns nested => if v.d53 then (if v.cde then ns ++ nested else ns) else []
  | _ => []

/-- The loop `for n in ast_mod: if isinstance(n, ast.Delete): members = [m for m in members if m
    not in deleted] else: members.extend(self._member_from_node(n))`. -/
def members (v : Variant) (items : List Item) : List Str := live (memberFromNode v) (delSeen v) items

/-! ### reconstruction of `__all__` -/

def isAllTarget : Target → Bool
  | .name n => n == allName
  | _ => false

/-- `isinstance(n, ast.Assign) and "__all__" in self._member_from_node(n)` — with D8 fixed
    `_is_all_assignment(n)`, which also accepts `__all__: T = …`.  Returns the value. -/
def allAssignVal (v : Variant) : Item → Option Val
  | .assign ts val => if ts.any isAllTarget then some val else none
  | .annAssign t hv val => if v.d8 && hv && isAllTarget t then some val else none
  | _ => none

/-- One iteration of the loop over `ast_mod`; state = `(all_is_good, all_members)`. -/
def allStep (v : Variant) (st : Bool × List Entry) (it : Item) : Bool × List Entry :=
  match allAssignVal v it with
  | some (.lit es) => (true, es)
  | some .nonlit => (false, st.2)
  | none =>
    match it with
    | .augAssign t val =>
      if isAllTarget t && st.1 then
        match val with
        | .lit es => (true, st.2 ++ es)
        | .nonlit => (false, st.2)
      else st
    | _ => st

def allScan (v : Variant) (items : List Item) : Bool × List Entry :=
  items.foldl (allStep v) (false, [])

/-- `(all_is_good, all_members)` after the `if "__all__" in members:` block. -/
def allState (v : Variant) (items : List Item) : Bool × List Entry :=
  if allName ∈ members v items then allScan v items else (false, [])

/-! ### re-exports from the module's own package -/

/-- `DottedIdentifier.startswith`: `self.parts[:len(o.parts)] == o.parts` -/
def startsWith (m pre : ModName) : Bool := m.take pre.length == pre

/-- The module a `from` statement is judged to re-export from: `some fm` when the
    statement passes the level/own-package test, `none` when the loop `continue`s. -/
def fromMod (env : Env) (level : Nat) (module : Option ModName) : Except Err (Option ModName) :=
  if level = 0 then
    match module with
    | none => .error .typeError
    | some m => if startsWith m env.self then .ok (some m) else .ok none
  else if level = 1 && env.isInit then
    .ok (some (env.self ++ module.getD []))
  else .ok none

/-- the name whose existence as a module is tested -/
def probe (v : Variant) (a : Alias) : Str := if v.d31 then a.name else a.bound

def aliasMembers (v : Variant) (env : Env) (fm : ModName) (aliases : List Alias) : List Str :=
  aliases.filterMap fun a =>
    if a.name != star && !env.exists_ (fm ++ [probe v a]) then some a.bound else none

def reexportsOf (v : Variant) (env : Env) : Item → Except Err (List Str)
  | .importFrom level module aliases =>
    match fromMod env level module with
    | .error e => .error e
    | .ok none => .ok []
    | .ok (some fm) => .ok (aliasMembers v env fm aliases)
  | _ => .ok []

/-- `deleted_later` of a `from` statement followed by the statements `rest` (CD-D repaired): the
    names the later top-level `del` statements remove, as the code sees them. -/
def delLater (v : Variant) (rest : List Item) : List Str :=
  if v.cdd then rest.flatMap (delSeen v) else []

def reexports (v : Variant) (env : Env) : List Item → Except Err (List Str)
  | [] => .ok []
  | it :: rest =>
    match reexportsOf v env it with
    | .error e => .error e
    | .ok xs =>
      match reexports v env rest with
      | .error e => .error e
      | .ok ys => .ok (xs.filter (fun n => !(delLater v rest).contains n) ++ ys)

/-! ### filters and `exports` -/

def isPrivate (n : Str) : Bool := n.head? == some '_'
def isDotted (n : Str) : Bool := n.contains '.'

/-- `[n for n in members if not n.startswith("_")]` raises on the first non-string. -/
def entryStrs : List Entry → Except Err (List Str)
  | [] => .ok []
  | .nonstr :: _ => .error .attributeError
  | .str s :: rest =>
    match entryStrs rest with
    | .error e => .error e
    | .ok ss => .ok (s :: ss)

def publicNames (ns : List Str) : List Str :=
  (ns.filter (fun n => !isPrivate n)).filter (fun n => !isDotted n)

/-- `ModuleHandle.exports`: the member names handed to `ImportStatement.from_parts`
    (`[]` ⇔ the property returns `None`).  The harness compares as a set: the
    `ImportSet` built from them is duplicate-free and sorted. -/
def exports (v : Variant) (env : Env) (items : List Item) : Except Err (List Str) :=
  let st := allState v items
  if st.1 then
    match entryStrs st.2 with
    | .error e => .error e
    | .ok ss => .ok (publicNames ss)
  else
    match reexports v env items with
    | .error e => .error e
    | .ok re => .ok (publicNames (members v items ++ re))

/-! ### reference: what straight-line execution of the modelled items binds -/

def targetBinds : Target → List Str
  | .name n => [n]
  | .pattern b _ => b
  | .other _ => []

/-- Names bound by executing one item (assuming it does not raise).  `other` items
    (compound statements, expressions, `del`, …) are outside the model. -/
def itemBinds : Item → List Str
  | .assign ts _ => ts.flatMap targetBinds
  | .annAssign t hv _ => if hv then targetBinds t else []
  | .augAssign _ _ => []
  | .classDef n => [n]
  | .funcDef n => [n]
  | .asyncFuncDef n => [n]
  | .importFrom _ _ aliases => (aliases.filter (fun a => a.name != star)).map Alias.bound
  | .import_ aliases => aliases.map fun (m, a) => a.getD (m.headD [])
  | .del _ _ => []
  | .other => []

/-- every name a `del` statement unbinds -/
def delAll : Item → List Str
  | .del ns nested => ns ++ nested
  | _ => []

/-- Names bound after straight-line execution of the items, in order (`del` unbinds). -/
def bound (items : List Item) : List Str := live itemBinds delAll items

/-- Names bound at top level by `def` / `async def` / `class` / (annotated, tuple) assignment:
    the property's "public top-level functions, classes and assigned names" before the
    public filter. -/
def defBinds : Item → List Str
  | .importFrom _ _ _ => []
  | .import_ _ => []
  | it => itemBinds it

def defNames (items : List Item) : List Str := items.flatMap defBinds

/-- … of which those that no later `del` removed. -/
def liveDefs (items : List Item) : List Str := live defBinds delAll items

/-- every `del` of the module is one the code sees in full: D53 fixed and no parenthesised
    `del (a, b)` — or there is no `del` of a name at all -/
def delsSeen (v : Variant) (items : List Item) : Bool :=
  items.all fun it => (delAll it).all fun n => (delSeen v it).contains n

/-- No statement of a form the unfixed `_member_from_node` misses (D8). -/
def noD8Form : Item → Bool
  | .assign ts _ => ts.all fun t => match t with | .pattern b _ => b.isEmpty | _ => true
  | .annAssign t hv _ => !hv || (targetBinds t).isEmpty
  | .asyncFuncDef _ => false
  | _ => true

def noD8Forms (items : List Item) : Bool := items.all noD8Form

/-! ### `replace_star_imports`: the loop over one import block -/

/-- `Import` as the loop sees it: `imp.split.module_name` (`none` for `import x`),
    `imp.split.member_name`, `imp.import_as` (`"*"` for a star import). -/
structure Imp where
  module : Option Str
  member : Str
  importAs : Str
deriving DecidableEq, Repr

/-- Result of `module.exports` inside the `try`: an exception, or the names (`[]` ⇔ `None`). -/
inductive Inspect where
  | fail
  | ok (names : List Str)
deriving DecidableEq, Repr

def isRelative (m : Str) : Bool := m.head? == some '.'

/-- What one import of the block contributes to `new_imports`. -/
def replaceOne (exportsOf : Str → Inspect) (imp : Imp) : List Imp :=
  if imp.member != star then [imp]
  else
    match imp.module with
    | none => [imp]
    | some m =>
      if isRelative m then [imp]
      else
        match exportsOf m with
        | .fail => [imp]
        | .ok [] => [imp]
        | .ok (n :: ns) => (n :: ns).map fun x => ⟨some m, x, x⟩

def newImports (exportsOf : Str → Inspect) (imps : List Imp) : List Imp :=
  imps.flatMap (replaceOne exportsOf)

def isStar (i : Imp) : Bool := i.importAs == star

/-- a later import of the list binds the same `import_as` -/
def shadowedBy (i : Imp) (rest : List Imp) : Bool :=
  rest.any fun j => !isStar j && j.importAs == i.importAs

/-- `ImportSet(new_imports, ignore_shadowed=True)`: every star import is kept, of the others
    the last one per `import_as`.  (The real result is a frozenset; the harness compares as a set.) -/
def ignoreShadowed : List Imp → List Imp
  | [] => []
  | i :: rest =>
    if isStar i || !shadowedBy i rest then i :: ignoreShadowed rest else ignoreShadowed rest

def replaceStar (exportsOf : Str → Inspect) (imps : List Imp) : List Imp :=
  ignoreShadowed (newImports exportsOf imps)

end Pfb.C19
