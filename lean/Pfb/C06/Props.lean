import Pfb.AutoImp.PyWorld
