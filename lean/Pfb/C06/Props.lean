/-
  Pfb.C06.Props — C06 "Auto-import adds only needed names and never clobbers".

  All theorems are about the model `Pfb.AutoImp.Model` (tied to `_autoimp.py` by the
  correspondence check of harness/c06.py) and hold for EVERY import universe `U`, every
  database table, every namespace stack, every list of missing names and every sequence of
  calls (`auto_import`, `auto_import_symbol`, `_try_import`, new cell) sharing one attempt
  map and one failed-import set — there is no bound on any size.
-/
import Pfb.AutoImp.Flow
import Pfb.AutoImp.PyWorld
namespace Pfb.C06
open Pfb.AutoImp

variable {W : Type}

/-- the records a history appends to the log -/
def newLog (U : Univ W) (db : DB) (cs : List Call) (st : State W) : List Rec :=
  (run U db cs st).2.log.drop st.log.length

theorem newLog_spec (U : Univ W) (db : DB) (cs : List Call) (st : State W) :
    ∃ new, newLog U db cs st = new ∧
      Reach.LogExt U (fun s i t l => ∃ c ∈ cs, CallAllows U db (st.nss.length - 1) c s i t l) st (run U db cs st).2 new := by
  obtain ⟨new, h⟩ := (reach_run U db cs st).logExt
  refine ⟨new, ?_, h⟩
  simp [newLog, h.log_eq]

/-! ### C06_frame — nothing is rebound, shadowed-by-replacement or deleted, in any namespace of the stack -/

/-- For every history: every namespace keeps every key it had, bound to the same object, and the
    stack keeps its length.  (All histories ⇒ in particular every prefix of a history: the
    statement holds at every call boundary.) -/
theorem C06_frame (U : Univ W) (db : DB) (cs : List Call) (st : State W) :
    (run U db cs st).2.nss.length = st.nss.length ∧
    ∀ i k v, (getNs st.nss i).lookup k = some v → (getNs (run U db cs st).2.nss i).lookup k = some v := by
  have h := (reach_run U db cs st).frame
  exact ⟨h.1.symm, fun i k v => h.2 i k v⟩

/-- … and at every single import attempt inside the history: the namespaces the attempt found
    extend the initial ones, and the namespaces it left extend those it found. -/
theorem C06_frame_every_attempt (U : Univ W) (db : DB) (cs : List Call) (st : State W) :
    ∀ r ∈ newLog U db cs st, Frame st.nss r.before ∧ Frame r.before r.after := by
  obtain ⟨new, hn, h⟩ := newLog_spec U db cs st
  rw [hn]
  intro r hr
  obtain ⟨s, _, hs, _, hf⟩ := h.allowed r hr
  exact ⟨hs ▸ hf, h.frame r hr⟩

example : ∃ (U : Univ Unit) (db : DB) (cs : List Call) (st : State Unit),
    (run U db cs st).2.nss ≠ st.nss :=
  ⟨⟨fun _ _ => (some 7, ()), fun _ _ => (true, ()), fun _ _ => none, fun _ _ _ => none⟩, [],
   [.code (some [[['a']]])], ⟨[[]], [], [], (), []⟩, by decide⟩

/-! ### C06_only_needed -/

theorem chosen_head {U : Univ W} {db : DB} (hdb : DbKeyed db) {d : Dotted} {n : Nat} {s : State W} {imp : Import}
    {tgt : Nat} {loop : Bool} (h : Chosen U db d n s imp tgt loop) :
    imp.importAs ≠ [] ∧ d.head? = some (name0 imp) := by
  obtain ⟨_, _, h⟩ := h
  rcases h with ⟨_, hk⟩ | ⟨_, p, hp, rfl, _⟩
  · obtain ⟨k, hkp, hl⟩ := getKnownImport_some hk
    have := hdb k [imp] hl imp (by simp)
    have hne := prefixes_ne_nil hkp
    refine ⟨this ▸ hne, ?_⟩
    rw [← prefixes_head hkp, name0, this]
    exact head?_headD hne
  · have hne := prefixes_ne_nil hp
    refine ⟨hne, ?_⟩
    rw [← prefixes_head hp]
    exact head?_headD hne

/-- which names a call may add, and where -/
def CallNeeds (n : Nat) (c : Call) (i : Nat) (k : Name) : Prop :=
  match c with
  | .code (some ds) => i = n ∧ ∃ d ∈ ds, d.head? = some k
  | .code none => False
  | .symbol d => i = n ∧ d.head? = some k
  | .tryImp imp ns => i = ns ∧ name0 imp = k
  | .newCell => False

/-- **C06_only_needed.**  A binding that a history adds (key `k` absent before, bound to `v` after,
    in namespace `i`) is in the target namespace of some call of the history, `k` is the head of a
    missing dotted name of that call (for a direct `_try_import`: the name the statement binds), and
    `v` is exactly the object that an executed import statement binding `k` yielded
    (`r.res = (U.exec s.w r.imp).1` for the state `s` it was executed in); that attempt found `k`
    unbound in the target. -/
theorem C06_only_needed (U : Univ W) (db : DB) (hdb : DbKeyed db) (cs : List Call) (st : State W)
    (i : Nat) (k : Name) (v : Obj)
    (hafter : (getNs (run U db cs st).2.nss i).lookup k = some v)
    (hbefore : (getNs st.nss i).lookup k = none) :
    (∃ c ∈ cs, CallNeeds (st.nss.length - 1) c i k) ∧
    ∃ r ∈ newLog U db cs st, r.tgt = i ∧ name0 r.imp = k ∧ r.res = some v ∧
      (getNs r.before i).lookup k = none ∧
      ∃ s : State W, s.nss = r.before ∧ (U.exec s.w r.imp).1 = some v := by
  obtain ⟨new, hn, h⟩ := newLog_spec U db cs st
  rw [hn]
  obtain ⟨r, hr, htgt, hname, hres, _, hnone⟩ := h.origin i k v hafter hbefore
  obtain ⟨s, ⟨c, hc, hca⟩, hs, hyield, _⟩ := h.allowed r hr
  refine ⟨⟨c, hc, ?_⟩, r, hr, htgt, hname, hres, hnone, s, hs, by rw [← hyield, hres]⟩
  cases c with
  | code m =>
    cases m with
    | none => exact hca.elim
    | some ds =>
      obtain ⟨d, hd, hch⟩ := hca
      exact ⟨htgt ▸ hch.1, d, hd, hname ▸ (chosen_head hdb hch).2⟩
  | symbol d => exact ⟨htgt ▸ hca.1, hname ▸ (chosen_head hdb hca).2⟩
  | tryImp imp ns => exact ⟨htgt ▸ hca.2.1, hname ▸ hca.1 ▸ rfl⟩
  | newCell => exact hca.elim

def _root_.Pfb.AutoImp.Call.isAuto : Call → Bool
  | .tryImp _ _ => false
  | _ => true

/-
  Target (full strength, FALSE on the unchanged code — D14):
    a name added by auto-import was unbound in EVERY namespace of the stack.
  What the code guarantees instead:
-/

/-- **C06_shadow_only_registry** (the exact extent of D14).  If auto-import adds `k` to the target
    although another namespace of the stack already binds `k` (to `v0`), then that binding is the
    module registered under the name `k` (`sys.modules[k] is v0` in the world in which the need for
    the import was established) — nothing else is ever shadowed. -/
theorem C06_shadow_only_registry (U : Univ W) (db : DB) (hdb : DbKeyed db) (cs : List Call) (st : State W)
    (hauto : ∀ c ∈ cs, c.isAuto = true)
    (i : Nat) (k : Name) (v : Obj)
    (hafter : (getNs (run U db cs st).2.nss i).lookup k = some v)
    (hbefore : (getNs st.nss i).lookup k = none)
    (j : Nat) (hj : j < st.nss.length) (v0 : Obj) (hother : (getNs st.nss j).lookup k = some v0) :
    ∃ w0, U.modOf w0 [k] = some v0 := by
  obtain ⟨new, _, h⟩ := newLog_spec U db cs st
  obtain ⟨r, hr, _, hname, _, _, _⟩ := h.origin i k v hafter hbefore
  obtain ⟨s, ⟨c, hc, hca⟩, _, _, hfr⟩ := h.allowed r hr
  have hch : ∃ d, Chosen U db d (st.nss.length - 1) s r.imp r.tgt r.loop := by
    cases c with
    | code m =>
      cases m with
      | none => exact hca.elim
      | some ds => obtain ⟨d, _, hch⟩ := hca; exact ⟨d, hch⟩
    | symbol d => exact ⟨d, hca⟩
    | tryImp imp ns => have := hauto _ hc; simp [Call.isAuto] at this
    | newCell => exact hca.elim
  obtain ⟨d, hch⟩ := hch
  obtain ⟨hne, _⟩ := chosen_head hdb hch
  obtain ⟨_, ⟨w0, hs⟩, _⟩ := hch
  have hjs : (getNs s.nss j).lookup k = some v0 := hfr.2 j k v0 hother
  have hmem : getNs s.nss j ∈ s.nss := getNs_mem (by rw [← hfr.1]; exact hj)
  cases hia : r.imp.importAs with
  | nil => exact absurd hia hne
  | cons hd rest =>
    have hk : hd = k := by rw [← hname, name0, hia]; rfl
    subst hk
    rw [hia] at hs
    exact ⟨w0, (sni_true_bound U hs hmem hjs).2⟩

/-- **C06_only_needed_unbound_partial.**  Under the explicit hypothesis that no namespace of the
    stack binds a name to the module registered under that very name, a name added by auto-import
    was unbound in every namespace of the stack. -/
theorem C06_only_needed_unbound_partial (U : Univ W) (db : DB) (hdb : DbKeyed db) (cs : List Call) (st : State W)
    (hauto : ∀ c ∈ cs, c.isAuto = true)
    (hreg : ∀ w0 j k v0, (getNs st.nss j).lookup k = some v0 → U.modOf w0 [k] ≠ some v0)
    (i : Nat) (k : Name) (v : Obj)
    (hafter : (getNs (run U db cs st).2.nss i).lookup k = some v)
    (hbefore : (getNs st.nss i).lookup k = none) :
    ∀ j, j < st.nss.length → (getNs st.nss j).lookup k = none := by
  intro j hj
  cases hl : (getNs st.nss j).lookup k with
  | none => rfl
  | some v0 =>
    obtain ⟨w0, hw⟩ := C06_shadow_only_registry U db hdb cs st hauto i k v hafter hbefore j hj v0 hl
    exact absurd hw (hreg w0 j k v0 hl)

/-! ### C06_failure_untouched -/

/-- **C06_failure_untouched.**  In every history, for every executed import statement `r`:
    * if it raised, or yielded an object different from the existing binding of the name it
      binds in the target (`r.Failed`), every namespace is exactly as it was (`r.after = r.before`);
    * if it raised it is in the failed set at the end of the history, it was not in the failed set
      at the beginning, and NO later record of the history executes the same import again
      (whatever the cells);
    * an import that is in the failed set at the beginning is not executed at all. -/
theorem C06_failure_untouched (U : Univ W) (db : DB) (cs : List Call) (st : State W) :
    (∀ r ∈ newLog U db cs st, r.Failed → r.after = r.before) ∧
    (∀ r ∈ newLog U db cs st, r.res = none → r.imp ∈ (run U db cs st).2.failed) ∧
    (∀ r ∈ newLog U db cs st, r.imp ∉ st.failed) ∧
    (newLog U db cs st).Pairwise (fun r1 r2 => r1.res = none → r2.imp ≠ r1.imp) ∧
    (∀ imp ∈ st.failed, imp ∈ (run U db cs st).2.failed) := by
  obtain ⟨new, hn, h⟩ := newLog_spec U db cs st
  rw [hn]
  exact ⟨h.failed_same, h.raised_failed, h.not_failed, h.no_retry, (reach_run U db cs st).failed_mono⟩

/-- a refused `_try_import` changes no namespace and (when the statement raised) records the failure -/
theorem C06_tryImport_refused (U : Univ W) (imp : Import) (tgt : Nat) (loop : Bool) (st st' : State W)
    (h : tryImport U imp tgt loop st = (false, st')) :
    st'.nss = st.nss ∧ st'.attempted = st.attempted ∧ ((U.exec st.w imp).1 = none → imp ∈ st'.failed) := by
  have hs := tryImport_spec U imp tgt loop st
  simp only [h] at hs
  obtain ⟨hatt, hs⟩ := hs
  rcases hs with ⟨hin, heq⟩ | ⟨rc, hok, _, hnss, _, hiff, hf1, _⟩
  · have : st' = st := by simpa using congrArg Prod.snd heq
    subst this
    exact ⟨rfl, rfl, fun _ => hin⟩
  · have hF : rc.Failed := Classical.byContradiction (fun hnf => by
      have := hiff.2 hnf
      simp at this)
    refine ⟨by rw [hnss, hok.failed_same hF, hok.before_eq], hatt, fun hnone => ?_⟩
    rw [hf1 (by rw [hok.res_eq]; exact hnone)]
    exact List.mem_cons_self

/-! #### the per-cell attempt map -/

/-- the attempt map only grows (newest first) -/
def AttExt (a b : State W) : Prop := ∃ ext, b.attempted = ext ++ a.attempted

theorem AttExt.refl (a : State W) : AttExt a a := ⟨[], rfl⟩

theorem AttExt.trans {a b c : State W} (h1 : AttExt a b) (h2 : AttExt b c) : AttExt a c := by
  obtain ⟨e1, h1⟩ := h1
  obtain ⟨e2, h2⟩ := h2
  exact ⟨e2 ++ e1, by rw [h2, h1, List.append_assoc]⟩

theorem attExt_tryImport (U : Univ W) (imp : Import) (tgt : Nat) (loop : Bool) (st : State W) :
    AttExt st (tryImport U imp tgt loop st).2 :=
  ⟨[], (tryImport_spec U imp tgt loop st).1⟩

theorem attExt_withAtt {a b : State W} (h : AttExt a b) (k : Dotted) (v : Bool) : AttExt a (b.withAtt k v) := by
  obtain ⟨e, he⟩ := h
  exact ⟨(k, v) :: e, by simp [he]⟩

theorem attExt_ancestorLoop (U : Univ W) (tgt : Nat) (ps : List Dotted) (st : State W) :
    AttExt st (ancestorLoop U tgt ps st).2 := by
  induction ps generalizing st with
  | nil => exact AttExt.refl _
  | cons p ps ih =>
    rw [ancestorLoop_cons]
    have h1 : AttExt st (st.withW (U.exists_ st.w p).2) := ⟨[], rfl⟩
    have h2 := h1.trans (attExt_tryImport U ⟨p, p⟩ tgt true (st.withW (U.exists_ st.w p).2))
    split
    · exact ih st
    · split
      · exact AttExt.refl _
      · split
        · exact attExt_withAtt h1 _ _
        · split
          · exact attExt_withAtt h2 _ _
          · exact (attExt_withAtt h2 _ _).trans (ih _)

theorem attExt_autoImportSymbol (U : Univ W) (db : DB) (viaStr : Bool) (d : Dotted) (st : State W) :
    AttExt st (autoImportSymbol U db viaStr d st).2 := by
  rw [autoImportSymbol_eq]
  have h1 := attExt_tryImport U
  split
  · exact AttExt.refl _
  · split
    · exact AttExt.refl _
    · split
      · exact attExt_ancestorLoop U _ _ st
      · exact AttExt.refl _
      · split
        · exact attExt_ancestorLoop U _ _ st
        · split
          · exact attExt_withAtt (h1 _ _ _ st) _ _
          · split
            · exact attExt_withAtt (h1 _ _ _ st) _ _
            · exact (attExt_withAtt (h1 _ _ _ st) _ _).trans (attExt_ancestorLoop U _ _ _)
      · exact attExt_withAtt (AttExt.refl st) _ _

theorem attExt_foldSyms (U : Univ W) (db : DB) (ds : List Dotted) (acc : Bool) (st : State W) :
    AttExt st (foldSyms U db ds acc st).2 := by
  induction ds generalizing acc st with
  | nil => exact AttExt.refl _
  | cons d ds ih =>
    have h1 := attExt_autoImportSymbol U db false d st
    unfold foldSyms
    split
    · rename_i st' heq
      rw [show st' = (autoImportSymbol U db false d st).2 by rw [heq]]; exact h1
    · rename_i b st' heq
      have hst' : st' = (autoImportSymbol U db false d st).2 := by rw [heq]
      rw [hst']
      exact h1.trans (ih _ _)

def _root_.Pfb.AutoImp.Call.isNewCell : Call → Bool
  | .newCell => true
  | _ => false

theorem attExt_run (U : Univ W) (db : DB) (cs : List Call) (st : State W)
    (hcell : ∀ c ∈ cs, c.isNewCell = false) : AttExt st (run U db cs st).2 := by
  induction cs generalizing st with
  | nil => exact AttExt.refl _
  | cons c cs ih =>
    have h1 : AttExt st (step U db c st).2 := by
      cases c with
      | code m =>
        cases m with
        | none => exact AttExt.refl _
        | some ds => exact attExt_foldSyms U db ds true st
      | symbol d => exact attExt_autoImportSymbol U db true d st
      | tryImp imp i => exact attExt_tryImport U imp i false st
      | newCell => have := hcell _ List.mem_cons_self; simp [Call.isNewCell] at this
    exact h1.trans (ih _ (fun c hc => hcell c (List.mem_cons_of_mem _ hc)))

theorem lookup_isSome_append {α β : Type} [BEq α] (k : α) (a b : List (α × β)) (h : (b.lookup k).isSome) :
    ((a ++ b).lookup k).isSome := by
  rw [List.lookup_append]
  cases a.lookup k <;> simp [h]

/-- **C06_refused_not_retried.**  Within one cell (a history without `newCell`), a dotted name that
    is recorded in the attempt map stays recorded, and every later `auto_import_symbol` for it
    executes no import statement and changes nothing at all — namespaces, log, failed set, world
    and attempt map are exactly as before. -/
theorem C06_refused_not_retried (U : Univ W) (db : DB) (cs : List Call) (st : State W)
    (hcell : ∀ c ∈ cs, c.isNewCell = false) (d : Dotted) (hd : (st.attempted.lookup d).isSome)
    (viaStr : Bool) :
    let st1 := (run U db cs st).2
    (st1.attempted.lookup d).isSome ∧
    (autoImportSymbol U db viaStr d st1).2 = st1 ∧
    ((autoImportSymbol U db viaStr d st1).1 = .ok false ∨ symbolNeedsImport U st1.w st1.nss d = false) := by
  intro st1
  obtain ⟨ext, hext⟩ := attExt_run U db cs st hcell
  have h1 : (st1.attempted.lookup d).isSome := by
    show ((run U db cs st).2.attempted.lookup d).isSome
    rw [hext]; exact lookup_isSome_append _ _ _ hd
  refine ⟨h1, ?_, ?_⟩
  · rw [autoImportSymbol_eq]
    split
    · rfl
    · simp [h1]
  · rw [autoImportSymbol_eq]
    split
    · rename_i h; right; exact h
    · left; simp [h1]

/-- **C06_refusal_recorded.**  When `auto_import_symbol d` reports failure for a name that needed
    import and was not yet in the attempt map, the refusal is recorded in the map: under `d`
    itself, or `False` under one of its prefixes (the ancestor loop). -/
theorem C06_refusal_recorded_loop (U : Univ W) (tgt : Nat) (ps : List Dotted) (st st' : State W)
    (h : ancestorLoop U tgt ps st = (false, st')) : ∃ p ∈ ps, st'.attempted.lookup p = some false := by
  induction ps generalizing st with
  | nil => simp [ancestorLoop] at h
  | cons p ps ih =>
    rw [ancestorLoop_cons] at h
    split at h
    · obtain ⟨q, hq, hl⟩ := ih st h
      exact ⟨q, List.mem_cons_of_mem _ hq, hl⟩
    · split at h
      · rename_i hatt
        have : st' = st := by simpa using (congrArg Prod.snd h).symm
        subst this
        exact ⟨p, List.mem_cons_self, hatt⟩
      · split at h
        · have : st' = _ := (congrArg Prod.snd h).symm
          subst this
          exact ⟨p, List.mem_cons_self, by simp [List.lookup_cons]⟩
        · split at h
          · have : st' = _ := (congrArg Prod.snd h).symm
            subst this
            exact ⟨p, List.mem_cons_self, by simp [List.lookup_cons]⟩
          · obtain ⟨q, hq, hl⟩ := ih _ h
            exact ⟨q, List.mem_cons_of_mem _ hq, hl⟩

theorem C06_refusal_recorded (U : Univ W) (db : DB) (viaStr : Bool) (d : Dotted) (st st' : State W)
    (h : autoImportSymbol U db viaStr d st = (.ok false, st')) :
    (st'.attempted.lookup d).isSome ∨ ∃ p ∈ prefixes d, st'.attempted.lookup p = some false := by
  have hloop : ∀ s : State W, (Outcome.ok (ancestorLoop U (st.nss.length - 1) (prefixes d) s).1,
      (ancestorLoop U (st.nss.length - 1) (prefixes d) s).2) = (Outcome.ok false, st') →
      ∃ p ∈ prefixes d, st'.attempted.lookup p = some false := by
    intro s hs
    have h1 := congrArg Prod.fst hs
    have h2 := congrArg Prod.snd hs
    simp at h1 h2
    exact C06_refusal_recorded_loop U _ _ s st' (Prod.ext h1 h2)
  rw [autoImportSymbol_eq] at h
  split at h
  · simp at h
  · split at h
    · rename_i hatt
      have : st' = st := by simpa using (congrArg Prod.snd h).symm
      subst this
      exact Or.inl hatt
    · split at h
      · exact Or.inr (hloop st h)
      · simp at h
      · split at h
        · exact Or.inr (hloop st h)
        · split at h
          · left
            have : st' = _ := (congrArg Prod.snd h).symm
            subst this
            simp [List.lookup_cons]
          · split at h
            · simp at h
            · exact Or.inr (hloop _ h)
      · left
        have : st' = _ := (congrArg Prod.snd h).symm
        subst this
        simp [List.lookup_cons]

/-! ### C06_unparsable -/

/-- **C06_unparsable.**  Code that does not parse (`find_missing_imports` raises SyntaxError): the
    call reports failure and the whole state — every namespace, the failed set, the attempt map, the
    world, the log (no import attempt) — is unchanged; so is everything a surrounding history did. -/
theorem C06_unparsable (U : Univ W) (db : DB) (st : State W) :
    step U db (.code none) st = (.ok false, st) := rfl

theorem C06_unparsable_history (U : Univ W) (db : DB) (cs cs' : List Call) (st : State W) :
    (run U db (cs ++ .code none :: cs') st).2 = (run U db cs' (run U db cs st).2).2 := by
  induction cs generalizing st with
  | nil => rfl
  | cons c cs ih => simp only [List.cons_append, run]; exact ih _

end Pfb.C06

/-! ### Witness: D14 — the full-strength "unbound in every namespace" clause fails on the unchanged code -/

namespace Pfb.C06.Witness
open Pfb.AutoImp

def xml : Name := ['x', 'm', 'l']
def dom : Name := ['d', 'o', 'm']
def minidom : Name := ['m', 'i', 'n', 'i', 'd', 'o', 'm']

/-- a package `xml` with a subpackage `xml.dom` and a module `xml.dom.minidom` -/
def spec : List ModSpec :=
  [⟨[xml], true, .no, [], []⟩, ⟨[xml, dom], true, .no, [], []⟩, ⟨[xml, dom, minidom], false, .no, [['p']], []⟩]

/-- `import xml` has been executed: object 1 is `sys.modules['xml']` -/
def w0 : PyW := (PyW.importChain (PyW.empty spec) [xml]).2

/-- `auto_import("xml.dom.minidom.p", [{'xml': xml}, {}])` -/
def st0 : State PyW := { nss := [[(xml, 1)], []], failed := [], attempted := [], w := w0, log := [] }

def st1 : State PyW := (autoImport pyUniv [] (some [[xml, dom, minidom, ['p']]]) st0).2

/-- the call succeeds, `xml` was bound in the outer namespace only, and afterwards the inner
    (target) namespace binds `xml` too — to the same object, the registry module -/
theorem D14_witness :
    (autoImport pyUniv [] (some [[xml, dom, minidom, ['p']]]) st0).1 = .ok true ∧
    (getNs st0.nss 0).lookup xml = some 1 ∧ (getNs st0.nss 1).lookup xml = none ∧
    (getNs st1.nss 1).lookup xml = some 1 ∧ pyUniv.modOf st1.w [xml] = some 1 := by decide

/-- the negation of the full-strength clause, on the witness -/
theorem C06_only_needed_unbound_everywhere_fails :
    ¬ (∀ (db : DB) (missing : List Dotted) (st : State PyW) (i : Nat) (k : Name) (v : Obj),
        (getNs (autoImport pyUniv db (some missing) st).2.nss i).lookup k = some v →
        (getNs st.nss i).lookup k = none → ∀ j, (getNs st.nss j).lookup k = none) := by
  intro h
  have := h [] [[xml, dom, minidom, ['p']]] st0 1 xml 1 (by decide) (by decide) 0
  revert this
  decide

/-- the hypothesis of `C06_only_needed_unbound_partial` is satisfiable by a stack with bindings:
    here the outer namespace binds `xml` to an object that is NOT the registry module, the call adds
    nothing and reports success (`xml.dom` needs no import under a non-module `xml`). -/
example : (autoImport pyUniv [] (some [[xml, dom]]) { st0 with nss := [[(xml, 0)], []] }).2.nss = [[(xml, 0)], []] := by
  decide

end Pfb.C06.Witness
