/-
  Pfb.Hooks.Model — executable model of pyflyby's interactive hook machinery
  (shared by C13 "the interactive hooks are fail-safe" and C14 "enabling and
  disabling the auto-importer is reversible and idempotent").

  Modelled code (lib/python/pyflyby):
    _util.py         Aspect.advise(once) / Aspect.unadvise                      (385-426)
    _interactive.py  AutoImporter.enable / _enable_internal / _enable_shell_hooks and every
                     _enable_*_hook that applies under IPython 9 with a terminal shell,
                     AutoImporter.disable, AutoImporter._safe_call, AutoImporter._advise,
                     load_ipython_extension / unload_ipython_extension,
                     the bodies of the installed hooks as far as *where* their operations run
                     (inside _safe_call, inside a local try/except, or unprotected)
  Modelled IPython behaviour (trusted, validated by the correspondence check only):
    ExtensionManager.load/unload/reload_extension and its `loaded` set; which attribute each
    hook lives in; `list.remove`.

  Core Lean only.
-/
namespace Pfb.Hooks

/-! ## The shell: joinpoints and hook lists -/

/-- The attributes `_enable_shell_hooks` advises under the installed IPython, in the order
    in which it advises them. -/
inductive JP
  | ofind            -- ip._ofind
  | prun             -- ExecutionMagics._run_with_profiler
  | globalMatches    -- ip.Completer.global_matches
  | attrMatches      -- ip.Completer.attr_matches
  | safeExecfile     -- ip.safe_execfile
  | debugger         -- ip.InteractiveTB.debugger
  | runWithDebugger  -- ExecutionMagics._run_with_debugger
  deriving DecidableEq, Repr, Inhabited

def JP.all : List JP :=
  [.ofind, .prun, .globalMatches, .attrMatches, .safeExecfile, .debugger, .runWithDebugger]

theorem JP.mem_all (j : JP) : j ∈ JP.all := by cases j <;> simp [JP.all]

/-- What sits in the instance-dict slot of a joinpoint.
    `unset`: no entry, the class attribute shows through.
    `ext n`: a value pyflyby did not create.
    `adv id orig`: a wrapper created by `Aspect.advise` (it carries `__aspect__`); `id` stands for
    the object's identity, `orig` is its `__original__`. -/
inductive Val
  | unset
  | ext (n : Nat)
  | adv (id : Nat) (orig : Val)
  deriving DecidableEq, Repr, Inhabited

/-- `getattr(v, "__aspect__", None)` is truthy -/
def Val.hasAspect : Val → Bool
  | .adv _ _ => true
  | _ => false

/-- number of pyflyby wrappers stacked in the value -/
def Val.depth : Val → Nat
  | .adv _ o => o.depth + 1
  | _ => 0

/-- an element of `ip.ast_transformers` / `ip.input_transformers_cleanup` -/
inductive Entry
  | ext (n : Nat)     -- IPython's own or somebody else's
  | pf (id : Nat)     -- created by pyflyby; `id` = object identity
  deriving DecidableEq, Repr, Inhabited

def Entry.isPf : Entry → Bool
  | .pf _ => true
  | _ => false

def Entry.idsBelow (n : Nat) : Entry → Prop
  | .pf i => i < n
  | _ => True

structure Shell where
  jp : JP → Val
  ast : List Entry          -- ip.ast_transformers
  cleanup : List Entry      -- ip.input_transformers_cleanup
  loaded : Bool             -- 'pyflyby' ∈ ip.extension_manager.loaded   (IPython's bookkeeping)
  astObj : Nat := 0         -- identity of the list object currently bound to `ip.ast_transformers`
  cleanupObj : Nat := 0     -- identity of the list object bound to `input_transformer_manager.cleanup_transforms`

def Shell.setJp (sh : Shell) (j : JP) (v : Val) : Shell :=
  { sh with jp := fun j' => if j' = j then v else sh.jp j' }

/-! ## The importer -/

/-- An element of `AutoImporter._disablers`. -/
inductive Disabler
  | unadvise (j : JP) (previous wrapped : Val)   -- bound `Aspect.unadvise` of an aspect with these fields
  | removeAst (id : Nat)        -- `unregister_ast_transformer`: `ip.ast_transformers.remove(t)` on the list bound *now*
  | removeCleanup (id : Nat)    -- D3 repair: `ip.input_transformers_cleanup.remove(f)`, again the current list
  deriving DecidableEq, Repr

inductive EState
  | disabled | enabling | enabled | disabling
  deriving DecidableEq, Repr, Inhabited

structure Importer where
  state : EState
  errored : Bool
  disablers : List Disabler      -- a stack; the top is the last element
  astT : Bool                    -- `self._ast_transformer` is set

def Importer.fresh : Importer := ⟨.disabled, false, [], false⟩

structure St where
  sh : Shell
  ai : Importer
  next : Nat                     -- allocation counter: the model's stand-in for object identity

/-- Which variant of the code, and the one piece of environment the hooks consult. -/
structure Cfg where
  resetDisabler : Bool    -- `_enable_reset_hook` registers a remover (false on the unchanged tree: D3)
  debugHookSafe : Bool    -- `run_with_debugger_with_autoimport` routes its body through `_safe_call` (false: D23)
  redisplayGuard : Bool   -- `InterceptPrintsDuringPromptCtx` copes with a shell without `pt_cli` (false: unchanged tree)
  debug : Bool            -- `logger.debug_enabled`
  deriving DecidableEq, Repr

/-! ## Aspect.advise(once=True) + AutoImporter._advise, Aspect.unadvise -/

/-- `self._advise(joinpoint)(hook)`:
    `aspect = Aspect(joinpoint); if aspect.advise(f, once=True): self._disablers.append(aspect.unadvise)`.
    `_previous = container.get(name, _UNSET)`; `_original` is what `getattr` returned, i.e. the slot's value,
    or the class attribute when the slot is unset (both represented by the slot's `Val`), so the assertion
    `_previous is _UNSET or _previous == _original` cannot fail here. -/
def advise (st : St) (j : JP) : St :=
  let cur := st.sh.jp j
  if cur.hasAspect then st          -- "already advised": returns None, nothing registered
  else
    let w := Val.adv st.next cur
    { sh := st.sh.setJp j w,
      ai := { st.ai with disablers := st.ai.disablers ++ [.unadvise j cur w] },
      next := st.next + 1 }

/-- Effect of calling one disabler on the shell.
    `unadvise`: `cur is self._wrapped` → put `_previous` back (delete the entry if it was unset);
    `cur == self._previous` → nothing; otherwise "seems modified; not unadvising it".
    `remove…`: `list.remove(t)` with the `ValueError` swallowed. -/
def applyD : Disabler → Shell → Shell
  | .unadvise j prev w, sh => if sh.jp j = w then sh.setJp j prev else sh
  | .removeAst i, sh => { sh with ast := sh.ast.erase (.pf i) }
  | .removeCleanup i, sh => { sh with cleanup := sh.cleanup.erase (.pf i) }

def Disabler.isRemoveAst : Disabler → Bool
  | .removeAst _ => true
  | _ => false

/-! ## enable -/

/-- The steps of `_enable_shell_hooks` that do something under the installed IPython.
    (`_enable_initializer_hooks`, `_enable_kernel_manager_hook`: nothing to do for a terminal app whose
    shell exists; `_enable_time_hook`, `_enable_timeit_hook`: return early because the AST transformer is
    set; `_enable_ipython_shell_bugfixes`: empty.) -/
inductive Step
  | reset            -- _enable_reset_hook: append reset_auto_importer_state to input_transformers_cleanup
  | ofind            -- _enable_ofind_hook
  | ast              -- _enable_ast_hook
  | prun             -- _enable_prun_hook
  | completerCheck   -- _enable_completer_hooks up to the use_jedi branch (raises under use_jedi=True, IPython 9)
  | globalMatches
  | attrMatches
  | run              -- _enable_run_hook
  | debuggerTB       -- _enable_debugger_hook, first advice
  | runWithDebugger  -- _enable_debugger_hook, second advice
  deriving DecidableEq, Repr

def enableSteps : List Step :=
  [.reset, .ofind, .ast, .prun, .completerCheck, .globalMatches, .attrMatches, .run, .debuggerTB,
   .runWithDebugger]

def doStep (cfg : Cfg) (st : St) : Step → St
  | .reset =>
    let t := Entry.pf st.next
    { sh := { st.sh with cleanup := st.sh.cleanup ++ [t] },
      ai := if cfg.resetDisabler then { st.ai with disablers := st.ai.disablers ++ [.removeCleanup st.next] }
            else st.ai,
      next := st.next + 1 }
  | .ofind => advise st .ofind
  | .ast =>
    let t := Entry.pf st.next
    { sh := { st.sh with ast := st.sh.ast ++ [t] },
      ai := { st.ai with disablers := st.ai.disablers ++ [.removeAst st.next], astT := true },
      next := st.next + 1 }
  | .prun => advise st .prun
  | .completerCheck => st
  | .globalMatches => advise st .globalMatches
  | .attrMatches => advise st .attrMatches
  | .run => advise st .safeExecfile
  | .debuggerTB => advise st .debugger
  | .runWithDebugger => advise st .runWithDebugger

/-- Run the steps; the step with index `fail` raises before doing anything.
    Returns the state reached and whether an exception is propagating. -/
def runSteps (cfg : Cfg) (fail : Option Nat) : List Step → Nat → St → St × Bool
  | [], _, st => (st, false)
  | s :: rest, i, st =>
    if fail = some i then (st, true)
    else runSteps cfg fail rest (i + 1) (doStep cfg st s)

/-- `AutoImporter.disable`: pop the disablers from the end and call each. -/
def disable (st : St) : St :=
  if st.ai.state = .disabled then st
  else
    { st with
      sh := st.ai.disablers.foldr applyD st.sh,
      ai := { state := .disabled, errored := st.ai.errored, disablers := [],
              astT := if st.ai.disablers.any Disabler.isRemoveAst then false else st.ai.astT } }

/-- `AutoImporter.enable(even_if_previously_errored)`; `fail` = index of the `_enable_*` step that raises,
    if any.  `_safe_call(self._enable_internal)`: on an exception `_errored := True`, `disable()`. -/
def enable (cfg : Cfg) (even : Bool) (fail : Option Nat) (st : St) : St :=
  if st.ai.state ≠ .disabled then st                      -- already enabled / enabling / still disabling
  else if st.ai.errored && !even then st                   -- "Not reattempting to enable auto importer"
  else
    let st1 : St := { st with ai := { st.ai with errored := false, state := .enabling } }
    let (st2, failed) := runSteps cfg fail enableSteps 0 st1
    if failed then
      disable { st2 with ai := { st2.ai with errored := true } }
    else
      { st2 with ai := { st2.ai with state := .enabled } }

/-! ## IPython's extension manager around load/unload_ipython_extension -/

def loadExt (cfg : Cfg) (fail : Option Nat) (st : St) : St :=
  if st.sh.loaded then st                                  -- "already loaded"
  else
    let st1 := enable cfg true fail st
    { st1 with sh := { st1.sh with loaded := true } }

def unloadExt (st : St) : St :=
  if !st.sh.loaded then st                                 -- "not loaded"
  else
    let st1 := disable st
    { st1 with sh := { st1.sh with loaded := false } }

def reloadExt (cfg : Cfg) (fail : Option Nat) (st : St) : St :=
  if st.sh.loaded then
    let st1 := unloadExt st
    let st2 := enable cfg true fail st1
    { st2 with sh := { st2.sh with loaded := true } }
  else loadExt cfg fail st

/-! ## The installed hooks at run time -/

inductive HookId
  | ofind | astVisit | prun | globalMatches | attrMatches | safeExecfile | debuggerTB | runWithDebugger
  | resetCleanup
  deriving DecidableEq, Repr

/-- The operations a hook body can perform (the five of the property's quantifier; scope analysis raising
    `SyntaxError` is kept apart because `auto_import` treats it as the user's syntax error; plus the prompt
    redisplay that `AutoImporter.complete_symbol` does after something was logged).
    `dbLoad` includes parsing the database files; `parse` is the parse of the user's code / script. -/
inductive OpKind
  | dbLoad | parse | scan | scanSyntax | importExec | completion | redisplay
  deriving DecidableEq, Repr

/-- Where an operation of a hook runs. -/
inductive Prot
  | na           -- the hook does not perform it
  | safe         -- inside `_safe_call`
  | localOrig    -- inside a local `try/except Exception` after which the hook goes on to `__original__`
  | localEmpty   -- inside a local `try/except Exception` that makes the hook return its own empty result
  | none         -- unprotected: an exception propagates to IPython
  deriving DecidableEq, Repr

def isCompleter : HookId → Bool
  | .globalMatches | .attrMatches => true
  | _ => false

/-- The protection table, read off the hook bodies (validated against the code by fault injection). -/
def prot (cfg : Cfg) : HookId → OpKind → Prot
  -- ofind / ast transformer / %prun: `self.auto_import(...)` = `_safe_call(auto_import, ...)`;
  -- `auto_import` catches the scan's SyntaxError, `_try_import` the import's own exception
  | .ofind, .dbLoad | .astVisit, .dbLoad | .prun, .dbLoad => .safe
  | .ofind, .scan | .astVisit, .scan | .prun, .scan => .safe
  | .ofind, .scanSyntax | .astVisit, .scanSyntax | .prun, .scanSyntax => .localOrig
  | .ofind, .importExec | .astVisit, .importExec | .prun, .importExec => .localOrig
  | .ofind, _ | .astVisit, _ | .prun, _ => .na
  -- completers: `_safe_call(complete_symbol, ..., on_error=__original__)`; for a dotted name the parent is
  -- evaluated by `auto_eval` inside `try/except Exception: return []` (IPython passes dotted text to
  -- global_matches as well)
  | .globalMatches, .dbLoad | .globalMatches, .completion => .safe
  | .attrMatches, .dbLoad | .attrMatches, .completion => .safe
  | .globalMatches, .redisplay | .attrMatches, .redisplay => if cfg.redisplayGuard then .na else .none
  | .globalMatches, _ | .attrMatches, _ => .localEmpty
  -- %run: PythonBlock(...) inside try/except Exception: logger.error; auto_import via _safe_call
  | .safeExecfile, .parse => .localOrig
  | .safeExecfile, .dbLoad | .safeExecfile, .scan => .safe
  | .safeExecfile, .scanSyntax | .safeExecfile, .importExec => .localOrig
  | .safeExecfile, _ => .na
  -- postmortem %debug: only installs Pdb advice
  | .debuggerTB, _ => .na
  -- %debug <statement>: ImportDB.get_default / auto_import called directly
  | .runWithDebugger, .dbLoad | .runWithDebugger, .scan =>
      if cfg.debugHookSafe then .safe else .none
  | .runWithDebugger, .scanSyntax | .runWithDebugger, .importExec => .localOrig
  | .runWithDebugger, _ => .na
  | .resetCleanup, _ => .na

/-- `raise_on_error` passed to `_safe_call`: the AST transformer passes `False`, the others "if_debug". -/
def raisesInDebug : HookId → Bool
  | .astVisit => false
  | _ => true

/-- is the hook currently reachable from IPython? -/
def installed (sh : Shell) : HookId → Bool
  | .ofind => (sh.jp .ofind).hasAspect
  | .prun => (sh.jp .prun).hasAspect
  | .globalMatches => (sh.jp .globalMatches).hasAspect
  | .attrMatches => (sh.jp .attrMatches).hasAspect
  | .safeExecfile => (sh.jp .safeExecfile).hasAspect
  | .debuggerTB => (sh.jp .debugger).hasAspect
  | .runWithDebugger => (sh.jp .runWithDebugger).hasAspect
  | .astVisit => sh.ast.any Entry.isPf
  | .resetCleanup => sh.cleanup.any Entry.isPf

/-- outcome of the hook's pyflyby part: everything works, or operation `k` raises an `Exception` -/
inductive Outcome
  | ok
  | raises (k : OpKind)
  deriving DecidableEq, Repr

/-- what IPython receives from the patched attribute -/
inductive Delivered
  | original     -- the value / behaviour of the un-patched attribute (`__original__(args)`, `on_error(args)`, the node)
  | pyflyby      -- pyflyby's own result (completion candidates)
  | exception    -- an exception raised inside pyflyby's code
  deriving DecidableEq, Repr

structure Invocation where
  st : St
  delivered : Delivered
  work : Bool          -- pyflyby code beyond the `_errored` short-circuit was executed

def ownResult : HookId → Delivered
  | .globalMatches | .attrMatches => .pyflyby
  | _ => .original

/-- does the hook run its pyflyby part through `_safe_call`? -/
def viaSafe (cfg : Cfg) (h : HookId) : Bool := h ≠ .runWithDebugger || cfg.debugHookSafe

/-- the hook's pyflyby part is executed and operation `k` raises -/
def raiseIn (cfg : Cfg) (st : St) (h : HookId) (k : OpKind) : Invocation :=
  match prot cfg h k with
  | .na => ⟨st, ownResult h, true⟩                         -- cannot raise where nothing is done
  | .safe =>
    -- `_safe_call` logs the error; inside a completer that makes the prompt redisplay run on exit
    ⟨disable { st with ai := { st.ai with errored := true } },
     if cfg.debug && raisesInDebug h then .exception
     else if isCompleter h && !cfg.redisplayGuard then .exception
     else .original, true⟩
  | .localOrig => ⟨st, ownResult h, true⟩
  | .localEmpty => ⟨st, .pyflyby, true⟩
  | .none => ⟨st, .exception, true⟩

/-- IPython calls the attribute a hook lives in. -/
def invoke (cfg : Cfg) (st : St) (h : HookId) (o : Outcome) : Invocation :=
  if !installed st.sh h then ⟨st, .original, false⟩
  else if h = .resetCleanup then ⟨st, .original, true⟩          -- resets a dict; nothing can fail
  else if h = .debuggerTB then ⟨st, .original, true⟩
  else if viaSafe cfg h && st.ai.errored then ⟨st, .original, false⟩   -- `_safe_call` short-circuit → on_error / None
  else
    match o with
    | .ok => ⟨st, ownResult h, true⟩
    | .raises k => raiseIn cfg st h k

/-! ## Operations and runs -/

/-- What a third party (another extension, `%config`, the user) may do to IPython's hook registries while
    pyflyby is installed.  Rebinding gives the attribute a *new list object* with the same content;
    the model's lists are the contents of whatever object is bound now. -/
inductive Foreign
  | rebindAst                 -- ip.ast_transformers = list(ip.ast_transformers)
  | rebindCleanup             -- itm.cleanup_transforms = list(itm.cleanup_transforms)
  | addAst (n : Nat)          -- ip.ast_transformers.append(<foreign n>)
  | rmAst (n : Nat)           -- remove foreign entry n (nothing if absent)
  | addCleanup (n : Nat)
  | rmCleanup (n : Nat)
  | other                     -- registries pyflyby does not use (input_transformers_post, matchers, set_hook)
  -- steps that take pyflyby's own entries away (a reset of the list, an over-eager clean-up):
  | clearAst                  -- del ip.ast_transformers[:]
  | dropPfAst                 -- ip.ast_transformers = [t for t in ip.ast_transformers if <not pyflyby's>]
  | dropPfCleanup             -- the same, in place, on the cleanup transformers
  deriving DecidableEq, Repr

/-- does the step take pyflyby's own entries out of a hook list? -/
def Foreign.removesPf : Foreign → Bool
  | .clearAst | .dropPfAst | .dropPfCleanup => true
  | _ => false

def applyForeign : Foreign → Shell → Shell
  | .rebindAst, sh => { sh with astObj := sh.astObj + 1 }
  | .rebindCleanup, sh => { sh with cleanupObj := sh.cleanupObj + 1 }
  | .addAst n, sh => { sh with ast := sh.ast ++ [.ext n] }
  | .rmAst n, sh => { sh with ast := sh.ast.erase (.ext n) }
  | .addCleanup n, sh => { sh with cleanup := sh.cleanup ++ [.ext n] }
  | .rmCleanup n, sh => { sh with cleanup := sh.cleanup.erase (.ext n) }
  | .other, sh => sh
  | .clearAst, sh => { sh with ast := [] }
  | .dropPfAst, sh => { sh with ast := sh.ast.filter (fun e => !e.isPf), astObj := sh.astObj + 1 }
  | .dropPfCleanup, sh => { sh with cleanup := sh.cleanup.filter (fun e => !e.isPf) }

inductive Op
  | foreign (f : Foreign)
  | enable (even : Bool) (fail : Option Nat)
  | disable
  | loadExt (fail : Option Nat)
  | unloadExt
  | reloadExt (fail : Option Nat)
  | invoke (h : HookId) (o : Outcome)
  | freshImporter        -- embedded shells only: the API call reaches a brand-new AutoImporter
  deriving DecidableEq, Repr

def step (cfg : Cfg) (st : St) : Op → St
  | .foreign f => { st with sh := applyForeign f st.sh }
  | .enable even fail => enable cfg even fail st
  | .disable => disable st
  | .loadExt fail => loadExt cfg fail st
  | .unloadExt => unloadExt st
  | .reloadExt fail => reloadExt cfg fail st
  | .invoke h o => (invoke cfg st h o).st
  | .freshImporter => { st with ai := Importer.fresh }

def run (cfg : Cfg) (st : St) (ops : List Op) : St := ops.foldl (step cfg) st

def Op.isFresh : Op → Bool
  | .freshImporter => true
  | _ => false

def Op.isForeign : Op → Bool
  | .foreign _ => true
  | _ => false

def Op.removesPf : Op → Bool
  | .foreign f => f.removesPf
  | _ => false

/-- neither an embedded-shell importer swap nor a third-party step -/
def Op.notPlain (op : Op) : Bool := op.isFresh || op.isForeign

/-- states after each op -/
def trace (cfg : Cfg) : St → List Op → List St
  | _, [] => []
  | st, o :: os => let st' := step cfg st o; st' :: trace cfg st' os

/-! ## Measures and the two-state reference machine -/

def count (p : α → Bool) (l : List α) : Nat := (l.filter p).length

/-- what the property calls residue: wrappers on joinpoints, entries in the hook lists, registered disablers -/
def size (st : St) : Nat :=
  (JP.all.map fun j => (st.sh.jp j).depth).sum + st.sh.ast.length + st.sh.cleanup.length
    + st.ai.disablers.length

/-- a cell that reads a known name is auto-imported iff pyflyby's AST transformer is in place and the
    importer has not errored -/
def cellAutoImports (st : St) : Bool := installed st.sh .astVisit && !st.ai.errored

structure Ref where
  enabled : Bool
  loaded : Bool
  errored : Bool
  deriving DecidableEq, Repr

def refEnable (even : Bool) (fail : Option Nat) (r : Ref) : Ref :=
  if r.enabled then r
  else if r.errored && !even then r
  else match fail with
    | some i => if i < enableSteps.length then { r with errored := true } else { r with enabled := true, errored := false }
    | none => { r with enabled := true, errored := false }

def refStep (cfg : Cfg) (r : Ref) : Op → Ref
  | .enable even fail => refEnable even fail r
  | .disable => { r with enabled := false }
  | .loadExt fail => if r.loaded then r else { refEnable true fail r with loaded := true }
  | .unloadExt => if r.loaded then { r with enabled := false, loaded := false } else r
  | .reloadExt fail =>
      if r.loaded then { refEnable true fail { r with enabled := false } with loaded := true }
      else { refEnable true fail r with loaded := true }
  | .invoke h (.raises k) =>
      if r.enabled && !r.errored && prot cfg h k = .safe then { r with enabled := false, errored := true } else r
  | .invoke _ .ok => r
  | .freshImporter => r
  | .foreign _ => r

def abs (st : St) : Ref := ⟨st.ai.state = .enabled, st.sh.loaded, st.ai.errored⟩

/-! ## Initial states -/

/-- a shell pyflyby has not touched, with IPython's four cleanup transformers -/
def Shell.plain : Shell := ⟨fun _ => .unset, [], [.ext 0, .ext 1, .ext 2, .ext 3], false, 0, 0⟩

def St.init : St := ⟨Shell.plain, Importer.fresh, 0⟩

def Cfg.unchanged : Cfg := ⟨false, false, false, false⟩
def Cfg.repaired : Cfg := ⟨true, true, true, false⟩

end Pfb.Hooks
