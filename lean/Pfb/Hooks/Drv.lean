/-
  Pfb.Hooks.Drv — JSON glue between the harness (c13.py / c14.py) and Pfb.Hooks.Model.
  Trusted base, not model.

  request  {"op":"trace","cfg":{"resetDisabler":b,"debugHookSafe":b,"redisplayGuard":b,"debug":b},
            "ops":[["enable",even,fail|null] | ["disable"] | ["loadExt",fail|null] | ["unloadExt"]
                   | ["reloadExt",fail|null] | ["invoke",hook,"ok"|opkind] | ["fresh"]
                   | ["foreign","rebindAst"|"rebindCleanup"|"other"] | ["foreign","addAst"|"rmAst"|"addCleanup"|"rmCleanup",n]]}
  response {"steps":[{state,errored,ndis,astT,loaded,jp:[[depth,id|null]…7],ast:[…],cleanup:[…],
                      delivered|null,work|null,auto,size,ref:{enabled,loaded,errored},refok}…]}
-/
import Pfb.DriverUtil
import Pfb.Hooks.Model
import Pfb.Hooks.PreInit
namespace Pfb.Hooks.Drv
open Lean Pfb.Drv Pfb.Hooks

def optNat (j : Json) : Except String (Option Nat) :=
  match j with
  | .null => pure none
  | v => do let n ← v.getNat?; pure (some n)

def hookOf : String → Except String HookId
  | "ofind" => pure .ofind | "astVisit" => pure .astVisit | "prun" => pure .prun
  | "globalMatches" => pure .globalMatches | "attrMatches" => pure .attrMatches
  | "safeExecfile" => pure .safeExecfile | "debuggerTB" => pure .debuggerTB
  | "runWithDebugger" => pure .runWithDebugger | "resetCleanup" => pure .resetCleanup
  | s => throw s!"hook {s}"

def outcomeOf : String → Except String Outcome
  | "ok" => pure .ok
  | "dbLoad" => pure (.raises .dbLoad) | "parse" => pure (.raises .parse) | "scan" => pure (.raises .scan)
  | "scanSyntax" => pure (.raises .scanSyntax)
  | "importExec" => pure (.raises .importExec) | "completion" => pure (.raises .completion)
  | "redisplay" => pure (.raises .redisplay)
  | s => throw s!"outcome {s}"

def opOf (j : Json) : Except String Op := do
  let a ← j.getArr?
  let nm ← (a[0]!).getStr?
  match nm with
  | "enable" => pure (.enable (← (a[1]!).getBool?) (← optNat (a[2]!)))
  | "disable" => pure .disable
  | "loadExt" => pure (.loadExt (← optNat (a[1]!)))
  | "unloadExt" => pure .unloadExt
  | "reloadExt" => pure (.reloadExt (← optNat (a[1]!)))
  | "invoke" => pure (.invoke (← hookOf (← (a[1]!).getStr?)) (← outcomeOf (← (a[2]!).getStr?)))
  | "fresh" => pure .freshImporter
  | "foreign" =>
    let k ← (a[1]!).getStr?
    match k with
    | "rebindAst" => pure (.foreign .rebindAst)
    | "rebindCleanup" => pure (.foreign .rebindCleanup)
    | "addAst" => pure (.foreign (.addAst (← (a[2]!).getNat?)))
    | "rmAst" => pure (.foreign (.rmAst (← (a[2]!).getNat?)))
    | "addCleanup" => pure (.foreign (.addCleanup (← (a[2]!).getNat?)))
    | "rmCleanup" => pure (.foreign (.rmCleanup (← (a[2]!).getNat?)))
    | "other" => pure (.foreign .other)
    | "clearAst" => pure (.foreign .clearAst)
    | "dropPfAst" => pure (.foreign .dropPfAst)
    | "dropPfCleanup" => pure (.foreign .dropPfCleanup)
    | s => throw s!"foreign {s}"
  | s => throw s!"op {s}"

def cfgOf (j : Json) : Except String Cfg := do
  pure ⟨← jbool j "resetDisabler", ← jbool j "debugHookSafe", ← jbool j "redisplayGuard", ← jbool j "debug"⟩

def stateJ : EState → Json
  | .disabled => "DISABLED" | .enabling => "ENABLING" | .enabled => "ENABLED" | .disabling => "DISABLING"

def valJ (v : Val) : Json :=
  match v with
  | .unset => Json.arr #[natJ 0, Json.null, "unset"]
  | .ext _ => Json.arr #[natJ 0, Json.null, "ext"]
  | .adv i _ => Json.arr #[natJ v.depth, natJ i, "adv"]

def entryJ : Entry → Json
  | .ext n => Json.arr #["ext", natJ n]
  | .pf i => Json.arr #["pf", natJ i]

def deliveredJ : Delivered → Json
  | .original => "original" | .pyflyby => "pyflyby" | .exception => "exception"

def refJ (r : Ref) : Json :=
  Json.mkObj [("enabled", Json.bool r.enabled), ("loaded", Json.bool r.loaded), ("errored", Json.bool r.errored)]

def viewJ (st : St) (inv : Option Invocation) (r : Ref) : Json :=
  Json.mkObj [
    ("state", stateJ st.ai.state), ("errored", Json.bool st.ai.errored),
    ("ndis", natJ st.ai.disablers.length), ("astT", Json.bool st.ai.astT),
    ("loaded", Json.bool st.sh.loaded),
    ("jp", Json.arr (JP.all.map fun j => valJ (st.sh.jp j)).toArray),
    ("ast", Json.arr (st.sh.ast.map entryJ).toArray),
    ("cleanup", Json.arr (st.sh.cleanup.map entryJ).toArray),
    ("astObj", natJ st.sh.astObj), ("cleanupObj", natJ st.sh.cleanupObj),
    ("delivered", match inv with | some i => deliveredJ i.delivered | none => Json.null),
    ("work", match inv with | some i => Json.bool i.work | none => Json.null),
    ("auto", Json.bool (cellAutoImports st)),
    ("size", natJ (size st)),
    ("ref", refJ r),
    ("refok", Json.bool (decide (abs st = r)))]

def traceJ (cfg : Cfg) : St → Ref → List Op → List Json
  | _, _, [] => []
  | st, r, o :: os =>
    let inv := match o with
      | .invoke h oc => some (invoke cfg st h oc)
      | _ => none
    let st' := step cfg st o
    let r' := refStep cfg r o
    viewJ st' inv r' :: traceJ cfg st' r' os

/-- ops of the application-level model (enable-before-initialize path):
    ["preEnable",even] | ["preDisable"] | ["initialize",fail|null] | any op of `opOf` (after initialisation) -/
def aopOf (j : Json) : Except String AOp := do
  let a ← j.getArr?
  let nm ← (a[0]!).getStr?
  match nm with
  | "preEnable" => pure (.preEnable (← (a[1]!).getBool?))
  | "preDisable" => pure .disable
  | "initialize" => pure (.init (← optNat (a[1]!)))
  | _ => pure (.sh (← opOf j))

def viewAJ (cfg : Cfg) (a0 a : App) (o : AOp) : Json :=
  let inv := match o with
    | .sh (.invoke h oc) => some (invoke cfg a0.st h oc)
    | _ => none
  (viewJ a.st inv (abs a.st)).mergeObj (Json.mkObj [
    ("ndis", natJ a.ndis),
    ("inited", Json.bool a.inited),
    ("ajp", Json.arr #[valJ a.initShell, valJ a.initSub]),
    ("pending", Json.bool (absA a).pending)])

def traceAJ (cfg : Cfg) : App → List AOp → List Json
  | _, [] => []
  | a, o :: os =>
    let a' := stepA cfg a o
    viewAJ cfg a a' o :: traceAJ cfg a' os

def handle (j : Json) : Except String Json := do
  let op ← jstr j "op"
  match op with
  | "trace" =>
    let cfg ← cfgOf (← jobj j "cfg")
    let ops ← (← jarr j "ops").toList.mapM opOf
    pure (Json.mkObj [("steps", Json.arr (traceJ cfg St.init (abs St.init) ops).toArray)])
  | "traceApp" =>
    let cfg ← cfgOf (← jobj j "cfg")
    let ops ← (← jarr j "ops").toList.mapM aopOf
    pure (Json.mkObj [("steps", Json.arr (traceAJ cfg App.init ops).toArray)])
  | "prot" =>
    let cfg ← cfgOf (← jobj j "cfg")
    let h ← hookOf (← jstr j "hook")
    let k ← outcomeOf (← jstr j "kind")
    let p := match k with
      | .ok => "ok"
      | .raises k => match prot cfg h k with
        | .na => "na" | .safe => "safe" | .localOrig => "localOrig" | .localEmpty => "localEmpty" | .none => "none"
    pure (Json.mkObj [("prot", p)])
  | _ => throw s!"unknown op {op}"

end Pfb.Hooks.Drv
