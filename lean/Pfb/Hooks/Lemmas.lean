/-
  Pfb.Hooks.Lemmas — facts about the hook-machinery model used by the C13 and C14 theorems.

  Core of the argument: every `_enable_*` step registers disablers that undo exactly what the step
  did (`doStep_rel`); because `disable` pops them in reverse, any prefix of the steps followed by
  `disable` returns the shell to where it was (`runSteps_rel`) — for every index at which a step
  may raise.
-/
import Pfb.Hooks.Model
namespace Pfb.Hooks

/-! ### small facts -/

theorem Shell.setJp_jp_self (sh : Shell) (j : JP) (v : Val) : (sh.setJp j v).jp j = v := by
  simp [Shell.setJp]

theorem Shell.setJp_jp_ne (sh : Shell) (j j' : JP) (v : Val) (h : j' ≠ j) :
    (sh.setJp j v).jp j' = sh.jp j' := by
  simp [Shell.setJp, h]

theorem Shell.setJp_restore (sh : Shell) (j : JP) (w : Val) :
    (sh.setJp j w).setJp j (sh.jp j) = sh := by
  cases sh with
  | mk jp ast cleanup loaded ao co =>
    simp only [Shell.setJp]
    congr
    funext j'
    by_cases h : j' = j
    · simp [h]
    · simp [h]

theorem erase_append_singleton {α} [DecidableEq α] (l : List α) (t : α) (h : t ∉ l) :
    (l ++ [t]).erase t = l := by
  rw [List.erase_append_right _ h]
  simp

/-- the list entries carry identities allocated before `n` -/
def FreshL (n : Nat) (sh : Shell) : Prop :=
  (∀ e ∈ sh.ast, e.idsBelow n) ∧ (∀ e ∈ sh.cleanup, e.idsBelow n)

theorem pf_not_mem_of_fresh {n : Nat} {l : List Entry} (h : ∀ e ∈ l, e.idsBelow n) :
    Entry.pf n ∉ l := by
  intro hm
  have := h _ hm
  simp [Entry.idsBelow] at this

theorem Entry.idsBelow_mono {e : Entry} {n m : Nat} (h : e.idsBelow n) (hnm : n ≤ m) : e.idsBelow m := by
  cases e with
  | ext k => trivial
  | pf i => simp [Entry.idsBelow] at *; omega

theorem FreshL.mono {n m : Nat} {sh : Shell} (h : FreshL n sh) (hnm : n ≤ m) : FreshL m sh :=
  ⟨fun e he => Entry.idsBelow_mono (h.1 e he) hnm, fun e he => Entry.idsBelow_mono (h.2 e he) hnm⟩

/-! ### one step and its disablers -/

/-- `r` is `st` after some steps that registered `new`; running `new` in reverse on `r`'s shell gives
    `st`'s shell back. -/
structure StepRel (st r : St) (new : List Disabler) : Prop where
  dis : r.ai.disablers = st.ai.disablers ++ new
  undo : new.foldr applyD r.sh = st.sh
  fresh : FreshL r.next r.sh
  mono : st.next ≤ r.next
  state : r.ai.state = st.ai.state
  errored : r.ai.errored = st.ai.errored

theorem StepRel.refl (st : St) (hf : FreshL st.next st.sh) : StepRel st st [] :=
  ⟨by simp, rfl, hf, Nat.le_refl _, rfl, rfl⟩

theorem StepRel.trans {a b c : St} {n1 n2 : List Disabler} (h1 : StepRel a b n1) (h2 : StepRel b c n2) :
    StepRel a c (n1 ++ n2) := by
  refine ⟨?_, ?_, h2.fresh, Nat.le_trans h1.mono h2.mono, h2.state.trans h1.state,
    h2.errored.trans h1.errored⟩
  · rw [h2.dis, h1.dis, List.append_assoc]
  · rw [List.foldr_append, h2.undo, h1.undo]

theorem advise_eq_of_noAspect (st : St) (j : JP) (h : (st.sh.jp j).hasAspect = false) :
    advise st j =
      { sh := st.sh.setJp j (.adv st.next (st.sh.jp j)),
        ai := { st.ai with disablers := st.ai.disablers ++ [.unadvise j (st.sh.jp j) (.adv st.next (st.sh.jp j))] },
        next := st.next + 1 } := by
  simp [advise, h]

theorem advise_eq_of_aspect (st : St) (j : JP) (h : (st.sh.jp j).hasAspect = true) : advise st j = st := by
  simp [advise, h]

theorem advise_rel (st : St) (j : JP) (hf : FreshL st.next st.sh) : ∃ new, StepRel st (advise st j) new := by
  cases h : (st.sh.jp j).hasAspect with
  | true =>
    rw [advise_eq_of_aspect st j h]
    exact ⟨[], StepRel.refl st hf⟩
  | false =>
    rw [advise_eq_of_noAspect st j h]
    refine ⟨[.unadvise j (st.sh.jp j) (.adv st.next (st.sh.jp j))], ⟨rfl, ?_, ?_, Nat.le_succ _, rfl, rfl⟩⟩
    · simp only [List.foldr_cons, List.foldr_nil, applyD, Shell.setJp_jp_self, if_true]
      exact Shell.setJp_restore _ _ _
    · exact FreshL.mono (sh := st.sh.setJp j _) (by simpa [FreshL, Shell.setJp] using hf) (Nat.le_succ _)

theorem doStep_rel (cfg : Cfg) (st : St) (s : Step) (hf : FreshL st.next st.sh)
    (hs : cfg.resetDisabler = true ∨ s ≠ .reset) : ∃ new, StepRel st (doStep cfg st s) new := by
  cases s with
  | reset =>
    have hr : cfg.resetDisabler = true := by
      cases hs with
      | inl h => exact h
      | inr h => exact absurd rfl h
    refine ⟨[.removeCleanup st.next], ⟨?_, ?_, ?_, Nat.le_succ _, ?_, ?_⟩⟩
    · simp [doStep, hr]
    · simp only [doStep, List.foldr_cons, List.foldr_nil, applyD]
      rw [erase_append_singleton _ _ (pf_not_mem_of_fresh hf.2)]
    · refine ⟨fun e he => Entry.idsBelow_mono (hf.1 e he) (Nat.le_succ _), ?_⟩
      intro e he
      simp only [doStep, List.mem_append, List.mem_singleton] at he
      cases he with
      | inl h => exact Entry.idsBelow_mono (hf.2 e h) (Nat.le_succ _)
      | inr h => subst h; simp [Entry.idsBelow, doStep]
    · simp [doStep, hr]
    · simp [doStep, hr]
  | ast =>
    refine ⟨[.removeAst st.next], ⟨rfl, ?_, ?_, Nat.le_succ _, rfl, rfl⟩⟩
    · simp only [doStep, List.foldr_cons, List.foldr_nil, applyD]
      rw [erase_append_singleton _ _ (pf_not_mem_of_fresh hf.1)]
    · refine ⟨?_, fun e he => Entry.idsBelow_mono (hf.2 e he) (Nat.le_succ _)⟩
      intro e he
      simp only [doStep, List.mem_append, List.mem_singleton] at he
      cases he with
      | inl h => exact Entry.idsBelow_mono (hf.1 e h) (Nat.le_succ _)
      | inr h => subst h; simp [Entry.idsBelow, doStep]
  | completerCheck => exact ⟨[], StepRel.refl st hf⟩
  | ofind => exact advise_rel st _ hf
  | prun => exact advise_rel st _ hf
  | globalMatches => exact advise_rel st _ hf
  | attrMatches => exact advise_rel st _ hf
  | run => exact advise_rel st _ hf
  | debuggerTB => exact advise_rel st _ hf
  | runWithDebugger => exact advise_rel st _ hf

theorem runSteps_rel (cfg : Cfg) (fail : Option Nat) :
    ∀ (steps : List Step) (i : Nat) (st : St), FreshL st.next st.sh →
      (cfg.resetDisabler = true ∨ ∀ s ∈ steps, s ≠ .reset) →
      ∃ new, StepRel st (runSteps cfg fail steps i st).1 new := by
  intro steps
  induction steps with
  | nil => intro i st hf _; exact ⟨[], StepRel.refl st hf⟩
  | cons s rest ih =>
    intro i st hf hs
    unfold runSteps
    by_cases hfail : fail = some i
    · simp only [hfail, if_true]
      exact ⟨[], StepRel.refl st hf⟩
    · simp only [hfail, if_false]
      have hs1 : cfg.resetDisabler = true ∨ s ≠ .reset := by
        cases hs with
        | inl h => exact Or.inl h
        | inr h => exact Or.inr (h s (List.mem_cons_self))
      have hs2 : cfg.resetDisabler = true ∨ ∀ s' ∈ rest, s' ≠ .reset := by
        cases hs with
        | inl h => exact Or.inl h
        | inr h => exact Or.inr (fun s' hs' => h s' (List.mem_cons_of_mem _ hs'))
      obtain ⟨n1, r1⟩ := doStep_rel cfg st s hf hs1
      obtain ⟨n2, r2⟩ := ih (i + 1) (doStep cfg st s) r1.fresh hs2
      exact ⟨n1 ++ n2, r1.trans r2⟩

/-- whether some step raised -/
theorem runSteps_failed (cfg : Cfg) (fail : Option Nat) :
    ∀ (steps : List Step) (i : Nat) (st : St),
      (runSteps cfg fail steps i st).2 = true ↔ ∃ k, fail = some k ∧ i ≤ k ∧ k < i + steps.length := by
  intro steps
  induction steps with
  | nil => intro i st; simp [runSteps]
  | cons s rest ih =>
    intro i st
    unfold runSteps
    by_cases hfail : fail = some i
    · simp only [hfail, if_true, true_iff]
      exact ⟨i, rfl, Nat.le_refl _, by simp⟩
    · simp only [hfail, if_false]
      rw [ih]
      constructor
      · rintro ⟨k, hk, h1, h2⟩
        exact ⟨k, hk, by omega, by simp; omega⟩
      · rintro ⟨k, hk, h1, h2⟩
        refine ⟨k, hk, ?_, by simp at h2; omega⟩
        rcases Nat.lt_or_ge i k with h | h
        · omega
        · have : k = i := by omega
          subst this; exact absurd hk hfail

/-! ### a complete enable, explicitly -/

def JP.idx : JP → Nat
  | .ofind => 1 | .prun => 3 | .globalMatches => 4 | .attrMatches => 5 | .safeExecfile => 6
  | .debugger => 7 | .runWithDebugger => 8

def unadv (st : St) (j : JP) : Disabler := .unadvise j (st.sh.jp j) (.adv (st.next + j.idx) (st.sh.jp j))

/-- the state a complete `_enable_internal` produces from `st` -/
def enabledSt (cfg : Cfg) (st : St) : St :=
  { sh := { st.sh with
            jp := fun j => .adv (st.next + j.idx) (st.sh.jp j),
            ast := st.sh.ast ++ [.pf (st.next + 2)],
            cleanup := st.sh.cleanup ++ [.pf st.next] },
    ai := { state := st.ai.state, errored := st.ai.errored,
            disablers := st.ai.disablers ++ (if cfg.resetDisabler then [.removeCleanup st.next] else [])
              ++ [unadv st .ofind, .removeAst (st.next + 2), unadv st .prun, unadv st .globalMatches,
                  unadv st .attrMatches, unadv st .safeExecfile, unadv st .debugger, unadv st .runWithDebugger],
            astT := true },
    next := st.next + 9 }

theorem runSteps_full (cfg : Cfg) (st : St) (h : ∀ j, (st.sh.jp j).hasAspect = false) :
    runSteps cfg none enableSteps 0 st = (enabledSt cfg st, false) := by
  simp only [enableSteps, runSteps, doStep, reduceCtorEq, if_false]
  simp only [advise, Shell.setJp, h, reduceCtorEq, if_false, Bool.false_eq_true]
  simp only [enabledSt, unadv, JP.idx, Prod.mk.injEq, and_true]
  cases hr : cfg.resetDisabler <;> simp [Nat.add_assoc] <;> (funext j; cases j <;> simp)

/-- what `disable` leaves of a shell after one complete enable: the shell itself, plus — on the unchanged
    tree — the reset transformer nobody removes -/
def afterCycle (cfg : Cfg) (st : St) : Shell :=
  if cfg.resetDisabler then st.sh else { st.sh with cleanup := st.sh.cleanup ++ [.pf st.next] }

theorem undo_enabledSt (cfg : Cfg) (st : St) (hf : FreshL st.next st.sh) (hd : st.ai.disablers = []) :
    (enabledSt cfg st).ai.disablers.foldr applyD (enabledSt cfg st).sh = afterCycle cfg st := by
  have h1 : Entry.pf st.next ∉ st.sh.cleanup := pf_not_mem_of_fresh hf.2
  have h2 : Entry.pf (st.next + 2) ∉ st.sh.ast :=
    pf_not_mem_of_fresh (fun e he => Entry.idsBelow_mono (hf.1 e he) (Nat.le_add_right _ _))
  cases hr : cfg.resetDisabler <;>
    simp [enabledSt, afterCycle, hd, hr, unadv, applyD, Shell.setJp, JP.idx,
      erase_append_singleton _ _ h1, erase_append_singleton _ _ h2] <;>
    (cases st.sh; simp; funext j; cases j <;> simp)

theorem applyD_loaded (d : Disabler) (sh : Shell) : (applyD d sh).loaded = sh.loaded := by
  cases d <;> simp [applyD, Shell.setJp] <;> split <;> rfl

theorem foldr_applyD_loaded (ds : List Disabler) (sh : Shell) : (ds.foldr applyD sh).loaded = sh.loaded := by
  induction ds with
  | nil => rfl
  | cons d ds ih => simp only [List.foldr_cons, applyD_loaded, ih]

/-! ### the invariant of every reachable state -/

/-- what `disable` would make of the shell -/
def undo (st : St) : Shell := st.ai.disablers.foldr applyD st.sh

/-- a shell whose joinpoints and AST transformer list pyflyby has not touched -/
structure Clean (b : Shell) : Prop where
  jp : ∀ j, (b.jp j).hasAspect = false
  ast : ∀ e ∈ b.ast, e.isPf = false

/-- `a` is `b` up to reset transformers appended to the cleanup list — none with the D3 repair.
    (`loaded` is IPython's own flag and is not compared.) -/
structure Leaks (cfg : Cfg) (b a : Shell) : Prop where
  jp : a.jp = b.jp
  ast : a.ast = b.ast
  cleanup : ∃ leak, a.cleanup = b.cleanup ++ leak ∧ (∀ e ∈ leak, e.isPf = true) ∧
    (cfg.resetDisabler = true → leak = [])

theorem Leaks.refl (cfg : Cfg) (b : Shell) : Leaks cfg b b :=
  ⟨rfl, rfl, [], by simp, by simp, fun _ => rfl⟩

theorem Leaks.trans {cfg : Cfg} {a b c : Shell} (h1 : Leaks cfg a b) (h2 : Leaks cfg b c) : Leaks cfg a c := by
  obtain ⟨l1, e1, p1, r1⟩ := h1.cleanup
  obtain ⟨l2, e2, p2, r2⟩ := h2.cleanup
  refine ⟨h2.jp.trans h1.jp, h2.ast.trans h1.ast, l1 ++ l2, ?_, ?_, ?_⟩
  · rw [e2, e1, List.append_assoc]
  · intro e he
    rcases List.mem_append.mp he with h | h
    · exact p1 e h
    · exact p2 e h
  · intro h; rw [r1 h, r2 h]; rfl

theorem Leaks.loaded {cfg : Cfg} {b a : Shell} (h : Leaks cfg b a) (l : Bool) : Leaks cfg b { a with loaded := l } :=
  ⟨h.jp, h.ast, h.cleanup⟩

/-- shape of the shell while ENABLED, relative to what `disable` would restore -/
structure EnabledShape (cfg : Cfg) (st : St) : Prop where
  jp : ∀ j, ∃ i, st.sh.jp j = .adv i ((undo st).jp j)
  ast : ∃ i, .pf i ∈ st.sh.ast ∧ (undo st).ast = st.sh.ast.erase (.pf i)
  cleanup : ∃ i, .pf i ∈ st.sh.cleanup ∧
    (undo st).cleanup = if cfg.resetDisabler then st.sh.cleanup.erase (.pf i) else st.sh.cleanup
  ndis : st.ai.disablers.length = if cfg.resetDisabler then 9 else 8
  astT : st.ai.astT = true

structure Inv (cfg : Cfg) (b0 : Shell) (st : St) : Prop where
  fresh : FreshL st.next st.sh
  leaks : Leaks cfg b0 (undo st)
  phase : (st.ai.state = .disabled ∧ st.ai.disablers = []) ∨
          (st.ai.state = .enabled ∧ st.ai.errored = false ∧ EnabledShape cfg st)

theorem undo_of_nil {st : St} (h : st.ai.disablers = []) : undo st = st.sh := by
  simp [undo, h]

theorem Inv.disabled_undo {cfg b0 st} (h : Inv cfg b0 st) (hd : st.ai.state = .disabled) : undo st = st.sh := by
  rcases h.phase with ⟨_, h2⟩ | ⟨h1, _⟩
  · exact undo_of_nil h2
  · rw [hd] at h1; cases h1

theorem Inv.state_cases {cfg b0 st} (h : Inv cfg b0 st) : st.ai.state = .disabled ∨ st.ai.state = .enabled := by
  rcases h.phase with ⟨h1, _⟩ | ⟨h1, _⟩
  · exact Or.inl h1
  · exact Or.inr h1

/-- applying disablers never adds list entries -/
theorem applyD_fresh (d : Disabler) (n : Nat) (sh : Shell) (h : FreshL n sh) : FreshL n (applyD d sh) := by
  cases d with
  | unadvise j p w =>
    simp only [applyD]
    split
    · simpa [FreshL, Shell.setJp] using h
    · exact h
  | removeAst i => exact ⟨fun e he => h.1 e (List.mem_of_mem_erase he), h.2⟩
  | removeCleanup i => exact ⟨h.1, fun e he => h.2 e (List.mem_of_mem_erase he)⟩

theorem foldr_applyD_fresh (ds : List Disabler) (n : Nat) (sh : Shell) (h : FreshL n sh) :
    FreshL n (ds.foldr applyD sh) := by
  induction ds with
  | nil => exact h
  | cons d ds ih => exact applyD_fresh d n _ ih

/-- `disable`, and `_safe_call`'s `_errored = True; disable()`, from any reachable state -/
theorem inv_disable' {cfg b0 st} (h : Inv cfg b0 st) (e : Bool) :
    Inv cfg b0 (disable { st with ai := { st.ai with errored := e } }) ∧
    (disable { st with ai := { st.ai with errored := e } }).sh = undo st ∧
    (disable { st with ai := { st.ai with errored := e } }).ai.state = .disabled ∧
    (disable { st with ai := { st.ai with errored := e } }).ai.disablers = [] ∧
    (disable { st with ai := { st.ai with errored := e } }).ai.errored = e := by
  rcases h.phase with ⟨h1, h2⟩ | ⟨h1, h2, h3⟩
  · have hu := undo_of_nil h2
    have : disable { st with ai := { st.ai with errored := e } } = { st with ai := { st.ai with errored := e } } := by
      simp [disable, h1]
    rw [this]
    refine ⟨⟨h.fresh, ?_, Or.inl ⟨h1, h2⟩⟩, hu.symm, h1, h2, rfl⟩
    have := h.leaks
    simpa [undo, h2] using this
  · have hne : (EState.enabled = EState.disabled) = False := by simp
    refine ⟨⟨?_, ?_, Or.inl ⟨?_, ?_⟩⟩, ?_, ?_, ?_, ?_⟩
    · simp only [disable, h1, hne, if_false]
      exact foldr_applyD_fresh _ _ _ h.fresh
    · have := h.leaks
      simpa [undo, disable, h1] using this
    all_goals simp [disable, h1, undo]

theorem inv_disable {cfg b0 st} (h : Inv cfg b0 st) : Inv cfg b0 (disable st) := by
  have := (inv_disable' h st.ai.errored).1
  simpa using this

theorem inv_setLoaded {cfg b0 st} (h : Inv cfg b0 st) (l : Bool) :
    Inv cfg b0 { st with sh := { st.sh with loaded := l } } := by
  have hu : undo { st with sh := { st.sh with loaded := l } } = { undo st with loaded := l } := by
    simp only [undo]
    induction st.ai.disablers with
    | nil => rfl
    | cons d ds ih =>
      simp only [List.foldr_cons, ih]
      cases d <;> simp [applyD, Shell.setJp] <;> split <;> rfl
  refine ⟨h.fresh, ?_, ?_⟩
  · rw [hu]; exact h.leaks.loaded l
  · rcases h.phase with hp | ⟨h1, h2, h3⟩
    · exact Or.inl hp
    · refine Or.inr ⟨h1, h2, ?_⟩
      obtain ⟨a, b, c, d, e⟩ := h3
      refine ⟨?_, ?_, ?_, d, e⟩
      · simpa [hu] using a
      · simpa [hu] using b
      · simpa [hu] using c

/-! ### enable -/

/-- a `fail` index beyond the last step is the same as no failure -/
theorem runSteps_none_of_not_failed (cfg : Cfg) (fail : Option Nat) :
    ∀ (steps : List Step) (i : Nat) (st : St), (runSteps cfg fail steps i st).2 = false →
      runSteps cfg fail steps i st = runSteps cfg none steps i st := by
  intro steps
  induction steps with
  | nil => intro i st _; rfl
  | cons s rest ih =>
    intro i st h
    unfold runSteps at h ⊢
    by_cases hfail : fail = some i
    · simp [hfail] at h
    · simp only [hfail, if_false] at h ⊢
      simp only [reduceCtorEq, if_false]
      exact ih _ _ h

/-- A failing run of the enable steps: up to the leak, its disablers undo it. -/
theorem runSteps_enable_rel (cfg : Cfg) (fail : Option Nat) (st : St) (hf : FreshL st.next st.sh) :
    ∃ mid new, StepRel mid (runSteps cfg fail enableSteps 0 st).1 new ∧ mid.ai = st.ai ∧
      Leaks cfg st.sh mid.sh ∧ mid.sh.loaded = st.sh.loaded := by
  cases hr : cfg.resetDisabler with
  | true =>
    obtain ⟨new, r⟩ := runSteps_rel cfg fail enableSteps 0 st hf (Or.inl hr)
    exact ⟨st, new, r, rfl, Leaks.refl _ _, rfl⟩
  | false =>
    by_cases h0 : fail = some 0
    · refine ⟨st, [], ?_, rfl, Leaks.refl _ _, rfl⟩
      simp only [enableSteps, runSteps, h0, if_true]
      exact StepRel.refl st hf
    · have hsteps : runSteps cfg fail enableSteps 0 st =
          runSteps cfg fail [.ofind, .ast, .prun, .completerCheck, .globalMatches, .attrMatches, .run,
            .debuggerTB, .runWithDebugger] 1 (doStep cfg st .reset) := by
        simp [enableSteps, runSteps, h0]
      rw [hsteps]
      have hf' : FreshL (doStep cfg st .reset).next (doStep cfg st .reset).sh := by
        refine ⟨fun e he => Entry.idsBelow_mono (hf.1 e he) (Nat.le_succ _), ?_⟩
        intro e he
        simp only [doStep, List.mem_append, List.mem_singleton] at he
        cases he with
        | inl h => exact Entry.idsBelow_mono (hf.2 e h) (Nat.le_succ _)
        | inr h => subst h; simp [Entry.idsBelow, doStep]
      obtain ⟨new, r⟩ := runSteps_rel cfg fail [.ofind, .ast, .prun, .completerCheck, .globalMatches,
        .attrMatches, .run, .debuggerTB, .runWithDebugger] 1 (doStep cfg st .reset) hf' (Or.inr (by simp))
      refine ⟨doStep cfg st .reset, new, r, by simp [doStep, hr], ?_, rfl⟩
      exact ⟨rfl, rfl, [.pf st.next], rfl, by simp [Entry.isPf], by simp [hr]⟩

theorem inv_enable {cfg b0 st} (h : Inv cfg b0 st) (hc : Clean b0) (even : Bool) (fail : Option Nat) :
    Inv cfg b0 (enable cfg even fail st) := by
  by_cases hen : st.ai.state = .enabled
  · have : enable cfg even fail st = st := by simp [enable, hen]
    rw [this]; exact h
  have hph : st.ai.state = .disabled ∧ st.ai.disablers = [] := by
    rcases h.phase with hp | ⟨h1, _, _⟩
    · exact hp
    · exact absurd h1 hen
  obtain ⟨h1, h2⟩ := hph
  have hu : undo st = st.sh := undo_of_nil h2
  have hl : Leaks cfg b0 st.sh := hu ▸ h.leaks
  unfold enable
  simp only [h1, ne_eq, not_true_eq_false, if_false]
  by_cases hre : (st.ai.errored && !even) = true
  · simp only [hre, if_true]; exact h
  simp only [hre, if_false, Bool.false_eq_true]
  generalize hst1 : ({ st with ai := { st.ai with errored := false, state := .enabling } } : St) = st1
  have hst1sh : st1.sh = st.sh := by subst hst1; rfl
  have hst1n : st1.next = st.next := by subst hst1; rfl
  have hst1d : st1.ai.disablers = [] := by subst hst1; exact h2
  have hf1 : FreshL st1.next st1.sh := by rw [hst1sh, hst1n]; exact h.fresh
  cases hfl : (runSteps cfg fail enableSteps 0 st1).2 with
  | true =>
    -- a step raised: `_safe_call` marks the error and disables
    obtain ⟨mid, new, r, hmid, hleak, _⟩ := runSteps_enable_rel cfg fail st1 hf1
    have hdis : (runSteps cfg fail enableSteps 0 st1).1.ai.disablers = new := by
      rw [r.dis, hmid, hst1d]; rfl
    have hstate : (runSteps cfg fail enableSteps 0 st1).1.ai.state = .enabling := by
      rw [r.state, hmid]; subst hst1; rfl
    have hrw : runSteps cfg fail enableSteps 0 st1 = ((runSteps cfg fail enableSteps 0 st1).1, true) := by
      rw [← hfl]
    rw [hrw]
    simp only [if_true]
    have hne : (EState.enabling = EState.disabled) = False := by simp
    refine ⟨?_, ?_, Or.inl ⟨?_, ?_⟩⟩
    · simp only [disable, hstate, hne, if_false]
      exact foldr_applyD_fresh _ _ _ r.fresh
    · simp only [undo, disable, hstate, hne, if_false, List.foldr_nil, hdis, r.undo]
      exact hl.trans (hst1sh ▸ hleak)
    · simp [disable, hstate]
    · simp [disable, hstate]
  | false =>
    have hjp : ∀ j, (st1.sh.jp j).hasAspect = false := by
      intro j; rw [hst1sh, hl.jp]; exact hc.jp j
    have hrun : runSteps cfg fail enableSteps 0 st1 = (enabledSt cfg st1, false) := by
      rw [runSteps_none_of_not_failed cfg fail _ _ _ hfl, runSteps_full cfg st1 hjp]
    rw [hrun]
    simp only [Bool.false_eq_true, if_false]
    have hundo : undo { enabledSt cfg st1 with ai := { (enabledSt cfg st1).ai with state := .enabled } }
        = afterCycle cfg st1 := undo_enabledSt cfg st1 hf1 hst1d
    refine ⟨?_, ?_, Or.inr ⟨rfl, ?_, ?_⟩⟩
    · refine ⟨?_, ?_⟩
      · intro e he
        simp only [enabledSt, List.mem_append, List.mem_singleton] at he
        cases he with
        | inl h => exact Entry.idsBelow_mono (hf1.1 e h) (Nat.le_add_right _ _)
        | inr h => subst h; simp [Entry.idsBelow, enabledSt]
      · intro e he
        simp only [enabledSt, List.mem_append, List.mem_singleton] at he
        cases he with
        | inl h => exact Entry.idsBelow_mono (hf1.2 e h) (Nat.le_add_right _ _)
        | inr h => subst h; simp [Entry.idsBelow, enabledSt]
    · rw [hundo]
      refine hl.trans ?_
      rw [← hst1sh]
      unfold afterCycle
      cases hr : cfg.resetDisabler with
      | true => simp only [if_true]; exact Leaks.refl _ _
      | false =>
        simp only [Bool.false_eq_true, if_false]
        exact ⟨rfl, rfl, [.pf st1.next], rfl, by simp [Entry.isPf], by simp [hr]⟩
    · subst hst1; rfl
    · refine ⟨?_, ?_, ?_, ?_, rfl⟩
      · intro j
        rw [hundo]
        refine ⟨st1.next + j.idx, ?_⟩
        unfold afterCycle
        cases cfg.resetDisabler <;> simp [enabledSt]
      · rw [hundo]
        refine ⟨st1.next + 2, by simp [enabledSt], ?_⟩
        have h2 : Entry.pf (st1.next + 2) ∉ st1.sh.ast :=
          pf_not_mem_of_fresh (fun e he => Entry.idsBelow_mono (hf1.1 e he) (Nat.le_add_right _ _))
        unfold afterCycle
        cases cfg.resetDisabler <;> simp [enabledSt, erase_append_singleton _ _ h2]
      · rw [hundo]
        refine ⟨st1.next, by simp [enabledSt], ?_⟩
        have h1' : Entry.pf st1.next ∉ st1.sh.cleanup := pf_not_mem_of_fresh hf1.2
        unfold afterCycle
        cases cfg.resetDisabler <;> simp [enabledSt, erase_append_singleton _ _ h1']
      · simp only [enabledSt, hst1d]
        cases cfg.resetDisabler <;> simp

/-! ### every operation preserves the invariant -/

theorem raiseIn_st_cases (cfg : Cfg) (st : St) (h : HookId) (k : OpKind) :
    (raiseIn cfg st h k).st = st ∨
    (raiseIn cfg st h k).st = disable { st with ai := { st.ai with errored := true } } := by
  unfold raiseIn
  cases prot cfg h k <;> simp

theorem invoke_st_cases (cfg : Cfg) (st : St) (h : HookId) (o : Outcome) :
    (invoke cfg st h o).st = st ∨
    (invoke cfg st h o).st = disable { st with ai := { st.ai with errored := true } } := by
  unfold invoke
  split
  · exact Or.inl rfl
  split
  · exact Or.inl rfl
  split
  · exact Or.inl rfl
  split
  · exact Or.inl rfl
  cases o with
  | ok => exact Or.inl rfl
  | raises k => exact raiseIn_st_cases cfg st h k

theorem inv_unloadExt {cfg b0 st} (h : Inv cfg b0 st) : Inv cfg b0 (unloadExt st) := by
  unfold unloadExt
  split
  · exact h
  · exact inv_setLoaded (inv_disable h) false

theorem inv_loadExt {cfg b0 st} (h : Inv cfg b0 st) (hc : Clean b0) (fail : Option Nat) :
    Inv cfg b0 (loadExt cfg fail st) := by
  unfold loadExt
  split
  · exact h
  · exact inv_setLoaded (inv_enable h hc true fail) true

theorem inv_step {cfg b0 st} (h : Inv cfg b0 st) (hc : Clean b0) (op : Op) (hop : op.notPlain = false) :
    Inv cfg b0 (step cfg st op) := by
  cases op with
  | enable even fail => exact inv_enable h hc even fail
  | disable => exact inv_disable h
  | loadExt fail => exact inv_loadExt h hc fail
  | unloadExt => exact inv_unloadExt h
  | reloadExt fail =>
    simp only [step, reloadExt]
    split
    · exact inv_setLoaded (inv_enable (inv_unloadExt h) hc true fail) true
    · exact inv_loadExt h hc fail
  | invoke hk o =>
    simp only [step]
    rcases invoke_st_cases cfg st hk o with e | e
    · rw [e]; exact h
    · rw [e]; exact (inv_disable' h true).1
  | freshImporter => simp [Op.notPlain, Op.isFresh] at hop
  | foreign f => simp [Op.notPlain, Op.isForeign] at hop

theorem inv_run {cfg b0} (hc : Clean b0) : ∀ (ops : List Op) (st : St), Inv cfg b0 st →
    (∀ op ∈ ops, op.notPlain = false) → Inv cfg b0 (run cfg st ops) := by
  intro ops
  induction ops with
  | nil => intro st h _; exact h
  | cons op ops ih =>
    intro st h hop
    simp only [run, List.foldl_cons]
    exact ih _ (inv_step h hc op (hop op List.mem_cons_self)) (fun o ho => hop o (List.mem_cons_of_mem _ ho))

/-- A disabled importer with no disablers on a clean shell: the states the theorems start from
    (in particular the fresh shell, and every reachable DISABLED state on the repaired tree). -/
structure Start (st : St) : Prop where
  state : st.ai.state = .disabled
  nodis : st.ai.disablers = []
  fresh : FreshL st.next st.sh
  clean : Clean st.sh

theorem Start.inv (cfg : Cfg) {st : St} (h : Start st) : Inv cfg st.sh st :=
  ⟨h.fresh, by rw [undo_of_nil h.nodis]; exact Leaks.refl _ _, Or.inl ⟨h.state, h.nodis⟩⟩

theorem start_init : Start St.init := by
  refine ⟨rfl, rfl, ⟨?_, ?_⟩, ⟨?_, ?_⟩⟩ <;> simp [St.init, Shell.plain, Entry.idsBelow, Val.hasAspect]

/-! ### which hooks IPython can reach -/

theorem any_isPf_append_pf (l : List Entry) (i : Nat) : (l ++ [Entry.pf i]).any Entry.isPf = true := by
  simp [Entry.isPf]

theorem count_erase_pf {l : List Entry} {i : Nat} (h : Entry.pf i ∈ l) :
    count Entry.isPf l = count Entry.isPf (l.erase (.pf i)) + 1 := by
  have hp := (List.perm_cons_erase h).filter Entry.isPf
  have := hp.length_eq
  simpa [count, List.filter_cons, Entry.isPf] using this

theorem length_erase_pf {l : List Entry} {i : Nat} (h : Entry.pf i ∈ l) :
    l.length = (l.erase (.pf i)).length + 1 := by
  have := (List.perm_cons_erase h).length_eq
  simpa using this

theorem inv_installed_enabled {cfg b0 st} (h : Inv cfg b0 st) (he : st.ai.state = .enabled) (hk : HookId) :
    installed st.sh hk = true := by
  rcases h.phase with ⟨h1, _⟩ | ⟨_, _, sh⟩
  · rw [he] at h1; cases h1
  · have hj : ∀ j, (st.sh.jp j).hasAspect = true := by
      intro j; obtain ⟨i, e⟩ := sh.jp j; rw [e]; rfl
    cases hk <;> simp only [installed, hj]
    · obtain ⟨i, hm, _⟩ := sh.ast; exact List.any_eq_true.mpr ⟨_, hm, rfl⟩
    · obtain ⟨i, hm, _⟩ := sh.cleanup; exact List.any_eq_true.mpr ⟨_, hm, rfl⟩

theorem inv_jp_disabled {cfg b0 st} (h : Inv cfg b0 st) (hd : st.ai.state = .disabled) :
    st.sh.jp = b0.jp ∧ st.sh.ast = b0.ast := by
  have := h.leaks
  rw [h.disabled_undo hd] at this
  exact ⟨this.jp, this.ast⟩

theorem inv_installed_disabled {cfg b0 st} (h : Inv cfg b0 st) (hc : Clean b0) (hd : st.ai.state = .disabled)
    (hk : HookId) (hne : hk ≠ .resetCleanup) : installed st.sh hk = false := by
  obtain ⟨ej, ea⟩ := inv_jp_disabled h hd
  cases hk <;> simp only [installed, ej, ea, hc.jp]
  · rw [List.any_eq_false]; intro e he; simp [hc.ast e he]
  · exact absurd rfl hne

/-! ### refinement to the two-state reference machine -/

theorem abs_disable (st : St) :
    abs (disable st) = { abs st with enabled := false } := by
  unfold disable abs
  by_cases h : st.ai.state = .disabled
  · simp [h]
  · simp [h, foldr_applyD_loaded]

theorem enable_failed_iff (cfg : Cfg) (fail : Option Nat) (st : St) :
    (runSteps cfg fail enableSteps 0 st).2 = true ↔ ∃ k, fail = some k ∧ k < enableSteps.length := by
  rw [runSteps_failed]
  constructor
  · rintro ⟨k, a, _, c⟩; exact ⟨k, a, by omega⟩
  · rintro ⟨k, a, c⟩; exact ⟨k, a, Nat.zero_le _, by omega⟩

theorem abs_enable {cfg b0 st} (h : Inv cfg b0 st) (even : Bool) (fail : Option Nat) :
    abs (enable cfg even fail st) = refEnable even fail (abs st) := by
  rcases h.state_cases with hd | he
  · unfold enable refEnable
    simp only [hd, ne_eq, not_true_eq_false, if_false, abs]
    simp only [reduceCtorEq, decide_false, Bool.false_eq_true, if_false]
    by_cases hre : (st.ai.errored && !even) = true
    · simp [hre, hd]
    · simp only [hre, if_false, Bool.false_eq_true]
      generalize hst1 : ({ st with ai := { st.ai with errored := false, state := .enabling } } : St) = st1
      have hst1l : st1.sh.loaded = st.sh.loaded := by subst hst1; rfl
      have hst1s : st1.ai.state = .enabling := by subst hst1; rfl
      have hf1 : FreshL st1.next st1.sh := by subst hst1; exact h.fresh
      cases hfl : (runSteps cfg fail enableSteps 0 st1).2 with
      | true =>
        obtain ⟨k, hk, hlt⟩ := (enable_failed_iff cfg fail st1).mp hfl
        have hrw : runSteps cfg fail enableSteps 0 st1 = ((runSteps cfg fail enableSteps 0 st1).1, true) := by
          rw [← hfl]
        obtain ⟨mid, new, r, hmid, hleak, hload⟩ := runSteps_enable_rel cfg fail st1 hf1
        have hstate : (runSteps cfg fail enableSteps 0 st1).1.ai.state = .enabling := by
          rw [r.state, hmid, hst1s]
        have hl2 : (List.foldr applyD (runSteps cfg fail enableSteps 0 st1).1.sh
            (runSteps cfg fail enableSteps 0 st1).1.ai.disablers).loaded = st.sh.loaded := by
          have e1 := r.dis
          have e2 : mid.ai.disablers = [] := by rw [hmid]; subst hst1; exact (by
            rcases h.phase with ⟨_, h2⟩ | ⟨h1, _⟩
            · exact h2
            · rw [hd] at h1; cases h1)
          rw [e1, e2, List.nil_append, r.undo, hload, hst1l]
        rw [hrw]
        subst hk
        simp [disable, hstate, hlt, hl2]
      | false =>
        have hnot : ¬ ∃ k, fail = some k ∧ k < enableSteps.length := by
          intro hex; have := (enable_failed_iff cfg fail st1).mpr hex; rw [hfl] at this; cases this
        have hrw : runSteps cfg fail enableSteps 0 st1 = ((runSteps cfg fail enableSteps 0 st1).1, false) := by
          rw [← hfl]
        have hload : (runSteps cfg fail enableSteps 0 st1).1.sh.loaded = st.sh.loaded := by
          obtain ⟨mid, new, r, hmid, hleak, hload⟩ := runSteps_enable_rel cfg fail st1 hf1
          have := congrArg Shell.loaded r.undo
          rw [← hst1l, ← hload, ← this, foldr_applyD_loaded]
        have herr : (runSteps cfg fail enableSteps 0 st1).1.ai.errored = false := by
          obtain ⟨mid, new, r, hmid, _, _⟩ := runSteps_enable_rel cfg fail st1 hf1
          rw [r.errored, hmid]; subst hst1; rfl
        rw [hrw]
        cases fail with
        | none => simp [hload, herr]
        | some k =>
          have : ¬ k < enableSteps.length := fun hk => hnot ⟨k, rfl, hk⟩
          simp [this, hload, herr]
  · have : enable cfg even fail st = st := by simp [enable, he]
    rw [this]
    simp [refEnable, abs, he]

theorem disable_state (st : St) : (disable st).ai.state = .disabled := by
  unfold disable; split <;> simp [*]

theorem disable_errored (st : St) : (disable st).ai.errored = st.ai.errored := by
  unfold disable; split <;> simp

theorem invoke_ok_st (cfg : Cfg) (st : St) (hk : HookId) : (invoke cfg st hk .ok).st = st := by
  unfold invoke
  split
  · rfl
  split
  · rfl
  split
  · rfl
  split
  · rfl
  rfl

theorem abs_setLoaded (st : St) (l : Bool) :
    abs { st with sh := { st.sh with loaded := l } } = { abs st with loaded := l } := rfl

theorem abs_unloadExt (st : St) :
    abs (unloadExt st) = if (abs st).loaded then { abs st with enabled := false, loaded := false } else abs st := by
  unfold unloadExt
  cases hl : st.sh.loaded with
  | true => simp [abs, hl, disable_state, disable_errored]
  | false => simp [abs, hl]

theorem abs_loadExt {cfg b0 st} (h : Inv cfg b0 st) (fail : Option Nat) :
    abs (loadExt cfg fail st) =
      if (abs st).loaded then abs st else { refEnable true fail (abs st) with loaded := true } := by
  unfold loadExt
  cases hl : st.sh.loaded with
  | true => simp [abs, hl]
  | false =>
    simp only [Bool.false_eq_true, if_false, abs_setLoaded, abs_enable h]
    simp [abs, hl]

theorem abs_invoke {cfg b0 st} (h : Inv cfg b0 st) (hc : Clean b0) (hk : HookId) (o : Outcome) :
    abs (invoke cfg st hk o).st = refStep cfg (abs st) (.invoke hk o) := by
  cases o with
  | ok =>
    rw [invoke_ok_st]; rfl
  | raises k =>
    rcases h.state_cases with hd | he
    · -- disabled: either the hook is not installed, or it is the leaked reset transformer
      have hst : (invoke cfg st hk (.raises k)).st = st := by
        by_cases hr : hk = .resetCleanup
        · subst hr; unfold invoke; split <;> simp
        · unfold invoke; simp [inv_installed_disabled h hc hd hk hr]
      rw [hst]
      simp [refStep, abs, hd]
    · have hinst := inv_installed_enabled h he hk
      have herr : st.ai.errored = false := by
        rcases h.phase with ⟨h1, _⟩ | ⟨_, h2, _⟩
        · rw [he] at h1; cases h1
        · exact h2
      unfold invoke
      simp only [hinst, Bool.not_true, Bool.false_eq_true, if_false, herr, Bool.and_false]
      by_cases h1 : hk = .resetCleanup
      · subst h1; simp [refStep, prot]
      by_cases h2 : hk = .debuggerTB
      · subst h2; simp [refStep, prot]
      simp only [h1, h2, if_false]
      unfold raiseIn
      cases hp : prot cfg hk k <;> simp [refStep, hp, abs, he, herr, abs_disable, disable, foldr_applyD_loaded]

theorem abs_step {cfg b0 st} (h : Inv cfg b0 st) (hc : Clean b0) (op : Op) (hop : op.notPlain = false) :
    abs (step cfg st op) = refStep cfg (abs st) op := by
  cases op with
  | enable even fail => exact abs_enable h even fail
  | disable => simp [step, refStep, abs_disable]
  | loadExt fail => simp only [step, refStep]; exact abs_loadExt h fail
  | unloadExt => simp only [step, refStep]; exact abs_unloadExt st
  | reloadExt fail =>
    simp only [step, refStep, reloadExt]
    cases hl : st.sh.loaded with
    | true =>
      have hu : Inv cfg b0 (unloadExt st) := inv_unloadExt h
      simp only [if_true, abs_setLoaded, abs_enable hu, abs_unloadExt]
      simp [abs, hl, refEnable]
      cases fail <;> simp <;> split <;> simp
    | false =>
      simp only [Bool.false_eq_true, if_false]
      rw [abs_loadExt h fail]
      simp [abs, hl]
  | invoke hk o => exact abs_invoke h hc hk o
  | freshImporter => simp [Op.notPlain, Op.isFresh] at hop
  | foreign f => simp [Op.notPlain, Op.isForeign] at hop

/-! ### third-party steps on the hook registries

The disablers of the code remove pyflyby's entries from whatever list is bound *now* and touch nothing
else, so they commute with everything a third party does to the lists (`applyD_applyForeign`).  Hence
`disable` after any interleaving of foreign list steps yields the shell the foreign steps alone would have
produced. -/

theorem applyForeign_jp (f : Foreign) (sh : Shell) : (applyForeign f sh).jp = sh.jp := by
  cases f <;> rfl

theorem applyForeign_loaded (f : Foreign) (sh : Shell) : (applyForeign f sh).loaded = sh.loaded := by
  cases f <;> rfl

theorem erase_pf_append_ext (l : List Entry) (i n : Nat) :
    (l ++ [Entry.ext n]).erase (.pf i) = l.erase (.pf i) ++ [.ext n] := by
  rw [List.erase_append]
  split
  · rfl
  · rename_i h
    rw [List.erase_of_not_mem h]
    simp

theorem filter_nonPf_erase_pf (l : List Entry) (i : Nat) :
    (l.filter (fun e => !e.isPf)).erase (.pf i) = (l.erase (.pf i)).filter (fun e => !e.isPf) := by
  have hnot : Entry.pf i ∉ l.filter (fun e => !e.isPf) := by
    intro h; have := (List.mem_filter.mp h).2; simp [Entry.isPf] at this
  rw [List.erase_of_not_mem hnot]
  induction l with
  | nil => rfl
  | cons a l ih =>
    by_cases ha : a = .pf i
    · subst ha
      have hpf : (Entry.pf i).isPf = true := rfl
      simp [List.filter_cons, hpf]
    · have hn : Entry.pf i ∉ (l.filter (fun e => !e.isPf)) := by
        intro h; have := (List.mem_filter.mp h).2; simp [Entry.isPf] at this
      rw [List.erase_cons_tail (by simpa using ha)]
      simp only [List.filter_cons]
      split <;> simp [ih hn]

theorem applyD_applyForeign (d : Disabler) (f : Foreign) (sh : Shell) :
    applyD d (applyForeign f sh) = applyForeign f (applyD d sh) := by
  cases d with
  | unadvise j p w =>
    simp only [applyD, applyForeign_jp]
    split
    · cases f <;> rfl
    · rfl
  | removeAst i =>
    cases f <;> simp [applyD, applyForeign, erase_pf_append_ext, List.erase_comm, filter_nonPf_erase_pf]
  | removeCleanup i =>
    cases f <;> simp [applyD, applyForeign, erase_pf_append_ext, List.erase_comm, filter_nonPf_erase_pf]

theorem foldr_applyD_applyForeign (ds : List Disabler) (f : Foreign) (sh : Shell) :
    ds.foldr applyD (applyForeign f sh) = applyForeign f (ds.foldr applyD sh) := by
  induction ds with
  | nil => rfl
  | cons d ds ih => simp only [List.foldr_cons, ih, applyD_applyForeign]

theorem undo_foreign (st : St) (f : Foreign) :
    undo { st with sh := applyForeign f st.sh } = applyForeign f (undo st) :=
  foldr_applyD_applyForeign _ _ _

theorem applyForeign_fresh (f : Foreign) (n : Nat) (sh : Shell) (h : FreshL n sh) : FreshL n (applyForeign f sh) := by
  cases f with
  | rebindAst => exact h
  | rebindCleanup => exact h
  | other => exact h
  | addAst k =>
    refine ⟨?_, h.2⟩
    intro e he
    simp only [applyForeign, List.mem_append, List.mem_singleton] at he
    rcases he with he | he
    · exact h.1 e he
    · subst he; trivial
  | rmAst k => exact ⟨fun e he => h.1 e (List.mem_of_mem_erase he), h.2⟩
  | addCleanup k =>
    refine ⟨h.1, ?_⟩
    intro e he
    simp only [applyForeign, List.mem_append, List.mem_singleton] at he
    rcases he with he | he
    · exact h.2 e he
    · subst he; trivial
  | rmCleanup k => exact ⟨h.1, fun e he => h.2 e (List.mem_of_mem_erase he)⟩
  | clearAst => exact ⟨fun e he => by simp [applyForeign] at he, h.2⟩
  | dropPfAst => exact ⟨fun e he => h.1 e (List.mem_filter.mp he).1, h.2⟩
  | dropPfCleanup => exact ⟨h.1, fun e he => h.2 e (List.mem_filter.mp he).1⟩

theorem applyForeign_clean (f : Foreign) (b : Shell) (h : Clean b) : Clean (applyForeign f b) := by
  refine ⟨fun j => by rw [applyForeign_jp]; exact h.jp j, ?_⟩
  cases f with
  | addAst k =>
    intro e he
    simp only [applyForeign, List.mem_append, List.mem_singleton] at he
    rcases he with he | he
    · exact h.ast e he
    · subst he; rfl
  | rmAst k => exact fun e he => h.ast e (List.mem_of_mem_erase he)
  | rebindAst => exact h.ast
  | rebindCleanup => exact h.ast
  | addCleanup k => exact h.ast
  | rmCleanup k => exact h.ast
  | other => exact h.ast
  | clearAst => exact fun e he => by simp [applyForeign] at he
  | dropPfAst => exact fun e he => h.ast e (List.mem_filter.mp he).1
  | dropPfCleanup => exact h.ast

theorem Leaks.foreign {cfg : Cfg} {b a : Shell} (h : Leaks cfg b a) (hfix : cfg.resetDisabler = true) (f : Foreign) :
    Leaks cfg (applyForeign f b) (applyForeign f a) := by
  obtain ⟨leak, e, _, r⟩ := h.cleanup
  rw [r hfix, List.append_nil] at e
  have hj := h.jp
  have ha := h.ast
  refine ⟨by rw [applyForeign_jp, applyForeign_jp, hj], ?_, [], ?_, by simp, fun _ => rfl⟩
  · cases f <;> simp [applyForeign, ha]
  · cases f <;> simp [applyForeign, e]

theorem mem_pf_applyForeign_ast (f : Foreign) (hk : f.removesPf = false) (sh : Shell) (i : Nat)
    (h : Entry.pf i ∈ sh.ast) : Entry.pf i ∈ (applyForeign f sh).ast := by
  cases f <;> simp only [applyForeign] <;> first
    | (simp [Foreign.removesPf] at hk; done)
    | exact h
    | exact List.mem_append_left _ h
    | exact (List.mem_erase_of_ne (by simp)).mpr h

theorem mem_pf_applyForeign_cleanup (f : Foreign) (hk : f.removesPf = false) (sh : Shell) (i : Nat)
    (h : Entry.pf i ∈ sh.cleanup) : Entry.pf i ∈ (applyForeign f sh).cleanup := by
  cases f <;> simp only [applyForeign] <;> first
    | (simp [Foreign.removesPf] at hk; done)
    | exact h
    | exact List.mem_append_left _ h
    | exact (List.mem_erase_of_ne (by simp)).mpr h

theorem erase_pf_applyForeign_ast (f : Foreign) (a u : Shell) (i : Nat) (h : u.ast = a.ast.erase (.pf i)) :
    (applyForeign f u).ast = (applyForeign f a).ast.erase (.pf i) := by
  cases f <;> simp [applyForeign, h, erase_pf_append_ext, List.erase_comm, filter_nonPf_erase_pf]

theorem erase_pf_applyForeign_cleanup (f : Foreign) (a u : Shell) (i : Nat) (h : u.cleanup = a.cleanup.erase (.pf i)) :
    (applyForeign f u).cleanup = (applyForeign f a).cleanup.erase (.pf i) := by
  cases f <;> simp [applyForeign, h, erase_pf_append_ext, List.erase_comm, filter_nonPf_erase_pf]

/-- A third-party list step keeps the invariant, relative to the base shell with the same step applied. -/
theorem inv_foreign {cfg b0 st} (h : Inv cfg b0 st) (hfix : cfg.resetDisabler = true) (f : Foreign)
    (hk : f.removesPf = false) :
    Inv cfg (applyForeign f b0) { st with sh := applyForeign f st.sh } := by
  refine ⟨applyForeign_fresh f _ _ h.fresh, ?_, ?_⟩
  · rw [undo_foreign]; exact h.leaks.foreign hfix f
  · rcases h.phase with hp | ⟨h1, h2, shp⟩
    · exact Or.inl hp
    · refine Or.inr ⟨h1, h2, ?_⟩
      obtain ⟨i, hm, e⟩ := shp.ast
      obtain ⟨k, hmc, ec⟩ := shp.cleanup
      simp only [hfix, if_true] at ec
      refine ⟨?_, ?_, ?_, shp.ndis, shp.astT⟩
      · intro j
        obtain ⟨i', e'⟩ := shp.jp j
        refine ⟨i', ?_⟩
        rw [undo_foreign, applyForeign_jp]
        simpa [applyForeign_jp] using e'
      · refine ⟨i, mem_pf_applyForeign_ast f hk _ _ hm, ?_⟩
        rw [undo_foreign]
        exact erase_pf_applyForeign_ast f _ _ _ e
      · refine ⟨k, mem_pf_applyForeign_cleanup f hk _ _ hmc, ?_⟩
        rw [undo_foreign]
        simp only [hfix, if_true]
        exact erase_pf_applyForeign_cleanup f _ _ _ ec

/-- the shell the third-party steps of a history would have produced on their own -/
def foreignBase : Shell → List Op → Shell
  | b, [] => b
  | b, .foreign f :: ops => foreignBase (applyForeign f b) ops
  | b, _ :: ops => foreignBase b ops

/-- the invariant along histories that contain third-party list steps (D3 repair assumed) -/
theorem inv_run_foreign {cfg : Cfg} (hfix : cfg.resetDisabler = true) :
    ∀ (ops : List Op) (b0 : Shell) (st : St), Clean b0 → Inv cfg b0 st →
      (∀ op ∈ ops, op.isFresh = false ∧ op.removesPf = false) →
      Inv cfg (foreignBase b0 ops) (run cfg st ops) ∧ Clean (foreignBase b0 ops) := by
  intro ops
  induction ops with
  | nil => intro b0 st hc h _; exact ⟨h, hc⟩
  | cons op ops ih =>
    intro b0 st hc h hop
    have hop' : ∀ o ∈ ops, o.isFresh = false ∧ o.removesPf = false := fun o ho => hop o (List.mem_cons_of_mem _ ho)
    have h1 := (hop op List.mem_cons_self).1
    have h1r := (hop op List.mem_cons_self).2
    simp only [run, List.foldl_cons]
    cases op with
    | foreign f =>
      simp only [foreignBase, step]
      exact ih _ _ (applyForeign_clean f b0 hc) (inv_foreign h hfix f (by simpa [Op.removesPf] using h1r)) hop'
    | freshImporter => simp [Op.isFresh] at h1
    | enable e fl =>
      exact ih _ _ hc (inv_step h hc _ (by simp [Op.notPlain, Op.isFresh, Op.isForeign])) hop'
    | disable =>
      exact ih _ _ hc (inv_step h hc _ (by simp [Op.notPlain, Op.isFresh, Op.isForeign])) hop'
    | loadExt fl =>
      exact ih _ _ hc (inv_step h hc _ (by simp [Op.notPlain, Op.isFresh, Op.isForeign])) hop'
    | unloadExt =>
      exact ih _ _ hc (inv_step h hc _ (by simp [Op.notPlain, Op.isFresh, Op.isForeign])) hop'
    | reloadExt fl =>
      exact ih _ _ hc (inv_step h hc _ (by simp [Op.notPlain, Op.isFresh, Op.isForeign])) hop'
    | invoke hk o =>
      exact ih _ _ hc (inv_step h hc _ (by simp [Op.notPlain, Op.isFresh, Op.isForeign])) hop'

end Pfb.Hooks
