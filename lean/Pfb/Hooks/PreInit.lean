/-
  Pfb.Hooks.PreInit — the enable-before-initialize path of the auto-importer, on top of Pfb.Hooks.Model.

  Modelled code (lib/python/pyflyby/_interactive.py):
    AutoImporter.enable on an application whose shell does not exist yet (`app.shell is None`): state ENABLING,
    `_enable_initializer_hooks` advises `app.init_shell` and `app.initialize_subcommand` through `self._advise`
    (so both unadvise functions are on `_disablers`), `_enable_shell_hooks` returns False ("no shell yet"),
    `_pending_initializers` is true, the state stays ENABLING;
    the advice on `init_shell`: `__original__(); ...; self._continue_enable()`;
    `_continue_enable`: returns unless the state is ENABLING, else `_safe_call(self._enable_internal)`, which now
    finds the shell and runs the steps of `_enable_shell_hooks`;
    `disable` pops every disabler, the app-level ones included.
  This is how `py`, `start_ipython_with_autoimporter()`, `get_ipython_terminal_app_with_autoimporter()` and a
  `pyflyby.enable_auto_importer()` call in ipython_config.py enable the importer.

  Representation.  `AutoImporter._disablers` = `adis ++ st.ai.disablers`: the app-level advice is registered only
  while there is no shell, the shell-level hooks only once there is one, and `disable` always empties the whole
  stack; so the app-level disablers sit at the bottom and are popped last.

  Core Lean only.
-/
import Pfb.Hooks.Model
namespace Pfb.Hooks

/-- the two attributes advised on an application without a shell (slots of `app.__dict__`) -/
inductive AJP
  | initShell          -- app.init_shell
  | initSub            -- app.initialize_subcommand
  deriving DecidableEq, Repr

/-- bound `Aspect.unadvise` of an app-level aspect -/
inductive ADis
  | unadvise (j : AJP) (previous wrapped : Val)
  deriving DecidableEq, Repr

structure App where
  st : St                  -- the importer, and the shell (meaningful once `inited`)
  inited : Bool            -- `app.initialize()` has run: `app.shell` exists
  initShell : Val
  initSub : Val
  adis : List ADis         -- bottom part of `_disablers`

def App.slot (a : App) : AJP → Val
  | .initShell => a.initShell
  | .initSub => a.initSub

def App.setSlot (a : App) : AJP → Val → App
  | .initShell, v => { a with initShell := v }
  | .initSub, v => { a with initSub := v }

/-- `self._advise(app.<j>)(hook)` with `Aspect.advise(once=True)` -/
def adviseApp (a : App) (j : AJP) : App :=
  let cur := a.slot j
  if cur.hasAspect then a
  else
    let w := Val.adv a.st.next cur
    { (a.setSlot j w) with
      st := { a.st with next := a.st.next + 1 },
      adis := a.adis ++ [.unadvise j cur w] }

/-- `Aspect.unadvise` on an app-level aspect (same three branches as `applyD`) -/
def applyAD : ADis → App → App
  | .unadvise j prev w, a => if a.slot j = w then a.setSlot j prev else a

/-- the tail of `disable()`: the app-level disablers are popped (from the end) and called -/
def flush (a : App) : App :=
  { (a.adis.foldr applyAD a) with adis := [] }

/-- `AutoImporter.enable(even_if_previously_errored)` while `app.shell is None` -/
def preEnable (even : Bool) (a : App) : App :=
  if a.st.ai.state ≠ .disabled then a                      -- "Already enabled" / "Already enabling"
  else if a.st.ai.errored && !even then a
  else
    let a1 : App := { a with st := { a.st with ai := { a.st.ai with errored := false, state := .enabling } } }
    -- _enable_initializer_hooks: two advices; _enable_shell_hooks: "no shell yet" → False; pending → still ENABLING
    adviseApp (adviseApp a1 .initShell) .initSub

/-- `AutoImporter.disable()` (any phase) -/
def disableA (a : App) : App :=
  if a.st.ai.state = .disabled then a
  else flush { a with st := disable a.st }

/-- `_continue_enable()`; `fail` as in `enable` -/
def continueEnable (cfg : Cfg) (fail : Option Nat) (a : App) : App :=
  if a.st.ai.state ≠ .enabling then a                      -- the guard of `_continue_enable`
  else
    let (st2, failed) := runSteps cfg fail enableSteps 0 a.st
    if failed then
      flush { a with st := disable { st2 with ai := { st2.ai with errored := true } } }
    else
      { a with st := { st2 with ai := { st2.ai with state := .enabled } } }

/-- `app.initialize()`: `init_shell()` creates the shell; if the slot holds pyflyby's advice, the advice then calls
    `_continue_enable()` -/
def initApp (cfg : Cfg) (fail : Option Nat) (a : App) : App :=
  if a.inited then a
  else
    let a1 := { a with inited := true }
    if a.initShell.hasAspect then continueEnable cfg fail a1 else a1

/-- after an op on the initialised shell: if the importer ended up DISABLED, `disable()` ran (or nothing was
    registered) and the app-level disablers are gone too -/
def settle (a : App) : App :=
  if a.st.ai.state = .disabled then flush a else a

inductive AOp
  | preEnable (even : Bool)
  | disable
  | init (fail : Option Nat)
  | sh (op : Op)              -- an op of the shell-level model, after initialisation
  deriving DecidableEq, Repr

def stepA (cfg : Cfg) (a : App) : AOp → App
  | .preEnable even => if a.inited then settle { a with st := enable cfg even none a.st } else preEnable even a
  | .disable => disableA a
  | .init fail => initApp cfg fail a
  | .sh (.reloadExt fail) =>
      -- unload (disable: everything is popped), then load
      let a1 := settle { a with st := if a.st.sh.loaded then unloadExt a.st else a.st }
      settle { a1 with st := loadExt cfg fail a1.st }
  | .sh op => settle { a with st := step cfg a.st op }

def runA (cfg : Cfg) (a : App) (ops : List AOp) : App := ops.foldl (stepA cfg) a

/-- length of the real `_disablers` list -/
def App.ndis (a : App) : Nat := a.adis.length + a.st.ai.disablers.length

/-- an application object on which nothing has happened yet -/
def App.init : App := ⟨St.init, false, .unset, .unset, []⟩

/-- reference machine of the property with the pending ("enabling") state of an enable issued before initialisation -/
structure RefA where
  enabled : Bool
  pending : Bool
  deriving DecidableEq, Repr

def absA (a : App) : RefA := ⟨a.st.ai.state = .enabled, a.st.ai.state = .enabling⟩

end Pfb.Hooks
