/-
  Pfb.C17.Lemmas — helper lemmas for the C17 property theorems (enumeration, the
  sort + first-occurrence loop, first/last element of an increasing list, the
  farthest-pair choice, the index loop of the RANGE format).
-/
import Pfb.C17.Model
namespace Pfb.C17
open Pfb

/-! ### enumFrom -/

theorem mem_enumFrom {α : Type} {l : List α} {i k : Nat} {a : α} :
    (k, a) ∈ enumFrom i l ↔ i ≤ k ∧ l[k - i]? = some a := by
  induction l generalizing i with
  | nil => simp [enumFrom]
  | cons x xs ih =>
    simp only [enumFrom, List.mem_cons, Prod.mk.injEq, ih]
    constructor
    · rintro (⟨rfl, rfl⟩ | ⟨h1, h2⟩)
      · simp
      · refine ⟨by omega, ?_⟩
        have : k - i = (k - (i + 1)) + 1 := by omega
        rw [this]; simpa using h2
    · rintro ⟨h1, h2⟩
      by_cases hk : k = i
      · subst hk; simp at h2; exact Or.inl ⟨rfl, h2.symm⟩
      · right
        refine ⟨by omega, ?_⟩
        have : k - i = (k - (i + 1)) + 1 := by omega
        rw [this] at h2; simpa using h2

theorem enumFrom_lt {α : Type} (l : List α) (i : Nat) :
    (enumFrom i l).Pairwise (fun x y => x.1 < y.1) := by
  induction l generalizing i with
  | nil => simp [enumFrom]
  | cons x xs ih =>
    simp only [enumFrom, List.pairwise_cons]
    refine ⟨?_, ih (i + 1)⟩
    rintro ⟨k, a⟩ h
    have := (mem_enumFrom.mp h).1
    simp; omega

/-- "frame `f` sits at 1-based distance `k` from the failing frame" -/
def At (all : List Frame) (k : Nat) (f : Frame) : Prop := 1 ≤ k ∧ all[k - 1]? = some f

theorem At.unique {all : List Frame} {k : Nat} {f g : Frame} (h1 : At all k f) (h2 : At all k g) : f = g := by
  have := h1.2.symm.trans h2.2
  simpa using this

theorem mem_enumFrom_one {all : List Frame} {k : Nat} {f : Frame} :
    (k, f) ∈ enumFrom 1 all ↔ At all k f := mem_enumFrom

/-! ### increasing lists: first and last element -/

theorem head_le_of_lt {l : List (Nat × Frame)} (hs : l.Pairwise (fun x y => x.1 < y.1))
    {a : Nat × Frame} (ha : l.head? = some a) : ∀ x ∈ l, a.1 ≤ x.1 := by
  cases l with
  | nil => simp at ha
  | cons b bs =>
    simp at ha; subst ha
    intro x hx
    rcases List.mem_cons.mp hx with rfl | hx
    · exact Nat.le_refl _
    · exact Nat.le_of_lt ((List.pairwise_cons.mp hs).1 x hx)

theorem le_last_of_lt {l : List (Nat × Frame)} (hs : l.Pairwise (fun x y => x.1 < y.1))
    {b : Nat × Frame} (hb : l.getLast? = some b) : ∀ x ∈ l, x.1 ≤ b.1 := by
  obtain ⟨ys, rfl⟩ := List.getLast?_eq_some_iff.mp hb
  intro x hx
  rcases List.mem_append.mp hx with hx | hx
  · exact Nat.le_of_lt ((List.pairwise_append.mp hs).2.2 x hx b (by simp))
  · simp at hx; subst hx; exact Nat.le_refl _

theorem head?_mem' {α : Type} {l : List α} {a : α} (h : l.head? = some a) : a ∈ l := by
  cases l with
  | nil => simp at h
  | cons b bs => simp at h; subst h; simp

theorem getLast?_mem' {α : Type} {l : List α} {a : α} (h : l.getLast? = some a) : a ∈ l := by
  obtain ⟨ys, rfl⟩ := List.getLast?_eq_some_iff.mp h
  simp

/-! ### the uniqueness loop after sorting -/

/-- same key ⇒ same frame (every entry is `(k, all_frames[k-1])`) -/
def Consistent (l : List (Nat × Frame)) : Prop := ∀ x ∈ l, ∀ y ∈ l, x.1 = y.1 → x.2 = y.2

theorem Consistent.tail {a : Nat × Frame} {l : List (Nat × Frame)} (h : Consistent (a :: l)) : Consistent l :=
  fun x hx y hy => h x (List.mem_cons_of_mem _ hx) y (List.mem_cons_of_mem _ hy)

theorem mem_dedupGo {s : List (Nat × Frame)} (hs : s.Pairwise (fun a b => a.1 ≤ b.1)) (hc : Consistent s)
    (seen : List Nat) (x : Nat × Frame) :
    x ∈ dedupGo seen s ↔ x ∈ s ∧ x.2.fid ∉ seen ∧ ∀ y ∈ s, y.2.fid = x.2.fid → x.1 ≤ y.1 := by
  induction s generalizing seen with
  | nil => simp [dedupGo]
  | cons h rest ih =>
    obtain ⟨k, f⟩ := h
    have hs' := (List.pairwise_cons.mp hs)
    have ih' := fun seen => ih hs'.2 hc.tail seen
    unfold dedupGo
    by_cases hseen : seen.contains f.fid = true
    · simp only [hseen, if_true]
      rw [ih']
      have hmem : f.fid ∈ seen := by simpa using hseen
      constructor
      · rintro ⟨h1, h2, h3⟩
        refine ⟨List.mem_cons_of_mem _ h1, h2, ?_⟩
        intro y hy hfid
        rcases List.mem_cons.mp hy with rfl | hy
        · exact absurd (hfid ▸ hmem) h2
        · exact h3 y hy hfid
      · rintro ⟨h1, h2, h3⟩
        rcases List.mem_cons.mp h1 with rfl | h1
        · exact absurd hmem h2
        · exact ⟨h1, h2, fun y hy => h3 y (List.mem_cons_of_mem _ hy)⟩
    · simp only [hseen, Bool.false_eq_true, if_false, List.mem_cons]
      have hnot : f.fid ∉ seen := by simpa using hseen
      rw [ih']
      constructor
      · rintro (rfl | ⟨h1, h2, h3⟩)
        · refine ⟨Or.inl rfl, hnot, ?_⟩
          intro y hy _
          rcases hy with rfl | hy
          · exact Nat.le_refl _
          · exact hs'.1 y hy
        · have hne : x.2.fid ≠ f.fid := fun h => h2 (by simp [h])
          refine ⟨Or.inr h1, fun h => h2 (List.mem_cons_of_mem _ h), ?_⟩
          intro y hy hfid
          rcases hy with rfl | hy
          · exact absurd hfid.symm hne
          · exact h3 y hy hfid
      · rintro ⟨h1, h2, h3⟩
        by_cases hfid : x.2.fid = f.fid
        · left
          have hle : x.1 ≤ k := h3 (k, f) (Or.inl rfl) hfid.symm
          rcases h1 with rfl | h1
          · rfl
          · have hge : k ≤ x.1 := hs'.1 x h1
            have hk : x.1 = k := Nat.le_antisymm hle hge
            have := hc x (List.mem_cons_of_mem _ h1) (k, f) (by simp) hk
            exact Prod.ext hk this
        · right
          rcases h1 with rfl | h1
          · exact absurd rfl hfid
          · refine ⟨h1, ?_, fun y hy => h3 y (Or.inr hy)⟩
            intro hm
            rcases List.mem_cons.mp hm with h | h
            · exact hfid h
            · exact h2 h

theorem dedupGo_sublist (seen : List Nat) (s : List (Nat × Frame)) : (dedupGo seen s).Sublist s := by
  induction s generalizing seen with
  | nil => simp [dedupGo]
  | cons h rest ih =>
    obtain ⟨k, f⟩ := h
    unfold dedupGo
    split
    · exact (ih seen).cons _
    · exact (ih _).cons_cons _

theorem dedupGo_fids (seen : List Nat) (s : List (Nat × Frame)) :
    (dedupGo seen s).Pairwise (fun a b => a.2.fid ≠ b.2.fid) ∧ ∀ x ∈ dedupGo seen s, x.2.fid ∉ seen := by
  induction s generalizing seen with
  | nil => simp [dedupGo]
  | cons h rest ih =>
    obtain ⟨k, f⟩ := h
    unfold dedupGo
    by_cases hseen : seen.contains f.fid = true
    · simp only [hseen, if_true]; exact ih seen
    · simp only [hseen, Bool.false_eq_true, if_false]
      have hnot : f.fid ∉ seen := by simpa using hseen
      obtain ⟨ih1, ih2⟩ := ih (f.fid :: seen)
      refine ⟨List.pairwise_cons.mpr ⟨?_, ih1⟩, ?_⟩
      · intro y hy h
        exact ih2 y hy (List.mem_cons.mpr (Or.inl h.symm))
      · intro x hx
        rcases List.mem_cons.mp hx with rfl | hx
        · exact hnot
        · exact fun h => ih2 x hx (List.mem_cons_of_mem _ h)

theorem mem_insertKey (x z : Nat × Frame) (l : List (Nat × Frame)) : z ∈ insertKey x l ↔ z = x ∨ z ∈ l := by
  induction l with
  | nil => simp [insertKey]
  | cons y ys ih =>
    unfold insertKey
    split
    · simp
    · simp only [List.mem_cons, ih]
      constructor
      · rintro (h | h | h)
        · exact Or.inr (Or.inl h)
        · exact Or.inl h
        · exact Or.inr (Or.inr h)
      · rintro (h | h | h)
        · exact Or.inr (Or.inl h)
        · exact Or.inl h
        · exact Or.inr (Or.inr h)

theorem mem_sortKeys (z : Nat × Frame) (l : List (Nat × Frame)) : z ∈ sortKeys l ↔ z ∈ l := by
  induction l with
  | nil => simp [sortKeys]
  | cons x xs ih => simp [sortKeys, mem_insertKey, ih]

theorem sorted_insertKey (x : Nat × Frame) {l : List (Nat × Frame)} (h : l.Pairwise (fun a b => a.1 ≤ b.1)) :
    (insertKey x l).Pairwise (fun a b => a.1 ≤ b.1) := by
  induction l with
  | nil => simp [insertKey]
  | cons y ys ih =>
    have hy := List.pairwise_cons.mp h
    unfold insertKey
    split
    · rename_i hle
      refine List.pairwise_cons.mpr ⟨?_, h⟩
      intro z hz
      rcases List.mem_cons.mp hz with rfl | hz
      · exact hle
      · exact Nat.le_trans hle (hy.1 z hz)
    · rename_i hnle
      refine List.pairwise_cons.mpr ⟨?_, ih hy.2⟩
      intro z hz
      rcases (mem_insertKey x z ys).mp hz with rfl | hz
      · omega
      · exact hy.1 z hz

theorem sorted_sortKeys (l : List (Nat × Frame)) : (sortKeys l).Pairwise (fun a b => a.1 ≤ b.1) := by
  induction l with
  | nil => simp [sortKeys]
  | cons x xs ih => exact sorted_insertKey x ih

theorem consistent_sortKeys {l : List (Nat × Frame)} (h : Consistent l) : Consistent (sortKeys l) :=
  fun x hx y hy => h x ((mem_sortKeys x l).mp hx) y ((mem_sortKeys y l).mp hy)

/-- `sorted(...)` + the `seen_frames` loop keeps exactly the smallest index of every frame object. -/
theorem mem_sortDedup {l : List (Nat × Frame)} (hc : Consistent l) (x : Nat × Frame) :
    x ∈ sortDedup l ↔ x ∈ l ∧ ∀ y ∈ l, y.2.fid = x.2.fid → x.1 ≤ y.1 := by
  unfold sortDedup
  rw [mem_dedupGo (sorted_sortKeys l) (consistent_sortKeys hc)]
  simp [mem_sortKeys]

theorem sortDedup_fids (l : List (Nat × Frame)) :
    (sortDedup l).Pairwise (fun a b => a.2.fid ≠ b.2.fid) := (dedupGo_fids [] _).1

theorem sortDedup_lt {l : List (Nat × Frame)} (hc : Consistent l) :
    (sortDedup l).Pairwise (fun a b => a.1 < b.1) := by
  have hsub : (sortDedup l).Sublist (sortKeys l) := dedupGo_sublist [] _
  have hle := (sorted_sortKeys l).sublist hsub
  have hf := sortDedup_fids l
  have hcons : ∀ a ∈ sortDedup l, ∀ b ∈ sortDedup l, a.1 = b.1 → a.2 = b.2 := fun a ha b hb =>
    consistent_sortKeys hc a (hsub.subset ha) b (hsub.subset hb)
  have := hle.and hf
  refine List.Pairwise.imp_of_mem ?_ this
  intro a b ha hb ⟨h1, h2⟩
  rcases Nat.lt_or_ge a.1 b.1 with h | h
  · exact h
  · have hk : a.1 = b.1 := Nat.le_antisymm h1 h
    exact absurd (congrArg Frame.fid (hcons a ha b hb hk)) h2

/-! ### the farthest pair -/

theorem absDiff_le_iff (a b d : Nat) : absDiff a b ≤ d ↔ a ≤ b + d ∧ b ≤ a + d := by
  unfold absDiff; split <;> omega

theorem farthest_spec (f0 f1 l0 l1 : Nat) :
    ∃ a b, (a = f0 ∨ a = f1) ∧ (b = l0 ∨ b = l1) ∧
      farthest f0 f1 l0 l1 = (min a b, max a b) ∧
      ∀ a' b', f0 ≤ a' → a' ≤ f1 → l0 ≤ b' → b' ≤ l1 → absDiff a' b' ≤ max a b - min a b := by
  simp only [farthest, firstMax]
  have key : ∀ a b a' b' : Nat, absDiff a' b' ≤ absDiff a b → absDiff a' b' ≤ max a b - min a b := by
    intro a b a' b' h
    have : absDiff a b = max a b - min a b := by unfold absDiff; split <;> omega
    omega
  have bound : ∀ a' b', f0 ≤ a' → a' ≤ f1 → l0 ≤ b' → b' ≤ l1 →
      absDiff a' b' ≤ absDiff f0 l1 ∨ absDiff a' b' ≤ absDiff f1 l0 := by
    intro a' b' h1 h2 h3 h4
    unfold absDiff
    repeat' split
    all_goals omega
  by_cases c1 : absDiff f0 l0 < absDiff f0 l1
  · by_cases c2 : absDiff f0 l1 < absDiff f1 l0
    · by_cases c3 : absDiff f1 l0 < absDiff f1 l1
      · simp only [c1, c2, c3, if_true]
        refine ⟨f1, l1, Or.inr rfl, Or.inr rfl, rfl, ?_⟩
        intro a' b' h1 h2 h3 h4
        apply key
        rcases bound a' b' h1 h2 h3 h4 with h | h <;> omega
      · simp only [c1, c2, c3, if_true, if_false]
        refine ⟨f1, l0, Or.inr rfl, Or.inl rfl, rfl, ?_⟩
        intro a' b' h1 h2 h3 h4
        apply key
        rcases bound a' b' h1 h2 h3 h4 with h | h <;> omega
    · by_cases c3 : absDiff f0 l1 < absDiff f1 l1
      · simp only [c1, c2, c3, if_true, if_false]
        refine ⟨f1, l1, Or.inr rfl, Or.inr rfl, rfl, ?_⟩
        intro a' b' h1 h2 h3 h4
        apply key
        rcases bound a' b' h1 h2 h3 h4 with h | h <;> omega
      · simp only [c1, c2, c3, if_true, if_false]
        refine ⟨f0, l1, Or.inl rfl, Or.inr rfl, rfl, ?_⟩
        intro a' b' h1 h2 h3 h4
        apply key
        rcases bound a' b' h1 h2 h3 h4 with h | h <;> omega
  · by_cases c2 : absDiff f0 l0 < absDiff f1 l0
    · by_cases c3 : absDiff f1 l0 < absDiff f1 l1
      · simp only [c1, c2, c3, if_true, if_false]
        refine ⟨f1, l1, Or.inr rfl, Or.inr rfl, rfl, ?_⟩
        intro a' b' h1 h2 h3 h4
        apply key
        rcases bound a' b' h1 h2 h3 h4 with h | h <;> omega
      · simp only [c1, c2, c3, if_true, if_false]
        refine ⟨f1, l0, Or.inr rfl, Or.inl rfl, rfl, ?_⟩
        intro a' b' h1 h2 h3 h4
        apply key
        rcases bound a' b' h1 h2 h3 h4 with h | h <;> omega
    · by_cases c3 : absDiff f0 l0 < absDiff f1 l1
      · simp only [c1, c2, c3, if_true, if_false]
        refine ⟨f1, l1, Or.inr rfl, Or.inr rfl, rfl, ?_⟩
        intro a' b' h1 h2 h3 h4
        apply key
        rcases bound a' b' h1 h2 h3 h4 with h | h <;> omega
      · simp only [c1, c2, c3, if_true, if_false]
        refine ⟨f0, l0, Or.inl rfl, Or.inl rfl, rfl, ?_⟩
        intro a' b' h1 h2 h3 h4
        apply key
        rcases bound a' b' h1 h2 h3 h4 with h | h <;> omega

/-! ### the index loop of the RANGE format -/

theorem rangeItems_ok {all : List Frame} {lo n : Nat} (hlo : 1 ≤ lo) (hhi : lo + n ≤ all.length + 1) :
    ∃ items, rangeItems all lo n = .ok items ∧
      ∀ k f, (k, f) ∈ items ↔ lo ≤ k ∧ k < lo + n ∧ At all k f := by
  induction n generalizing lo with
  | zero =>
    refine ⟨[], rfl, ?_⟩
    intro k f; simp; omega
  | succ n ih =>
    unfold rangeItems
    have h0 : lo ≠ 0 := by omega
    simp only [h0, if_false]
    have hlt : lo - 1 < all.length := by omega
    rw [List.getElem?_eq_getElem hlt]
    obtain ⟨items, hit, hmem⟩ := ih (lo := lo + 1) (by omega) (by omega)
    refine ⟨(lo, all[lo - 1]) :: items, by simp [hit, bind, Except.bind], ?_⟩
    intro k f
    simp only [List.mem_cons, Prod.mk.injEq, hmem]
    constructor
    · rintro (⟨rfl, rfl⟩ | ⟨h1, h2, h3⟩)
      · exact ⟨Nat.le_refl _, by omega, hlo, List.getElem?_eq_getElem hlt⟩
      · exact ⟨by omega, by omega, h3⟩
    · rintro ⟨h1, h2, h3⟩
      by_cases hk : k = lo
      · subst hk
        left
        refine ⟨rfl, ?_⟩
        have := h3.2
        rw [List.getElem?_eq_getElem hlt] at this
        simpa using this.symm
      · right; exact ⟨by omega, by omega, h3⟩

end Pfb.C17
