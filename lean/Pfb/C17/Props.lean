import Pfb.C17.Model
