/-
  Pfb.C17.Props — property theorems for C17 (saveframe files hold exactly the selected
  frames and variables).  Everything here is about the model `Pfb.C17.*` (Model.lean);
  the model is tied to `_saveframe.py` / `_saveframe_reader.py` by harness/c17.py.

  `re` (the function `Rx`), `pickle` (`Local.picklable`, load ∘ dump = id) and the
  kernel's create-mode rule are inputs of the model, quantified over in the theorems.
-/
import Pfb.C17.Lemmas
namespace Pfb.C17
open Pfb

/-! ## 0. the exception chain: the failing frame has key 1 -/

/-- The frames of the exception itself come first, innermost first; then the frames of
    `__cause__`, else of `__context__`. -/
theorem C17_chain_first (cfg : Cfg) (tb : List Frame) (cause context : Option Exc) (sup : Bool) :
    ∃ rest, allFrames cfg (.mk tb cause context sup) = tb.reverse ++ rest ∧
      rest = (match cause with
              | some c => allFrames cfg c
              | none => match context with
                | some x => if cfg.d2fixed && sup then [] else allFrames cfg x
                | none => []) := by
  cases cause <;> cases context <;> exact ⟨_, by simp only [allFrames], rfl⟩

/-- Key 1 is the frame in which the exception was raised (the last traceback entry). -/
theorem C17_failing_frame_first (cfg : Cfg) (tb : List Frame) (cause context : Option Exc) (sup : Bool)
    (f : Frame) (h : tb.getLast? = some f) :
    At (allFrames cfg (.mk tb cause context sup)) 1 f := by
  obtain ⟨ys, rfl⟩ := List.getLast?_eq_some_iff.mp h
  refine ⟨Nat.le_refl _, ?_⟩
  cases cause <;> cases context <;> simp [allFrames]

example : At (allFrames {} (.mk [⟨0, "a.py".toList, 3, "f".toList, "f".toList, [], [], [], []⟩,
                                 ⟨1, "b.py".toList, 7, "g".toList, "g".toList, [], [], [], []⟩] none none false)) 1
    ⟨1, "b.py".toList, 7, "g".toList, "g".toList, [], [], [], []⟩ :=
  C17_failing_frame_first _ _ _ _ _ _ rfl

/-! ## 1. selection -/

/-- what one parsed frame `file_regex:line:function` (or the open end of `first..`) denotes -/
def PatDenotes (rx : Rx) (all : List Frame) (p : Pat) (k : Nat) : Prop :=
  match p with
  | .openEnd => k = 1
  | .pat r line fn => ∃ m f, rx r = some m ∧ At all k f ∧ frameMatches m line fn f = true

theorem allMatching_spec {rx : Rx} {p : Pat} {all : List Frame} {l : List (Nat × Frame)}
    (h : allMatching rx p all = .ok l) :
    (∀ k f, (k, f) ∈ l ↔ At all k f ∧ PatDenotes rx all p k) ∧ l.Pairwise (fun x y => x.1 < y.1) := by
  cases p with
  | openEnd =>
    cases all with
    | nil => simp [allMatching] at h
    | cons f0 rest =>
      simp only [allMatching, Except.ok.injEq] at h
      subst h
      refine ⟨?_, by simp⟩
      intro k f
      simp only [List.mem_singleton, Prod.mk.injEq, PatDenotes, At]
      constructor
      · rintro ⟨rfl, rfl⟩; simp
      · rintro ⟨⟨_, h2⟩, rfl⟩; simp at h2; exact ⟨rfl, h2.symm⟩
  | pat r line fn =>
    simp only [allMatching] at h
    cases hr : rx r with
    | none =>
      simp only [hr] at h
      split at h
      · simp only [Except.ok.injEq] at h; subst h
        refine ⟨?_, by simp⟩
        intro k f; simp [PatDenotes, hr]
      · simp at h
    | some m =>
      simp only [hr, Except.ok.injEq] at h
      subst h
      refine ⟨?_, (enumFrom_lt all 1).filter _⟩
      intro k f
      simp only [List.mem_filter, mem_enumFrom_one, PatDenotes, hr, Option.some.injEq]
      constructor
      · rintro ⟨h1, h2⟩; exact ⟨h1, m, f, rfl, h1, h2⟩
      · rintro ⟨h1, m', f', rfl, h3, h4⟩
        have := h1.unique h3; subst this
        exact ⟨h1, h4⟩

theorem matchList_spec {rx : Rx} {all : List Frame} {ps : List Pat} {ms : List (Nat × Frame)}
    (h : matchList rx all ps = .ok ms) :
    ∀ k f, (k, f) ∈ ms ↔ At all k f ∧ ∃ p ∈ ps, PatDenotes rx all p k := by
  induction ps generalizing ms with
  | nil =>
    simp only [matchList, Except.ok.injEq] at h; subst h
    intro k f; simp
  | cons p ps ih =>
    simp only [matchList, bind, Except.bind] at h
    cases hm : allMatching rx p all with
    | error e => simp [hm] at h
    | ok m =>
      cases hr : matchList rx all ps with
      | error e => simp [hm, hr] at h
      | ok rest =>
        simp only [hm, hr, Except.ok.injEq] at h; subst h
        intro k f
        rw [List.mem_append, (allMatching_spec hm).1, ih hr]
        constructor
        · rintro (⟨h1, h2⟩ | ⟨h1, q, hq, h2⟩)
          · exact ⟨h1, p, by simp, h2⟩
          · exact ⟨h1, q, by simp [hq], h2⟩
        · rintro ⟨h1, q, hq, h2⟩
          rcases List.mem_cons.mp hq with rfl | hq
          · exact Or.inl ⟨h1, h2⟩
          · exact Or.inr ⟨h1, q, hq, h2⟩

theorem consistent_of_At {all : List Frame} {l : List (Nat × Frame)} (h : ∀ x ∈ l, At all x.1 x.2) :
    Consistent l := by
  intro x hx y hy hk
  have h1 := h x hx
  have h2 := h y hy
  rw [hk] at h1
  exact h1.unique h2

/-- No frames argument: the failing frame, under key 1. -/
theorem C17_selection_none {rx : Rx} {all : List Frame} {r : List (Nat × Frame)}
    (h : framesToSave rx .none all = .ok r) :
    ∀ k f, (k, f) ∈ r ↔ At all k f ∧ k = 1 := by
  cases all with
  | nil => simp [framesToSave] at h
  | cons f0 rest =>
    simp only [framesToSave, Except.ok.injEq] at h; subst h
    intro k f
    simp only [List.mem_singleton, Prod.mk.injEq, At]
    constructor
    · rintro ⟨rfl, rfl⟩; simp
    · rintro ⟨⟨_, h2⟩, rfl⟩; simp at h2; exact ⟨rfl, h2.symm⟩

/-- NUM: exactly the first `min n len` frames, each under its 1-based distance from the failing frame
    (no uniqueness loop in this format: the code returns before it). -/
theorem C17_selection_num {rx : Rx} {all : List Frame} {n : Int} {r : List (Nat × Frame)}
    (h : framesToSave rx (.num n) all = .ok r) :
    (∀ k f, (k, f) ∈ r ↔ At all k f ∧ (k : Int) ≤ n) ∧ r.length = min n.toNat all.length := by
  simp only [framesToSave, Except.ok.injEq] at h
  subst h
  constructor
  · intro k f
    rw [mem_enumFrom_one]
    unfold At
    rw [List.getElem?_take]
    generalize hm : (if (all.length : Int) < n then all.length else n.toNat) = m
    have hm' : k - 1 < all.length → 1 ≤ k → (k - 1 < m ↔ (k : Int) ≤ n) := by
      intro hk h1; subst hm; split <;> omega
    have hlen : all[k - 1]? = some f → k - 1 < all.length := by
      intro h2
      rcases Nat.lt_or_ge (k - 1) all.length with h | h
      · exact h
      · rw [List.getElem?_eq_none h] at h2; simp at h2
    constructor
    · rintro ⟨h1, h2⟩
      by_cases hlt : k - 1 < m
      · rw [if_pos hlt] at h2
        exact ⟨⟨h1, h2⟩, (hm' (hlen h2) h1).mp hlt⟩
      · rw [if_neg hlt] at h2; simp at h2
    · rintro ⟨⟨h1, h2⟩, h3⟩
      refine ⟨h1, ?_⟩
      rw [if_pos ((hm' (hlen h2) h1).mpr h3)]
      exact h2
  · have hl : ∀ (l : List Frame) (i : Nat), (enumFrom i l).length = l.length := by
      intro l; induction l with
      | nil => intro i; rfl
      | cons a as ih => intro i; simp [enumFrom, ih]
    rw [hl, List.length_take]
    split <;> omega

/-- LIST (one frame or several): a key is saved iff some listed frame matches there and no smaller
    matched key holds the same frame object ("duplicates keep the smallest index"). -/
theorem C17_selection_list {rx : Rx} {all : List Frame} {ps : List Pat} {r : List (Nat × Frame)}
    (h : framesToSave rx (.list ps) all = .ok r) :
    ∀ k f, (k, f) ∈ r ↔
      At all k f ∧ (∃ p ∈ ps, PatDenotes rx all p k) ∧
      ∀ k' f', At all k' f' → (∃ p ∈ ps, PatDenotes rx all p k') → f'.fid = f.fid → k ≤ k' := by
  simp only [framesToSave, bind, Except.bind] at h
  cases hm : matchList rx all ps with
  | error e => simp [hm] at h
  | ok ms =>
    simp only [hm, Except.ok.injEq] at h; subst h
    have spec := matchList_spec hm
    have hc : Consistent ms := consistent_of_At (all := all) (fun x hx => ((spec x.1 x.2).mp hx).1)
    intro k f
    rw [mem_sortDedup hc, spec]
    constructor
    · rintro ⟨⟨h1, h2⟩, h3⟩
      exact ⟨h1, h2, fun k' f' hA hD hfid => h3 (k', f') ((spec k' f').mpr ⟨hA, hD⟩) hfid⟩
    · rintro ⟨h1, h2, h3⟩
      exact ⟨⟨h1, h2⟩, fun y hy hfid => h3 y.1 y.2 ((spec y.1 y.2).mp hy).1 ((spec y.1 y.2).mp hy).2 hfid⟩

/-- an index that the pattern denotes and that is a position of the stack -/
def Den (rx : Rx) (all : List Frame) (p : Pat) (k : Nat) : Prop := (∃ f, At all k f) ∧ PatDenotes rx all p k

/-- RANGE `first..last` / `first..`: the saved keys are the closed interval between a first-match index `ka` and
    a last-match index `kb` that are at least as far apart as any other pair of matches, minus later
    duplicates of a frame object. -/
theorem C17_selection_range {rx : Rx} {all : List Frame} {a b : Pat} {r : List (Nat × Frame)}
    (h : framesToSave rx (.range a b) all = .ok r) :
    ∃ ka kb, Den rx all a ka ∧ Den rx all b kb ∧
      (∀ ka' kb', Den rx all a ka' → Den rx all b kb' → absDiff ka' kb' ≤ max ka kb - min ka kb) ∧
      ∀ k f, (k, f) ∈ r ↔
        At all k f ∧ min ka kb ≤ k ∧ k ≤ max ka kb ∧
        ∀ k' f', At all k' f' → min ka kb ≤ k' → k' ≤ max ka kb → f'.fid = f.fid → k ≤ k' := by
  simp only [framesToSave, bind, Except.bind] at h
  cases hF : allMatching rx a all with
  | error e => simp [hF] at h
  | ok F =>
    simp only [hF] at h
    cases hFh : F.head? with
    | none => simp [hFh] at h
    | some fa =>
      cases hFl : F.getLast? with
      | none => simp [hFh, hFl] at h
      | some fb =>
        simp only [hFh, hFl] at h
        cases hL : allMatching rx b all with
        | error e => simp [hL] at h
        | ok L =>
          simp only [hL] at h
          cases hLh : L.head? with
          | none => simp [hLh] at h
          | some la =>
            cases hLl : L.getLast? with
            | none => simp [hLh, hLl] at h
            | some lb =>
              simp only [hLh, hLl] at h
              obtain ⟨sF, ltF⟩ := allMatching_spec hF
              obtain ⟨sL, ltL⟩ := allMatching_spec hL
              obtain ⟨x, y, hx, hy, hfar, hmax⟩ := farthest_spec fa.1 fb.1 la.1 lb.1
              -- members
              have mfa := head?_mem' hFh
              have mfb := getLast?_mem' hFl
              have mla := head?_mem' hLh
              have mlb := getLast?_mem' hLl
              have denF : ∀ z ∈ F, Den rx all a z.1 := fun z hz =>
                ⟨⟨z.2, ((sF z.1 z.2).mp hz).1⟩, ((sF z.1 z.2).mp hz).2⟩
              have denL : ∀ z ∈ L, Den rx all b z.1 := fun z hz =>
                ⟨⟨z.2, ((sL z.1 z.2).mp hz).1⟩, ((sL z.1 z.2).mp hz).2⟩
              have dx : Den rx all a x := by
                rcases hx with rfl | rfl
                · exact denF _ mfa
                · exact denF _ mfb
              have dy : Den rx all b y := by
                rcases hy with rfl | rfl
                · exact denL _ mla
                · exact denL _ mlb
              -- bounds on the interval
              have hx1 : 1 ≤ x := by obtain ⟨⟨f, h1, _⟩, _⟩ := dx; exact h1
              have hy1 : 1 ≤ y := by obtain ⟨⟨f, h1, _⟩, _⟩ := dy; exact h1
              have hlen : ∀ {k}, (∃ f, At all k f) → k ≤ all.length := by
                rintro k ⟨f, h1, h2⟩
                rcases Nat.lt_or_ge (k - 1) all.length with h | h
                · omega
                · rw [List.getElem?_eq_none h] at h2; simp at h2
              have hxl := hlen dx.1
              have hyl := hlen dy.1
              rw [hfar] at h
              simp only at h
              obtain ⟨items, hit, hmem⟩ := rangeItems_ok (all := all) (lo := min x y) (n := max x y + 1 - min x y)
                (by omega) (by omega)
              simp only [hit, Except.ok.injEq] at h
              subst h
              refine ⟨x, y, dx, dy, ?_, ?_⟩
              · intro ka' kb' hka hkb
                obtain ⟨⟨f1, hA1⟩, hP1⟩ := hka
                obtain ⟨⟨f2, hA2⟩, hP2⟩ := hkb
                have m1 : (ka', f1) ∈ F := (sF ka' f1).mpr ⟨hA1, hP1⟩
                have m2 : (kb', f2) ∈ L := (sL kb' f2).mpr ⟨hA2, hP2⟩
                exact hmax ka' kb' (head_le_of_lt ltF hFh _ m1) (le_last_of_lt ltF hFl _ m1)
                  (head_le_of_lt ltL hLh _ m2) (le_last_of_lt ltL hLl _ m2)
              · have hc : Consistent items :=
                  consistent_of_At (all := all) (fun z hz => ((hmem z.1 z.2).mp hz).2.2)
                intro k f
                rw [mem_sortDedup hc, hmem]
                constructor
                · rintro ⟨⟨h1, h2, h3⟩, h4⟩
                  refine ⟨h3, h1, by omega, ?_⟩
                  intro k' f' hA hlo hhi hfid
                  exact h4 (k', f') ((hmem k' f').mpr ⟨hlo, by omega, hA⟩) hfid
                · rintro ⟨h1, h2, h3, h4⟩
                  refine ⟨⟨h2, by omega, h1⟩, ?_⟩
                  intro z hz hfid
                  obtain ⟨z1, z2, z3⟩ := (hmem z.1 z.2).mp hz
                  exact h4 z.1 z.2 z3 z1 (by omega) hfid

/-- Every saved key is the 1-based distance of its frame from the failing frame, and the keys are
    strictly increasing (so the keys of the saved dict are distinct and in this order). -/
theorem C17_selection_keys {rx : Rx} {p : Parsed} {all : List Frame} {r : List (Nat × Frame)}
    (h : framesToSave rx p all = .ok r) :
    (∀ x ∈ r, At all x.1 x.2) ∧ r.Pairwise (fun x y => x.1 < y.1) := by
  cases p with
  | none =>
    have s := C17_selection_none h
    cases all with
    | nil => simp [framesToSave] at h
    | cons f0 rest =>
      simp only [framesToSave, Except.ok.injEq] at h; subst h
      exact ⟨fun x hx => ((s x.1 x.2).mp hx).1, by simp⟩
  | num n =>
    have s := (C17_selection_num h).1
    refine ⟨fun x hx => ((s x.1 x.2).mp hx).1, ?_⟩
    simp only [framesToSave, Except.ok.injEq] at h; subst h
    exact enumFrom_lt _ _
  | list ps =>
    have s := C17_selection_list h
    refine ⟨fun x hx => ((s x.1 x.2).mp hx).1, ?_⟩
    simp only [framesToSave, bind, Except.bind] at h
    cases hm : matchList rx all ps with
    | error e => simp [hm] at h
    | ok ms =>
      simp only [hm, Except.ok.injEq] at h; subst h
      exact sortDedup_lt (consistent_of_At (all := all) (fun x hx => ((matchList_spec hm x.1 x.2).mp hx).1))
  | range a b =>
    obtain ⟨ka, kb, _, _, _, s⟩ := C17_selection_range h
    have hA : ∀ x ∈ r, At all x.1 x.2 := fun x hx => ((s x.1 x.2).mp hx).1
    refine ⟨hA, ?_⟩
    -- r = sortDedup items for some items; recover it from the definition
    simp only [framesToSave, bind, Except.bind] at h
    cases hF : allMatching rx a all with
    | error e => simp [hF] at h
    | ok F =>
      simp only [hF] at h
      cases hFh : F.head? with
      | none => simp [hFh] at h
      | some fa =>
        cases hFl : F.getLast? with
        | none => simp [hFh, hFl] at h
        | some fb =>
          simp only [hFh, hFl] at h
          cases hL : allMatching rx b all with
          | error e => simp [hL] at h
          | ok L =>
            simp only [hL] at h
            cases hLh : L.head? with
            | none => simp [hLh] at h
            | some la =>
              cases hLl : L.getLast? with
              | none => simp [hLh, hLl] at h
              | some lb =>
                simp only [hLh, hLl] at h
                split at h
                · simp at h
                · rename_i items hit
                  simp only [Except.ok.injEq] at h
                  subst h
                  have hsub : (sortDedup items).Sublist (sortKeys items) := dedupGo_sublist [] _
                  have hcons : Consistent (sortDedup items) := consistent_of_At (all := all) hA
                  have hle := (sorted_sortKeys items).sublist hsub
                  have := hle.and (sortDedup_fids items)
                  refine List.Pairwise.imp_of_mem ?_ this
                  intro u v hu hv ⟨h1, h2⟩
                  rcases Nat.lt_or_ge u.1 v.1 with h | h
                  · exact h
                  · have hk : u.1 = v.1 := Nat.le_antisymm h1 h
                    exact absurd (congrArg Frame.fid (hcons u hu v hv hk)) h2

/-- LIST and RANGE never save one frame object twice. -/
theorem C17_selection_unique_frames {rx : Rx} {all : List Frame} {p : Parsed} {r : List (Nat × Frame)}
    (hp : ∀ n, p ≠ .num n) (h : framesToSave rx p all = .ok r) :
    r.Pairwise (fun x y => x.2.fid ≠ y.2.fid) := by
  cases p with
  | none =>
    cases all with
    | nil => simp [framesToSave] at h
    | cons f0 rest => simp only [framesToSave, Except.ok.injEq] at h; subst h; simp
  | num n => exact absurd rfl (hp n)
  | list ps =>
    simp only [framesToSave, bind, Except.bind] at h
    cases hm : matchList rx all ps with
    | error e => simp [hm] at h
    | ok ms => simp only [hm, Except.ok.injEq] at h; subst h; exact sortDedup_fids _
  | range a b =>
    simp only [framesToSave, bind, Except.bind] at h
    cases hF : allMatching rx a all with
    | error e => simp [hF] at h
    | ok F =>
      simp only [hF] at h
      split at h
      · cases hL : allMatching rx b all with
        | error e => simp [hL] at h
        | ok L =>
          simp only [hL] at h
          split at h
          · split at h
            · simp at h
            · simp only [Except.ok.injEq] at h; subst h; exact sortDedup_fids _
          · simp at h
      · simp at h

/-- The selection step fails only in the documented ways: an exception without any frame
    (`IndexError`), a regex that does not compile, a range end that matches nothing.  The
    `internal` branches of the model (Python's `all_frames[-1]`, a malformed parse) are unreachable. -/
theorem C17_selection_total {rx : Rx} {p : Parsed} {all : List Frame} {e : Err}
    (h : framesToSave rx p all = .error e) :
    (e = .noFrames ∧ all = []) ∨ e = .regexError ∨ e = .rangeNoMatch := by
  have hAM : ∀ {q : Pat} {e' : Err}, allMatching rx q all = .error e' →
      (e' = .noFrames ∧ all = []) ∨ e' = .regexError := by
    intro q e' hq
    cases q with
    | openEnd =>
      cases all with
      | nil => simp only [allMatching, Except.error.injEq] at hq; exact Or.inl ⟨hq.symm, rfl⟩
      | cons f0 rest => simp [allMatching] at hq
    | pat r line fn =>
      simp only [allMatching] at hq
      split at hq
      · split at hq
        · simp at hq
        · simp only [Except.error.injEq] at hq; exact Or.inr hq.symm
      · simp at hq
  cases p with
  | none =>
    cases all with
    | nil => simp only [framesToSave, Except.error.injEq] at h; exact Or.inl ⟨h.symm, rfl⟩
    | cons f0 rest => simp [framesToSave] at h
  | num n => simp [framesToSave] at h
  | list ps =>
    simp only [framesToSave, bind, Except.bind] at h
    cases hm : matchList rx all ps with
    | ok ms => simp [hm] at h
    | error e' =>
      simp only [hm, Except.error.injEq] at h; subst h
      induction ps with
      | nil => simp [matchList] at hm
      | cons q qs ih =>
        simp only [matchList, bind, Except.bind] at hm
        cases hq : allMatching rx q all with
        | error e2 =>
          simp only [hq, Except.error.injEq] at hm; subst hm
          rcases hAM hq with h | h
          · exact Or.inl h
          · exact Or.inr (Or.inl h)
        | ok m =>
          simp only [hq] at hm
          cases hr : matchList rx all qs with
          | error e2 => simp only [hr, Except.error.injEq] at hm; subst hm; exact ih hr
          | ok rest => simp [hr] at hm
  | range a b =>
    simp only [framesToSave, bind, Except.bind] at h
    cases hF : allMatching rx a all with
    | error e' =>
      simp only [hF, Except.error.injEq] at h; subst h
      rcases hAM hF with h | h
      · exact Or.inl h
      · exact Or.inr (Or.inl h)
    | ok F =>
      simp only [hF] at h
      cases hFh : F.head? with
      | none => simp only [hFh, Except.error.injEq] at h; exact Or.inr (Or.inr h.symm)
      | some fa =>
        cases hFl : F.getLast? with
        | none => simp only [hFh, hFl, Except.error.injEq] at h; exact Or.inr (Or.inr h.symm)
        | some fb =>
          simp only [hFh, hFl] at h
          cases hL : allMatching rx b all with
          | error e' =>
            simp only [hL, Except.error.injEq] at h; subst h
            rcases hAM hL with h | h
            · exact Or.inl h
            · exact Or.inr (Or.inl h)
          | ok L =>
            simp only [hL] at h
            cases hLh : L.head? with
            | none => simp only [hLh, Except.error.injEq] at h; exact Or.inr (Or.inr h.symm)
            | some la =>
              cases hLl : L.getLast? with
              | none => simp only [hLh, hLl, Except.error.injEq] at h; exact Or.inr (Or.inr h.symm)
              | some lb =>
                exfalso
                simp only [hLh, hLl] at h
                obtain ⟨sF, _⟩ := allMatching_spec hF
                obtain ⟨sL, _⟩ := allMatching_spec hL
                obtain ⟨x, y, hx, hy, hfar, _⟩ := farthest_spec fa.1 fb.1 la.1 lb.1
                have atF : ∀ z ∈ F, At all z.1 z.2 := fun z hz => ((sF z.1 z.2).mp hz).1
                have atL : ∀ z ∈ L, At all z.1 z.2 := fun z hz => ((sL z.1 z.2).mp hz).1
                have hlen : ∀ {k f}, At all k f → 1 ≤ k ∧ k ≤ all.length := by
                  rintro k f ⟨h1, h2⟩
                  rcases Nat.lt_or_ge (k - 1) all.length with h | h
                  · omega
                  · rw [List.getElem?_eq_none h] at h2; simp at h2
                have bx : 1 ≤ x ∧ x ≤ all.length := by
                  rcases hx with rfl | rfl
                  · exact hlen (atF _ (head?_mem' hFh))
                  · exact hlen (atF _ (getLast?_mem' hFl))
                have byy : 1 ≤ y ∧ y ≤ all.length := by
                  rcases hy with rfl | rfl
                  · exact hlen (atL _ (head?_mem' hLh))
                  · exact hlen (atL _ (getLast?_mem' hLl))
                rw [hfar] at h
                simp only at h
                obtain ⟨items, hit, _⟩ := rangeItems_ok (all := all) (lo := min x y)
                  (n := max x y + 1 - min x y) (by omega) (by omega)
                simp [hit] at h

/-! ### the hypotheses of the selection theorems are met by non-trivial inputs -/
section Examples

private def fr (fid : Nat) (file : String) (line : Nat) (name : String) : Frame :=
  ⟨fid, file.toList, line, name.toList, name.toList, [], [], [], []⟩
/-- a stand-in for `re.search`: prefix match; the regex "(" does not compile -/
private def exRx : Rx := fun r => if r = "(".toList then none else some (fun file => r.isPrefixOf file)
/-- a chained exception: the frame object 0 (`f` in a.py) is in both tracebacks -/
private def exAll : List Frame := [fr 0 "a.py" 9 "f", fr 1 "b.py" 4 "g", fr 0 "a.py" 9 "f", fr 2 "b.py" 7 "h"]

-- RANGE a.py::..b.py:: — first matches {1,3}, last matches {2,4}; farthest pair (1,4); frame object 0 kept once
example : framesToSave exRx (.range (.pat "a".toList none []) (.pat "b".toList none [])) exAll =
    .ok [(1, fr 0 "a.py" 9 "f"), (2, fr 1 "b.py" 4 "g"), (4, fr 2 "b.py" 7 "h")] := by rfl
-- open RANGE b.py:7:.. — from the match down to the failing frame
example : framesToSave exRx (.range (.pat "b".toList (some 7) []) .openEnd) exAll =
    .ok [(1, fr 0 "a.py" 9 "f"), (2, fr 1 "b.py" 4 "g"), (4, fr 2 "b.py" 7 "h")] := by rfl
-- LIST [a.py::, b.py::h]
example : framesToSave exRx (.list [.pat "a".toList none [], .pat "b".toList none "h".toList]) exAll =
    .ok [(1, fr 0 "a.py" 9 "f"), (4, fr 2 "b.py" 7 "h")] := by rfl
-- NUM 3 keeps the duplicate (no uniqueness loop in this format); NUM 9 is clamped; NUM -1 saves nothing
example : (framesToSave exRx (.num 3) exAll).toOption.map (·.map (·.1)) = some [1, 2, 3] := by rfl
example : (framesToSave exRx (.num 9) exAll).toOption.map (·.map (·.1)) = some [1, 2, 3, 4] := by rfl
example : framesToSave exRx (.num (-1)) exAll = .ok [] := by rfl
-- the three error outcomes of `C17_selection_total`
example : framesToSave exRx (.range (.pat "zzz".toList none []) .openEnd) exAll = .error .rangeNoMatch := by rfl
example : framesToSave exRx (.list [.pat "(".toList none []]) exAll = .error .regexError := by rfl
example : framesToSave exRx .none [] = .error .noFrames := by rfl
-- parsing: the selector strings of the documentation
example : validateFrames (.str "a.py::..b.py:7:h".toList) .function =
    .ok (.range (.pat "a.py".toList none []) (.pat "b.py".toList (some 7) "h".toList)) := by rfl
example : validateFrames (.str " 1_0 ".toList) .function = .ok (.num 10) := by rfl
example : validateFrames (.str "a::,b::".toList) .function = .error .framesCommaStr := by rfl
example : validateFrames (.str "a::,b::".toList) .script =
    .ok (.list [.pat "a".toList none [], .pat "b".toList none []]) := by rfl

end Examples

/-! ## 2. variable filters -/

/-- the names the user listed, before validation -/
def rawNames : VarArg → List Str
  | .none => []
  | .str s => (splitOnChar ',' s).map strip
  | .list l => l.filterMap (fun | .s v => some v | .other => none)
  | .other _ => []

theorem itemStrs_eq {l : List VarItem} {ss : List Str} (h : itemStrs l = some ss) :
    ss = l.filterMap (fun | .s v => some v | .other => none) := by
  induction l generalizing ss with
  | nil => simp [itemStrs] at h; subst h; rfl
  | cons a as ih =>
    cases a with
    | s v =>
      simp only [itemStrs, Option.map_eq_some_iff] at h
      obtain ⟨t, ht, rfl⟩ := h
      simp [ih ht]
    | other => simp [itemStrs] at h

theorem validateVars_ok {a : VarArg} {u : Util} {r : Option (List Str)} (h : validateVars a u = .ok r) :
    (a = .none ∧ r = none) ∨ (a ≠ .none ∧ r = some ((rawNames a).filter validName)) := by
  cases a with
  | none => simp [validateVars] at h; exact Or.inl ⟨rfl, h.symm⟩
  | str s =>
    simp only [validateVars] at h
    split at h
    · simp at h
    · simp only [Except.ok.injEq] at h; exact Or.inr ⟨by simp, by simp [rawNames, ← h]⟩
  | list l =>
    simp only [validateVars] at h
    split at h
    · simp at h
    · rename_i ss hss
      simp only [Except.ok.injEq] at h
      exact Or.inr ⟨by simp, by simp [rawNames, ← h, itemStrs_eq hss]⟩
  | other t => simp [validateVars] at h

/-- the documented meaning of the two filters for one local variable -/
def Retained (a : Args) (l : Local) : Prop :=
  isDunder l.name = false ∧ (a.vars.truthy = true → l.name ∈ rawNames a.vars) ∧
  l.name ∉ rawNames a.excl ∧ l.picklable = true

/-- D7 does not strike: the include list, if one was passed, still has a valid name after validation. -/
def d7free (a : Args) : Bool := !(a.vars.truthy && ((rawNames a.vars).filter validName).isEmpty)

theorem mem_localsData {cfg : Cfg} {incl excl : Option (List Str)} {ls : List Local} {n val : Str} :
    (n, val) ∈ localsData cfg incl excl ls ↔
      ∃ l ∈ ls, l.name = n ∧ l.val = val ∧ isDunder l.name = false ∧
        (inclActive cfg incl = true → l.name ∈ incl.getD []) ∧ l.name ∉ excl.getD [] ∧ l.picklable = true := by
  simp only [localsData, List.mem_map, List.mem_filter, keepLocal, Bool.and_eq_true, Bool.not_eq_true',
    Prod.mk.injEq]
  constructor
  · rintro ⟨l, ⟨hl, ⟨⟨h1, h2⟩, h3⟩, h4⟩, rfl, rfl⟩
    refine ⟨l, hl, rfl, rfl, h1, ?_, ?_, h4⟩
    · intro hact
      simp only [hact, Bool.true_and, Bool.not_eq_false', List.contains_eq_mem, decide_eq_true_eq] at h2
      simpa using h2
    · simpa using h3
  · rintro ⟨l, hl, rfl, rfl, h1, h2, h3, h4⟩
    refine ⟨l, ⟨hl, ⟨⟨h1, ?_⟩, ?_⟩, h4⟩, rfl, rfl⟩
    · cases hact : inclActive cfg incl with
      | false => simp
      | true => simpa using h2 hact
    · simpa using h3

/-- unpacking of `_validate_saveframe_arguments` -/
theorem validateArgs_ok {cfg : Cfg} {a : Args} {v : Valid} (h : validateArgs cfg a = .ok v) :
    ∃ vi, validateVars a.vars a.util = .ok vi ∧ validateVars a.excl a.util = .ok v.excl ∧
      (a.vars.truthy && a.excl.truthy) = false ∧
      v.incl = (if cfg.d7fixed && !a.vars.truthy then none else vi) ∧
      validateFrames a.frames a.util = .ok v.sel := by
  simp only [validateArgs, bind, Except.bind] at h
  cases hf : validateFrames a.frames a.util with
  | error e => simp [hf] at h
  | ok sel =>
    simp only [hf] at h
    cases hb : (a.vars.truthy && a.excl.truthy) with
    | true => simp [hb] at h
    | false =>
      simp only [hb, Bool.false_eq_true, if_false] at h
      cases hv : validateVars a.vars a.util with
      | error e => simp [hv] at h
      | ok vi =>
        simp only [hv] at h
        cases hx : validateVars a.excl a.util with
        | error e => simp [hx] at h
        | ok xi =>
          simp only [hx, Except.ok.injEq] at h
          subst h
          exact ⟨vi, rfl, rfl, rfl, rfl, rfl⟩

/-- Core of both filter theorems: when the include list is "in force" exactly if one was passed. -/
theorem filter_core {cfg : Cfg} {a : Args} {v : Valid} {ls : List Local}
    (hv : validateArgs cfg a = .ok v)
    (hact : inclActive cfg v.incl = a.vars.truthy)
    (hnames : ∀ l ∈ ls, validName l.name = true) (n val : Str) :
    (n, val) ∈ localsData cfg v.incl v.excl ls ↔ ∃ l ∈ ls, l.name = n ∧ l.val = val ∧ Retained a l := by
  obtain ⟨vi, hvi, hxi, hboth, hincl, _⟩ := validateArgs_ok hv
  rw [mem_localsData]
  have hexcl : ∀ l ∈ ls, (l.name ∈ v.excl.getD [] ↔ l.name ∈ rawNames a.excl) := by
    intro l hl
    rcases validateVars_ok hxi with ⟨h1, h2⟩ | ⟨_, h2⟩
    · simp [h2, h1, rawNames]
    · simp [h2, List.mem_filter, hnames l hl]
  have hinc : ∀ l ∈ ls, a.vars.truthy = true → (l.name ∈ v.incl.getD [] ↔ l.name ∈ rawNames a.vars) := by
    intro l hl ht
    rw [hincl]
    simp only [ht, Bool.not_true, Bool.and_false, Bool.false_eq_true, if_false]
    rcases validateVars_ok hvi with ⟨h1, _⟩ | ⟨_, h2⟩
    · simp [h1, VarArg.truthy] at ht
    · simp [h2, List.mem_filter, hnames l hl]
  constructor
  · rintro ⟨l, hl, h1, h2, h3, h4, h5, h6⟩
    refine ⟨l, hl, h1, h2, h3, ?_, ?_, h6⟩
    · intro ht; exact (hinc l hl ht).mp (h4 (hact.trans ht))
    · exact fun h => h5 ((hexcl l hl).mpr h)
  · rintro ⟨l, hl, h1, h2, h3, h4, h5, h6⟩
    refine ⟨l, hl, h1, h2, h3, ?_, ?_, h6⟩
    · intro ha
      have ht : a.vars.truthy = true := hact.symm.trans ha
      exact (hinc l hl ht).mpr (h4 ht)
    · exact fun h => h5 ((hexcl l hl).mp h)

/-
  TARGET (full strength; FALSE for the code as found because of D7, see `Witness` below):

    theorem C17_filter (a v ls) (hv : validateArgs {} a = .ok v) (hnames : ∀ l ∈ ls, validName l.name) :
      ∀ n val, (n, val) ∈ localsData {} v.incl v.excl ls ↔ ∃ l ∈ ls, l.name = n ∧ l.val = val ∧ Retained a l
-/

/-- The code as found: a saved variable is a non-dunder, included (when an include list was passed), not
    excluded, picklable local with its live value — and conversely — PROVIDED D7 does not strike. -/
theorem C17_filter_partial {a : Args} {v : Valid} {ls : List Local}
    (hv : validateArgs {} a = .ok v) (hfree : d7free a = true)
    (hnames : ∀ l ∈ ls, validName l.name = true) (n val : Str) :
    (n, val) ∈ localsData {} v.incl v.excl ls ↔ ∃ l ∈ ls, l.name = n ∧ l.val = val ∧ Retained a l := by
  refine filter_core hv ?_ hnames n val
  obtain ⟨vi, hvi, _, _, hincl, _⟩ := validateArgs_ok hv
  simp only [Bool.false_and, Bool.false_eq_true, if_false] at hincl
  rw [hincl]
  rcases validateVars_ok hvi with ⟨h1, h2⟩ | ⟨_, h2⟩
  · simp [h2, h1, inclActive, VarArg.truthy]
  · subst h2
    simp only [inclActive, Bool.false_or]
    simp only [d7free, Bool.not_eq_true', Bool.and_eq_false_iff] at hfree
    cases ht : a.vars.truthy with
    | true =>
      rcases hfree with h | h
      · simp [ht] at h
      · simpa using h
    | false =>
      -- nothing passed ('' or []): the validated list is empty
      cases hva : a.vars with
      | none => simp [hva] at *
      | str s =>
        simp only [hva, VarArg.truthy, Bool.not_eq_false', List.isEmpty_iff] at ht
        subst ht
        simp [rawNames, splitOnChar, strip, validName, isIdent]
      | list l =>
        simp only [hva, VarArg.truthy, Bool.not_eq_false', List.isEmpty_iff] at ht
        subst ht
        simp [rawNames]
      | other t => simp [hva, validateVars] at hvi

/-- With fixes/C17-D7.diff (`d7fixed`): the full-strength statement, no side condition. -/
theorem C17_filter_fixed {cfg : Cfg} (hd7 : cfg.d7fixed = true) {a : Args} {v : Valid} {ls : List Local}
    (hv : validateArgs cfg a = .ok v)
    (hnames : ∀ l ∈ ls, validName l.name = true) (n val : Str) :
    (n, val) ∈ localsData cfg v.incl v.excl ls ↔ ∃ l ∈ ls, l.name = n ∧ l.val = val ∧ Retained a l := by
  refine filter_core hv ?_ hnames n val
  obtain ⟨vi, hvi, _, _, hincl, _⟩ := validateArgs_ok hv
  rw [hincl]
  cases ht : a.vars.truthy with
  | false => simp [hd7, inclActive]
  | true =>
    simp only [hd7, Bool.not_true, Bool.and_false, Bool.false_eq_true, if_false]
    rcases validateVars_ok hvi with ⟨h1, _⟩ | ⟨_, h2⟩
    · simp [h1, VarArg.truthy] at ht
    · simp [h2, inclActive, hd7]

/-- making one variable unpicklable -/
def setUnpicklable (x : Str) (l : Local) : Local :=
  if l.name = x then { l with picklable := false } else l

/-- A variable that cannot be pickled is skipped without affecting the others: the saved
    mapping of a frame loses exactly the entries of that name; order and values of the rest stay. -/
theorem C17_skip_independent (cfg : Cfg) (incl excl : Option (List Str)) (ls : List Local) (x : Str) :
    localsData cfg incl excl (ls.map (setUnpicklable x)) =
      (localsData cfg incl excl ls).filter (fun p => p.1 ≠ x) := by
  induction ls with
  | nil => rfl
  | cons l rest ih =>
    simp only [localsData] at ih ⊢
    simp only [List.map_cons, List.filter_cons]
    by_cases hx : l.name = x
    · have h1 : keepLocal cfg incl excl (setUnpicklable x l) = false := by
        simp [keepLocal, setUnpicklable, hx]
      simp only [h1, Bool.false_eq_true, if_false]
      by_cases hk : keepLocal cfg incl excl l = true
      · simp only [hk, if_true, List.map_cons, List.filter_cons, hx, ne_eq, not_true_eq_false,
          decide_false, Bool.false_eq_true, if_false]
        exact ih
      · simp only [hk, Bool.false_eq_true, if_false]; exact ih
    · have h1 : setUnpicklable x l = l := by simp [setUnpicklable, hx]
      rw [h1]
      by_cases hk : keepLocal cfg incl excl l = true
      · simp only [hk, if_true, List.map_cons, List.filter_cons, ne_eq, hx, not_false_eq_true,
          decide_true, if_true]
        rw [ih]
      · simp only [hk, Bool.false_eq_true, if_false]; exact ih

example : localsData {} none none
      ([⟨"a".toList, "1".toList, true⟩, ⟨"b".toList, "2".toList, true⟩].map (setUnpicklable "a".toList))
    = [("b".toList, "2".toList)] := by decide

/-! ## 3. file mode -/

/-- A file that did not exist is created with mode 0644 whatever the process umask, and the
    umask is restored. -/
theorem C17_mode (u : Nat) : openFile ⟨none, u⟩ = ⟨some 0o644, u⟩ := by
  simp [openFile, osOpenCreat]

/-- A pre-existing file keeps its mode (outside the umask quantifier). -/
theorem C17_mode_existing (m u : Nat) : openFile ⟨some m, u⟩ = ⟨some m, u⟩ := by
  simp [openFile, osOpenCreat]

/-- …and clearing the umask is what makes it so: the bare `os.open` under umask 077 gives 0600. -/
example : osOpenCreat ⟨none, 0o077⟩ 0o644 = ⟨some 0o600, 0o077⟩ := by decide

/-! ## 4. reader -/
open Reader in
theorem findEntry_iff {d : Data} (hk : d.entries.Pairwise (fun a b => a.key ≠ b.key)) (k : Nat) (e : Entry) :
    findEntry d (k : Int) = some e ↔ e ∈ d.entries ∧ e.key = k := by
  unfold findEntry
  generalize d.entries = es at hk
  induction es with
  | nil => simp
  | cons a as ih =>
    have hk' := List.pairwise_cons.mp hk
    simp only [List.find?_cons]
    by_cases ha : a.key = k
    · have : ((a.key : Int) == (k : Int)) = true := by simp [ha]
      simp only [this, Option.some.injEq, List.mem_cons]
      constructor
      · rintro rfl; exact ⟨Or.inl rfl, ha⟩
      · rintro ⟨h1 | h1, h2⟩
        · exact h1.symm
        · exact absurd (ha.trans h2.symm) (hk'.1 e h1)
    · have : ((a.key : Int) == (k : Int)) = false := by simp; omega
      simp only [this, List.mem_cons]
      rw [ih hk'.2]
      constructor
      · rintro ⟨h1, h2⟩; exact ⟨Or.inr h1, h2⟩
      · rintro ⟨h1 | h1, h2⟩
        · subst h1; exact absurd h2 ha
        · exact ⟨h1, h2⟩

theorem lookup_iff {l : List (Str × Str)} (hn : (l.map (·.1)).Nodup) (n v : Str) :
    Reader.lookup n l = some v ↔ (n, v) ∈ l := by
  induction l with
  | nil => simp [Reader.lookup]
  | cons a as ih =>
    obtain ⟨a1, a2⟩ := a
    simp only [List.map_cons, List.nodup_cons] at hn
    simp only [Reader.lookup, List.mem_cons, Prod.mk.injEq]
    by_cases h : a1 = n
    · subst h
      simp only [if_true, Option.some.injEq, true_and]
      constructor
      · intro h; exact Or.inl h.symm
      · rintro (h | h)
        · exact h.symm
        · exact absurd (List.mem_map.mpr ⟨(a1, v), h, rfl⟩) hn.1
    · simp only [h, if_false]
      rw [ih hn.2]
      constructor
      · exact Or.inr
      · rintro (⟨h1, _⟩ | h1)
        · exact absurd h1.symm h
        · exact h1

theorem pick_single (n : Str) (vars : List (Str × Str)) :
    Reader.pick [n] vars = match Reader.lookup n vars with
      | some x => [(n, x)]
      | none => [] := by
  have h : [n].eraseDups = [n] := rfl
  simp only [Reader.pick, h, List.filterMap_cons, List.filterMap_nil]
  cases Reader.lookup n vars <;> rfl

/-- `get_variables('name', frame_idx=k)` returns exactly the value saved for `name` in frame `k`. -/
theorem C17_reader_variable_at {d : Reader.Data}
    (hk : d.entries.Pairwise (fun a b => a.key ≠ b.key))
    (hn : ∀ e ∈ d.entries, (e.vars.map (·.1)).Nodup) (n val : Str) (k : Nat) :
    Reader.getVariables d (.single n) (.int k) = .ok (.v val) ↔
      ∃ e ∈ d.entries, e.key = k ∧ (n, val) ∈ e.vars := by
  simp only [Reader.getVariables, List.isEmpty_cons, Bool.false_eq_true, if_false]
  cases hf : Reader.findEntry d (k : Int) with
  | none =>
    simp only
    constructor
    · intro h; simp at h
    · rintro ⟨e, he, hkey, _⟩
      have := (findEntry_iff hk k e).mpr ⟨he, hkey⟩
      rw [hf] at this; simp at this
  | some e =>
    obtain ⟨he, hkey⟩ := (findEntry_iff hk k e).mp hf
    simp only [pick_single]
    cases hl : Reader.lookup n e.vars with
    | none =>
      simp only
      constructor
      · intro h; simp at h
      · rintro ⟨e', he', hkey', hv⟩
        have : e' = e := by
          have := (findEntry_iff hk k e').mpr ⟨he', hkey'⟩
          rw [hf] at this; simpa using this.symm
        subst this
        have := (lookup_iff (hn e' he') n val).mpr hv
        rw [hl] at this; simp at this
    | some x =>
      simp only [Except.ok.injEq, Reader.RVal.v.injEq]
      constructor
      · rintro rfl
        exact ⟨e, he, hkey, (lookup_iff (hn e he) n x).mp hl⟩
      · rintro ⟨e', he', hkey', hv⟩
        have : e' = e := by
          have := (findEntry_iff hk k e').mpr ⟨he', hkey'⟩
          rw [hf] at this; simpa using this.symm
        subst this
        have := (lookup_iff (hn e' he') n val).mpr hv
        rw [hl] at this; simpa using this

/-- `get_variables('name')`: the map frame index ↦ value over the frames that saved `name`,
    returned bare when there is one such frame; `get_variables(['n1', …])`, `…, frame_idx=k)` analogous. -/
theorem C17_reader_variable_all (d : Reader.Data) (n : Str) :
    Reader.getVariables d (.single n) .none =
      (match d.entries.filterMap (fun e => (Reader.lookup n e.vars).map (fun v => (e.key, v))) with
       | [] => .error .notFound
       | [(_, v)] => .ok (.v v)
       | ps => .ok (.m ps)) := by
  simp only [Reader.getVariables, List.isEmpty_cons, Bool.false_eq_true, if_false]
  have hper : Reader.perFrame [n] d.entries =
      (d.entries.filterMap (fun e => (Reader.lookup n e.vars).map (fun v => (e.key, v)))).map
        (fun kv => (kv.1, [(n, kv.2)])) := by
    unfold Reader.perFrame
    induction d.entries with
    | nil => rfl
    | cons e es ih =>
      simp only [List.filterMap_cons]
      rw [pick_single n e.vars]
      cases hl : Reader.lookup n e.vars with
      | none => simpa using ih
      | some x => simp only [Option.map_some, List.map_cons]; rw [ih]
  rw [hper]
  generalize d.entries.filterMap (fun e => (Reader.lookup n e.vars).map (fun v => (e.key, v))) = ps
  match ps with
  | [] => rfl
  | [(k, v)] => rfl
  | (k1, v1) :: (k2, v2) :: rest =>
    simp only [List.map_cons, List.map_map]
    congr 2
    simp [Function.comp_def]

/-- `get_metadata(field, frame_idx=k)` returns the saved field of frame `k`;
    `get_metadata(field)` the map over all saved frames. -/
theorem C17_reader_metadata {d : Reader.Data}
    (hk : d.entries.Pairwise (fun a b => a.key ≠ b.key)) (field : Str)
    (hf : field ∈ Reader.frameFields) :
    (∀ e ∈ d.entries, Reader.getMetadata d field (.int e.key) = .ok (.v (Reader.frameField e field))) ∧
    Reader.getMetadata d field .none = .ok (.m (d.entries.map fun e => (e.key, Reader.frameField e field))) := by
  have h1 : (Reader.frameFields ++ Reader.excFields).contains field = true := by
    simp [List.mem_append, hf]
  have h2 : Reader.excFields.contains field = false := by
    have : ∀ f ∈ Reader.frameFields, Reader.excFields.contains f = false := by decide
    exact this field hf
  constructor
  · intro e he
    simp only [Reader.getMetadata, h1, h2, Bool.not_true, Bool.false_eq_true, if_false]
    rw [(findEntry_iff hk e.key e).mpr ⟨he, rfl⟩]
  · simp only [Reader.getMetadata, h1, h2, Bool.not_true, Bool.false_eq_true, if_false]

/-! ## 5. end to end: what the reader returns is what was live -/

theorem localsData_nodup {cfg : Cfg} {incl excl : Option (List Str)} {ls : List Local}
    (h : (ls.map (·.name)).Nodup) : ((localsData cfg incl excl ls).map (·.1)).Nodup := by
  simp only [localsData, List.map_map]
  have : ((fun p : Str × Str => p.1) ∘ fun l : Local => (l.name, l.val)) = fun l => l.name := rfl
  rw [this]
  exact (List.filter_sublist.map _).nodup h

/-- `SaveframeReader(file).get_variables(name, frame_idx=k)` on the file written by `saveframe` returns `val`
    iff `k` is a selected key whose frame has a retained local `name` with live value `val`. -/
theorem C17_end_to_end {cfg : Cfg} {rx : Rx} {a : Args} {e : Exc} {es : List Entry}
    (hs : save cfg rx a e = .ok es)
    (hloc : ∀ f ∈ allFrames cfg e, (f.locals.map (·.name)).Nodup)
    (excf : List (Str × Str)) (n val : Str) (k : Nat) :
    Reader.getVariables ⟨es, excf⟩ (.single n) (.int k) = .ok (.v val) ↔
      ∃ v sel f, validateArgs cfg a = .ok v ∧ framesToSave rx v.sel (allFrames cfg e) = .ok sel ∧
        (k, f) ∈ sel ∧ (n, val) ∈ localsData cfg v.incl v.excl f.locals := by
  simp only [save, bind, Except.bind] at hs
  cases hv : validateArgs cfg a with
  | error er => simp [hv] at hs
  | ok v =>
    simp only [hv] at hs
    cases hsel : framesToSave rx v.sel (allFrames cfg e) with
    | error er => simp [hsel] at hs
    | ok sel =>
      simp only [hsel, Except.ok.injEq] at hs
      subst hs
      obtain ⟨hAt, hlt⟩ := C17_selection_keys hsel
      have hk : (sel.map fun kf => (⟨kf.1, kf.2, localsData cfg v.incl v.excl kf.2.locals⟩ : Entry)).Pairwise
          (fun a b => a.key ≠ b.key) := by
        rw [List.pairwise_map]
        exact hlt.imp (fun h => Nat.ne_of_lt h)
      have hmemf : ∀ x ∈ sel, x.2 ∈ allFrames cfg e := by
        intro x hx
        obtain ⟨_, h2⟩ := hAt x hx
        exact List.mem_of_getElem? h2
      have hn : ∀ en ∈ (sel.map fun kf => (⟨kf.1, kf.2, localsData cfg v.incl v.excl kf.2.locals⟩ : Entry)),
          (en.vars.map (·.1)).Nodup := by
        intro en hen
        obtain ⟨x, hx, rfl⟩ := List.mem_map.mp hen
        exact localsData_nodup (hloc _ (hmemf x hx))
      rw [C17_reader_variable_at (d := ⟨_, excf⟩) hk hn]
      constructor
      · rintro ⟨en, hen, hkey, hval⟩
        obtain ⟨x, hx, rfl⟩ := List.mem_map.mp hen
        simp only at hkey hval
        subst hkey
        exact ⟨v, sel, x.2, rfl, hsel, hx, hval⟩
      · rintro ⟨v', sel', f, hv', hsel', hmem, hval⟩
        simp only [Except.ok.injEq] at hv'; subst hv'
        rw [hsel] at hsel'
        simp only [Except.ok.injEq] at hsel'; subst hsel'
        exact ⟨⟨k, f, _⟩, List.mem_map.mpr ⟨(k, f), hmem, rfl⟩, rfl, hval⟩

/-! ## Witness: D7 (the full-strength filter statement is false for the code as found) -/
section Witness

def d7Args : Args := ⟨.none, .list [.s "1bad".toList], .none, .function⟩
def d7Locals : List Local := [⟨"x".toList, "1".toList, true⟩]

/-- `saveframe(variables=['1bad'])`: the include list is in force (`truthy`), `x` is not in it, `x` is saved. -/
theorem C17_filter_D7_witness :
    ∃ v, validateArgs {} d7Args = .ok v ∧
      ("x".toList, "1".toList) ∈ localsData {} v.incl v.excl d7Locals ∧
      ¬ ∃ l ∈ d7Locals, l.name = "x".toList ∧ l.val = "1".toList ∧ Retained d7Args l := by
  refine ⟨⟨.none, some [], none⟩, rfl, by decide, ?_⟩
  rintro ⟨l, hl, _, _, _, h2, _⟩
  simp only [d7Locals, List.mem_singleton] at hl
  subst hl
  have := h2 (by decide)
  revert this
  decide

/-- the hypothesis of `C17_filter_partial` excludes exactly this input … -/
example : d7free d7Args = false := by decide
/-- … and with the repair the witness input saves nothing. -/
example : ∃ v, validateArgs { d7fixed := true } d7Args = .ok v ∧
    localsData { d7fixed := true } v.incl v.excl d7Locals = [] := ⟨⟨.none, some [], none⟩, rfl, by decide⟩

/-- the hypotheses of `C17_filter_partial` are satisfiable by a non-trivial input -/
example : ∃ v, validateArgs {} ⟨.none, .list [.s "x".toList, .s "1bad".toList], .none, .function⟩ = .ok v ∧
    d7free ⟨.none, .list [.s "x".toList, .s "1bad".toList], .none, .function⟩ = true ∧
    localsData {} v.incl v.excl [⟨"x".toList, "1".toList, true⟩, ⟨"y".toList, "2".toList, true⟩]
      = [("x".toList, "1".toList)] := ⟨⟨.none, some ["x".toList], none⟩, rfl, by decide, by decide⟩

end Witness

/-! ## Cyclic chains (repair C17-H4): each exception is visited once -/

/-- Whatever the links are (cycles included), the walk with the visited set never visits an exception twice, never
    one it was told is already seen, and only exceptions of the graph. -/
theorem visitG_spec (cfg : Cfg) (g : List ENode) :
    ∀ (fuel : Nat) (seen : List Nat) (start : Option Nat),
      (visitG cfg g fuel seen start).Nodup ∧
      (∀ x ∈ visitG cfg g fuel seen start, x ∉ seen ∧ x < g.length) := by
  intro fuel
  induction fuel with
  | zero => intro seen start; simp [visitG]
  | succ k ih =>
    intro seen start
    cases start with
    | none => simp [visitG]
    | some i =>
      unfold visitG
      by_cases hi : i ∈ seen
      · simp [hi]
      · simp only [hi, if_false]
        cases hg : g[i]? with
        | none => simp
        | some n =>
          have hlt : i < g.length := by
            rcases List.getElem?_eq_some_iff.mp hg with ⟨h, _⟩
            exact h
          obtain ⟨hnd, hmem⟩ := ih (i :: seen) (nextLink cfg n)
          refine ⟨?_, ?_⟩
          · refine List.nodup_cons.mpr ⟨?_, hnd⟩
            intro hin
            exact (hmem i hin).1 (List.mem_cons_self)
          · intro x hx
            rcases List.mem_cons.mp hx with rfl | hx
            · exact ⟨hi, hlt⟩
            · obtain ⟨h1, h2⟩ := hmem x hx
              exact ⟨fun h => h1 (List.mem_cons_of_mem _ h), h2⟩

/-- C17 on cyclic chains: every exception of the graph contributes its frames at most once. -/
theorem C17_cycle_visits_once (cfg : Cfg) (g : List ENode) (start : Option Nat) :
    (visitG cfg g (g.length + 1) [] start).Nodup ∧
    ∀ x ∈ visitG cfg g (g.length + 1) [] start, x < g.length :=
  ⟨(visitG_spec cfg g _ _ _).1, fun x hx => ((visitG_spec cfg g _ _ _).2 x hx).2⟩

/-- The walk starts with the frames of the exception itself (bottom-first): the failing frame keeps key 1. -/
theorem C17_cycle_first (cfg : Cfg) (g : List ENode) (i : Nat) (n : ENode) (h : g[i]? = some n) :
    allFramesG cfg g (some i) =
      n.tb.reverse ++ (visitG cfg g g.length [i] (nextLink cfg n)).flatMap (nodeFrames g) := by
  simp [allFramesG, visitG, h, nodeFrames]

section CycleWitness
private def fA : Frame := { fid := 0, file := "a.py".toList, line := 3, name := "f".toList, qual := "f".toList, locals := [] }
private def fB : Frame := { fid := 1, file := "a.py".toList, line := 9, name := "m".toList, qual := "m".toList, locals := [] }
private def fC : Frame := { fid := 2, file := "b.py".toList, line := 5, name := "g".toList, qual := "g".toList, locals := [] }

/-- `raise e from e`: the frames of `e` once (the interpreter displays the same) -/
example : allFramesG {} [⟨[fB, fA], some 0, none, true⟩] (some 0) = [fA, fB] := by decide
/-- `new.__cause__ = err`, `err.__cause__ = new`, `err.__context__` = a third exception: the walk stops when it comes
    back to `new`; it does NOT fall through to `err.__context__` -/
example : allFramesG { d2fixed := true }
    [⟨[fB], some 1, some 1, true⟩, ⟨[fB, fA], some 0, some 2, true⟩, ⟨[fC], none, none, false⟩] (some 0)
    = [fB, fA, fB] := by decide
/-- without a cycle the graph walk is the tree walk -/
example : allFramesG {} [⟨[fB], none, some 1, false⟩, ⟨[fB, fA], none, none, false⟩] (some 0)
    = allFrames {} (.mk [fB] none (some (.mk [fB, fA] none none false)) false) := by decide
end CycleWitness

end Pfb.C17
