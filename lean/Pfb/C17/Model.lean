/-
  Pfb.C17.Model — executable model of pyflyby's `saveframe` (lib/python/pyflyby/_saveframe.py)
  and of `SaveframeReader` (lib/python/pyflyby/_saveframe_reader.py).

  Modelled (function by function, error branches included):
    _validate_frames                      → `validateFrames`
    _get_all_matching_frames              → `allMatching`
    _get_frames_to_save                   → `framesToSave`
    _get_all_frames_from_exception_obj    → `allFrames`
    _validate_variables / _is_variable_name_valid → `validateVars` / `validName`
    _validate_saveframe_arguments         → `validateArgs`     (filename validation is not modelled)
    _get_frame_local_variables_data       → `localsData`
    _save_frames_and_exception_info_to_file → `save`
    _open_file                            → `openFile` over a two-field process/file state
    SaveframeReader.metadata / variables / get_metadata / get_variables → `Reader.*`

  Supplied as inputs, not verified: the outcome of `re.search` (a function regex → file name → Bool, `none`
  when the regex does not compile), the outcome of `pickle.dumps` per local variable (`Local.picklable`), and
  `pickle.loads (pickle.dumps v) = v` (a saved value is represented by the canonical text of the live value).
  `str.isidentifier` is exact for ASCII names; non-ASCII characters are taken to be identifier characters.

  `Cfg` selects between the code as it is and the two proposed repairs (fixes/C17-D7.diff, fixes/C17-D2.diff);
  the harness probes the tree under test and passes the flags, so the correspondence check follows the tree.
-/
import Pfb.Basic
namespace Pfb.C17
open Pfb

/-! ## Python string helpers -/

/-- `s.split(c)` for a one-character separator. -/
def splitOnChar (c : Char) : Str → List Str
  | [] => [[]]
  | x :: xs =>
    if x = c then [] :: splitOnChar c xs
    else match splitOnChar c xs with
      | [] => [[x]]
      | l :: ls => (x :: l) :: ls

/-- `s.split('..')` (leftmost, non-overlapping). -/
def splitDots : Str → List Str
  | [] => [[]]
  | [x] => [[x]]
  | x :: y :: rest =>
    if x = '.' ∧ y = '.' then [] :: splitDots rest
    else match splitDots (y :: rest) with
      | [] => [[x]]
      | l :: ls => (x :: l) :: ls

/-- `s.strip()` -/
def strip (s : Str) : Str :=
  ((s.dropWhile isPySpace).reverse.dropWhile isPySpace).reverse

def digitVal (c : Char) : Option Nat :=
  if '0' ≤ c ∧ c ≤ '9' then some (c.toNat - 48) else none

/-- ASCII digits with single underscores between digits. -/
def digitsGo : Str → Nat → Bool → Option Nat
  | [], acc, lastDigit => if lastDigit then some acc else none
  | c :: cs, acc, lastDigit =>
    if c = '_' then (if lastDigit then digitsGo cs acc false else none)
    else match digitVal c with
      | some d => digitsGo cs (acc * 10 + d) true
      | none => none

/-- `int(s)` for a `str` (ASCII digits; surrounding white space, one sign, PEP 515 underscores). -/
def pyInt (s : Str) : Option Int :=
  match strip s with
  | '+' :: r => (digitsGo r 0 false).map Int.ofNat
  | '-' :: r => (digitsGo r 0 false).map (fun n => - Int.ofNat n)
  | t => (digitsGo t 0 false).map Int.ofNat

def natStr (n : Nat) : Str := (toString n).toList

/-! ## Frames, exceptions -/

structure Local where
  name : Str
  val : Str            -- canonical text of the live value
  picklable : Bool     -- outcome of `pickle.dumps` (supplied)
deriving Repr, DecidableEq

structure Frame where
  fid : Nat            -- object identity of the frame (first-seen numbering)
  file : Str           -- f_code.co_filename
  line : Nat           -- f_lineno
  name : Str           -- f_code.co_name
  qual : Str           -- f_code.co_qualname
  locals : List Local  -- f_locals in iteration order
  modname : Str := []  -- opaque metadata (inspect.getmodule, linecache, function lookup are not modelled)
  code : Str := []
  funobj : Str := []
deriving Repr, DecidableEq

/-- An exception: traceback (tb, tb.tb_next, …: outermost frame first), `__cause__`, `__context__`,
    `__suppress_context__`. -/
inductive Exc where
  | mk (tb : List Frame) (cause : Option Exc) (context : Option Exc) (suppress : Bool)

/-- Which tree is modelled: the code as found (`false`, `false`) or with the proposed repairs. -/
structure Cfg where
  d7fixed : Bool := false      -- an include list that validated to empty retains nothing
  d2fixed : Bool := false     -- a suppressed `__context__` is not followed
deriving Repr, DecidableEq

/-- `_get_all_frames_from_exception_obj`: per exception the frames bottom-first, then
    `__cause__ or __context__`. -/
def allFrames (cfg : Cfg) : Exc → List Frame
  | .mk tb cause context suppress =>
    tb.reverse ++
      (match cause with
       | some c => allFrames cfg c
       | none =>
         match context with
         | some x => if cfg.d2fixed && suppress then [] else allFrames cfg x
         | none => [])

/-! ## The exception chain as an object graph (links may form cycles)

`Exc` above is a finite tree and cannot hold `raise e from e` (`e.__cause__ is e`).  The code walks the object graph; as
found it does so without remembering where it has been and never returns on a cycle.  With repair C17-H4 it keeps the set
of visited exceptions and stops at the first one it meets again, which is what is modelled here: node `i` of `g` is an
exception, its links are indices into `g`.  `fuel` only makes the recursion structural: every step puts a new index into
`seen`; the visited indices are distinct and `< g.length` (`C17_cycle_visits_once` in Props.lean), hence at most `g.length`
steps are taken and the fuel `g.length + 1` is never what ends the walk (this last counting step is not formalised). -/

structure ENode where
  tb : List Frame
  cause : Option Nat
  context : Option Nat
  suppress : Bool
deriving Repr

/-- `__cause__`, else `__context__` (unless `d2fixed` and suppressed). -/
def nextLink (cfg : Cfg) (n : ENode) : Option Nat :=
  match n.cause with
  | some c => some c
  | none => if cfg.d2fixed && n.suppress then none else n.context

/-- the exceptions visited, in order -/
def visitG (cfg : Cfg) (g : List ENode) : Nat → List Nat → Option Nat → List Nat
  | 0, _, _ => []
  | _ + 1, _, none => []
  | fuel + 1, seen, some i =>
    if i ∈ seen then [] else
    match g[i]? with
    | none => []
    | some n => i :: visitG cfg g fuel (i :: seen) (nextLink cfg n)

def nodeFrames (g : List ENode) (i : Nat) : List Frame :=
  match g[i]? with
  | some n => n.tb.reverse
  | none => []

/-- `_get_all_frames_from_exception_obj` with the visited set, on the object graph. -/
def allFramesG (cfg : Cfg) (g : List ENode) (start : Option Nat) : List Frame :=
  (visitG cfg g (g.length + 1) [] start).flatMap (nodeFrames g)

/-! ## Errors -/

inductive Err where
  | framesCommaStr | framesCommaItem | framesTooManyRanges | frameColonCount | frameEmptyFile | frameBadLineno
  | rangeNoMatch | bothFilters | varsCommaStr | varsType | varsItemType | regexError
  | noFrames        -- IndexError: `all_frames[0]` on an exception without traceback
  | internal        -- a branch the theorems show unreachable
deriving Repr, DecidableEq

/-! ## `_validate_frames` -/

inductive FramesArg where
  | none | int (n : Int) | str (s : Str) | list (l : List Str)
deriving Repr

inductive Util where | function | script
deriving Repr, DecidableEq

/-- A parsed frame: `['']` (the open end of `first..`) or `[file_regex, lineno or '', function]`. -/
inductive Pat where
  | openEnd
  | pat (rx : Str) (line : Option Int) (func : Str)
deriving Repr, DecidableEq

inductive Parsed where
  | none | num (n : Int) | list (ps : List Pat) | range (a b : Pat)
deriving Repr

def parsePat (s : Str) : Except Err Pat :=
  match splitOnChar ':' s with
  | [a, b, c] =>
    if a = [] then .error .frameEmptyFile
    else if b = [] then .ok (.pat a none c)
    else match pyInt b with
      | some n => .ok (.pat a (some n) c)
      | none => .error .frameBadLineno
  | _ => .error .frameColonCount

/-- the `for idx, frame in enumerate(all_frames)` loop -/
def parseItems (isRange : Bool) : Nat → List Str → Except Err (List Pat)
  | _, [] => .ok []
  | idx, s :: rest =>
    if idx = 1 ∧ isRange = true ∧ s = [] then .ok [Pat.openEnd]
    else do
      let p ← parsePat s
      let ps ← parseItems isRange (idx + 1) rest
      .ok (p :: ps)

def parseJoined (frames : Str) : Except Err Parsed :=
  let all := (splitOnChar ',' frames).map strip
  if all.length = 1 then
    let parts := (splitDots frames).map strip
    if parts.length > 2 then .error .framesTooManyRanges
    else if parts.length = 2 then do
      let ps ← parseItems true 0 parts
      match ps with
      | [a, b] => .ok (.range a b)
      | _ => .error .internal
    else do
      let ps ← parseItems false 0 parts
      .ok (.list ps)
  else do
    let ps ← parseItems false 0 all
    .ok (.list ps)

def validateFrames (a : FramesArg) (u : Util) : Except Err Parsed :=
  match a with
  | .none => .ok .none
  | .int n => .ok (.num n)
  | .str s =>
    match pyInt s with
    | some n => .ok (.num n)
    | none =>
      if s.contains ',' ∧ u = .function then .error .framesCommaStr
      else parseJoined s
  | .list l =>
    if l.any (·.contains ',') then .error .framesCommaItem
    else parseJoined ([','].intercalate l)

/-! ## `_get_all_matching_frames`, `_get_frames_to_save` -/

/-- `re`: a regex either does not compile (`none`) or decides `re.search(regex, filename) is not None`. -/
abbrev Rx := Str → Option (Str → Bool)

def enumFrom {α : Type} (i : Nat) : List α → List (Nat × α)
  | [] => []
  | a :: as => (i, a) :: enumFrom (i + 1) as

def frameMatches (m : Str → Bool) (line : Option Int) (fn : Str) (f : Frame) : Bool :=
  m f.file &&
  (match line with
   | some n => n == 0 || (f.line : Int) == n
   | none => true) &&
  (fn == [] || fn == f.name || fn == f.qual)

def allMatching (rx : Rx) (p : Pat) (all : List Frame) : Except Err (List (Nat × Frame)) :=
  match p with
  | .openEnd =>
    match all with
    | [] => .error .noFrames
    | f :: _ => .ok [(1, f)]
  | .pat r line fn =>
    match rx r with
    | none => if all.isEmpty then .ok [] else .error .regexError
    | some m => .ok ((enumFrom 1 all).filter (fun p => frameMatches m line fn p.2))

/-- the `seen_frames` loop: keep the first entry of every frame object -/
def dedupGo : List Nat → List (Nat × Frame) → List (Nat × Frame)
  | _, [] => []
  | seen, (k, f) :: rest =>
    if seen.contains f.fid then dedupGo seen rest
    else (k, f) :: dedupGo (f.fid :: seen) rest

/-- stable insertion by key -/
def insertKey (x : Nat × Frame) : List (Nat × Frame) → List (Nat × Frame)
  | [] => [x]
  | y :: ys => if x.1 ≤ y.1 then x :: y :: ys else y :: insertKey x ys

/-- `sorted(l, key=lambda f: f[0])`: a stable sort by key (written as an insertion sort so that the kernel
    can evaluate it on the concrete witnesses) -/
def sortKeys : List (Nat × Frame) → List (Nat × Frame)
  | [] => []
  | x :: xs => insertKey x (sortKeys xs)

/-- `sorted(filtered_frames, key=lambda f: f[0])` then the uniqueness loop -/
def sortDedup (l : List (Nat × Frame)) : List (Nat × Frame) :=
  dedupGo [] (sortKeys l)

def absDiff (a b : Nat) : Nat := if a ≤ b then b - a else a - b

/-- `max(distances, key=lambda x: x[0])`: the first maximal element -/
def firstMax : (Nat × Nat × Nat) → List (Nat × Nat × Nat) → (Nat × Nat × Nat)
  | best, [] => best
  | best, c :: cs => if best.1 < c.1 then firstMax c cs else firstMax best cs

/-- the pair of indexes with the maximum absolute distance, sorted -/
def farthest (f0 f1 l0 l1 : Nat) : Nat × Nat :=
  let best := firstMax (absDiff f0 l0, f0, l0)
    [(absDiff f0 l1, f0, l1), (absDiff f1 l0, f1, l0), (absDiff f1 l1, f1, l1)]
  (min best.2.1 best.2.2, max best.2.1 best.2.2)

/-- `for idx in range(lo, hi + 1): filtered_frames.append((idx, all_frames[idx-1]))` -/
def rangeItems (all : List Frame) (lo : Nat) : Nat → Except Err (List (Nat × Frame))
  | 0 => .ok []
  | n + 1 =>
    if lo = 0 then .error .internal          -- would be Python's all_frames[-1]; unreachable (C17_range_total)
    else match all[lo - 1]? with
      | none => .error .noFrames
      | some f => do
        let rest ← rangeItems all (lo + 1) n
        .ok ((lo, f) :: rest)

def matchList (rx : Rx) (all : List Frame) : List Pat → Except Err (List (Nat × Frame))
  | [] => .ok []
  | p :: ps => do
    let m ← allMatching rx p all
    let rest ← matchList rx all ps
    .ok (m ++ rest)

def framesToSave (rx : Rx) (p : Parsed) (all : List Frame) : Except Err (List (Nat × Frame)) :=
  match p with
  | .none =>
    match all with
    | [] => .error .noFrames
    | f :: _ => .ok [(1, f)]
  | .num n =>
    let m := if (all.length : Int) < n then all.length else n.toNat
    .ok (enumFrom 1 (all.take m))
  | .list ps => do
    let ms ← matchList rx all ps
    .ok (sortDedup ms)
  | .range a b => do
    let F ← allMatching rx a all
    match F.head?, F.getLast? with
    | some fa, some fb =>
      let L ← allMatching rx b all
      match L.head?, L.getLast? with
      | some la, some lb =>
        let (lo, hi) := farthest fa.1 fb.1 la.1 lb.1
        let items ← rangeItems all lo (hi + 1 - lo)
        .ok (sortDedup items)
      | _, _ => .error .rangeNoMatch
    | _, _ => .error .rangeNoMatch

/-! ## variable filters -/

inductive VarItem where | s (v : Str) | other
deriving Repr, DecidableEq

inductive VarArg where
  | none | str (s : Str) | list (l : List VarItem) | other (truthy : Bool)
deriving Repr

def VarArg.truthy : VarArg → Bool
  | .none => false
  | .str s => !s.isEmpty
  | .list l => !l.isEmpty
  | .other t => t

/-- ASCII letters and `_`; every non-ASCII character is taken to be an identifier character (an over-approximation
    of XID_Start / XID_Continue: the generators only use non-ASCII characters that are, e.g. `é`, `変数`) -/
def isIdentStart (c : Char) : Bool := c.isAlpha || c == '_' || decide (c.toNat ≥ 128)

/-- `str.isidentifier` (exact for ASCII names) -/
def isIdent : Str → Bool
  | [] => false
  | c :: cs => isIdentStart c && cs.all (fun c => isIdentStart c || c.isDigit)

def keywords : List Str :=
  ["False", "None", "True", "and", "as", "assert", "async", "await", "break", "class", "continue", "def", "del",
   "elif", "else", "except", "finally", "for", "from", "global", "if", "import", "in", "is", "lambda", "nonlocal",
   "not", "or", "pass", "raise", "return", "try", "while", "with", "yield"].map String.toList

/-- `_is_variable_name_valid`: an identifier that is not a HARD keyword (`keyword.iskeyword`); the soft keywords
    `_`, `match`, `case`, `type` are valid variable names -/
def validName (s : Str) : Bool := isIdent s && !keywords.contains s

def itemStrs : List VarItem → Option (List Str)
  | [] => some []
  | .s v :: rest => (itemStrs rest).map (v :: ·)
  | .other :: _ => none

def validateVars (a : VarArg) (u : Util) : Except Err (Option (List Str)) :=
  match a with
  | .none => .ok none
  | .str s =>
    if s.contains ',' ∧ u = .function then .error .varsCommaStr
    else .ok (some (((splitOnChar ',' s).map strip).filter validName))
  | .list l =>
    match itemStrs l with
    | none => .error .varsItemType
    | some ss => .ok (some (ss.filter validName))
  | .other _ => .error .varsType

structure Args where
  frames : FramesArg
  vars : VarArg
  excl : VarArg
  util : Util

structure Valid where
  sel : Parsed
  incl : Option (List Str)
  excl : Option (List Str)

def validateArgs (cfg : Cfg) (a : Args) : Except Err Valid := do
  let sel ← validateFrames a.frames a.util
  if a.vars.truthy && a.excl.truthy then .error .bothFilters
  else do
    let v ← validateVars a.vars a.util
    let v := if cfg.d7fixed && !a.vars.truthy then none else v
    let x ← validateVars a.excl a.util
    .ok ⟨sel, v, x⟩

def isDunder (s : Str) : Bool := startsWith s ['_', '_']

/-- is the include list "in force" inside `_get_frame_local_variables_data`:
    as found `if variables and …` (an empty tuple is falsy); repaired `if variables is not None and …` -/
def inclActive (cfg : Cfg) : Option (List Str) → Bool
  | none => false
  | some l => cfg.d7fixed || !l.isEmpty

def keepLocal (cfg : Cfg) (incl excl : Option (List Str)) (l : Local) : Bool :=
  !isDunder l.name &&
  !(inclActive cfg incl && !(incl.getD []).contains l.name) &&
  !(excl.getD []).contains l.name &&
  l.picklable

/-- `_get_frame_local_variables_data`: name ↦ saved value, in `f_locals` order -/
def localsData (cfg : Cfg) (incl excl : Option (List Str)) (ls : List Local) : List (Str × Str) :=
  (ls.filter (keepLocal cfg incl excl)).map (fun l => (l.name, l.val))

/-! ## the saved mapping -/

structure Entry where
  key : Nat
  frame : Frame
  vars : List (Str × Str)
deriving Repr

def save (cfg : Cfg) (rx : Rx) (a : Args) (e : Exc) : Except Err (List Entry) := do
  let v ← validateArgs cfg a
  let sel ← framesToSave rx v.sel (allFrames cfg e)
  .ok (sel.map fun kf => ⟨kf.1, kf.2, localsData cfg v.incl v.excl kf.2.locals⟩)

/-! ## `_open_file` -/

/-- the one path being written (`none` = absent, `some mode`) and the process umask -/
structure FState where
  file : Option Nat
  umask : Nat
deriving Repr, DecidableEq

/-- `os.open(path, O_WRONLY|O_CREAT|O_TRUNC, mode)`: a new file gets `mode & ~umask`; an existing file
    keeps its mode (the kernel's rule — modelled, not verified). -/
def osOpenCreat (s : FState) (mode : Nat) : FState :=
  match s.file with
  | some _ => s
  | none => { s with file := some (mode &&& (0o7777 ^^^ (s.umask &&& 0o7777))) }

/-- `_open_file`: `old = os.umask(0)`; `os.open(…, 0o644)`; `os.umask(old)` -/
def openFile (s : FState) : FState :=
  let old := s.umask
  let s1 := osOpenCreat { s with umask := 0 } 0o644
  { s1 with umask := old }

/-! ## `SaveframeReader` -/
namespace Reader

def frameFields : List Str :=
  ["frame_index", "filename", "lineno", "function_name", "function_qualname", "function_object",
   "module_name", "code", "frame_identifier"].map String.toList

def excFields : List Str :=
  ["exception_string", "exception_full_string", "exception_class_name", "exception_class_qualname",
   "exception_object", "traceback"].map String.toList

/-- the raw data: frame entries (a dict keyed by `key`) and the exception fields (opaque texts) -/
structure Data where
  entries : List Entry
  exc : List (Str × Str)

inductive Idx where | none | int (n : Int) | other
deriving Repr, DecidableEq

inductive QVars where | single (v : Str) | list (l : List VarItem) | other
deriving Repr

inductive RErr where
  | badField | idxForExceptionField | idxType | badIdx | varItemType | varsType | noVars | notFound
  | notFoundInFrame | internal
deriving Repr, DecidableEq

inductive RVal where
  | v (s : Str)
  | m (l : List (Nat × Str))
  | d (l : List (Str × Str))
  | mm (l : List (Nat × List (Str × Str)))
  | names (l : List Str)
  | vnames (l : List (Nat × List Str))
deriving Repr, DecidableEq

def metadata : RVal := .names (frameFields ++ excFields)

def variables (d : Data) : RVal := .vnames (d.entries.map fun e => (e.key, e.vars.map (·.1)))

def frameField (e : Entry) (f : Str) : Str :=
  if f = "frame_index".toList then natStr e.key
  else if f = "filename".toList then e.frame.file
  else if f = "lineno".toList then natStr e.frame.line
  else if f = "function_name".toList then e.frame.name
  else if f = "function_qualname".toList then e.frame.qual
  else if f = "function_object".toList then e.frame.funobj
  else if f = "module_name".toList then e.frame.modname
  else if f = "code".toList then e.frame.code
  else e.frame.file ++ [','] ++ natStr e.frame.line ++ [','] ++ e.frame.name

/-- `self._data[frame_idx]` for an int index (a negative int is never a key) -/
def findEntry (d : Data) (n : Int) : Option Entry :=
  d.entries.find? (fun e => (e.key : Int) == n)

def lookup (k : Str) : List (Str × Str) → Option Str
  | [] => none
  | (a, b) :: rest => if a = k then some b else lookup k rest

def getMetadata (d : Data) (field : Str) (idx : Idx) : Except RErr RVal :=
  if !(frameFields ++ excFields).contains field then .error .badField
  else if excFields.contains field then
    -- `if frame_idx:` — None and 0 are falsy
    let truthy := match idx with | .none => false | .int n => n != 0 | .other => true
    if truthy then .error .idxForExceptionField
    else match lookup field d.exc with
      | some v => .ok (.v v)
      | none => .error .internal
  else match idx with
    | .none => .ok (.m (d.entries.map fun e => (e.key, frameField e field)))
    | .other => .error .idxType
    | .int n =>
      match findEntry d n with
      | some e => .ok (.v (frameField e field))
      | none => .error .badIdx

/-- the queried variables found in one frame, in query order; a repeated name is stored once (dict) -/
def pick (vars : List Str) (saved : List (Str × Str)) : List (Str × Str) :=
  (vars.eraseDups).filterMap fun v => (lookup v saved).map fun x => (v, x)

/-- per saved frame (in file order) the queried variables it holds; frames holding none are left out -/
def perFrame (vars : List Str) (es : List Entry) : List (Nat × List (Str × Str)) :=
  es.filterMap fun e =>
    match pick vars e.vars with
    | [] => none
    | l => some (e.key, l)

def getVariables (d : Data) (q : QVars) (idx : Idx) : Except RErr RVal :=
  let parsed : Except RErr (List Str × Bool) :=
    match q with
    | .single v => .ok ([v], true)
    | .list l => match itemStrs l with
      | some ss => .ok (ss, false)
      | none => .error .varItemType
    | .other => .error .varsType
  match parsed with
  | .error e => .error e
  | .ok (vars, single) =>
    if vars.isEmpty then .error .noVars
    else match idx with
      | .none =>
        (match perFrame vars d.entries, single with
         | [], _ => .error .notFound
         | [(_, l)], true => match l with | (_, x) :: _ => .ok (.v x) | [] => .error .internal
         | [(_, l)], false => .ok (.d l)
         | ps, true => .ok (.m (ps.map fun kl => (kl.1, match kl.2 with | (_, x) :: _ => x | [] => [])))
         | ps, false => .ok (.mm ps))
      | .other => .error .idxType
      | .int n =>
        match findEntry d n with
        | none => .error .badIdx
        | some e =>
          match pick vars e.vars, single with
          | [], _ => .error .notFoundInFrame
          | (_, x) :: _, true => .ok (.v x)
          | l, false => .ok (.d l)

end Reader
end Pfb.C17
