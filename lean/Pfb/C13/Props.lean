/-
  Pfb.C13.Props — property theorems for C13 (the interactive hooks are fail-safe) over the model
  `Pfb.Hooks.Model` (shared with C14).

  What the model knows about a hook is *where* each of its operations runs (`prot`: inside
  `_safe_call`, inside a local try/except, or unprotected), the `_safe_call` protocol itself
  (errored short-circuit; catch `Exception` → `_errored := True`, `disable()`, fall back), and the
  enable/disable machinery that `disable()` relies on.  The table `prot` is validated against the
  code by fault injection (harness/c13.py); results, output streams and namespaces are not in the
  model — they are compared with a pyflyby-free run by the direct oracle.

  Outside, by design: `BaseException` (SystemExit, KeyboardInterrupt) is not caught by `_safe_call`;
  debug mode (`cfg.debug`) re-raises.

  `Protected cfg h` is the hypothesis HookUsesSafeCall of DESIGN.md.  It is false of the unchanged
  tree for `runWithDebugger` (D23) and for the two completer hooks (prompt redisplay through the
  missing `ip.pt_cli`, C13-D1); both negations are proved in the `Witness` section, and
  `C13_repaired_all_protected` shows the hypothesis holds for every hook once the two repairs are in.
-/
import Pfb.Hooks.Lemmas
namespace Pfb.C13
open Pfb.Hooks

def OpKind.all : List OpKind := [.dbLoad, .parse, .scan, .scanSyntax, .importExec, .completion, .redisplay]

theorem OpKind.mem_all (k : OpKind) : k ∈ OpKind.all := by cases k <;> simp [OpKind.all]

/-- every operation the hook performs is covered by `_safe_call` or a local handler -/
def Protected (cfg : Cfg) (h : HookId) : Prop := ∀ k, prot cfg h k ≠ .none

instance (cfg : Cfg) (h : HookId) : Decidable (Protected cfg h) :=
  decidable_of_iff (∀ k ∈ OpKind.all, prot cfg h k ≠ .none)
    ⟨fun hh k => hh k (OpKind.mem_all k), fun hh k _ => hh k⟩

/-- neither an embedded-shell importer swap nor a third-party registry step (see Pfb.C14 for those) -/
def NoFresh (ops : List Op) : Prop := ∀ op ∈ ops, op.notPlain = false

/-! ## No escape -/

/-- **C13_no_escape.**  Debug off, hook protected: whatever the state (reachable or not, importer
    healthy, errored, withdrawn) and whatever the outcome of the hook's pyflyby part, IPython does not
    receive an exception; and when an operation inside `_safe_call` raised, IPython receives exactly
    what the un-patched attribute gives (`__original__(args)` / `on_error(args)` / the unchanged node). -/
theorem C13_no_escape (cfg : Cfg) (hdbg : cfg.debug = false) (st : St) (h : HookId) (o : Outcome)
    (hp : Protected cfg h) :
    (invoke cfg st h o).delivered ≠ .exception ∧
    (∀ k, o = .raises k → prot cfg h k = .safe → (invoke cfg st h o).delivered = .original) := by
  have hown : ownResult h ≠ .exception := by cases h <;> simp [ownResult]
  have hguard : isCompleter h = true → cfg.redisplayGuard = true := by
    intro hc
    have := hp .redisplay
    cases h <;> simp [isCompleter] at hc <;> (cases hg : cfg.redisplayGuard <;> simp_all [prot])
  unfold invoke
  split
  · simp
  split
  · simp
  split
  · simp
  split
  · simp
  cases o with
  | ok => exact ⟨hown, fun k hk => by cases hk⟩
  | raises k =>
    simp only [raiseIn]
    have hk := hp k
    cases hpk : prot cfg h k with
    | none => exact absurd hpk hk
    | na => simp [hown]; intro hs; rw [hpk] at hs; cases hs
    | localOrig => simp [hown]; intro hs; rw [hpk] at hs; cases hs
    | localEmpty => simp; intro hs; rw [hpk] at hs; cases hs
    | safe =>
      cases hc : isCompleter h with
      | false => simp [hdbg]
      | true => simp [hdbg, hguard hc]

/-- deliveries of all hook invocations of a run, in order -/
def deliveries (cfg : Cfg) : St → List Op → List Delivered
  | _, [] => []
  | st, .invoke h o :: ops => (invoke cfg st h o).delivered :: deliveries cfg (step cfg st (.invoke h o)) ops
  | st, op :: ops => deliveries cfg (step cfg st op) ops

/-- **C13_no_escape_run.**  Along any history (any interleaving of enable/disable/load/unload, hook
    invocations and faults, from any state), if every invoked hook is protected no invocation ever
    delivers an exception to IPython. -/
theorem C13_no_escape_run (cfg : Cfg) (hdbg : cfg.debug = false) :
    ∀ (ops : List Op) (st : St), (∀ h o, Op.invoke h o ∈ ops → Protected cfg h) →
      ∀ d ∈ deliveries cfg st ops, d ≠ .exception := by
  intro ops
  induction ops with
  | nil => intro st _ d hd; simp [deliveries] at hd
  | cons op ops ih =>
    intro st hp d hd
    have hp' : ∀ h o, Op.invoke h o ∈ ops → Protected cfg h := fun h o hm => hp h o (List.mem_cons_of_mem _ hm)
    cases op with
    | invoke h o =>
      simp only [deliveries, List.mem_cons] at hd
      rcases hd with rfl | hd
      · exact (C13_no_escape cfg hdbg st h o (hp h o List.mem_cons_self)).1
      · exact ih _ hp' d hd
    | enable e f => exact ih _ hp' d (by simpa [deliveries] using hd)
    | disable => exact ih _ hp' d (by simpa [deliveries] using hd)
    | loadExt f => exact ih _ hp' d (by simpa [deliveries] using hd)
    | unloadExt => exact ih _ hp' d (by simpa [deliveries] using hd)
    | reloadExt f => exact ih _ hp' d (by simpa [deliveries] using hd)
    | freshImporter => exact ih _ hp' d (by simpa [deliveries] using hd)
    | foreign f => exact ih _ hp' d (by simpa [deliveries] using hd)

example : Protected Cfg.unchanged .astVisit := by decide
example : Protected Cfg.unchanged .ofind := by decide
example : Protected Cfg.unchanged .safeExecfile := by decide

/-- with fixes/C13-D23.diff and fixes/C13-D1.diff every hook is protected -/
theorem C13_repaired_all_protected (cfg : Cfg) (h1 : cfg.debugHookSafe = true) (h2 : cfg.redisplayGuard = true)
    (h : HookId) : Protected cfg h := by
  intro k
  cases h <;> cases k <;> simp [prot, h1, h2]

/-! ## Withdrawal -/

/-- **C13_withdraw.**  In any reachable state with the importer on, one error inside `_safe_call` (any
    hook, any operation that runs there) leaves the importer DISABLED with no disablers, marked errored,
    every joinpoint and `ast_transformers` exactly as before pyflyby was enabled, and no hook other than
    the reset transformer (D3) reachable from IPython. -/
theorem C13_withdraw (cfg : Cfg) (s : St) (hs : Start s) (ops : List Op) (hops : NoFresh ops)
    (hon : (run cfg s ops).ai.state = .enabled) (h : HookId) (k : OpKind) (hk : prot cfg h k = .safe) :
    let st' := (invoke cfg (run cfg s ops) h (.raises k)).st
    st'.ai.state = .disabled ∧ st'.ai.disablers = [] ∧ st'.ai.errored = true ∧
    st'.sh.jp = s.sh.jp ∧ st'.sh.ast = s.sh.ast ∧
    (∀ h', h' ≠ .resetCleanup → installed st'.sh h' = false) ∧
    (cfg.resetDisabler = true → st'.sh.cleanup = s.sh.cleanup) := by
  have hi : Inv cfg s.sh (run cfg s ops) := inv_run hs.clean ops s (hs.inv cfg) hops
  have herr : (run cfg s ops).ai.errored = false := by
    rcases hi.phase with ⟨h1, _⟩ | ⟨_, h2, _⟩
    · rw [hon] at h1; cases h1
    · exact h2
  have hinst := inv_installed_enabled hi hon h
  have h1 : h ≠ .resetCleanup := by intro e; subst e; simp [prot] at hk
  have h2 : h ≠ .debuggerTB := by intro e; subst e; simp [prot] at hk
  have hst : (invoke cfg (run cfg s ops) h (.raises k)).st =
      disable { run cfg s ops with ai := { (run cfg s ops).ai with errored := true } } := by
    unfold invoke
    simp [hinst, h1, h2, herr, raiseIn, hk]
  obtain ⟨hi', hsh, a, b, c⟩ := inv_disable' hi true
  simp only
  rw [hst]
  have hl := hi.leaks
  refine ⟨a, b, c, by rw [hsh]; exact hl.jp, by rw [hsh]; exact hl.ast, ?_, ?_⟩
  · intro h' hne; exact inv_installed_disabled hi' hs.clean a h' hne
  · intro hfix
    obtain ⟨leak, e, _, r⟩ := hl.cleanup
    rw [hsh, e, r hfix, List.append_nil]

theorem invoke_not_installed (cfg : Cfg) (st : St) (h : HookId) (o : Outcome) (hn : installed st.sh h = false) :
    invoke cfg st h o = ⟨st, .original, false⟩ := by
  simp [invoke, hn]

/-- operations by which the *user* asks for the importer again -/
def Op.isReenable : Op → Bool
  | .enable true _ => true
  | .loadExt _ => true
  | .reloadExt _ => true
  | _ => false

/-- withdrawn after an error -/
structure Quiet (cfg : Cfg) (b0 : Shell) (st : St) : Prop where
  inv : Inv cfg b0 st
  off : st.ai.state = .disabled
  errored : st.ai.errored = true

theorem quiet_step {cfg b0 st} (hq : Quiet cfg b0 st) (hc : Clean b0) (op : Op) (h1 : op.notPlain = false)
    (h2 : Op.isReenable op = false) : Quiet cfg b0 (step cfg st op) := by
  have hinv := inv_step hq.inv hc op h1
  cases op with
  | enable even fail =>
    cases even with
    | true => simp [Op.isReenable] at h2
    | false =>
      have : step cfg st (.enable false fail) = st := by simp [step, enable, hq.off, hq.errored]
      rw [this]; exact hq
  | disable =>
    have : step cfg st .disable = st := by simp [step, disable, hq.off]
    rw [this]; exact hq
  | loadExt f => simp [Op.isReenable] at h2
  | reloadExt f => simp [Op.isReenable] at h2
  | unloadExt =>
    refine ⟨hinv, ?_, ?_⟩
    · simp only [step, unloadExt]; split
      · exact hq.off
      · exact disable_state _
    · simp only [step, unloadExt]; split
      · exact hq.errored
      · simp [disable_errored, hq.errored]
  | invoke h o =>
    rcases invoke_st_cases cfg st h o with e | e
    · refine ⟨hinv, ?_, ?_⟩ <;> simp only [step] <;> rw [e]
      · exact hq.off
      · exact hq.errored
    · refine ⟨hinv, ?_, ?_⟩ <;> simp only [step] <;> rw [e]
      · exact disable_state _
      · simp [disable_errored]
  | freshImporter => simp [Op.notPlain, Op.isFresh] at h1
  | foreign f => simp [Op.notPlain, Op.isForeign] at h1

/-- **C13_stays_withdrawn.**  After the withdrawal, for every further history in which the user does not
    explicitly ask for the importer again (`enable(even_if_previously_errored=True)`, `%load_ext`,
    `%reload_ext`) — including plain `enable()`, which refuses — the importer stays off and every later
    invocation of any hook (other than the leaked reset transformer on the unchanged tree) performs no
    pyflyby work and hands IPython the original behaviour: it does not fail again on every cell. -/
theorem C13_stays_withdrawn (cfg : Cfg) (s : St) (hs : Start s) (ops : List Op) (hops : NoFresh ops)
    (hon : (run cfg s ops).ai.state = .enabled) (h : HookId) (k : OpKind) (hk : prot cfg h k = .safe)
    (later : List Op) (hl1 : NoFresh later) (hl2 : ∀ op ∈ later, Op.isReenable op = false)
    (h' : HookId)
    (hne : h' ≠ .resetCleanup ∨ (cfg.resetDisabler = true ∧ ∀ e ∈ s.sh.cleanup, e.isPf = false)) (o : Outcome) :
    let st1 := run cfg (invoke cfg (run cfg s ops) h (.raises k)).st later
    st1.ai.state = .disabled ∧ (invoke cfg st1 h' o).work = false ∧
    (invoke cfg st1 h' o).delivered = .original ∧ (invoke cfg st1 h' o).st = st1 := by
  obtain ⟨a, b, c, _, _, _, _⟩ := C13_withdraw cfg s hs ops hops hon h k hk
  have hi : Inv cfg s.sh (run cfg s ops) := inv_run hs.clean ops s (hs.inv cfg) hops
  have hi0 : Inv cfg s.sh (invoke cfg (run cfg s ops) h (.raises k)).st := by
    rcases invoke_st_cases cfg (run cfg s ops) h (.raises k) with e | e
    · rw [e]; exact hi
    · rw [e]; exact (inv_disable' hi true).1
  have hq0 : Quiet cfg s.sh (invoke cfg (run cfg s ops) h (.raises k)).st := ⟨hi0, a, c⟩
  have key : ∀ (later : List Op) (st : St), Quiet cfg s.sh st → NoFresh later →
      (∀ op ∈ later, Op.isReenable op = false) → Quiet cfg s.sh (run cfg st later) := by
    intro later
    induction later with
    | nil => intro st hq _ _; exact hq
    | cons op ops ih =>
      intro st hq h1 h2
      simp only [run, List.foldl_cons]
      exact ih _ (quiet_step hq hs.clean op (h1 op List.mem_cons_self) (h2 op List.mem_cons_self))
        (fun o ho => h1 o (List.mem_cons_of_mem _ ho)) (fun o ho => h2 o (List.mem_cons_of_mem _ ho))
  have hq := key later _ hq0 hl1 hl2
  simp only
  have hni : installed (run cfg (invoke cfg (run cfg s ops) h (.raises k)).st later).sh h' = false := by
    by_cases e : h' = .resetCleanup
    · subst e
      have hfix : cfg.resetDisabler = true ∧ ∀ e ∈ s.sh.cleanup, e.isPf = false := by
        rcases hne with hne | hne
        · exact absurd rfl hne
        · exact hne
      have hl := hq.inv.leaks
      rw [hq.inv.disabled_undo hq.off] at hl
      obtain ⟨leak, e1, _, r⟩ := hl.cleanup
      simp only [installed, e1, r hfix.1, List.append_nil]
      rw [List.any_eq_false]
      intro e he; simp [hfix.2 e he]
    · exact inv_installed_disabled hq.inv hs.clean hq.off h' e
  have hinv := invoke_not_installed cfg _ h' o hni
  refine ⟨hq.off, ?_, ?_, ?_⟩ <;> rw [hinv]

/-- **C13_enable_failure_withdraws.**  An exception in any `_enable_*` step (e.g. the missing
    `IPCompleter.python_matches` under `use_jedi=True` with IPython 9) leaves the importer DISABLED and
    errored with no disablers, and every joinpoint and `ast_transformers` as before the attempt. -/
theorem C13_enable_failure_withdraws (cfg : Cfg) (s : St) (hs : Start s) (ops : List Op) (hops : NoFresh ops)
    (hoff : (run cfg s ops).ai.state = .disabled) (even : Bool)
    (hmay : ((run cfg s ops).ai.errored && !even) = false) (k : Nat) (hk : k < enableSteps.length) :
    let st' := enable cfg even (some k) (run cfg s ops)
    st'.ai.state = .disabled ∧ st'.ai.errored = true ∧ st'.ai.disablers = [] ∧
    st'.sh.jp = s.sh.jp ∧ st'.sh.ast = s.sh.ast := by
  have hi : Inv cfg s.sh (run cfg s ops) := inv_run hs.clean ops s (hs.inv cfg) hops
  have hi' := inv_enable hi hs.clean even (some k)
  have habs := abs_enable hi even (some k)
  simp only [abs, refEnable, hoff, reduceCtorEq, decide_false, Bool.false_eq_true, if_false, hmay, hk, if_true] at habs
  have hstate : (enable cfg even (some k) (run cfg s ops)).ai.state = .disabled := by
    have := congrArg Ref.enabled habs
    simp only [decide_eq_false_iff_not] at this
    rcases hi'.state_cases with h | h
    · exact h
    · exact absurd h this
  have herr : (enable cfg even (some k) (run cfg s ops)).ai.errored = true := congrArg Ref.errored habs
  obtain ⟨ej, ea⟩ := inv_jp_disabled hi' hstate
  refine ⟨hstate, herr, ?_, ej, ea⟩
  rcases hi'.phase with ⟨_, h2⟩ | ⟨h1, _⟩
  · exact h2
  · rw [hstate] at h1; cases h1

/-! ## Witness: the two unprotected places of the unchanged tree -/

section Witness

/-- D23: `%debug <statement>` with a database that cannot be loaded — the exception reaches IPython and the
    importer does not withdraw (negation of both clauses for the hook `runWithDebugger`). -/
theorem D23_witness_escape :
    ¬ Protected Cfg.unchanged .runWithDebugger ∧
    (invoke Cfg.unchanged (run Cfg.unchanged St.init [.enable false none]) .runWithDebugger (.raises .dbLoad)).delivered
      = .exception ∧
    (invoke Cfg.unchanged (run Cfg.unchanged St.init [.enable false none]) .runWithDebugger (.raises .dbLoad)).st.ai.state
      = .enabled := by
  decide

/-- the same input with fixes/C13-D23.diff: falls back and withdraws -/
example :
    (invoke Cfg.repaired (run Cfg.repaired St.init [.enable false none]) .runWithDebugger (.raises .dbLoad)).delivered
      = .original ∧
    (invoke Cfg.repaired (run Cfg.repaired St.init [.enable false none]) .runWithDebugger (.raises .dbLoad)).st.ai.state
      = .disabled := by
  decide

/-- C13-D1: a completion during which pyflyby logs (here: the error report of `_safe_call` itself) — the prompt
    redisplay raises outside `_safe_call`; the importer has withdrawn but IPython still gets an exception. -/
theorem redisplay_witness_escape :
    ¬ Protected Cfg.unchanged .globalMatches ∧
    (invoke Cfg.unchanged (run Cfg.unchanged St.init [.enable false none]) .globalMatches (.raises .redisplay)).delivered
      = .exception ∧
    (invoke Cfg.unchanged (run Cfg.unchanged St.init [.enable false none]) .globalMatches (.raises .completion)).delivered
      = .exception := by
  decide

example :
    (invoke Cfg.repaired (run Cfg.repaired St.init [.enable false none]) .globalMatches (.raises .completion)).delivered
      = .original := by
  decide

end Witness

end Pfb.C13
