/-
  Pfb.C01.EndToEnd — C01 stated END TO END from the raw text: the splitter model (Pfb.C10) composed with the
  rewriter model (Pfb.Blocks) and the printer (Pfb.Compose.output = blocks rendered with Pfb.C11).

  Inputs that stay inputs (they are CPython's and `ImportStatement`'s): the top-level nodes of the text
  (`nodes`, constrained by `C10.WellPlaced` only) and the classification of each node (`cls`: is it an import,
  which imports, comment / docstring / other).

  What is proved, for ALL texts and node lists with `WellPlaced`, all classifications, and (tidy) all scan
  results, databases, mandatory lists, flag triples, and all formatting parameters for which the model prints:

  * `stmtsText_toStmts`, `C01_input_is_text`, `C01_input_runs` — the statement list the rewriters start from
    spells exactly `t.joined`, and so do its maximal runs of import / non-import statements (`InputRuns`).
  * `C01_reformat_text_frame` — reformat-imports prints `out` IFF `out` is the concatenation, run by run, of:
    the run's own text (non-import run) / the formatter's rendering of the run's import set (import run;
    "\n" when that is empty and the run starts mid-line and spans a line break).  Exact characterisation.
  * `C01_tidy_text_frame` (`TidyFrame`) — tidy-imports: every non-import run verbatim and in place; every import
    run replaced by the rendering of ONE import block (some import set) or by "\n"; the only other insertion
    is a zone of (new import block, "\n") pairs (`ZoneText`), located directly after the maximal
    comment / docstring prologue of the first run, or in front of everything when the file begins with an
    import or a non-prologue statement; in a prologue-only file the zone may contain one more "\n" (the
    terminator of the unterminated last line).
  * `C01_reformat_erase`, `TidyFrame.erase` — the weaker reading: erase the import runs from the input and the
    import blocks / zone from the output: the same text is left.
  * `fixStage2_blocks_induct`, `C01_tidy_blocks` (`Inv`) — the block-level invariant behind it.

  Not proved here: which import set an import block ends up with (C02-C04), that a *new* block never renders
  as "\n" (`BlockText` allows it), and anything about CPython (`nodes`, `cls`).
-/
import Pfb.C10.Props
import Pfb.Compose.Output
namespace Pfb.C01
open Pfb Pfb.Blocks

/-! ## 1. From C10 pieces to rewriter statements -/

/-- What CPython's parser and `ImportStatement` say about one top-level node: comment-or-blank / string literal /
    other; is it an `Import` / `ImportFrom`; which imports it holds.  An input, like `nodes`. -/
structure Classification where
  kind : SKind
  isImport : Bool
  imports : List Imp
deriving Repr, Inhabited

/-- the `PythonStatement` of one piece: the piece's text and start position, the classification of its node;
    a piece without node is comment / blank text -/
def toStmt (cls : Nat → Classification) (p : C10.Piece) : Stmt :=
  match p.node with
  | none => ⟨p.text.joined, .comment, false, [], p.text.start.line, p.text.start.col⟩
  | some i => ⟨p.text.joined, (cls i).kind, (cls i).isImport, (cls i).imports,
               p.text.start.line, p.text.start.col⟩

def toStmts (cls : Nat → Classification) (ps : List C10.Piece) : List Stmt := ps.map (toStmt cls)

@[simp] theorem toStmt_text (cls : Nat → Classification) (p : C10.Piece) :
    (toStmt cls p).text = p.text.joined := by
  unfold toStmt; split <;> rfl

theorem toStmt_isImport (cls : Nat → Classification) (p : C10.Piece) :
    (toStmt cls p).isImport = true ↔ ∃ i, p.node = some i ∧ (cls i).isImport = true := by
  unfold toStmt; split <;> simp_all

/-- **stmtsText_toStmts** — the statements spell what the pieces spell -/
theorem stmtsText_toStmts (cls : Nat → Classification) (ps : List C10.Piece) :
    stmtsText (toStmts cls ps) = (ps.map (·.text.joined)).flatten := by
  unfold stmtsText toStmts
  rw [List.map_map]
  congr 1
  apply List.map_congr_left
  intro p _
  simp

/-- **C01_input_is_text** — for `WellPlaced t nodes` the statement list the rewriters start from spells
    exactly `t.joined` -/
theorem C01_input_is_text (cls : Nat → Classification) (t : FText) (nodes : List C10.Node)
    (wp : C10.WellPlaced t nodes) :
    ∃ ps, C10.statements t nodes = .ok ps ∧ stmtsText (toStmts cls ps) = t.joined := by
  obtain ⟨ps, hps, hcat⟩ := C10.C10_statements_lossless t nodes wp
  exact ⟨ps, hps, by rw [stmtsText_toStmts]; exact hcat⟩

/-! ## 2. Runs -/

/-- adjacent runs have different flags -/
def Alternating : List (Bool × List Stmt) → Prop
  | [] => True
  | [_] => True
  | a :: b :: rest => a.1 ≠ b.1 ∧ Alternating (b :: rest)

theorem groupRuns_nonempty (ss : List Stmt) : ∀ r ∈ groupRuns ss, r.2 ≠ [] := by
  induction ss with
  | nil => simp [groupRuns]
  | cons s rest ih =>
    unfold groupRuns
    split
    · rename_i b g gs heq
      rw [heq] at ih
      split
      · intro r hr
        simp at hr
        rcases hr with rfl | hr
        · simp
        · exact ih r (by simp [hr])
      · intro r hr
        simp at hr
        rcases hr with rfl | rfl | hr
        · simp
        · exact ih _ (by simp)
        · exact ih r (by simp [hr])
    · simp

theorem groupRuns_alternating (ss : List Stmt) : Alternating (groupRuns ss) := by
  induction ss with
  | nil => simp [groupRuns, Alternating]
  | cons s rest ih =>
    unfold groupRuns
    split
    · rename_i b g gs heq
      rw [heq] at ih
      split
      · cases gs with
        | nil => simp [Alternating]
        | cons c cs => exact ih
      · rename_i hne
        exact ⟨fun h => hne h.symm, ih⟩
    · simp [Alternating]

theorem runs_text (ss : List Stmt) :
    ((groupRuns ss).map (fun r => stmtsText r.2)).flatten = stmtsText ss := by
  have h := (groupRuns_spec ss).2
  conv => rhs; rw [← h]
  generalize groupRuns ss = runs
  induction runs with
  | nil => simp [stmtsText]
  | cons r rs ih =>
    simp only [List.map_cons, List.flatten_cons, List.flatMap_cons, ih]
    simp [stmtsText]

/-! ## 3. Rendering run by run -/

/-- the run starts in the middle of a line and spans a line break -/
def Midline (g : List Stmt) : Prop :=
  (g.head?.map (·.col)).getD 1 ≠ 1 ∧ (stmtsText g).contains '\n' = true

instance (g : List Stmt) : Decidable (Midline g) := by unfold Midline; infer_instance

/-- the import set of a run (`ImportSet` of its statements, later imports shadow earlier ones) -/
def runSet (g : List Stmt) : List Imp := fromImportsShadow (g.flatMap (·.imports))

/-- rendering of an import block holding `set` that replaces the run `g` -/
def renderSet (p : C11.Params) (g : List Stmt) (set : List Imp) : Except C11.Err Str :=
  match C11.pretty (set.map Compose.toC11) p with
  | .ok r => if r = [] ∧ Midline g then .ok ['\n'] else .ok r
  | .error e => .error e

/-- output text of one run under reformat-imports -/
def renderSeg (p : C11.Params) : Bool × List Stmt → Except C11.Err Str
  | (false, g) => .ok (stmtsText g)
  | (true, g) => renderSet p g (runSet g)

def renderRuns (p : C11.Params) : List (Bool × List Stmt) → Except C11.Err (List Str)
  | [] => .ok []
  | r :: rs =>
    match renderSeg p r with
    | .error e => .error e
    | .ok t =>
      match renderRuns p rs with
      | .error e => .error e
      | .ok ts => .ok (t :: ts)

theorem midlineIds_ge (n : Nat) (runs : List (Bool × List Stmt)) : ∀ id ∈ midlineIds n runs, n ≤ id := by
  induction runs generalizing n with
  | nil => simp [midlineIds]
  | cons r rs ih =>
    obtain ⟨b, g⟩ := r
    cases b with
    | false => simpa [midlineIds] using ih n
    | true =>
      intro id hid
      simp only [midlineIds] at hid
      split at hid
      · simp at hid
        rcases hid with rfl | hid
        · exact Nat.le_refl _
        · have := ih (n + 1) id hid; omega
      · have := ih (n + 1) id hid; omega

theorem renderBlocks_buildBlocks (st : St) (p : C11.Params) (n : Nat) (runs : List (Bool × List Stmt))
    (H : ∀ id, n ≤ id → (id ∈ st.nlIfEmpty ↔ id ∈ midlineIds n runs)) :
    Compose.renderBlocks st p (buildBlocks n runs).1 = renderRuns p runs := by
  induction runs generalizing n with
  | nil => simp [buildBlocks, Compose.renderBlocks, renderRuns]
  | cons r rs ih =>
    obtain ⟨b, g⟩ := r
    cases b with
    | false =>
      have hb : (buildBlocks n ((false, g) :: rs)).1 = .verbatim g false :: (buildBlocks n rs).1 := by
        simp [buildBlocks]
      rw [hb]
      unfold Compose.renderBlocks renderRuns
      rw [ih n (by simpa [midlineIds] using H)]
      simp only [Compose.renderBlock, renderSeg]
      cases renderRuns p rs <;> rfl
    | true =>
      have hb : (buildBlocks n ((true, g) :: rs)).1 = mkImportBlock n g :: (buildBlocks (n + 1) rs).1 := by
        simp [buildBlocks]
      rw [hb]
      have hn : n ∈ st.nlIfEmpty ↔ Midline g := by
        rw [H n (Nat.le_refl _)]
        simp only [midlineIds]
        have hge := midlineIds_ge (n + 1) rs n
        unfold Midline
        split
        · rename_i h; exact ⟨fun _ => h, fun _ => by simp⟩
        · rename_i h
          constructor
          · intro hm; have := hge hm; omega
          · intro hm; exact absurd hm h
      have H' : ∀ id, n + 1 ≤ id → (id ∈ st.nlIfEmpty ↔ id ∈ midlineIds (n + 1) rs) := by
        intro id hid
        rw [H id (by omega)]
        simp only [midlineIds]
        split
        · simp; intro h; omega
        · rfl
      unfold Compose.renderBlocks renderRuns
      rw [ih (n + 1) H']
      have : Compose.renderBlock st p (mkImportBlock n g) = renderSeg p (true, g) := by
        simp only [mkImportBlock, Compose.renderBlock, renderSeg, renderSet, runSet, hn]
        cases C11.pretty (List.map Compose.toC11 (fromImportsShadow (List.flatMap (fun x => x.imports) g))) p <;> rfl
      rw [this]
      cases renderSeg p (true, g) with
      | error e => rfl
      | ok t => cases renderRuns p rs <;> rfl

/-- **output_reformat** — the printed text of reformat-imports, run by run -/
theorem output_reformat (ss : List Stmt) (p : C11.Params) :
    Compose.output (reformat ss) p =
      match renderRuns p (groupRuns ss) with
      | .ok ts => .ok ts.flatten
      | .error e => .error e := by
  unfold Compose.output reformat
  have : (preprocess ss).blocks = (buildBlocks 0 (groupRuns ss)).1 := by simp [preprocess]
  have H := renderBlocks_buildBlocks (preprocess ss) p 0 (groupRuns ss) (by intro id _; simp [preprocess])
  rw [this, H]
  cases renderRuns p (groupRuns ss) <;> rfl

/-! ## 4. tidy-imports: what the second stage can do to the block list -/

section Induct
set_option linter.unusedSectionVars false
variable (P : List Block → Prop)
variable (hupd : ∀ id f bs, P bs → P (updSet id f bs))
variable (hins : ∀ id bs, P bs → P (insertAfterComments bs [newImportBlock id, sepBlock]))
include hupd hins

theorem removeImport_P (st st' : St) (imp : Imp) (ln : Nat) (h : removeImport st imp ln = .ok st')
    (hp : P st.blocks) : P st'.blocks := by
  unfold removeImport at h
  split at h
  · cases h; exact hp
  · split at h
    · cases h; exact hp
    · cases h; exact hupd _ _ _ hp
    · cases h
  · cases h

theorem insertNewImportBlock_P (st st1 : St) (id : Nat) (h : insertNewImportBlock st = (st1, id))
    (hp : P st.blocks) : P st1.blocks := by
  unfold insertNewImportBlock at h
  split at h
  · cases h; exact hp
  · cases h; exact hins _ _ hp

theorem addImport_P (st st' : St) (imp : Imp) (ml : Option Nat) (h : addImport st imp ml = .ok st')
    (hp : P st.blocks) : P st'.blocks := by
  unfold addImport at h
  split at h
  rename_i st1 id hsel
  simp only [] at h
  split at h
  · cases h
  · cases h
    apply hupd
    split at hsel
    · cases hsel; exact hp
    · exact insertNewImportBlock_P P hupd hins _ _ _ hsel hp

theorem removeAll_P (st st' : St) (us : List (Nat × Imp)) (h : removeAll st us = .ok st')
    (hp : P st.blocks) : P st'.blocks := by
  induction us generalizing st with
  | nil => simp [removeAll] at h; cases h; exact hp
  | cons u us ih =>
    obtain ⟨ln, i⟩ := u
    simp only [removeAll, bind, Except.bind] at h
    split at h
    · cases h
    · rename_i st1 h1
      exact ih st1 h (removeImport_P P hupd hins st st1 i ln h1 hp)

theorem addMissingLoop_P (known : List Imp) (all : List (Nat × Str)) (st st' : St) (added added' : List Imp)
    (ms : List (Nat × Str)) (h : addMissingLoop known all st added ms = .ok (st', added'))
    (hp : P st.blocks) : P st'.blocks := by
  induction ms generalizing st added with
  | nil => simp [addMissingLoop] at h; obtain ⟨h1, _⟩ := h; subst h1; exact hp
  | cons m ms ih =>
    obtain ⟨ln, name⟩ := m
    unfold addMissingLoop at h
    split at h
    · rename_i imp hk
      split at h
      · exact ih st added h hp
      · split at h
        · rename_i st1 h1
          exact ih st1 _ h (addImport_P P hupd hins st st1 imp _ h1 hp)
        · exact ih st _ h hp
        · cases h
    · exact ih st added h hp

theorem addMandatoryLoop_P (st st' : St) (ms : List Imp) (h : addMandatoryLoop st ms = .ok st')
    (hp : P st.blocks) : P st'.blocks := by
  induction ms generalizing st with
  | nil => simp [addMandatoryLoop] at h; cases h; exact hp
  | cons m ms ih =>
    unfold addMandatoryLoop at h
    split at h
    · rename_i st1 h1
      exact ih st1 h (addImport_P P hupd hins st st1 m none h1 hp)
    · exact ih st h hp
    · cases h

/-- **fixStage2_blocks_induct** — induction principle for the second stage of tidy-imports: the only things it
    ever does to the block list are `updSet` (change the import set of one import block) and
    `insertAfterComments … [new import block, separator]`. -/
theorem fixStage2_blocks_induct (ss : List Stmt) (scan : Scan) (known mandatory : List Imp) (fl : Flags) (st : St)
    (h : fixStage2 ss scan known mandatory fl = .ok st) (h0 : P (preprocess ss).blocks) : P st.blocks := by
  unfold fixStage2 at h
  obtain ⟨st1, h1, h⟩ := bind_ok h
  have e1 : P st1.blocks := by
    unfold stageRemove at h1
    split at h1
    · exact removeAll_P P hupd hins _ _ _ h1 h0
    · cases h1; exact h0
  obtain ⟨st2, h2, h⟩ := bind_ok h
  have e2 : P st2.blocks := by
    unfold stageMissing at h2
    split at h2
    · split at h2
      · rename_i st' added hl
        cases h2
        exact addMissingLoop_P P hupd hins _ _ _ _ _ _ _ hl e1
      · cases h2
    · cases h2; exact e1
  unfold stageMandatory at h
  split at h
  · exact addMandatoryLoop_P P hupd hins _ _ _ h e2
  · cases h; exact e2

end Induct

/-! ## 5. The shape invariant of tidy-imports -/

/-- same blocks, import blocks possibly with other import sets -/
inductive SameSets : List Block → List Block → Prop
  | nil : SameSets [] []
  | verb (ss : List Stmt) (ins : Bool) (a b : List Block) :
      SameSets a b → SameSets (.verbatim ss ins :: a) (.verbatim ss ins :: b)
  | imp (id s l e : Nat) (bl : Bool) (set set' : List Imp) (a b : List Block) :
      SameSets a b → SameSets (.imports id s l e bl set :: a) (.imports id s l e bl set' :: b)

theorem SameSets.refl (a : List Block) : SameSets a a := by
  induction a with
  | nil => exact .nil
  | cons b bs ih =>
    cases b with
    | verbatim ss ins => exact .verb _ _ _ _ ih
    | imports id s l e bl set => exact .imp _ _ _ _ _ _ _ _ _ ih

theorem SameSets.updSet (id : Nat) (f : List Imp → List Imp) (a b : List Block) (h : SameSets a b) :
    SameSets a (updSet id f b) := by
  induction h with
  | nil => exact .nil
  | verb ss ins a b _ ih => simp only [Blocks.updSet]; exact .verb _ _ _ _ ih
  | imp i s l e bl set set' a b h ih =>
    simp only [Blocks.updSet]
    split
    · exact .imp _ _ _ _ _ _ _ _ _ h
    · exact .imp _ _ _ _ _ _ _ _ _ ih

/-- The insertion zone: what `insert_new_import_block` has put into the block list so far.
    Each call prepends (new import block, separator); the very first call may have put a line
    terminator in front (`term`: only possible behind a non-empty prologue block). -/
inductive Zone : Bool → List Block → Prop
  | nil (t : Bool) : Zone t []
  | term (id : Nat) (set : List Imp) : Zone true [sepBlock, .imports id 1 1 2 true set, sepBlock]
  | cons (t : Bool) (id : Nat) (set : List Imp) (Z : List Block) :
      Zone t Z → Zone t (.imports id 1 1 2 true set :: sepBlock :: Z)

theorem Zone.mono (Z : List Block) (h : Zone false Z) : Zone true Z := by
  generalize hf : false = t at h
  induction h with
  | nil => exact .nil _
  | term => cases hf
  | cons t id set Z _ ih => exact .cons _ _ _ _ (ih hf)

theorem Zone.new (t : Bool) (id : Nat) (Z : List Block) (h : Zone t Z) :
    Zone t ([newImportBlock id, sepBlock] ++ Z) := .cons _ _ _ _ h

theorem updSet_sep (id : Nat) (f : List Imp → List Imp) (bs : List Block) :
    updSet id f (sepBlock :: bs) = sepBlock :: updSet id f bs := by
  simp [sepBlock, updSet]

/-- `updSet` on zone ++ tail touches either one block of the zone or the tail -/
theorem Zone.updSet (id : Nat) (f : List Imp → List Imp) (t : Bool) (Z T : List Block) (h : Zone t Z) :
    ∃ Z' T', Zone t Z' ∧ (Z' = [] ↔ Z = []) ∧ Blocks.updSet id f (Z ++ T) = Z' ++ T' ∧
      (T' = T ∨ T' = Blocks.updSet id f T) := by
  induction h with
  | nil t => exact ⟨[], _, .nil _, by simp, by simp, Or.inr rfl⟩
  | term i set =>
    by_cases hi : i = id
    · refine ⟨[sepBlock, .imports i 1 1 2 true (f set), sepBlock], T, .term _ _, by simp, ?_, Or.inl rfl⟩
      simp [updSet_sep, Blocks.updSet, hi]
    · refine ⟨[sepBlock, .imports i 1 1 2 true set, sepBlock], _, .term _ _, by simp, ?_, Or.inr rfl⟩
      simp [updSet_sep, Blocks.updSet, hi]
  | cons t i set Z hz ih =>
    by_cases hi : i = id
    · refine ⟨.imports i 1 1 2 true (f set) :: sepBlock :: Z, T, .cons _ _ _ _ hz, by simp, ?_, Or.inl rfl⟩
      simp [Blocks.updSet, hi]
    · obtain ⟨Z', T', hz', _, he, hT⟩ := ih
      refine ⟨.imports i 1 1 2 true set :: sepBlock :: Z', T', .cons _ _ _ _ hz', by simp, ?_, hT⟩
      simp [Blocks.updSet, hi, updSet_sep, he]

/-- what follows the zone when the first block was cut at the end of its prologue -/
def tailBlocks (ss2 : List Stmt) (ins : Bool) (rest : List Block) : List Block :=
  if ss2 = [] then rest else .verbatim ss2 ins :: rest

theorem updSet_tailBlocks (id : Nat) (f : List Imp → List Imp) (ss2 : List Stmt) (ins : Bool) (rest : List Block) :
    updSet id f (tailBlocks ss2 ins rest) = tailBlocks ss2 ins (updSet id f rest) := by
  unfold tailBlocks; split <;> simp [updSet]

/-- the first block of the file does not begin with a prologue statement -/
def HeadNotPrologue : List Block → Prop
  | .verbatim ss _ :: _ => prologueLen true ss = 0 ∧ ss ≠ []
  | _ => True

/-- **Inv** — the block list `B` in terms of the block list `B0` that `preprocess` made:
    (1) nothing was inserted, or new blocks were inserted in front of everything (the file begins with an
        import block or with a non-prologue statement);
    (2) the first block was cut after its prologue `ss1` (maximal: `prologueLen`), and the zone sits right there. -/
def Inv (B0 B : List Block) : Prop :=
  (∃ Z post, B = Z ++ post ∧ Zone false Z ∧ SameSets B0 post ∧ (Z ≠ [] → HeadNotPrologue B0)) ∨
  (∃ ss1 ss2 ins rest0 Z rest, B0 = .verbatim (ss1 ++ ss2) ins :: rest0 ∧
      prologueLen true (ss1 ++ ss2) = ss1.length ∧ Z ≠ [] ∧ Zone true Z ∧ SameSets rest0 rest ∧
      B = .verbatim ss1 ins :: (Z ++ tailBlocks ss2 ins rest))

theorem Inv.refl (B0 : List Block) : Inv B0 B0 :=
  Or.inl ⟨[], B0, rfl, .nil _, SameSets.refl _, fun h => absurd rfl h⟩

theorem Inv.updSet (id : Nat) (f : List Imp → List Imp) (B0 B : List Block) (h : Inv B0 B) :
    Inv B0 (updSet id f B) := by
  rcases h with ⟨Z, post, rfl, hz, hs, hh⟩ | ⟨ss1, ss2, ins, rest0, Z, rest, hB0, hk, hne, hz, hs, rfl⟩
  · obtain ⟨Z', T', hz', hiff, he, hT⟩ := Zone.updSet id f _ Z post hz
    refine Or.inl ⟨Z', T', he, hz', ?_, fun h => hh (fun h' => h (hiff.mpr h'))⟩
    rcases hT with rfl | rfl
    · exact hs
    · exact SameSets.updSet _ _ _ _ hs
  · obtain ⟨Z', T', hz', hiff, he, hT⟩ := Zone.updSet id f _ Z (tailBlocks ss2 ins rest) hz
    rcases hT with rfl | rfl
    · refine Or.inr ⟨ss1, ss2, ins, rest0, Z', rest, hB0, hk, fun h' => hne (hiff.mp h'), hz', hs, ?_⟩
      simp only [Blocks.updSet, he]
    · refine Or.inr ⟨ss1, ss2, ins, rest0, Z', Blocks.updSet id f rest, hB0, hk, fun h' => hne (hiff.mp h'), hz',
        SameSets.updSet _ _ _ _ hs, ?_⟩
      simp only [Blocks.updSet, he, updSet_tailBlocks]

theorem prologueLen_le (d : Bool) (ss : List Stmt) : prologueLen d ss ≤ ss.length := by
  induction ss generalizing d with
  | nil => simp [prologueLen]
  | cons s ss ih =>
    unfold prologueLen; simp only []
    split
    · have := ih (isPrologue d s).2; simp; omega
    · simp

theorem Inv.insert (id : Nat) (B0 B : List Block) (h : Inv B0 B) :
    Inv B0 (insertAfterComments B [newImportBlock id, sepBlock]) := by
  rcases h with ⟨Z, post, rfl, hz, hs, hh⟩ | ⟨ss1, ss2, ins, rest0, Z, rest, hB0, hk, hne, hz, hs, rfl⟩
  · cases hz with
    | cons t i set Z' hz' =>
      -- the zone starts with an import block: insert in front
      refine Or.inl ⟨[newImportBlock id, sepBlock] ++ (.imports i 1 1 2 true set :: sepBlock :: Z'), post, ?_,
        Zone.new _ _ _ (.cons _ _ _ _ hz'), hs, fun _ => hh (by simp)⟩
      simp [insertAfterComments]
    | nil =>
      -- nothing inserted so far: B = post, same as B0 up to sets
      simp only [List.nil_append]
      cases hs with
      | nil =>
        exact Or.inl ⟨[newImportBlock id, sepBlock], [], by simp [insertAfterComments], Zone.new _ _ _ (.nil _),
          .nil, fun _ => trivial⟩
      | imp i s l e bl set set' a b hab =>
        refine Or.inl ⟨[newImportBlock id, sepBlock], .imports i s l e bl set' :: b, ?_, Zone.new _ _ _ (.nil _),
          .imp _ _ _ _ _ _ _ _ _ hab, fun _ => trivial⟩
        simp [insertAfterComments]
      | verb ss ins a b hab =>
        unfold insertAfterComments
        simp only []
        by_cases h1 : prologueLen true ss = ss.length
        · rw [if_pos h1]
          split
          · rename_i hsp
            obtain ⟨hb, _, _⟩ := hsp
            subst hb
            cases hab
            refine Or.inr ⟨ss, [], ins, [], [sepBlock, newImportBlock id, sepBlock], [], by simp, by simpa using h1,
              by simp, .term _ _, .nil, ?_⟩
            simp [tailBlocks]
          · refine Or.inr ⟨ss, [], ins, a, [newImportBlock id, sepBlock], b, by simp, by simpa using h1,
              by simp, Zone.new _ _ _ (.nil _), hab, ?_⟩
            simp [tailBlocks]
        · rw [if_neg h1]
          by_cases h0 : prologueLen true ss = 0
          · rw [if_pos h0]
            refine Or.inl ⟨[newImportBlock id, sepBlock], _, rfl, Zone.new _ _ _ (.nil _),
              .verb _ _ _ _ hab, fun _ => ⟨h0, ?_⟩⟩
            intro hnil; subst hnil; simp [prologueLen] at h1
          · rw [if_neg h0]
            have hle := prologueLen_le true ss
            have hd : ss.drop (prologueLen true ss) ≠ [] := by
              intro hd
              have := List.drop_eq_nil_iff.mp hd
              omega
            refine Or.inr ⟨ss.take (prologueLen true ss), ss.drop (prologueLen true ss), ins, a,
              [newImportBlock id, sepBlock], b, by simp, ?_, by simp, Zone.new _ _ _ (.nil _), hab, ?_⟩
            · rw [List.take_append_drop, List.length_take]; omega
            · simp [tailBlocks, hd]
  · -- the first block is the (all-prologue) `ss1`; the zone is not empty, so this is not the whole file
    have hk1 : prologueLen true ss1 = ss1.length := by
      have : ∀ (d : Bool) (a b : List Stmt), prologueLen d (a ++ b) = a.length → prologueLen d a = a.length := by
        intro d a b
        induction a generalizing d with
        | nil => simp [prologueLen]
        | cons s a ih =>
          intro h
          simp only [List.cons_append] at h
          unfold prologueLen at h ⊢
          simp only [] at h ⊢
          split
          · rename_i hs
            rw [if_pos hs] at h
            have := ih (isPrologue d s).2 (by simp at h; omega)
            simp; omega
          · rename_i hs
            rw [if_neg hs] at h
            simp at h
      exact this _ _ _ hk
    unfold insertAfterComments
    simp only []
    rw [if_pos hk1]
    have hnn : ¬ (Z ++ tailBlocks ss2 ins rest = [] ∧ stmtsText ss1 ≠ [] ∧ (stmtsText ss1).getLast? ≠ some '\n') := by
      intro ⟨h, _⟩
      exact hne (List.append_eq_nil_iff.mp h).1
    rw [if_neg hnn]
    refine Or.inr ⟨ss1, ss2, ins, rest0, [newImportBlock id, sepBlock] ++ Z, rest, hB0, hk, by simp,
      Zone.new _ _ _ hz, hs, ?_⟩
    simp

/-- **C01_tidy_blocks** — the block list after the second stage of tidy-imports, for every scan result,
    database and flag triple, is the block list of `preprocess` in the sense of `Inv`. -/
theorem C01_tidy_blocks (ss : List Stmt) (scan : Scan) (known mandatory : List Imp) (fl : Flags) (st : St)
    (h : fixStage2 ss scan known mandatory fl = .ok st) : Inv (preprocess ss).blocks st.blocks :=
  fixStage2_blocks_induct (Inv (preprocess ss).blocks) (fun id f bs hb => Inv.updSet id f _ bs hb)
    (fun id bs hb => Inv.insert id _ bs hb) ss scan known mandatory fl st h (Inv.refl _)

/-! ## 6. tidy-imports at the level of characters -/

/-- `R` holds between the two lists element by element -/
inductive Pointwise {α β : Type} (R : α → β → Prop) : List α → List β → Prop
  | nil : Pointwise R [] []
  | cons {a : α} {b : β} {as : List α} {bs : List β} : R a b → Pointwise R as bs → Pointwise R (a :: as) (b :: bs)

/-- a text an import block can be rendered to: the formatter's output for some import set, or the
    line break that is kept for an emptied block -/
def BlockText (p : C11.Params) (o : Str) : Prop :=
  ∃ (set : List Imp) (r : Str), C11.pretty (set.map Compose.toC11) p = .ok r ∧ (o = r ∨ (r = [] ∧ o = ['\n']))

/-- output segment for an input run under tidy-imports -/
def TidySeg (p : C11.Params) : Bool × List Stmt → Str → Prop
  | (false, g), o => o = stmtsText g
  | (true, _), o => BlockText p o

/-- the rendered insertion zone: (new block, "\n") repeated; `term`: preceded by a "\n" that terminates
    the last line of a prologue-only file -/
inductive ZoneText (p : C11.Params) : Bool → List Str → Prop
  | nil (t : Bool) : ZoneText p t []
  | term (r : Str) : BlockText p r → ZoneText p true [['\n'], r, ['\n']]
  | cons (t : Bool) (r : Str) (zs : List Str) : BlockText p r → ZoneText p t zs → ZoneText p t (r :: ['\n'] :: zs)

theorem renderBlocks_cons_ok (st : St) (p : C11.Params) (b : Block) (bs : List Block) (ts : List Str)
    (h : Compose.renderBlocks st p (b :: bs) = .ok ts) :
    ∃ t ts', Compose.renderBlock st p b = .ok t ∧ Compose.renderBlocks st p bs = .ok ts' ∧ ts = t :: ts' := by
  unfold Compose.renderBlocks at h
  split at h
  · cases h
  · rename_i t ht
    split at h
    · cases h
    · rename_i ts' hts
      cases h
      exact ⟨t, ts', ht, hts, rfl⟩

theorem renderBlocks_append (st : St) (p : C11.Params) (A B : List Block) (ts : List Str)
    (h : Compose.renderBlocks st p (A ++ B) = .ok ts) :
    ∃ ta tb, Compose.renderBlocks st p A = .ok ta ∧ Compose.renderBlocks st p B = .ok tb ∧ ts = ta ++ tb := by
  induction A generalizing ts with
  | nil => exact ⟨[], ts, rfl, h, rfl⟩
  | cons a A ih =>
    obtain ⟨t, ts', ht, hts, rfl⟩ := renderBlocks_cons_ok st p a (A ++ B) ts h
    obtain ⟨ta, tb, hta, htb, rfl⟩ := ih ts' hts
    refine ⟨t :: ta, tb, ?_, htb, rfl⟩
    simp [Compose.renderBlocks, ht, hta]

theorem renderBlocks_length (st : St) (p : C11.Params) (bs : List Block) (ts : List Str)
    (h : Compose.renderBlocks st p bs = .ok ts) : ts.length = bs.length := by
  induction bs generalizing ts with
  | nil => simp [Compose.renderBlocks] at h; subst h; rfl
  | cons b bs ih =>
    obtain ⟨t, ts', _, hts, rfl⟩ := renderBlocks_cons_ok st p b bs ts h
    simp [ih ts' hts]

theorem renderBlock_imports (st : St) (p : C11.Params) (id s l e : Nat) (bl : Bool) (set : List Imp) (o : Str)
    (h : Compose.renderBlock st p (.imports id s l e bl set) = .ok o) : BlockText p o := by
  simp only [Compose.renderBlock] at h
  split at h
  · rename_i r hr
    refine ⟨set, r, hr, ?_⟩
    split at h
    · rename_i hc; cases h; exact Or.inr ⟨hc.1, rfl⟩
    · cases h; exact Or.inl rfl
  · cases h

theorem renderBlock_sep (st : St) (p : C11.Params) : Compose.renderBlock st p sepBlock = .ok ['\n'] := by
  simp [Compose.renderBlock, sepBlock, stmtsText]

theorem zone_text (st : St) (p : C11.Params) (t : Bool) (Z : List Block) (zs : List Str) (hz : Zone t Z)
    (h : Compose.renderBlocks st p Z = .ok zs) : ZoneText p t zs := by
  induction hz generalizing zs with
  | nil t => simp [Compose.renderBlocks] at h; subst h; exact .nil _
  | term id set =>
    obtain ⟨t1, r1, h1, hr1, rfl⟩ := renderBlocks_cons_ok _ _ _ _ _ h
    obtain ⟨t2, r2, h2, hr2, rfl⟩ := renderBlocks_cons_ok _ _ _ _ _ hr1
    obtain ⟨t3, r3, h3, hr3, rfl⟩ := renderBlocks_cons_ok _ _ _ _ _ hr2
    simp [Compose.renderBlocks] at hr3; subst hr3
    rw [renderBlock_sep] at h1 h3
    cases h1; cases h3
    exact .term _ (renderBlock_imports _ _ _ _ _ _ _ _ _ h2)
  | cons t id set Z _ ih =>
    obtain ⟨t1, r1, h1, hr1, rfl⟩ := renderBlocks_cons_ok _ _ _ _ _ h
    obtain ⟨t2, r2, h2, hr2, rfl⟩ := renderBlocks_cons_ok _ _ _ _ _ hr1
    rw [renderBlock_sep] at h2
    cases h2
    exact .cons _ _ _ (renderBlock_imports _ _ _ _ _ _ _ _ _ h1) (ih _ hr2)

theorem sameSets_text (st : St) (p : C11.Params) (n : Nat) (runs : List (Bool × List Stmt))
    (post : List Block) (ts : List Str) (hs : SameSets (buildBlocks n runs).1 post)
    (h : Compose.renderBlocks st p post = .ok ts) : Pointwise (TidySeg p) runs ts := by
  induction runs generalizing n post ts with
  | nil =>
    simp only [buildBlocks] at hs
    cases hs
    simp [Compose.renderBlocks] at h; subst h; exact .nil
  | cons r rs ih =>
    obtain ⟨b, g⟩ := r
    cases b with
    | false =>
      have hb : (buildBlocks n ((false, g) :: rs)).1 = .verbatim g false :: (buildBlocks n rs).1 := by
        simp [buildBlocks]
      rw [hb] at hs
      cases hs with
      | verb _ _ _ b' hab =>
        obtain ⟨t, ts', ht, hts, rfl⟩ := renderBlocks_cons_ok _ _ _ _ _ h
        simp only [Compose.renderBlock] at ht
        cases ht
        exact .cons rfl (ih n b' ts' hab hts)
    | true =>
      have hb : (buildBlocks n ((true, g) :: rs)).1 = mkImportBlock n g :: (buildBlocks (n + 1) rs).1 := by
        simp [buildBlocks]
      rw [hb] at hs
      unfold mkImportBlock at hs
      cases hs with
      | imp _ _ _ _ _ _ set' _ b' hab =>
        obtain ⟨t, ts', ht, hts, rfl⟩ := renderBlocks_cons_ok _ _ _ _ _ h
        exact .cons (renderBlock_imports _ _ _ _ _ _ _ _ _ ht) (ih (n + 1) b' ts' hab hts)

theorem buildBlocks_head_verbatim (n : Nat) (runs : List (Bool × List Stmt)) (ss : List Stmt) (ins : Bool)
    (rest0 : List Block) (h : (buildBlocks n runs).1 = .verbatim ss ins :: rest0) :
    ∃ runs0, runs = (false, ss) :: runs0 ∧ ins = false ∧ rest0 = (buildBlocks n runs0).1 := by
  cases runs with
  | nil => simp [buildBlocks] at h
  | cons r rs =>
    obtain ⟨b, g⟩ := r
    cases b with
    | false =>
      simp [buildBlocks] at h
      obtain ⟨⟨rfl, rfl⟩, rfl⟩ := h
      exact ⟨rs, rfl, rfl, rfl⟩
    | true => simp [buildBlocks, mkImportBlock] at h

/-- the first run of the file does not begin with a prologue statement (comment / blank / docstring) -/
def RunsHeadNotPrologue : List (Bool × List Stmt) → Prop
  | (false, g) :: _ => prologueLen true g = 0 ∧ g ≠ []
  | _ => True

/-- **TidyFrame** — the output text `out` of tidy-imports in terms of the runs of the input:
    (1) `out` = zone ++ the runs rendered one by one (non-import runs verbatim, import runs as some import block);
        the zone (new import blocks, each followed by "\n") is empty, or the file begins with an import or with a
        non-prologue statement;
    (2) the first run is a non-import run `pre ++ g2` whose maximal prologue is `pre`;
        `out` = text of `pre` ++ zone ++ (text of `g2` and the remaining runs rendered one by one). -/
def TidyFrame (p : C11.Params) (runs : List (Bool × List Stmt)) (out : Str) : Prop :=
  (∃ zone outs, ZoneText p false zone ∧ Pointwise (TidySeg p) runs outs ∧
      out = zone.flatten ++ outs.flatten ∧ (zone ≠ [] → RunsHeadNotPrologue runs)) ∨
  (∃ pre g2 rest zone outs, runs = (false, pre ++ g2) :: rest ∧ prologueLen true (pre ++ g2) = pre.length ∧
      zone ≠ [] ∧ ZoneText p true zone ∧
      Pointwise (TidySeg p) (if g2 = [] then rest else (false, g2) :: rest) outs ∧
      out = stmtsText pre ++ zone.flatten ++ outs.flatten)

/-- **C01_tidy_text_frame_stmts** — for every statement list, scan result, database, flag triple and formatting
    configuration for which tidy-imports prints: the output text has the form `TidyFrame` over the runs of the
    input. -/
theorem C01_tidy_text_frame_stmts (ss : List Stmt) (scan : Scan) (known mandatory : List Imp) (fl : Flags)
    (p : C11.Params) (st : St) (out : Str)
    (h : fixStage2 ss scan known mandatory fl = .ok st) (ho : Compose.output st p = .ok out) :
    TidyFrame p (groupRuns ss) out := by
  have hinv := C01_tidy_blocks ss scan known mandatory fl st h
  have hB0 : (preprocess ss).blocks = (buildBlocks 0 (groupRuns ss)).1 := by simp [preprocess]
  rw [hB0] at hinv
  unfold Compose.output at ho
  split at ho
  · rename_i ts hts
    cases ho
    rcases hinv with ⟨Z, post, hB, hz, hs, hh⟩ | ⟨ss1, ss2, ins, rest0, Z, rest, hB0', hk, hne, hz, hs, hB⟩
    · rw [hB] at hts
      obtain ⟨ta, tb, hta, htb, rfl⟩ := renderBlocks_append _ _ _ _ _ hts
      refine Or.inl ⟨ta, tb, zone_text _ _ _ _ _ hz hta, sameSets_text _ _ _ _ _ _ hs htb, by simp, ?_⟩
      intro hta_ne
      have hZ : Z ≠ [] := by
        intro hZ; subst hZ
        simp [Compose.renderBlocks] at hta; exact hta_ne hta
      have := hh hZ
      revert this
      cases hr : groupRuns ss with
      | nil => intro _; trivial
      | cons r rs =>
        obtain ⟨b, g⟩ := r
        cases b with
        | false => simp [buildBlocks, HeadNotPrologue, RunsHeadNotPrologue]
        | true => intro _; trivial
    · obtain ⟨runs0, hruns, hins, hrest0⟩ := buildBlocks_head_verbatim _ _ _ _ _ hB0'
      subst hins
      rw [hB] at hts
      obtain ⟨t1, ts1, ht1, hts1, rfl⟩ := renderBlocks_cons_ok _ _ _ _ _ hts
      simp only [Compose.renderBlock] at ht1
      cases ht1
      obtain ⟨ta, tb, hta, htb, rfl⟩ := renderBlocks_append _ _ _ _ _ hts1
      rw [hrest0] at hs
      have hta_ne : ta ≠ [] := by
        intro h0
        have := renderBlocks_length _ _ _ _ hta
        rw [h0] at this
        exact hne (List.length_eq_zero_iff.mp this.symm)
      refine Or.inr ⟨ss1, ss2, runs0, ta, tb, hruns, hk, hta_ne, zone_text _ _ _ _ _ hz hta, ?_, by simp⟩
      unfold tailBlocks at htb
      by_cases h2 : ss2 = []
      · rw [if_pos h2] at htb ⊢
        exact sameSets_text _ _ _ _ _ _ hs htb
      · rw [if_neg h2] at htb ⊢
        obtain ⟨t2, ts2, ht2, hts2, rfl⟩ := renderBlocks_cons_ok _ _ _ _ _ htb
        simp only [Compose.renderBlock] at ht2
        cases ht2
        exact .cons rfl (sameSets_text _ _ _ _ _ _ hs hts2)
  · cases ho

/-! ## 7. End to end: from the raw text -/

theorem renderRuns_ok (p : C11.Params) (runs : List (Bool × List Stmt)) (outs : List Str) :
    renderRuns p runs = .ok outs ↔ Pointwise (fun r o => renderSeg p r = .ok o) runs outs := by
  induction runs generalizing outs with
  | nil =>
    simp only [renderRuns]
    constructor
    · intro h; cases h; exact .nil
    · intro h; cases h; rfl
  | cons r rs ih =>
    unfold renderRuns
    constructor
    · intro h
      split at h
      · cases h
      · rename_i t ht
        split at h
        · cases h
        · rename_i ts hts
          cases h
          exact .cons ht ((ih ts).mp hts)
    · intro h
      cases h with
      | cons h1 h2 =>
        rw [h1]
        simp only []
        rw [(ih _).mpr h2]

theorem renderSeg_tidySeg (p : C11.Params) (r : Bool × List Stmt) (o : Str) (h : renderSeg p r = .ok o) :
    TidySeg p r o := by
  obtain ⟨b, g⟩ := r
  cases b with
  | false => simp only [renderSeg] at h; cases h; rfl
  | true =>
    simp only [renderSeg, renderSet] at h
    split at h
    · rename_i r hr
      refine ⟨runSet g, r, hr, ?_⟩
      split at h
      · rename_i hc; cases h; exact Or.inr ⟨hc.1, rfl⟩
      · cases h; exact Or.inl rfl
    · cases h

/-- What the rewriters start from, in terms of the raw text `t` and the parser's nodes:
    `ps` are the pieces of `PythonBlock(t).statements`, `runs` the grouping of the corresponding statements into
    maximal runs of import / non-import statements. -/
structure InputRuns (cls : Nat → Classification) (t : FText) (nodes : List C10.Node)
    (ps : List C10.Piece) (runs : List (Bool × List Stmt)) : Prop where
  /-- the splitter succeeds -/
  stmts : C10.statements t nodes = .ok ps
  runs_eq : runs = groupRuns (toStmts cls ps)
  /-- the runs are consecutive segments of the piece list: one statement per piece, in order -/
  pieces : runs.flatMap (·.2) = toStmts cls ps
  /-- the texts of the runs, concatenated, are the input text -/
  text : (runs.map (fun r => stmtsText r.2)).flatten = t.joined
  /-- import runs and non-import runs alternate (the runs are maximal) -/
  alternating : Alternating runs
  /-- no run is empty; a run flagged `true` holds import statements only, one flagged `false` none -/
  homogeneous : ∀ r ∈ runs, r.2 ≠ [] ∧ ∀ s ∈ r.2, s.isImport = r.1

/-- **C01_input_runs** — for every text and node list with `WellPlaced`, and every classification of the nodes. -/
theorem C01_input_runs (cls : Nat → Classification) (t : FText) (nodes : List C10.Node)
    (wp : C10.WellPlaced t nodes) : ∃ ps, InputRuns cls t nodes ps (groupRuns (toStmts cls ps)) := by
  obtain ⟨ps, hps, htext⟩ := C01_input_is_text cls t nodes wp
  have hspec := groupRuns_spec (toStmts cls ps)
  refine ⟨ps, hps, rfl, hspec.2, ?_, groupRuns_alternating _, ?_⟩
  · rw [runs_text, htext]
  · intro r hr
    exact ⟨groupRuns_nonempty _ r hr, hspec.1 r hr⟩

/-- **C01_reformat_text_frame** — reformat-imports, end to end from the raw text.  For every text `t` and
    node list with `WellPlaced`, every classification of the nodes: the splitter yields pieces `ps`; `t.joined` is
    the concatenation of the texts of maximal runs of import / non-import pieces (`InputRuns`); and for every
    formatting configuration `p`, the tool prints `out` iff `out` is the concatenation of one text per run, in
    order, where a non-import run gives its own text and an import run gives the formatter's rendering of the
    run's import set (`renderSeg`: "\n" instead when that rendering is empty and the run starts mid-line and
    spans a line break). -/
theorem C01_reformat_text_frame (cls : Nat → Classification) (t : FText) (nodes : List C10.Node)
    (wp : C10.WellPlaced t nodes) :
    ∃ ps runs, InputRuns cls t nodes ps runs ∧
      ∀ (p : C11.Params) (out : Str),
        Compose.output (reformat (toStmts cls ps)) p = .ok out ↔
          ∃ outs, Pointwise (fun r o => renderSeg p r = .ok o) runs outs ∧ out = outs.flatten := by
  obtain ⟨ps, hin⟩ := C01_input_runs cls t nodes wp
  refine ⟨ps, _, hin, ?_⟩
  intro p out
  rw [output_reformat]
  constructor
  · intro h
    split at h
    · rename_i ts hts
      cases h
      exact ⟨ts, (renderRuns_ok _ _ _).mp hts, rfl⟩
    · cases h
  · rintro ⟨outs, hpw, rfl⟩
    rw [(renderRuns_ok _ _ _).mpr hpw]

/-- **C01_tidy_text_frame** — tidy-imports, end to end from the raw text.  For every text `t` and node list with
    `WellPlaced`, every classification of the nodes, every scan result, database, mandatory list, flag triple and
    formatting configuration for which the tool prints `out`: `out` has the form `TidyFrame` over the runs of
    `t.joined` — every non-import run verbatim and in place, every import run replaced by the rendering of one
    import block, and, as the only other insertion, a zone of (new import block, "\n") pairs directly after the
    maximal comment / docstring prologue of the first run (or in front of everything). -/
theorem C01_tidy_text_frame (cls : Nat → Classification) (t : FText) (nodes : List C10.Node)
    (wp : C10.WellPlaced t nodes) :
    ∃ ps runs, InputRuns cls t nodes ps runs ∧
      ∀ (scan : Scan) (known mandatory : List Imp) (fl : Flags) (p : C11.Params) (st : St) (out : Str),
        fixStage2 (toStmts cls ps) scan known mandatory fl = .ok st → Compose.output st p = .ok out →
          TidyFrame p runs out := by
  obtain ⟨ps, hin⟩ := C01_input_runs cls t nodes wp
  exact ⟨ps, _, hin, fun scan known mandatory fl p st out h ho =>
    C01_tidy_text_frame_stmts _ scan known mandatory fl p st out h ho⟩

/-! ### The weaker reading: erase the import runs on one side, the import blocks on the other -/

/-- the input with its import runs erased -/
def eraseImportRuns (runs : List (Bool × List Stmt)) : Str :=
  ((runs.filter (fun r => !r.1)).map (fun r => stmtsText r.2)).flatten

/-- the output segments that stand for non-import runs -/
def keepVerbatim : List (Bool × List Stmt) → List Str → List Str
  | (false, _) :: rs, o :: os => o :: keepVerbatim rs os
  | (true, _) :: rs, _ :: os => keepVerbatim rs os
  | _, _ => []

theorem keepVerbatim_tidy (p : C11.Params) (runs : List (Bool × List Stmt)) (outs : List Str)
    (h : Pointwise (TidySeg p) runs outs) : (keepVerbatim runs outs).flatten = eraseImportRuns runs := by
  induction h with
  | nil => rfl
  | @cons r o rs os h1 _ ih =>
    obtain ⟨b, g⟩ := r
    cases b with
    | false =>
      simp only [TidySeg] at h1
      subst h1
      simp only [keepVerbatim, eraseImportRuns, List.flatten_cons] at ih ⊢
      rw [ih]; simp
    | true =>
      simp only [keepVerbatim, eraseImportRuns] at ih ⊢
      rw [ih]; simp

theorem Pointwise.imp {α β : Type} {R S : α → β → Prop} (hRS : ∀ a b, R a b → S a b) {as : List α} {bs : List β}
    (h : Pointwise R as bs) : Pointwise S as bs := by
  induction h with
  | nil => exact .nil
  | cons h1 _ ih => exact .cons (hRS _ _ h1) ih

theorem Pointwise.length {α β : Type} {R : α → β → Prop} {as : List α} {bs : List β}
    (h : Pointwise R as bs) : bs.length = as.length := by
  induction h with
  | nil => rfl
  | cons _ _ ih => simp [ih]

/-- **C01_reformat_erase** — reformat-imports: the output with the rendered import blocks erased is the input
    with the import runs erased. -/
theorem C01_reformat_erase (cls : Nat → Classification) (t : FText) (nodes : List C10.Node)
    (wp : C10.WellPlaced t nodes) :
    ∃ ps runs, InputRuns cls t nodes ps runs ∧
      ∀ (p : C11.Params) (out : Str), Compose.output (reformat (toStmts cls ps)) p = .ok out →
        ∃ outs, outs.length = runs.length ∧ out = outs.flatten ∧
          (keepVerbatim runs outs).flatten = eraseImportRuns runs := by
  obtain ⟨ps, runs, hin, h⟩ := C01_reformat_text_frame cls t nodes wp
  refine ⟨ps, runs, hin, ?_⟩
  intro p out ho
  obtain ⟨outs, hpw, rfl⟩ := (h p out).mp ho
  have hpw' := Pointwise.imp (renderSeg_tidySeg p) hpw
  exact ⟨outs, hpw'.length, rfl, keepVerbatim_tidy p _ _ hpw'⟩

/-- **TidyFrame.erase** — tidy-imports: the output is `pre ++ zone ++ segments`, and `pre` followed by the
    segments that stand for non-import runs is the input with its import runs erased. -/
theorem TidyFrame.erase (p : C11.Params) (runs : List (Bool × List Stmt)) (out : Str) (h : TidyFrame p runs out) :
    ∃ (pre : Str) (t : Bool) (zone : List Str) (runs' : List (Bool × List Stmt)) (outs : List Str),
      out = pre ++ zone.flatten ++ outs.flatten ∧ ZoneText p t zone ∧ Pointwise (TidySeg p) runs' outs ∧
      pre ++ (keepVerbatim runs' outs).flatten = eraseImportRuns runs ∧
      pre ++ (runs'.map (fun r => stmtsText r.2)).flatten = (runs.map (fun r => stmtsText r.2)).flatten := by
  rcases h with ⟨zone, outs, hz, hpw, rfl, _⟩ | ⟨pre, g2, rest, zone, outs, rfl, _, _, hz, hpw, rfl⟩
  · exact ⟨[], false, zone, runs, outs, by simp, hz, hpw, by simpa using keepVerbatim_tidy p _ _ hpw, by simp⟩
  · refine ⟨stmtsText pre, true, zone, _, outs, rfl, hz, hpw, ?_, ?_⟩
    · rw [keepVerbatim_tidy p _ _ hpw]
      by_cases h2 : g2 = []
      · subst h2; simp [eraseImportRuns, stmtsText]
      · simp [h2, eraseImportRuns, stmtsText]
    · by_cases h2 : g2 = []
      · subst h2; simp [stmtsText]
      · simp [h2, stmtsText]

/-! ## 8. Non-vacuity -/

/-- a comment, two import lines, code sharing a line with an import, a trailing statement -/
def exText : FText :=
  FText.ofStr "# c\nimport os\nimport sys\nx = 1; import re\ny = json.dumps(os.sep + re.escape(str(x)))\n".toList
/-- the five top-level nodes CPython reports: (start, last line) -/
def exNodes : List C10.Node := [⟨⟨2, 1⟩, 2⟩, ⟨⟨3, 1⟩, 3⟩, ⟨⟨4, 1⟩, 4⟩, ⟨⟨4, 8⟩, 4⟩, ⟨⟨5, 1⟩, 5⟩]
def imp1 (s : String) : Imp := ⟨s.toList, s.toList⟩
/-- nodes 0, 1, 3 are `Import` statements -/
def exCls : Nat → Classification
  | 0 => ⟨.other, true, [imp1 "os"]⟩
  | 1 => ⟨.other, true, [imp1 "sys"]⟩
  | 3 => ⟨.other, true, [imp1 "re"]⟩
  | _ => ⟨.other, false, []⟩
def exParams : C11.Params :=
  { width := some 79, align := .bool true, fromSpaces := 1, hanging := .never, indent := 4, sepFrom := false,
    alignFuture := false, d2fix := true }
/-- `sys` (line 3) is unused, `json` is missing on line 5 -/
def exScan : Scan := ⟨[(3, imp1 "sys")], [(5, "json".toList)]⟩
def exMandatory : List Imp := [⟨"__future__.annotations".toList, "annotations".toList⟩]

example : C10.wellPlacedB exText exNodes = true := by decide
theorem exWellPlaced : C10.WellPlaced exText exNodes := C10.wellPlacedB_sound _ _ (by decide)

/-- the runs of the example: the import that shares its line with `x = 1; ` is a run of its own (mid-line) -/
example : ((C10.statements exText exNodes).toOption.map fun ps =>
      (groupRuns (toStmts exCls ps)).map fun r => (r.1, String.ofList (stmtsText r.2), decide (Midline r.2)))
    = some [(false, "# c\n", false), (true, "import os\nimport sys\n", false), (false, "x = 1; ", false),
            (true, "import re\n", true), (false, "y = json.dumps(os.sep + re.escape(str(x)))\n", false)] := by
  decide +kernel

/-- the theorems instantiated -/
example := C01_input_is_text exCls exText exNodes exWellPlaced
example := C01_reformat_text_frame exCls exText exNodes exWellPlaced
example := C01_tidy_text_frame exCls exText exNodes exWellPlaced
example := C01_reformat_erase exCls exText exNodes exWellPlaced

/-- "the model prints" is satisfiable: reformat-imports on the example (the same text as the real tool gives) -/
example : ((C10.statements exText exNodes).toOption.bind fun ps =>
      (Compose.output (reformat (toStmts exCls ps)) exParams).toOption.map String.ofList)
    = some "# c\nimport os\nimport sys\nx = 1; import re\ny = json.dumps(os.sep + re.escape(str(x)))\n" := by
  decide +kernel

/-- tidy-imports on the example (the same text as the real tool gives with `json` known and
    `from __future__ import annotations` mandatory): `import sys` goes, `json` joins `re`, the new block and its
    separator come directly after the comment -/
example : ((C10.statements exText exNodes).toOption.bind fun ps =>
      (fixStage2 (toStmts exCls ps) exScan [imp1 "json"] exMandatory ⟨true, true, true⟩).toOption.bind fun st =>
      (Compose.output st exParams).toOption.map String.ofList)
    = some ("# c\nfrom __future__ import annotations\n\nimport os\nx = 1; import json\nimport re\n" ++
            "y = json.dumps(os.sep + re.escape(str(x)))\n") := by
  decide +kernel

/-! ### Witness: why `ZoneText.term` cannot promise more (model only)

  The "\n" that terminates a prologue-only file without final newline is put in front of the FIRST inserted
  block; a later `insert_new_import_block` places its block between the prologue and that "\n".  With a
  mandatory list that has a non-`__future__` import before a `__future__` import the model's output glues the
  second new block to the unterminated comment.  `ImportDB.mandatory_imports` iterates with the `__future__`
  imports first and a prologue-only file has no missing names, so the tool itself does not reach this input
  (checked on /repo: "# c" with `__mandatory_imports__ = ["import os", "from __future__ import annotations"]`
  gives "# c\nfrom __future__ import annotations\nimport os\n\n"). -/
theorem witness_zone_glue :
    (match fixStage2 [⟨"# c".toList, .comment, false, [], 1, 1⟩] ⟨[], []⟩ [] (imp1 "os" :: exMandatory)
        ⟨false, false, true⟩ with
      | .ok st => (Compose.output st exParams).toOption.map String.ofList
      | .error _ => none)
    = some "# cfrom __future__ import annotations\n\n\nimport os\n\n" := by
  decide +kernel

end Pfb.C01
