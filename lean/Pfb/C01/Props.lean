/-
  Pfb.C01.Props — property theorems for C01 (source rewriters touch only
  top-level import statements), over the block-level model `Pfb.Blocks`.

  What the theorems say, for ALL statement lists, scan results, databases and
  flag triples: the tool's result consists of (a) the original non-import
  statements, each verbatim, in the original order, (b) import blocks, and
  (c) separator blocks that the tool itself inserted, each exactly "\n"; and a
  new import block is placed directly after the comment / docstring prologue of
  the first block (or before everything if the file starts with an import).

  Rendering of an import block (C11) and the statement partition (C10) are
  separate theorems; CPython's parser is the oracle's business.
-/
import Pfb.Blocks.Lemmas
namespace Pfb.C01
open Pfb Pfb.Blocks

/-- **C01_frame_reformat** — reformat-imports keeps every non-import statement verbatim, in order. -/
theorem C01_frame_reformat (ss : List Stmt) :
    origStmts (reformat ss).blocks = ss.filter (fun s => !s.isImport) :=
  origStmts_preprocess ss

theorem bind_ok {ε α β} {x : Except ε α} {f : α → Except ε β} {r : β} (h : (x >>= f) = .ok r) :
    ∃ a, x = .ok a ∧ f a = .ok r := by
  cases x with
  | error e => simp [bind, Except.bind] at h
  | ok a => exact ⟨a, rfl, by simpa [bind, Except.bind] using h⟩

/-- **C01_frame_tidy** — whatever the scan result, database and flags, tidy-imports
    (second stage of `fix_unused_and_missing_imports`) keeps every non-import statement
    verbatim and in order; nothing else ends up in an original verbatim block. -/
theorem C01_frame_tidy (ss : List Stmt) (scan : Scan) (known mandatory : List Imp) (fl : Flags) (st : St)
    (h : fixStage2 ss scan known mandatory fl = .ok st) :
    origStmts st.blocks = ss.filter (fun s => !s.isImport) := by
  unfold fixStage2 at h
  have h0 := origStmts_preprocess ss
  obtain ⟨st1, h1, h⟩ := bind_ok h
  have e1 : origStmts st1.blocks = origStmts (preprocess ss).blocks := by
    unfold stageRemove at h1
    split at h1
    · exact removeAll_orig _ _ _ h1
    · cases h1; rfl
  obtain ⟨st2, h2, h⟩ := bind_ok h
  have e2 : origStmts st2.blocks = origStmts st1.blocks := by
    unfold stageMissing at h2
    split at h2
    · split at h2
      · rename_i st' added hl
        cases h2
        exact addMissingLoop_orig _ _ _ _ _ _ _ hl
      · cases h2
    · cases h2; rfl
  unfold stageMandatory at h
  split at h
  · rw [addMandatoryLoop_orig _ _ _ h, e2, e1, h0]
  · cases h; rw [e2, e1, h0]

/-- Corollary at the level of characters: the concatenated text of the original
    verbatim blocks is the concatenated text of the input's non-import statements. -/
theorem C01_frame_text (ss : List Stmt) (scan : Scan) (known mandatory : List Imp) (fl : Flags) (st : St)
    (h : fixStage2 ss scan known mandatory fl = .ok st) :
    stmtsText (origStmts st.blocks) = stmtsText (ss.filter (fun s => !s.isImport)) := by
  rw [C01_frame_tidy ss scan known mandatory fl st h]

/-! ### Where a new import block goes -/

theorem prologue_take (d : Bool) (ss : List Stmt) :
    ∀ s ∈ ss.take (prologueLen d ss), s.kind = .comment ∨ s.kind = .docstr := by
  induction ss generalizing d with
  | nil => simp
  | cons s ss ih =>
    unfold prologueLen
    simp only []
    split
    · rename_i hskip
      intro x hx
      rw [Nat.add_comm, List.take_succ_cons] at hx
      simp at hx
      rcases hx with rfl | hx
      · unfold isPrologue at hskip
        cases hk : x.kind <;> simp [hk] at hskip ⊢
      · exact ih _ x hx
    · simp

/-- the statement right after the prologue is not a comment/blank, and it is a
    string literal only if the docstring slot was already used -/
theorem prologue_next (d : Bool) (ss : List Stmt) (h : prologueLen d ss < ss.length) :
    ∃ s, ss[prologueLen d ss]? = some s ∧ s.kind ≠ .comment := by
  induction ss generalizing d with
  | nil => simp at h
  | cons s ss ih =>
    unfold prologueLen at h ⊢
    simp only [] at h ⊢
    split
    · rename_i hskip
      rw [if_pos hskip] at h
      have h' : prologueLen (isPrologue d s).2 ss < ss.length := by simp at h; omega
      obtain ⟨x, hx, hk⟩ := ih _ h'
      refine ⟨x, ?_, hk⟩
      rw [Nat.add_comm]; simpa using hx
    · rename_i hskip
      refine ⟨s, by simp, ?_⟩
      intro hk
      apply hskip
      unfold isPrologue; simp [hk]

/-- **C01_insert_position** — `insert_new_blocks_after_comments`: the new blocks go
    (1) before everything when the file starts with an import block or with a
    non-prologue statement, (2) between the prologue statements and the rest of
    the first block, or (3) after the first block when it is all prologue —
    preceded by a "\n" terminator only when that block is the whole file and
    its last line is unterminated.  Nothing else moves. -/
theorem C01_insert_position (ss : List Stmt) (ins : Bool) (rest nb : List Block) :
    let k := prologueLen true ss
    ∃ pre post, insertAfterComments (.verbatim ss ins :: rest) nb = pre ++ nb ++ post ∧
      ((k = 0 ∧ k ≠ ss.length ∧ pre = [] ∧ post = .verbatim ss ins :: rest) ∨
       (0 < k ∧ k < ss.length ∧ pre = [.verbatim (ss.take k) ins] ∧ post = .verbatim (ss.drop k) ins :: rest) ∨
       (k = ss.length ∧ pre = [.verbatim ss ins] ∧ post = rest) ∨
       (k = ss.length ∧ rest = [] ∧ stmtsText ss ≠ [] ∧ (stmtsText ss).getLast? ≠ some '\n' ∧
          pre = [.verbatim ss ins, sepBlock] ∧ post = [])) := by
  intro k
  unfold insertAfterComments
  simp only []
  by_cases h1 : prologueLen true ss = ss.length
  · rw [if_pos h1]
    split
    · rename_i h
      obtain ⟨hr, ht1, ht2⟩ := h
      exact ⟨[.verbatim ss ins, sepBlock], [], by simp, Or.inr (Or.inr (Or.inr ⟨h1, hr, ht1, ht2, rfl, rfl⟩))⟩
    · exact ⟨[.verbatim ss ins], rest, by simp, Or.inr (Or.inr (Or.inl ⟨h1, rfl, rfl⟩))⟩
  · rw [if_neg h1]
    by_cases h0 : prologueLen true ss = 0
    · rw [if_pos h0]
      exact ⟨[], .verbatim ss ins :: rest, by simp, Or.inl ⟨h0, by show prologueLen true ss ≠ _; exact h1, rfl, rfl⟩⟩
    · rw [if_neg h0]
      have hle : prologueLen true ss ≤ ss.length := by
        clear h1 h0
        generalize true = d
        induction ss generalizing d with
        | nil => simp [prologueLen]
        | cons s ss ih =>
          unfold prologueLen; simp only []
          split
          · have := ih (isPrologue d s).2; simp; omega
          · simp
      exact ⟨[.verbatim (ss.take (prologueLen true ss)) ins], .verbatim (ss.drop (prologueLen true ss)) ins :: rest,
        by simp, Or.inr (Or.inl ⟨by omega, by omega, rfl, rfl⟩)⟩

/-- the inserted separator is exactly one newline -/
theorem C01_separator_text : stmtsText (match sepBlock with | .verbatim ss _ => ss | _ => []) = ['\n'] := by
  simp [sepBlock, stmtsText]

/-! ### Non-vacuity -/

def exStmts : List Stmt :=
  [⟨"# c\n".toList, .comment, false, [], 1, 1⟩,
   ⟨"'''doc'''\n".toList, .docstr, false, [], 2, 1⟩,
   ⟨"import os\n".toList, .other, true, [⟨"os".toList, "os".toList⟩], 3, 1⟩,
   ⟨"x = sys.argv\n".toList, .other, false, [], 4, 1⟩]

example : (fixStage2 exStmts ⟨[(3, ⟨"os".toList, "os".toList⟩)], [(4, "sys".toList)]⟩
      [⟨"sys".toList, "sys".toList⟩] [⟨"__future__.annotations".toList, "annotations".toList⟩]
      ⟨true, true, true⟩).toOption.map (fun st => (origStmts st.blocks).map (fun s => String.ofList s.text))
    = some ["# c\n", "'''doc'''\n", "x = sys.argv\n"] := by decide

end Pfb.C01
