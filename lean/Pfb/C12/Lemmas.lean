/-
  Pfb.C12.Lemmas — specification-side definitions for C12 (the "documented"
  meaning of the search path, of forgetting, of a fresh load) and the
  refinement lemmas that connect the code-shaped model functions to them.
-/
import Pfb.C12.Model
namespace Pfb.C12
open Pfb

/-! ## Recursive `*.py` expansion: the explicit stack is a depth-first walk -/

mutual
  /-- What one search-path entry that exists contributes: a file is kept as it is (whatever its
      name), a directory contributes its visible `*.py` files, depth first, in listing order. -/
  def walk (p : Path) : Node → List Path
    | .file _ => [p]
    | .dir _ ch => walkCh p ch
  def walkCh (p : Path) : List (Str × Node) → List Path
    | [] => []
    | (name, n) :: rest => (if visible name n then walk (p ++ [name]) n else []) ++ walkCh p rest
end

theorem walkCh_eq (p : Path) (ch : List (Str × Node)) :
    walkCh p ch = (visibleChildren p ch).flatMap (fun x => walk x.1 x.2) := by
  induction ch with
  | nil => simp [walkCh, visibleChildren]
  | cons x xs ih =>
    obtain ⟨name, n⟩ := x
    rw [walkCh, visibleChildren_cons, List.flatMap_append, ih]
    by_cases h : visible name n <;> simp [h]

theorem expandLoop_eq (st : List (Path × Node)) (res : List Path) :
    expandLoop st res = res ++ st.flatMap (fun x => walk x.1 x.2) := by
  fun_induction expandLoop st res with
  | case1 res => simp
  | case2 res p c st ih => rw [ih]; simp [walk]
  | case3 res p dev ch st ih =>
    rw [ih, List.flatMap_append, List.flatMap_cons, walk, walkCh_eq]

/-- The code's `for f in reversed(pathname.list())` push loop leaves the accepted entries on the
    stack in listing order. -/
theorem pushChildrenCode_eq (p : Path) (ch : List (Str × Node)) (st : List (Path × Node)) :
    pushChildrenCode p ch st = visibleChildren p ch ++ st := by
  unfold pushChildrenCode
  rw [List.foldl_reverse]
  induction ch with
  | nil => simp [visibleChildren]
  | cons x xs ih =>
    obtain ⟨name, n⟩ := x
    rw [visibleChildren_cons]
    by_cases hs : safeComp name
    · rw [List.filter_cons_of_pos (by simpa using hs), List.foldr_cons, ih]
      by_cases hh : hidden name
      · simp [visible, hh]
      · by_cases hp : name = pycache
        · simp [visible, hp]
        · cases n with
          | file c =>
            by_cases he : endsWith name dotPy <;> simp [visible, hs, hh, hp, he]
          | dir d c => simp [visible, hs, hh, hp]
    · rw [List.filter_cons_of_neg (by simpa using hs), ih]
      simp [visible, hs]

theorem initStack_eq (w : World) (ps : List Path) :
    initStack w ps = ps.filterMap (fun p => (w.get p).map (fun n => (p, n))) := by
  unfold initStack
  rw [List.foldl_reverse]
  induction ps with
  | nil => simp
  | cons p ps ih =>
    rw [List.foldr_cons, ih]
    cases h : w.get p <;> simp [h]

/-- What one path of the (de-duplicated) search path contributes. -/
def entryFiles (w : World) (p : Path) : List Path :=
  match w.get p with
  | some n => walk p n
  | none => []

theorem expandPyFiles_eq (w : World) (ps : List Path) :
    expandPyFiles w ps = ps.flatMap (entryFiles w) := by
  unfold expandPyFiles
  rw [expandLoop_eq, initStack_eq]
  induction ps with
  | nil => simp
  | cons p ps ih =>
    simp only [List.nil_append] at ih
    cases h : w.get p <;> simp [h, entryFiles, ih]

/-! ## Reachability: which files a directory entry contributes -/

/-- `names` leads from `n` down to a regular file through entries the recursion accepts. -/
inductive Reaches : Node → List Str → Prop where
  | file (c : FileC) : Reaches (.file c) []
  | dir (dev : Nat) (ch : List (Str × Node)) (name : Str) (n : Node) (rest : List Str) :
      (name, n) ∈ ch → visible name n = true → Reaches n rest → Reaches (.dir dev ch) (name :: rest)

mutual
  theorem mem_walk (p : Path) : ∀ (n : Node) (f : Path),
      f ∈ walk p n ↔ ∃ names, f = p ++ names ∧ Reaches n names
    | .file c, f => by
      simp only [walk, List.mem_singleton]
      constructor
      · intro h; exact ⟨[], by simp [h], Reaches.file c⟩
      · rintro ⟨names, h, hr⟩
        cases hr
        simpa using h
    | .dir dev ch, f => by
      simp only [walk]
      rw [mem_walkCh p ch f]
      constructor
      · rintro ⟨name, n, rest, hm, hv, hf, hr⟩
        exact ⟨name :: rest, hf, Reaches.dir dev ch name n rest hm hv hr⟩
      · rintro ⟨names, hf, hr⟩
        cases hr with
        | dir _ _ name n rest hm hv hr => exact ⟨name, n, rest, hm, hv, hf, hr⟩
  theorem mem_walkCh (p : Path) : ∀ (ch : List (Str × Node)) (f : Path),
      f ∈ walkCh p ch ↔ ∃ name n rest, (name, n) ∈ ch ∧ visible name n = true ∧
        f = p ++ name :: rest ∧ Reaches n rest
    | [], f => by simp [walkCh]
    | (name, n) :: xs, f => by
      rw [walkCh, List.mem_append, mem_walkCh p xs f]
      constructor
      · rintro (h | ⟨name', n', rest, hm, hv, hf, hr⟩)
        · by_cases hv : visible name n
          · rw [if_pos hv, mem_walk (p ++ [name]) n f] at h
            obtain ⟨names, hf, hr⟩ := h
            exact ⟨name, n, names, by simp, hv, by simp [hf], hr⟩
          · simp [hv] at h
        · exact ⟨name', n', rest, by simp [hm], hv, hf, hr⟩
      · rintro ⟨name', n', rest, hm, hv, hf, hr⟩
        rw [List.mem_cons] at hm
        rcases hm with heq | hm
        · left
          have h1 : name' = name := (Prod.mk.inj heq).1
          have h2 : n' = n := (Prod.mk.inj heq).2
          subst h1; subst h2
          rw [if_pos hv, mem_walk (p ++ [name']) n' f]
          exact ⟨rest, by simp [hf], hr⟩
        · right; exact ⟨name', n', rest, hm, hv, hf, hr⟩
end

/-! ## `_ancestors_on_same_partition`: the loop is "existing ancestors while the device stays the same" -/

/-- Existing ancestors, nearest first, with their device. -/
def existing (w : World) (fs : List Path) : List (Path × Nat) :=
  fs.filterMap fun f => (w.stDev f).map fun d => (f, d)

/-- The documented meaning: the existing ancestors up to (not including) the first one that sits
    on another device than the nearest existing one. -/
def ancSpecOn (w : World) (fs : List Path) : List Path :=
  match existing w fs with
  | [] => []
  | (f0, d0) :: rest => f0 :: (rest.takeWhile fun x => x.2 = d0).map (·.1)

def ancSpec (w : World) (p : Path) : List Path := ancSpecOn w (ancestors p)

theorem existing_cons (w : World) (f : Path) (fs : List Path) :
    existing w (f :: fs) =
      match w.stDev f with
      | none => existing w fs
      | some d => (f, d) :: existing w fs := by
  unfold existing
  cases h : w.stDev f <;> simp [h]

theorem ancLoop_some (w : World) (fs : List Path) (d0 : Nat) (res : List Path) :
    ancLoop w fs (some d0) res = res ++ ((existing w fs).takeWhile fun x => x.2 = d0).map (·.1) := by
  induction fs generalizing res with
  | nil => simp [ancLoop, existing]
  | cons f fs ih =>
    unfold ancLoop
    rw [existing_cons]
    cases h : w.stDev f with
    | none => simpa using ih res
    | some d =>
      by_cases hd : d0 = d
      · subst hd
        simp only [ne_eq, not_true_eq_false, ↓reduceIte]
        rw [ih]
        simp
      · have hd' : ¬ d = d0 := fun hh => hd hh.symm
        simp [hd, hd']

theorem ancLoop_none (w : World) (fs : List Path) (res : List Path) :
    ancLoop w fs none res = res ++ ancSpecOn w fs := by
  induction fs generalizing res with
  | nil => simp [ancLoop, ancSpecOn, existing]
  | cons f fs ih =>
    unfold ancLoop ancSpecOn
    rw [existing_cons]
    cases h : w.stDev f with
    | none =>
      simp only
      rw [ih]
      simp [ancSpecOn]
    | some d =>
      simp only
      rw [ancLoop_some]
      simp

theorem ancestorsOnSamePartition_eq (w : World) (p : Path) :
    ancestorsOnSamePartition w p = ancSpec w p := by
  simp [ancestorsOnSamePartition, ancSpec, ancLoop_none]

/-! ## `_get_env_var`: the index/slice assignment replaces the first `-` -/

def spliceSpec (dflt : List Str) : List Str → List Str
  | [] => []
  | x :: xs => if x = ['-'] then dflt ++ xs else x :: spliceSpec dflt xs

theorem spliceDash_eq (value dflt : List Str) : spliceDash value dflt = spliceSpec dflt value := by
  unfold spliceDash
  induction value with
  | nil => simp [spliceSpec, List.idxOf?]
  | cons x xs ih =>
    by_cases hx : x = ['-']
    · subst hx; simp [spliceSpec, List.idxOf?, List.findIdx?_cons]
    · have hx' : (x == ['-']) = false := by simpa using hx
      simp only [List.idxOf?, List.findIdx?_cons, hx', spliceSpec, hx, if_false] at ih ⊢
      cases h : List.findIdx? (fun y => y == ['-']) xs with
      | none => simp [h] at ih ⊢; exact ih
      | some i => simp [h] at ih ⊢; exact ih

/-! ## `_expand_tripledots` and `_get_python_path`: the documented expansion -/

/-- What one search-path component (after `~` expansion) stands for. -/
def entryPaths (w : World) (target : Path) (e : Str) : Except Err (List Path) :=
  if startsWith e tripledots then
    -- `.../x`: x in every ancestor directory on the same filesystem, outermost first (nearest last)
    .ok ((ancSpec w target).reverse.filterMap fun a =>
      if safePath (joinPath a (e.drop 4)) then some (joinPath a (e.drop 4)) else none)
  else
    match mkFilename w.cwd e with
    | .ok f => .ok [f]
    | .error x => .error x

def entriesPaths (w : World) (target : Path) : List Str → Except Err (List Path)
  | [] => .ok []
  | e :: es =>
    match entryPaths w target e with
    | .error x => .error x
    | .ok l =>
      match entriesPaths w target es with
      | .error x => .error x
      | .ok r => .ok (l ++ r)

theorem expandTripledots_eq (w : World) (target : Path) (ps : List Str) (res : List Path) :
    expandTripledots w target ps res =
      match entriesPaths w target ps with
      | .ok r => .ok (res ++ r)
      | .error x => .error x := by
  induction ps generalizing res with
  | nil => simp [expandTripledots, entriesPaths]
  | cons e es ih =>
    unfold expandTripledots entriesPaths entryPaths
    by_cases ht : startsWith e tripledots
    · simp only [ht, Bool.not_true, Bool.false_eq_true, ↓reduceIte]
      rw [ih, ancestorsOnSamePartition_eq, List.filterMap_reverse]
      cases entriesPaths w target es <;> simp
    · simp only [ht, Bool.not_false, ↓reduceIte]
      cases hm : mkFilename w.cwd e with
      | error x => simp
      | ok f =>
        simp only
        rw [ih]
        cases entriesPaths w target es <;> simp

/-- The documented search path for a start directory `target`: components of the variable (the
    default when unset or empty), the first `-` replaced by the default, `EMPTY` alone for nothing,
    every component rooted at `/`, `./`, `~/` or `.../`; duplicates dropped; each path expanded. -/
def pathSpec (w : World) (v : Option Str) (dflt : List Str) (target : Path) : Except Err (List Path) :=
  let comps := (splitOn ':' (v.getD [])).filter (· ≠ [])
  let entries := if comps = [] then dflt else spliceSpec dflt comps
  if entries = [EMPTY] then .ok []
  else if !(entries.all entryOk) then .error .valueError
  else
    match entriesPaths w target (entries.map (expandUser w.home)) with
    | .error e => .error e
    | .ok ps => .ok ((stableUnique ps).flatMap (entryFiles w))

theorem getPythonPath_eq (w : World) (v : Option Str) (dflt : List Str) (target : Path) :
    getPythonPath w v dflt target = pathSpec w v dflt target := by
  unfold getPythonPath pathSpec getEnvVar
  simp only [spliceDash_eq]
  generalize (if (splitOn ':' (v.getD [])).filter (· ≠ []) = [] then dflt
      else spliceSpec dflt ((splitOn ':' (v.getD [])).filter (· ≠ []))) = entries
  by_cases h1 : entries = [EMPTY]
  · simp [h1]
  · simp only [h1, if_false]
    by_cases h2 : (!(entries.all entryOk)) = true
    · simp [h2]
    · simp only [h2]
      rw [expandTripledots_eq]
      cases entriesPaths w target (entries.map (expandUser w.home)) <;> simp [expandPyFiles_eq]

/-! ## Forgetting -/

/-- A star entry `from M import *` of the forget list names `imp` when `imp` is a from-import out of
    `M` or of a sub-module of `M`. -/
def StarForgets (r : List Import) (imp : Import) : Prop :=
  ∃ x ∈ r, x.split.2 = star ∧ ∃ m, imp.split.1 = some m ∧ ∃ pfx ∈ dottedPrefixes m, x.split.1 = some pfx

/-- `imp` is named by the forget list `r`. -/
def Forgets (r : List Import) (imp : Import) : Prop := imp ∈ r ∨ StarForgets r imp

theorem mem_starMods (r : List Import) (o : Option Str) :
    o ∈ (r.filterMap fun x => if x.split.2 = star then some x.split.1 else none) ↔
      ∃ x ∈ r, x.split.2 = star ∧ x.split.1 = o := by
  simp only [List.mem_filterMap]
  constructor
  · rintro ⟨x, hx, h⟩
    by_cases hs : x.split.2 = star
    · rw [if_pos hs] at h; exact ⟨x, hx, hs, by simpa using h⟩
    · rw [if_neg hs] at h; simp at h
  · rintro ⟨x, hx, hs, h⟩
    exact ⟨x, hx, by rw [if_pos hs, h]⟩

theorem mem_withoutImports (s r : List Import) (imp : Import) :
    imp ∈ withoutImports s r ↔ imp ∈ s ∧ ¬ Forgets r imp := by
  unfold withoutImports
  by_cases hr : r = []
  · subst hr
    simp [Forgets, StarForgets]
  · rw [if_neg hr, List.mem_filter]
    apply and_congr_right
    intro _
    by_cases hm : imp ∈ r
    · simp [hm, Forgets]
    · simp only [hm, if_false, Forgets, false_or]
      by_cases hsm : (r.filterMap fun x => if x.split.2 = star then some x.split.1 else none) = []
      · simp only [hsm, ne_eq, not_true_eq_false, if_false, true_iff]
        rintro ⟨x, hx, hs, _⟩
        have : x.split.1 ∈ (r.filterMap fun x => if x.split.2 = star then some x.split.1 else none) :=
          (mem_starMods r _).2 ⟨x, hx, hs, rfl⟩
        rw [hsm] at this
        simp at this
      · simp only [ne_eq, hsm, not_false_eq_true, if_true]
        cases hsp : imp.split.1 with
        | none =>
          simp only [true_iff]
          rintro ⟨x, _, _, m, hm', _⟩
          rw [hsp] at hm'; simp at hm'
        | some m =>
          simp only [Bool.not_eq_true', ← Bool.not_eq_true, List.any_eq_true, decide_eq_true_eq]
          apply not_congr
          constructor
          · rintro ⟨pfx, hp, hmem⟩
            obtain ⟨x, hx, hs, h1⟩ := (mem_starMods r _).1 hmem
            exact ⟨x, hx, hs, m, by rw [hsp], pfx, hp, h1⟩
          · rintro ⟨x, hx, hs, m', hm', pfx, hp, h1⟩
            rw [hsp] at hm'
            have : m = m' := by simpa using hm'
            subst this
            exact ⟨pfx, hp, (mem_starMods r _).2 ⟨x, hx, hs, h1⟩⟩

/-! ## Composition of the database files -/

def stmtKnown : Stmt → List Import
  | .known is => is
  | _ => []
def stmtMand : Stmt → List Import
  | .mandatory is => is
  | _ => []
def stmtForget : Stmt → List Import
  | .forget is => is
  | _ => []
def stmtCanon : Stmt → List (List (Str × Str))
  | .canonical ps => [ps]
  | _ => []

/-- Contents of one file, whatever the order of its statements. -/
def knownOf (f : FileC) : List Import := f.stmts.flatMap stmtKnown
def mandOf (f : FileC) : List Import := f.stmts.flatMap stmtMand
def forgetOf (f : FileC) : List Import := f.stmts.flatMap stmtForget
def canonOf (f : FileC) : List (List (Str × Str)) := f.stmts.flatMap stmtCanon

/-- The file parses and every assignment is one of the three directives with a well-typed value. -/
def FileOK (f : FileC) : Prop := f.syn = false ∧ Stmt.bad ∉ f.stmts

theorem collectStmts_ok (stmts : List Stmt) (a : Acc) (h : Stmt.bad ∉ stmts) :
    collectStmts stmts a = .ok
      { known := a.known ++ stmts.flatMap stmtKnown, mand := a.mand ++ stmts.flatMap stmtMand,
        canon := a.canon ++ stmts.flatMap stmtCanon, forget := a.forget ++ stmts.flatMap stmtForget } := by
  induction stmts generalizing a with
  | nil => simp [collectStmts]
  | cons s rest ih =>
    have hr : Stmt.bad ∉ rest := fun hh => h (List.mem_cons_of_mem _ hh)
    cases s with
    | bad => simp at h
    | known is => simp [collectStmts, ih _ hr, stmtKnown, stmtMand, stmtCanon, stmtForget]
    | mandatory is => simp [collectStmts, ih _ hr, stmtKnown, stmtMand, stmtCanon, stmtForget]
    | canonical ps => simp [collectStmts, ih _ hr, stmtKnown, stmtMand, stmtCanon, stmtForget]
    | forget is => simp [collectStmts, ih _ hr, stmtKnown, stmtMand, stmtCanon, stmtForget]

theorem collectStmts_err (stmts : List Stmt) (a : Acc) (h : Stmt.bad ∈ stmts) :
    collectStmts stmts a = .error .valueError := by
  induction stmts generalizing a with
  | nil => simp at h
  | cons s rest ih =>
    cases s with
    | bad => simp [collectStmts]
    | known is => simp at h; simp [collectStmts, ih _ h]
    | mandatory is => simp at h; simp [collectStmts, ih _ h]
    | canonical ps => simp at h; simp [collectStmts, ih _ h]
    | forget is => simp at h; simp [collectStmts, ih _ h]

theorem collectFiles_ok (files : List FileC) (a : Acc) (h : ∀ f ∈ files, FileOK f) :
    collectFiles files a = .ok
      { known := a.known ++ files.flatMap knownOf, mand := a.mand ++ files.flatMap mandOf,
        canon := a.canon ++ files.flatMap canonOf, forget := a.forget ++ files.flatMap forgetOf } := by
  induction files generalizing a with
  | nil => simp [collectFiles]
  | cons f rest ih =>
    have hf := h f (by simp)
    have hr : ∀ g ∈ rest, FileOK g := fun g hg => h g (List.mem_cons_of_mem _ hg)
    unfold collectFiles
    rw [if_neg (by simp [hf.1]), collectStmts_ok _ _ hf.2]
    simp only
    rw [ih _ hr]
    simp [knownOf, mandOf, canonOf, forgetOf]

theorem collectFiles_err (files : List FileC) (a : Acc) (h : ¬ ∀ f ∈ files, FileOK f) :
    ∃ e, collectFiles files a = .error e := by
  induction files generalizing a with
  | nil => simp at h
  | cons f rest ih =>
    unfold collectFiles
    by_cases hs : f.syn = true
    · exact ⟨_, by rw [if_pos hs]⟩
    · rw [if_neg hs]
      by_cases hb : Stmt.bad ∈ f.stmts
      · exact ⟨_, by rw [collectStmts_err _ _ hb]⟩
      · rw [collectStmts_ok _ _ hb]
        simp only
        apply ih
        intro hall
        apply h
        intro g hg
        rcases List.mem_cons.1 hg with rfl | hg
        · exact ⟨by simpa using hs, hb⟩
        · exact hall g hg

/-! ## The canonical map: later entries win -/

/-- `dict.__getitem__` on the association list. -/
def mapLook (m : List (Str × Str)) (k : Str) : Option Str := (m.find? (·.1 = k)).map (·.2)

/-- The value of the last `key: value` pair for `k` in reading order. -/
def lastBinding (l : List (Str × Str)) (k : Str) : Option Str := ((l.filter (·.1 = k)).getLast?).map (·.2)

theorem mapLook_mapSet (m : List (Str × Str)) (k v k' : Str) :
    mapLook (mapSet m k v) k' = if k' = k then some v else mapLook m k' := by
  induction m with
  | nil =>
    by_cases h : k' = k
    · simp [mapSet, mapLook, h]
    · have h' : ¬ k = k' := fun hh => h hh.symm
      simp [mapSet, mapLook, h, h']
  | cons x xs ih =>
    obtain ⟨a, b⟩ := x
    unfold mapSet
    by_cases ha : a = k
    · subst ha
      rw [if_pos rfl]
      by_cases h : k' = a
      · simp [mapLook, h]
      · have h' : ¬ a = k' := fun hh => h hh.symm
        simp [mapLook, h, h']
    · rw [if_neg ha]
      by_cases h : a = k'
      · subst h
        have : ¬ a = k := ha
        simp [mapLook, this]
      · have ih' := ih
        unfold mapLook at ih' ⊢
        simp only [List.find?_cons, h, decide_false]
        exact ih'

theorem mapSet_keys (m : List (Str × Str)) (k v : Str) :
    (mapSet m k v).map (·.1) = if k ∈ m.map (·.1) then m.map (·.1) else m.map (·.1) ++ [k] := by
  induction m with
  | nil => simp [mapSet]
  | cons x xs ih =>
    obtain ⟨a, b⟩ := x
    unfold mapSet
    by_cases ha : a = k
    · subst ha; simp
    · have ha' : ¬ k = a := fun hh => ha hh.symm
      rw [if_neg ha]
      simp only [List.map_cons, ih, List.mem_cons, ha', false_or]
      split <;> simp

theorem mapSet_nodup (m : List (Str × Str)) (k v : Str) (h : (m.map (·.1)).Nodup) :
    ((mapSet m k v).map (·.1)).Nodup := by
  rw [mapSet_keys]
  split
  · exact h
  · rename_i hk
    rw [List.nodup_append]
    refine ⟨h, by simp, ?_⟩
    intro a ha b hb
    simp at hb; subst hb
    intro hab; subst hab; exact hk ha

theorem foldl_mapSet_look (l : List (Str × Str)) (acc : List (Str × Str)) (k : Str) :
    mapLook (l.foldl (fun a kv => mapSet a kv.1 kv.2) acc) k =
      match lastBinding l k with
      | some v => some v
      | none => mapLook acc k := by
  induction l generalizing acc with
  | nil => simp [lastBinding]
  | cons x xs ih =>
    rw [List.foldl_cons, ih, mapLook_mapSet]
    unfold lastBinding
    by_cases hx : x.1 = k
    · rw [List.filter_cons_of_pos (by simpa using hx)]
      cases hf : xs.filter (fun y => decide (y.1 = k)) with
      | nil => simp [hx]
      | cons y ys => simp [List.getLast?_cons]
    · rw [List.filter_cons_of_neg (by simpa using hx)]
      have hx' : ¬ k = x.1 := fun hh => hx hh.symm
      simp [hx']

theorem foldl_mapSet_nodup (l : List (Str × Str)) (acc : List (Str × Str)) (h : (acc.map (·.1)).Nodup) :
    ((l.foldl (fun a kv => mapSet a kv.1 kv.2) acc).map (·.1)).Nodup := by
  induction l generalizing acc with
  | nil => simpa using h
  | cons x xs ih => rw [List.foldl_cons]; exact ih _ (mapSet_nodup _ _ _ h)

theorem mergeMaps_eq (maps : List (List (Str × Str))) :
    mergeMaps maps = maps.flatten.foldl (fun a kv => mapSet a kv.1 kv.2) [] := by
  unfold mergeMaps
  rw [List.foldl_flatten]

/-! ## The cache -/

/-- The nearest existing directory at or above a path given by its reversed components
    (what the `while True` loop of `get_default` ends on when nothing is cached). -/
def firstDirR (w : World) : List Str → Path
  | [] => []
  | c :: rd => if w.isDir (c :: rd).reverse then (c :: rd).reverse else firstDirR w rd

theorem firstDirR_cons_dir (w : World) (x : Str) (rd : List Str) (h : w.isDir (x :: rd).reverse = true) :
    firstDirR w (x :: rd) = (x :: rd).reverse := by
  rw [firstDirR, if_pos h]

theorem firstDirR_cons_ndir (w : World) (x : Str) (rd : List Str) (h : ¬ w.isDir (x :: rd).reverse = true) :
    firstDirR w (x :: rd) = firstDirR w rd := by
  rw [firstDirR, if_neg h]

theorem firstDirR_idem (w : World) (rd : List Str) :
    firstDirR w (firstDirR w rd).reverse = firstDirR w rd := by
  induction rd with
  | nil => simp [firstDirR]
  | cons x rd ih =>
    by_cases hd : w.isDir (x :: rd).reverse = true
    · rw [firstDirR_cons_dir w x rd hd, List.reverse_reverse, firstDirR_cons_dir w x rd hd]
    · rw [firstDirR_cons_ndir w x rd hd, ih]

/-- Load for a start directory that exists: expand the search path, read the files. -/
def loadAt (w : World) (env : Env) (d : Path) : Except Err DB :=
  match getPythonPath w env.pp (defaultPath w) d with
  | .error e => .error e
  | .ok files => fromFilenames w files

/-- The uncached meaning of a lookup: no cache appears in this definition. -/
def freshLoad (w : World) (q : Query) : Except Err DB :=
  match targetDirname w q.target with
  | .error e => .error e
  | .ok d0 => loadAt w q.env (firstDirR w d0.reverse)

/-- What a cache key stands for. -/
def keyFresh (w : World) : Key → Except Err DB
  | .dir d env => loadAt w env (firstDirR w d.reverse)
  | .files fs => fromFilenames w fs

/-- The cache invariant: every entry equals the fresh load of its key. -/
def CacheOK (w : World) (c : Cache) : Prop := ∀ k db, c.find k = some db → keyFresh w k = .ok db

theorem cacheOK_nil (w : World) : CacheOK w [] := by
  intro k db h; simp [Cache.find] at h

theorem find_append_map (keys : List Key) (db : DB) (c : Cache) (k : Key) :
    Cache.find (keys.map (·, db) ++ c) k = if k ∈ keys then some db else Cache.find c k := by
  induction keys with
  | nil => simp
  | cons k' ks ih =>
    simp only [List.map_cons, List.cons_append, Cache.find, ih, List.mem_cons]
    by_cases h : k' = k
    · simp [h]
    · have h' : ¬ k = k' := fun hh => h hh.symm
      simp [h, h']

theorem find_store (c : Cache) (keys : List Key) (db : DB) (k : Key) :
    (c.store keys db).find k = if k ∈ keys then some db else c.find k :=
  find_append_map keys db c k

/-- Keys collected on the way up all stand for the same start directory `fd`. -/
def KeyFor (w : World) (env : Env) (fd : Path) (k : Key) : Prop :=
  ∃ d', k = .dir d' env ∧ firstDirR w d'.reverse = fd

theorem walkUp_hit (w : World) (env : Env) (c : Cache) (rd : List Str) (keys : List Key) (db : DB)
    (h : c.find (Key.dir rd.reverse env) = some db) : walkUp w env c rd keys = .hit db := by
  unfold walkUp; simp only [h]

theorem walkUp_stop_dir (w : World) (env : Env) (c : Cache) (rd : List Str) (keys : List Key)
    (h : c.find (Key.dir rd.reverse env) = none) (hd : w.isDir rd.reverse = true) :
    walkUp w env c rd keys = .stop rd.reverse (keys ++ [Key.dir rd.reverse env]) := by
  unfold walkUp; simp only [h, hd, if_true]

theorem walkUp_nil_stop (w : World) (env : Env) (c : Cache) (keys : List Key)
    (h : c.find (Key.dir ([] : List Str).reverse env) = none) :
    walkUp w env c [] keys = .stop ([] : List Str).reverse (keys ++ [Key.dir ([] : List Str).reverse env]) := by
  unfold walkUp; simp only [h]; split <;> rfl

theorem walkUp_cons_up (w : World) (env : Env) (c : Cache) (x : Str) (rd : List Str) (keys : List Key)
    (h : c.find (Key.dir (x :: rd).reverse env) = none) (hd : ¬ w.isDir (x :: rd).reverse = true) :
    walkUp w env c (x :: rd) keys = walkUp w env c rd (keys ++ [Key.dir (x :: rd).reverse env]) := by
  rw [walkUp]; simp only [h]; rw [if_neg hd]

theorem walkUp_spec (w : World) (env : Env) (c : Cache) (hc : CacheOK w c) :
    ∀ (rd : List Str) (keys : List Key), (∀ k ∈ keys, KeyFor w env (firstDirR w rd) k) →
      match walkUp w env c rd keys with
      | .hit db => loadAt w env (firstDirR w rd) = .ok db
      | .stop d keys' => d = firstDirR w rd ∧ c.find (.dir d env) = none ∧
          ∀ k ∈ keys', KeyFor w env (firstDirR w rd) k := by
  intro rd
  induction rd with
  | nil =>
    intro keys hk
    cases hf : c.find (Key.dir ([] : List Str).reverse env) with
    | some db =>
      rw [walkUp_hit w env c [] keys db hf]
      have := hc _ _ hf
      simpa [keyFresh] using this
    | none =>
      rw [walkUp_nil_stop w env c keys hf]
      refine ⟨by simp [firstDirR], hf, ?_⟩
      intro k hk1
      rcases List.mem_append.1 hk1 with h | h
      · exact hk k h
      · simp only [List.mem_singleton] at h; subst h; exact ⟨[], by simp, by simp⟩
  | cons x rd ih =>
    intro keys hk
    cases hf : c.find (Key.dir (x :: rd).reverse env) with
    | some db =>
      rw [walkUp_hit w env c _ keys db hf]
      have := hc _ _ hf
      simpa [keyFresh] using this
    | none =>
      have hk' : ∀ k ∈ keys ++ [Key.dir (x :: rd).reverse env], KeyFor w env (firstDirR w (x :: rd)) k := by
        intro k hk1
        rcases List.mem_append.1 hk1 with h | h
        · exact hk k h
        · simp only [List.mem_singleton] at h; subst h
          exact ⟨(x :: rd).reverse, rfl, by rw [List.reverse_reverse]⟩
      by_cases hd : w.isDir (x :: rd).reverse = true
      · rw [walkUp_stop_dir w env c _ keys hf hd]
        exact ⟨(firstDirR_cons_dir w x rd hd).symm, hf, hk'⟩
      · rw [walkUp_cons_up w env c x rd keys hf hd]
        rw [firstDirR_cons_ndir w x rd hd] at hk' ⊢
        exact ih _ hk'

theorem getDefault_spec (w : World) (c : Cache) (q : Query) (hc : CacheOK w c) :
    (getDefault w c q).1 = freshLoad w q ∧ CacheOK w (getDefault w c q).2 := by
  unfold getDefault freshLoad
  cases ht : targetDirname w q.target with
  | error e => exact ⟨rfl, hc⟩
  | ok d0 =>
    simp only
    have hw := walkUp_spec w q.env c hc d0.reverse [] (by simp)
    cases hwu : walkUp w q.env c d0.reverse [] with
    | hit db =>
      rw [hwu] at hw
      exact ⟨hw.symm, hc⟩
    | stop d keys =>
      rw [hwu] at hw
      obtain ⟨hd, hnone, hkeys⟩ := hw
      simp only [hnone]
      rw [← hd]
      unfold loadAt
      cases hp : getPythonPath w q.env.pp (defaultPath w) d with
      | error e => exact ⟨rfl, hc⟩
      | ok files =>
        simp only
        cases hf : c.find (Key.files files) with
        | some db =>
          have := hc _ _ hf
          simp only [keyFresh] at this
          exact ⟨this.symm, hc⟩
        | none =>
          simp only
          cases hff : fromFilenames w files with
          | error e => exact ⟨rfl, hc⟩
          | ok db =>
            refine ⟨rfl, ?_⟩
            intro k db' hfind
            rw [find_store] at hfind
            by_cases hk : k ∈ keys ++ [Key.dir d q.env] ++ [Key.files files]
            · rw [if_pos hk] at hfind
              have hdb : db' = db := by simpa using hfind.symm
              subst hdb
              simp only [List.append_assoc, List.mem_append, List.mem_singleton] at hk
              rcases hk with hk | hk | hk
              · obtain ⟨d', rfl, hd'⟩ := hkeys k hk
                simp only [keyFresh, hd', ← hd, loadAt, hp, hff]
              · subst hk
                have : firstDirR w d.reverse = d := by
                  -- `d` is the directory the walk stopped on
                  rw [hd]
                  exact firstDirR_idem w d0.reverse
                simp only [keyFresh, this, loadAt, hp, hff]
              · subst hk
                simp only [keyFresh, hff]
            · rw [if_neg hk] at hfind
              exact hc _ _ hfind

end Pfb.C12
