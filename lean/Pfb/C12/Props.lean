/-
  Pfb.C12.Props — property theorems for C12 (import database: composition,
  forgetting and cache coherence).  Property theorems only; the specification-side
  definitions (`pathSpec`, `walk`, `Reaches`, `Forgets`, `freshLoad`, `CacheOK`) and the
  refinement lemmas live in Pfb.C12.Lemmas.

  Everything here is about the model `Pfb.C12.*` (Model.lean); the model is tied to
  `_importdb.py` / `_file.py` / `_importclns.py` by harness/c12.py (differential run on
  real directory trees, every lookup, every cache key).
-/
import Pfb.C12.Lemmas
namespace Pfb.C12
open Pfb

/-! ## C12_path — the file list is exactly the documented expansion -/

/-- `_get_python_path` (index/slice splice of `-`, accumulator loop of `_expand_tripledots`, the
    `for`/`break` loop of `_ancestors_on_same_partition`, `stable_unique`, the explicit stack of
    `expand_py_files_from_args`) computes the documented search path `pathSpec`: components of the
    variable or the default, first `-` replaced by the default, `EMPTY` alone for nothing, `.../x`
    for x in every existing ancestor up to the first change of device — outermost first, nearest
    last —, duplicates dropped, every path expanded by a depth-first walk in listing order.
    Errors included: both sides raise the same exception for the same component. -/
theorem C12_path (w : World) (v : Option Str) (dflt : List Str) (target : Path) :
    getPythonPath w v dflt target = pathSpec w v dflt target :=
  getPythonPath_eq w v dflt target

/-- The push loop as written (`for f in reversed(pathname.list()): … stack.append`) puts the accepted
    entries on the stack in listing order; the model's `expandLoop` may therefore use `++`. -/
theorem C12_push_order (p : Path) (ch : List (Str × Node)) (st : List (Path × Node)) :
    pushChildrenCode p ch st = visibleChildren p ch ++ st :=
  pushChildrenCode_eq p ch st

/-- Which files one search-path entry contributes: exactly those reached from it through a chain
    of accepted directory entries. -/
theorem C12_path_files (w : World) (p f : Path) :
    f ∈ entryFiles w p ↔ ∃ n names, w.get p = some n ∧ f = p ++ names ∧ Reaches n names := by
  unfold entryFiles
  cases h : w.get p with
  | none => simp
  | some n =>
    rw [mem_walk p n f]
    constructor
    · rintro ⟨names, hf, hr⟩; exact ⟨n, names, rfl, hf, hr⟩
    · rintro ⟨n', names, hn, hf, hr⟩
      have : n = n' := by simpa using hn
      subst this
      exact ⟨names, hf, hr⟩

/-- Which entries are read.  A directory entry is descended into whatever its name looks like — dots,
    several "extensions", a name ending in `.py`, digits — as long as the name is safe, not hidden and not
    `__pycache__`; a regular-file entry is read iff, in addition, its name ends in `.py`.  (No extension test
    is applied to directories.) -/
theorem C12_path_visible (name : Str) (n : Node) :
    visible name n = true ↔
      (safeComp name = true ∧ hidden name = false ∧ name ≠ pycache) ∧
      (match n with
       | .dir _ _ => True
       | .file _ => endsWith name dotPy = true) := by
  cases n <;> simp [visible, and_assoc]

/-- Every regular file `*.py` reachable by descending directories with acceptable names is in the file
    list: one more directory level — of ANY acceptable name — in front of a reachable file keeps it
    reachable, and the file list of the parent entry contains it. -/
theorem C12_path_descends_any_dir (w : World) (p : Path) (dev : Nat) (ch : List (Str × Node))
    (name : Str) (d' : Nat) (ch' : List (Str × Node)) (rest : List Str)
    (hp : w.get p = some (.dir dev ch)) (hm : (name, Node.dir d' ch') ∈ ch)
    (hs : safeComp name = true) (hh : hidden name = false) (hc : name ≠ pycache)
    (hr : Reaches (.dir d' ch') rest) :
    p ++ name :: rest ∈ entryFiles w p := by
  rw [C12_path_files]
  refine ⟨_, name :: rest, hp, rfl, Reaches.dir dev ch name _ rest hm ?_ hr⟩
  exact (C12_path_visible name _).2 ⟨⟨hs, hh, hc⟩, trivial⟩

/-- Explicit arguments are kept: an entry that is a regular file is taken whatever its name
    (hidden, not `*.py`, …). -/
theorem C12_path_explicit_kept (w : World) (p : Path) (c : FileC) (h : w.get p = some (.file c)) :
    entryFiles w p = [p] := by
  simp [entryFiles, h, walk]

/-- Below a directory entry: every name on the way is safe, not hidden and not `__pycache__`, and
    the file itself is a `*.py`. -/
theorem C12_path_skips (n : Node) (names : List Str) (h : Reaches n names) :
    (∀ name ∈ names, safeComp name = true ∧ hidden name = false ∧ name ≠ pycache) ∧
    (∀ last, names.getLast? = some last → endsWith last dotPy = true) := by
  induction h with
  | file c => simp
  | dir dev ch name n rest hm hv hr ih =>
    have hv' := hv
    unfold visible at hv'
    simp only [Bool.and_eq_true, Bool.not_eq_true', bne_iff_ne, ne_eq] at hv'
    obtain ⟨⟨⟨h1, h2⟩, h3⟩, h4⟩ := hv'
    constructor
    · intro nm hnm
      rcases List.mem_cons.1 hnm with rfl | hnm
      · exact ⟨h1, h2, h3⟩
      · exact ih.1 nm hnm
    · intro last hl
      cases hr with
      | file c =>
        simp at hl; subst hl
        simpa using h4
      | dir dev' ch' name' n' rest' hm' hv'' hr' =>
        apply ih.2
        simpa [List.getLast?_cons_cons] using hl

/-! ## C12_union — the database is the union of the files minus everything forgotten -/

/-- For files that parse (`FileOK`): whatever the order of the statements inside the files and of
    the files, the database holds exactly the known (resp. mandatory) imports of some file that no
    `__forget_imports__` of any file names, all the forget entries, and the canonical map (later
    entries win, see `C12_canonical_last_wins`) minus the entries whose key or value is forgotten. -/
theorem C12_union (files : List FileC) (hok : ∀ f ∈ files, FileOK f) :
    ∃ db, fromCode files = .ok db ∧
      db.forget = files.flatMap forgetOf ∧
      (∀ imp, imp ∈ db.known ↔ imp ∈ files.flatMap knownOf ∧ ¬ Forgets (files.flatMap forgetOf) imp) ∧
      (∀ imp, imp ∈ db.mandatory ↔ imp ∈ files.flatMap mandOf ∧ ¬ Forgets (files.flatMap forgetOf) imp) ∧
      (∀ kv, kv ∈ db.canonical ↔ kv ∈ mergeMaps (files.flatMap canonOf) ∧
          importOfName kv.1 ∉ files.flatMap forgetOf ∧ importOfName kv.2 ∉ files.flatMap forgetOf) := by
  have hcf := collectFiles_ok files {} hok
  unfold fromCode
  rw [hcf]
  refine ⟨_, rfl, ?_, ?_, ?_, ?_⟩
  · simp [fromData]
  · intro imp; simp [fromData, mem_withoutImports]
  · intro imp; simp [fromData, mem_withoutImports]
  · intro kv; simp [fromData, mapWithout, List.mem_filter]

/-- The canonical map is a map (distinct keys), and each key carries the value of the last
    `key: value` pair for it in reading order (files in search-path order, statements in file order,
    pairs in dict order). -/
theorem C12_canonical_last_wins (maps : List (List (Str × Str))) :
    ((mergeMaps maps).map (·.1)).Nodup ∧
    ∀ k, mapLook (mergeMaps maps) k = lastBinding maps.flatten k := by
  rw [mergeMaps_eq]
  refine ⟨foldl_mapSet_nodup _ _ (by simp), ?_⟩
  intro k
  rw [foldl_mapSet_look]
  cases lastBinding maps.flatten k <;> simp [mapLook]

/-- A file that does not parse, or holds a foreign assignment, makes the load fail (nothing is
    silently dropped). -/
theorem C12_union_error (files : List FileC) (h : ¬ ∀ f ∈ files, FileOK f) :
    ∃ e, fromCode files = .error e := by
  unfold fromCode
  obtain ⟨e, he⟩ := collectFiles_err files {} h
  exact ⟨e, by rw [he]⟩

/-! ## C12_forget_everywhere — no forgotten import is served by any collection or lookup -/

theorem getKnownImport_mem (idx : List (Str × List Import)) (name : Str) (l : List Import)
    (h : getKnownImport idx name = some l) : ∃ k, (k, l) ∈ idx := by
  unfold getKnownImport at h
  obtain ⟨p, _, hp⟩ := List.exists_of_findSome?_eq_some h
  cases hf : idx.find? (fun x => x.1 = p) with
  | none => simp [hf] at hp
  | some kv =>
    simp [hf] at hp
    subst hp
    exact ⟨kv.1, List.mem_of_find?_eq_some hf⟩

theorem mem_index (db : DB) (k : Str) (l : List Import) (h : (k, l) ∈ byFullnameOrImportAs db) :
    l = (((bfiInsertions db.known).filter (·.1 = k)).map (·.2)).filter (fun i => !(i ∈ db.forget)) := by
  unfold byFullnameOrImportAs at h
  simp only [List.mem_map] at h
  obtain ⟨k', _, hk⟩ := h
  have h1 : k' = k := (Prod.mk.inj hk).1
  subst h1
  exact ((Prod.mk.inj hk).2).symm

theorem C12_forget_everywhere (known mand : List Import) (canon : List (List (Str × Str))) (forget : List Import) :
    let db := fromData known mand canon forget
    db.forget = forget ∧
    (∀ imp, Forgets forget imp → imp ∉ db.known ∧ imp ∉ db.mandatory) ∧
    (∀ imp ∈ forget, ∀ kv ∈ db.canonical, importOfName kv.1 ≠ imp ∧ importOfName kv.2 ≠ imp) ∧
    (∀ imp ∈ forget, ∀ kv ∈ byFullnameOrImportAs db, imp ∉ kv.2) ∧
    (∀ name l, getKnownImport (byFullnameOrImportAs db) name = some l → ∀ imp ∈ forget, imp ∉ l) := by
  intro db
  have hidx : ∀ imp ∈ forget, ∀ kv ∈ byFullnameOrImportAs db, imp ∉ kv.2 := by
    intro imp himp kv hkv hmem
    have := mem_index db kv.1 kv.2 hkv
    rw [this, List.mem_filter] at hmem
    have h2 := hmem.2
    simp only [Bool.not_eq_true', decide_eq_false_iff_not] at h2
    exact h2 himp
  refine ⟨rfl, ?_, ?_, hidx, ?_⟩
  · intro imp hf
    constructor
    · intro h; exact ((mem_withoutImports _ _ _).1 h).2 hf
    · intro h; exact ((mem_withoutImports _ _ _).1 h).2 hf
  · intro imp himp kv hkv
    have : kv ∈ mapWithout (mergeMaps canon) forget := hkv
    unfold mapWithout at this
    rw [List.mem_filter] at this
    have h2 := this.2
    simp only [Bool.and_eq_true, Bool.not_eq_true', decide_eq_false_iff_not] at h2
    exact ⟨fun h => h2.1 (h ▸ himp), fun h => h2.2 (h ▸ himp)⟩
  · intro name l hl imp himp
    obtain ⟨k, hk⟩ := getKnownImport_mem _ _ _ hl
    exact hidx imp himp (k, l) hk

/-- No forgotten import is the derived parent-package entry of a surviving known import.
    (Decidable; `noForgottenParentB` is its executable form.) -/
def NoForgottenParent (db : DB) : Prop :=
  ∀ imp ∈ db.known, ∀ p ∈ (dottedPrefixes imp.fullname).dropLast, (⟨p, p⟩ : Import) ∉ db.forget

def noForgottenParentB (db : DB) : Bool :=
  db.known.all fun imp => (dottedPrefixes imp.fullname).dropLast.all fun p => !((⟨p, p⟩ : Import) ∈ db.forget)

theorem noForgottenParentB_iff (db : DB) : noForgottenParentB db = true ↔ NoForgottenParent db := by
  simp [noForgottenParentB, NoForgottenParent]

theorem mem_dedupKeys (seen l : List Str) (k : Str) : k ∈ dedupKeys seen l → k ∈ l := by
  induction l generalizing seen with
  | nil => simp [dedupKeys]
  | cons x xs ih =>
    unfold dedupKeys
    split
    · intro h; exact List.mem_cons_of_mem _ (ih _ h)
    · intro h
      rcases List.mem_cons.1 h with rfl | h
      · simp
      · exact List.mem_cons_of_mem _ (ih _ h)

/-
  TARGET (full strength, false on the unchanged code — D15):

    theorem C12_lookup_nonempty (known mand canon forget) :
        ∀ name l, getKnownImport (byFullnameOrImportAs (fromData known mand canon forget)) name = some l → l ≠ []

  i.e. a lookup either finds nothing or finds at least one import; `auto_import_symbol` relies on
  it (`assert len(imports) >= 1`).  Forgetting a *derived* parent entry leaves the key behind with
  an empty tuple (`Witness.D15_lookup_empty`).  Proved below: the statement under
  `NoForgottenParent`, and the unconditional statement for the repaired index
  (`byFullnameOrImportAsFixed`, fixes/C12-D15.diff).
-/

/-- Under `NoForgottenParent`, every key of the index as coded has at least one import. -/
theorem C12_lookup_nonempty_partial (known mand : List Import) (canon : List (List (Str × Str)))
    (forget : List Import) (hnp : NoForgottenParent (fromData known mand canon forget)) :
    (∀ kv ∈ byFullnameOrImportAs (fromData known mand canon forget), kv.2 ≠ []) ∧
    (∀ name l, getKnownImport (byFullnameOrImportAs (fromData known mand canon forget)) name = some l → l ≠ []) := by
  have hent : ∀ kv ∈ byFullnameOrImportAs (fromData known mand canon forget), kv.2 ≠ [] := by
    intro kv hkv
    have hl := mem_index _ kv.1 kv.2 hkv
    -- the key comes from some insertion
    have hkey : kv.1 ∈ (bfiInsertions (fromData known mand canon forget).known).map (·.1) := by
      unfold byFullnameOrImportAs at hkv
      simp only [List.mem_map] at hkv
      obtain ⟨k', hk', hk⟩ := hkv
      have h1 : k' = kv.1 := by rw [← hk]
      rw [← h1]
      have := mem_dedupKeys [] _ k' hk'
      simpa using this
    obtain ⟨ins, hins, hk⟩ := List.mem_map.1 hkey
    -- the inserted import is not forgotten
    have hnf : ins.2 ∉ (fromData known mand canon forget).forget := by
      unfold bfiInsertions at hins
      rw [List.mem_flatMap] at hins
      obtain ⟨imp, himp, hin⟩ := hins
      rcases List.mem_cons.1 hin with rfl | hin
      · -- a known import: `known` already lost everything forgotten
        intro hf
        have : imp ∈ withoutImports known forget := himp
        exact ((mem_withoutImports _ _ _).1 this).2 (Or.inl hf)
      · obtain ⟨p, hp, rfl⟩ := List.mem_map.1 hin
        exact hnp imp himp p hp
    intro hnil
    rw [hl] at hnil
    have : ins.2 ∈ (((bfiInsertions (fromData known mand canon forget).known).filter (·.1 = kv.1)).map (·.2)).filter
        (fun i => !(i ∈ (fromData known mand canon forget).forget)) := by
      rw [List.mem_filter]
      refine ⟨List.mem_map.2 ⟨ins, List.mem_filter.2 ⟨hins, by simpa using hk⟩, rfl⟩, by simpa using hnf⟩
    rw [hnil] at this
    simp at this
  refine ⟨hent, ?_⟩
  intro name l hl
  obtain ⟨k, hk⟩ := getKnownImport_mem _ _ _ hl
  exact hent (k, l) hk

/-- With the proposed repair (empty entries dropped) the lookup clause holds for every database,
    and nothing else changes: the repaired index is the coded one minus its empty entries. -/
theorem C12_lookup_nonempty_fixed (db : DB) :
    (∀ name l, getKnownImport (byFullnameOrImportAsFixed db) name = some l → l ≠ []) ∧
    (∀ kv, kv ∈ byFullnameOrImportAsFixed db ↔ kv ∈ byFullnameOrImportAs db ∧ kv.2 ≠ []) := by
  constructor
  · intro name l hl
    obtain ⟨k, hk⟩ := getKnownImport_mem _ _ _ hl
    unfold byFullnameOrImportAsFixed at hk
    rw [List.mem_filter] at hk
    simpa using hk.2
  · intro kv
    unfold byFullnameOrImportAsFixed
    rw [List.mem_filter]
    simp

/-! ## C12_cache_coherent — an answer from the cache is the answer of a fresh load -/

/-- A lookup with an empty cache is the cache-free definition `freshLoad`. -/
theorem C12_fresh_is_uncached (w : World) (q : Query) : (getDefault w [] q).1 = freshLoad w q :=
  (getDefault_spec w [] q (cacheOK_nil w)).1

/-- For EVERY history of lookups (any length, any interleaving of targets and of values of the three
    environment variables) over a fixed world, started in a fresh process, each answer — database
    or exception — is the answer a fresh process gives to that lookup alone.
    Invariant (`CacheOK`): every cache entry equals the fresh load of its key; induction over the
    history. -/
theorem C12_cache_coherent (w : World) (h : List Query) :
    runHistory w [] h = h.map (fun q => (getDefault w [] q).1) := by
  have key : ∀ (h : List Query) (c : Cache), CacheOK w c → runHistory w c h = h.map (freshLoad w) := by
    intro h
    induction h with
    | nil => intro c _; simp [runHistory]
    | cons q qs ih =>
      intro c hc
      obtain ⟨h1, h2⟩ := getDefault_spec w c q hc
      simp only [runHistory, List.map_cons, h1, ih _ h2]
  rw [key h [] (cacheOK_nil w)]
  simp [C12_fresh_is_uncached]

/-- The invariant itself, for use by other properties: after any history every cache entry equals
    the fresh load of its key. -/
theorem C12_cache_invariant (w : World) (h : List Query) : CacheOK w (cacheAfter w [] h) := by
  have key : ∀ (h : List Query) (c : Cache), CacheOK w c → CacheOK w (cacheAfter w c h) := by
    intro h
    induction h with
    | nil => intro c hc; simpa [cacheAfter] using hc
    | cons q qs ih => intro c hc; exact ih _ (getDefault_spec w c q hc).2
  exact key h [] (cacheOK_nil w)

/-! ## End to end: the database in effect for a target -/

theorem readFiles_ok_of (w : World) (files : List Path) (cs : List FileC) (h : readFiles w files = .ok cs) :
    cs.length = files.length ∧ ∀ i (hi : i < cs.length) (hj : i < files.length),
      w.get files[i] = some (.file cs[i]) := by
  induction files generalizing cs with
  | nil => simp [readFiles] at h; subst h; simp
  | cons p ps ih =>
    unfold readFiles at h
    cases hg : w.get p with
    | none => simp [hg] at h
    | some n =>
      cases n with
      | dir d c => simp [hg] at h
      | file c =>
        simp only [hg] at h
        cases hr : readFiles w ps with
        | error e => simp [hr] at h
        | ok cs' =>
          simp only [hr, Except.ok.injEq] at h
          subst h
          obtain ⟨hl, hget⟩ := ih cs' hr
          refine ⟨by simp [hl], ?_⟩
          intro i hi hj
          cases i with
          | zero => simpa using hg
          | succ i => simpa using hget i (by simpa using hi) (by simpa using hj)

/-- The database in effect for a target (first lookup of a process, hence by `C12_cache_coherent`
    every lookup): the start directory is the nearest existing directory at or above the (safe part
    of the) target, the files are the documented expansion of the search path from there, and the
    database is their union minus forget. -/
theorem C12_default_db (w : World) (q : Query) (db : DB) (h : (getDefault w [] q).1 = .ok db) :
    ∃ d0 files cs,
      targetDirname w q.target = .ok d0 ∧
      pathSpec w q.env.pp (defaultPath w) (firstDirR w d0.reverse) = .ok files ∧
      readFiles w files = .ok cs ∧ (∀ f ∈ cs, FileOK f) ∧
      db.forget = cs.flatMap forgetOf ∧
      (∀ imp, imp ∈ db.known ↔ imp ∈ cs.flatMap knownOf ∧ ¬ Forgets (cs.flatMap forgetOf) imp) ∧
      (∀ imp, imp ∈ db.mandatory ↔ imp ∈ cs.flatMap mandOf ∧ ¬ Forgets (cs.flatMap forgetOf) imp) := by
  rw [C12_fresh_is_uncached] at h
  unfold freshLoad at h
  cases ht : targetDirname w q.target with
  | error e => simp [ht] at h
  | ok d0 =>
    simp only [ht] at h
    unfold loadAt at h
    rw [C12_path] at h
    cases hp : pathSpec w q.env.pp (defaultPath w) (firstDirR w d0.reverse) with
    | error e => simp [hp] at h
    | ok files =>
      simp only [hp] at h
      unfold fromFilenames at h
      cases hr : readFiles w files with
      | error e => simp [hr] at h
      | ok cs =>
        simp only [hr] at h
        by_cases hok : ∀ f ∈ cs, FileOK f
        · obtain ⟨db', hdb, hf, hk, hm, _⟩ := C12_union cs hok
          rw [hdb] at h
          have : db' = db := by simpa using h
          subst this
          exact ⟨d0, files, cs, rfl, hp, hr, hok, hf, hk, hm⟩
        · obtain ⟨e, he⟩ := C12_union_error cs hok
          rw [he] at h
          simp at h

/-! ## The two repairs proposed in round 5 (fixes/C12-4.diff, fixes/C12-2.diff)

Target (the property's sentence, FALSE for the map as coded — `C12_4_coded_keeps_dotted`, `C12_4_coded_keeps_star`):
`∀ kv ∈ (fromData known mand canon forget).canonical, NameForgotten forget kv.1 = False ∧ NameForgotten forget kv.2 = False`. -/

/-- A canonical key/value `k` (a dotted name) is named by the forget list: as `from a import b`, as `import a.b`,
    or through a star entry (`Forgets`: exact or star). -/
def NameForgotten (r : List Import) (k : Str) : Prop :=
  Forgets r (importOfName k) ∨ (⟨k, k⟩ : Import) ∈ r

theorem nameRemoved_iff (r : List Import) (k : Str) : nameRemoved r k = true ↔ NameForgotten r k := by
  unfold nameRemoved NameForgotten Forgets StarForgets
  simp only [Bool.or_eq_true, decide_eq_true_eq]
  have hstar : (match (importOfName k).split.1 with
      | some m => (dottedPrefixes m).any fun pfx => decide ((some pfx) ∈
          (r.filterMap fun x => if x.split.2 = star then some x.split.1 else none))
      | none => false) = true ↔
      ∃ x ∈ r, x.split.2 = star ∧ ∃ m, (importOfName k).split.1 = some m ∧ ∃ pfx ∈ dottedPrefixes m, x.split.1 = some pfx := by
    cases hm : (importOfName k).split.1 with
    | none => simp
    | some m =>
      simp only [List.any_eq_true, decide_eq_true_eq, mem_starMods]
      constructor
      · rintro ⟨pfx, hp, x, hx, hs, he⟩
        exact ⟨x, hx, hs, m, rfl, pfx, hp, he⟩
      · rintro ⟨x, hx, hs, m', hm', pfx, hp, he⟩
        have : m' = m := (Option.some.inj hm').symm
        subst this
        exact ⟨pfx, hp, x, hx, hs, he⟩
  constructor
  · rintro ((h | h) | h)
    · exact .inl (.inl h)
    · exact .inr h
    · exact .inl (.inr (hstar.1 h))
  · rintro ((h | h) | h)
    · exact .inl (.inl h)
    · exact .inr (hstar.2 h)
    · exact .inl (.inr h)

/-- With fixes/C12-4.diff no canonical entry survives whose key or value the forget list names — dotted names
    (`import a.b`) and star entries included.  This is the sentence "which also removes matching … canonical entries"
    at the strength `C12_forget_everywhere` has for known and mandatory imports. -/
theorem C12_forget_canonical_fixed (known mand : List Import) (canon : List (List (Str × Str))) (forget : List Import) :
    let db := fromDataFixed known mand canon forget
    (∀ kv ∈ db.canonical, ¬ NameForgotten forget kv.1 ∧ ¬ NameForgotten forget kv.2) ∧
    (∀ kv ∈ mergeMaps canon, ¬ NameForgotten forget kv.1 → ¬ NameForgotten forget kv.2 → kv ∈ db.canonical) ∧
    db.known = (fromData known mand canon forget).known ∧ db.mandatory = (fromData known mand canon forget).mandatory ∧
    db.forget = forget := by
  intro db
  refine ⟨?_, ?_, rfl, rfl, rfl⟩
  · intro kv hkv
    have : kv ∈ mapWithoutFixed (mergeMaps canon) forget := hkv
    unfold mapWithoutFixed at this
    rw [List.mem_filter] at this
    have h2 := this.2
    simp only [Bool.and_eq_true, Bool.not_eq_true'] at h2
    constructor
    · intro h; have := (nameRemoved_iff forget kv.1).2 h; rw [h2.1] at this; exact Bool.noConfusion this
    · intro h; have := (nameRemoved_iff forget kv.2).2 h; rw [h2.2] at this; exact Bool.noConfusion this
  · intro kv hkv h1 h2
    show kv ∈ mapWithoutFixed (mergeMaps canon) forget
    unfold mapWithoutFixed
    rw [List.mem_filter]
    refine ⟨hkv, ?_⟩
    have e1 : nameRemoved forget kv.1 = false := by
      cases h : nameRemoved forget kv.1 with
      | false => rfl
      | true => exact absurd ((nameRemoved_iff _ _).1 h) h1
    have e2 : nameRemoved forget kv.2 = false := by
      cases h : nameRemoved forget kv.2 with
      | false => rfl
      | true => exact absurd ((nameRemoved_iff _ _).1 h) h2
    simp [e1, e2]

/-- The repaired map removes at least what the coded one removes, so it can be computed from the database as coded
    (what the driver does for `canonical_fixed`). -/
theorem fromDataFixed_eq_fixCanon (known mand : List Import) (canon : List (List (Str × Str))) (forget : List Import) :
    fromDataFixed known mand canon forget = (fromData known mand canon forget).fixCanon := by
  unfold fromDataFixed DB.fixCanon fromData
  simp only [DB.mk.injEq, true_and]
  unfold mapWithoutFixed mapWithout
  rw [List.filter_filter]
  apply List.filter_congr
  intro kv _
  have key : ∀ k, decide (importOfName k ∈ forget) = true → nameRemoved forget k = true := by
    intro k h
    unfold nameRemoved
    simp only [h, Bool.true_or]
  cases h1 : decide (importOfName kv.1 ∈ forget) <;> cases h2 : decide (importOfName kv.2 ∈ forget) <;>
    simp [h1, h2, key]

/-- With fixes/C12-2.diff a target that is not the name of one of the process's streams starts the search at its own
    directory: the nearest safe ancestor (the target itself if it is a directory), whatever the current directory and
    wherever the tree is mounted (`/devel/…`, `/dev/shm/…`). -/
theorem C12_target_dir_fixed (w : World) (t : Str) (hfix : w.devStreamsOnly = true)
    (hnd : isDevStream (rawTarget w t) = false) :
    targetDirname w t =
      match ((if w.isDir (absPath w.cwd t) then [absPath w.cwd t] else []) ++ (ancestors (absPath w.cwd t)).drop 1).find? safePath with
      | none => .error .valueError
      | some sp => .ok sp := by
  unfold targetDirname isDevTarget
  simp only [hfix, hnd, if_true, Bool.false_eq_true, false_and, if_false]
  split <;> (rename_i h; rw [h])

/-- … and the answer does not depend on where the tree is mounted. -/
theorem C12_target_dir_mount_blind (w : World) (t m : Str) (hfix : w.devStreamsOnly = true)
    (h1 : isDevStream (rawTarget w t) = false) (h2 : isDevStream (rawTarget { w with mount := m } t) = false) :
    targetDirname { w with mount := m } t = targetDirname w t := by
  rw [C12_target_dir_fixed w t hfix h1, C12_target_dir_fixed { w with mount := m } t hfix h2]
  rfl

/-! ## Witnesses and satisfiability of the hypotheses -/

section Witness

def s (x : String) : Str := x.toList

/-- D15: `import xml.dom.minidom` known, `__forget_imports__ = ['import xml.dom']`. -/
def d15DB : DB := fromData [⟨s "xml.dom.minidom", s "xml.dom.minidom"⟩] [] [] [⟨s "xml.dom", s "xml.dom"⟩]

/-- The forgotten derived parent leaves its key behind with an empty tuple … -/
theorem D15_entry_empty : (s "xml.dom", ([] : List Import)) ∈ byFullnameOrImportAs d15DB := by decide

/-- … so the lookup of any name below it returns `()` instead of nothing: the negation of the target
    `C12_lookup_nonempty` on a concrete input (replayed on the real code by the check). -/
theorem D15_lookup_empty :
    getKnownImport (byFullnameOrImportAs d15DB) (s "xml.dom.other") = some [] := by decide

theorem D15_violates_hypothesis : noForgottenParentB d15DB = false := by decide

/-- With the repair the same lookup falls through to the surviving parent `import xml`. -/
theorem D15_fixed_lookup :
    getKnownImport (byFullnameOrImportAsFixed d15DB) (s "xml.dom.other") = some [⟨s "xml", s "xml"⟩] := by decide

/-- `NoForgottenParent` is satisfiable by a database that does forget things (exact and star). -/
def okDB : DB :=
  fromData [⟨s "p.m.f", s "f"⟩, ⟨s "p.m.g", s "g"⟩, ⟨s "q.r", s "q.r"⟩, ⟨s "os", s "os"⟩] [⟨s "q.r", s "r"⟩] [[(s "a.b", s "q.r")]]
    [⟨s "os", s "os"⟩, ⟨s "q.*", s "*"⟩, ⟨s "p.m.g", s "g"⟩]

example : noForgottenParentB okDB = true := by decide
example : okDB.known = [⟨s "p.m.f", s "f"⟩, ⟨s "q.r", s "q.r"⟩] := by decide
example : okDB.mandatory = [] := by decide      -- `from q import r` falls to the star entry `from q import *`
example : okDB.canonical = [(s "a.b", s "q.r")] := by decide   -- the map matches exactly only

/-- C12-4 (a): `__canonical_imports__ = {'a.b': 'z.b', 'y.b': 'a.b'}`, `__forget_imports__ = ['import a.b']`:
    the map as coded keeps both entries (negation of the target on a concrete input), the repaired one drops them. -/
theorem C12_4_coded_keeps_dotted :
    (fromData [] [] [[(s "a.b", s "z.b"), (s "y.b", s "a.b")]] [⟨s "a.b", s "a.b"⟩]).canonical
      = [(s "a.b", s "z.b"), (s "y.b", s "a.b")] := by decide

theorem C12_4_fixed_drops_dotted :
    (fromDataFixed [] [] [[(s "a.b", s "z.b"), (s "y.b", s "a.b")]] [⟨s "a.b", s "a.b"⟩]).canonical = [] := by decide

/-- C12-4 (b): `{'m.a': 'n.a', 'q.r': 'm.x.s', 'q.t': 'mm.s'}` with `__forget_imports__ = ['from m import *']`. -/
theorem C12_4_coded_keeps_star :
    (fromData [] [] [[(s "m.a", s "n.a"), (s "q.r", s "m.x.s"), (s "q.t", s "mm.s")]] [⟨s "m.*", s "*"⟩]).canonical
      = [(s "m.a", s "n.a"), (s "q.r", s "m.x.s"), (s "q.t", s "mm.s")] := by decide

theorem C12_4_fixed_drops_star :
    (fromDataFixed [] [] [[(s "m.a", s "n.a"), (s "q.r", s "m.x.s"), (s "q.t", s "mm.s")]] [⟨s "m.*", s "*"⟩]).canonical
      = [(s "q.t", s "mm.s")] := by decide

/-- C12-2: a tree mounted at `/devel` (or `/dev/shm/x`), current directory `/c`, target `/proj/x.py`: as coded the
    search starts at the current directory, with the repair at `/proj`; `/dev/stdin` means the current directory in both. -/
def devW (fixed : Bool) : World :=
  { rootDev := 0, rootCh := [(s "c", .dir 0 []), (s "proj", .dir 0 [])], home := s "/c", cwd := [s "c"], etc := [],
    mount := s "/devel", devStreamsOnly := fixed }

theorem C12_2_coded_uses_cwd : (targetDirname (devW false) (s "/proj/x.py")).toOption = some [s "c"] := by decide
theorem C12_2_fixed_uses_target : (targetDirname (devW true) (s "/proj/x.py")).toOption = some [s "proj"] := by decide
theorem C12_2_stream_is_cwd : (targetDirname (devW true) (s "/dev/stdin")).toOption = some [s "c"] ∧
    (targetDirname (devW true) (s "/dev/fd/63")).toOption = some [s "c"] ∧
    (targetDirname (devW false) (s "/dev/stdin")).toOption = some [s "c"] := by decide
example : isDevStream (rawTarget (devW true) (s "/proj/x.py")) = false := by decide   -- hypothesis of C12_target_dir_fixed

/-- `FileOK` files in which the forget directive stands before, between and after the imports. -/
def exFiles : List FileC :=
  [⟨false, [.forget [⟨s "os", s "os"⟩], .known [⟨s "os", s "os"⟩, ⟨s "p.m", s "m"⟩]]⟩,
   ⟨false, [.known [⟨s "q", s "q"⟩], .canonical [(s "a", s "b")], .forget [⟨s "q", s "q"⟩], .mandatory [⟨s "os", s "os"⟩]]⟩]

example : ∀ f ∈ exFiles, FileOK f := by
  intro f hf
  simp only [exFiles, List.mem_cons, List.mem_nil_iff, or_false] at hf
  rcases hf with rfl | rfl <;> exact ⟨rfl, by decide⟩

example : (fromCode exFiles).toOption.map (·.known) = some [⟨s "p.m", s "m"⟩] := by decide
example : (fromCode exFiles).toOption.map (·.mandatory) = some [] := by decide

/-- A `.pyflyby` directory laid out like a real one: `conf.d/local/forget.py`, `py3.12/versioned.py`,
    `pkg.py/in.py` (a directory named like a module), next to things that must not be read. -/
def exDir : Node :=
  .dir 0 [(s ".hidden.py", .file ⟨false, []⟩),
          (s "base.py", .file ⟨false, []⟩),
          (s "conf.d", .dir 0 [(s ".hid.py", .file ⟨false, []⟩),
                               (s "local", .dir 0 [(s "forget.py", .file ⟨false, []⟩)]),
                               (s "notes.txt", .file ⟨false, []⟩),
                               (s "site.py", .file ⟨false, []⟩)]),
          (s "pkg.py", .dir 0 [(s "in.py", .file ⟨false, []⟩), (s "noext", .file ⟨false, []⟩)]),
          (s "py3.12", .dir 0 [(s "__pycache__", .dir 0 [(s "c.py", .file ⟨false, []⟩)]),
                               (s "versioned.py", .file ⟨false, []⟩),
                               (s "x.py.bak", .file ⟨false, []⟩)])]

example : (walk [s "db"] exDir).map (fun p => String.ofList (pathStr p)) =
    ["/db/base.py", "/db/conf.d/local/forget.py", "/db/conf.d/site.py", "/db/pkg.py/in.py",
     "/db/py3.12/versioned.py"] := by
  decide +kernel

end Witness

end Pfb.C12
