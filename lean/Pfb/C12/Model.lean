/-
  Pfb.C12.Model — the import database: search-path expansion, composition of
  the database files, forgetting, the lookup index and the per-process cache.

  Code modelled (lib/python/pyflyby):
    _importdb.py   _get_env_var (50-67), _get_python_path (70-109),
                   _ancestors_on_same_partition (123-149), _expand_tripledots (152-187),
                   ImportDB.get_default (248-419), _from_data (428-437),
                   _from_code (455-535), by_fullname_or_import_as (625-656)
    _file.py       Filename._from_filename (safety rule), Filename.list,
                   Filename.ancestors, expand_py_files_from_args (695-755)
    _importclns.py ImportSet.without_imports (201-236), ImportMap._merge,
                   ImportMap.without_imports (610-623)
    _importstmt.py Import.split (184-228);  _idents.py dotted_prefixes

  Not modelled (inputs of the model): parsing of a database file into imports
  (`PythonBlock`, `ImportStatement`) — a file is the list of its statements
  already parsed, in file order; `os.stat().st_dev` (a `dev` number per
  directory); `$HOME`, the current directory and `_find_etc_dirs()` (fields of
  `World`).  `SUPPORT_DEPRECATED_BEHAVIOR = False`: the two old environment
  variables only take part in the cache key.

  A directory's `ch` list is the listing as `Filename.list()` sees it before
  its own filtering, i.e. in `sorted(os.listdir())` order (the driver checks
  the order it is given with `strLt`).  No symbolic links: `Path.resolve()` and
  `Filename.real` are normalisation.
-/
import Pfb.Basic
namespace Pfb.C12
open Pfb

/-! ## Strings and paths -/

/-- `s.split(sep)` for a one-character separator — always non-empty. -/
def splitOn (sep : Char) : Str → List Str
  | [] => [[]]
  | c :: cs =>
    if c = sep then [] :: splitOn sep cs
    else match splitOn sep cs with
      | [] => [[c]]
      | l :: ls => (c :: l) :: ls

/-- `sep.join(parts)` -/
def joinWith (sep : Char) : List Str → Str
  | [] => []
  | [l] => l
  | l :: l' :: ls => l ++ sep :: joinWith sep (l' :: ls)

/-- An absolute normalised path: the components below `/`. -/
abbrev Path := List Str

/-- `os.path.normpath` of an absolute path, folded over the components still
    to be consumed: `""` and `"."` vanish, `".."` pops (and stays at `/`). -/
def normComps : Path → List Str → Path
  | acc, [] => acc
  | acc, c :: cs =>
    if c = [] ∨ c = ['.'] then normComps acc cs
    else if c = ['.', '.'] then normComps acc.dropLast cs
    else normComps (acc ++ [c]) cs

/-- `os.path.abspath(s)` with current directory `cwd`.  (POSIX keeps a leading
    `//`; such strings are outside the model's domain.) -/
def absPath (cwd : Path) (s : Str) : Path :=
  if s.head? = some '/' then normComps [] (splitOn '/' s) else normComps cwd (splitOn '/' s)

/-- `os.path.join(str(a), x)` followed by `abspath`. -/
def joinPath (a : Path) (x : Str) : Path :=
  if x.head? = some '/' then normComps [] (splitOn '/' x) else normComps a (splitOn '/' x)

/-- `str(Filename)` -/
def pathStr (p : Path) : Str := '/' :: joinWith '/' p

/-- `[a-zA-Z0-9_=+{}/.,~@-]` -/
def safeChar (c : Char) : Bool :=
  c.isAlphanum || c = '_' || c = '=' || c = '+' || c = '{' || c = '}' || c = '/' || c = '.' || c = ','
  || c = '~' || c = '@' || c = '-'

/-- One component passes `Filename._from_filename`: allowed characters only and no leading `~`. -/
def safeComp (s : Str) : Bool := s.all safeChar && s.head? != some '~'

def safePath (p : Path) : Bool := p.all safeComp

/-! ## The file tree -/

structure Import where
  fullname : Str
  importAs : Str
deriving DecidableEq, Repr

/-- One top-level statement of a database file, parsed. -/
inductive Stmt where
  | known (imps : List Import)
  | mandatory (imps : List Import)
  | canonical (pairs : List (Str × Str))
  | forget (imps : List Import)
  | bad                                   -- any other assignment / a value of the wrong type: ValueError
deriving DecidableEq, Repr

structure FileC where
  syn : Bool                              -- the file does not parse: SyntaxError
  stmts : List Stmt
deriving DecidableEq, Repr

inductive Node where
  | file (c : FileC)
  | dir (dev : Nat) (ch : List (Str × Node))

/-- Child by name (names in one directory are distinct). -/
def lookupCh : List (Str × Node) → Str → Option Node
  | [], _ => none
  | (n, x) :: rest, c => if n = c then some x else lookupCh rest c

def Node.get : Node → Path → Option Node
  | n, [] => some n
  | .file _, _ :: _ => none
  | .dir _ ch, c :: cs =>
    match lookupCh ch c with
    | none => none
    | some x => x.get cs

/-- Everything a lookup depends on besides the target and the environment. -/
structure World where
  rootDev : Nat
  rootCh : List (Str × Node)
  home : Str                              -- $HOME, absolute, no trailing slash
  cwd : Path                              -- os.getcwd()
  etc : List Str                          -- [str(p) for p in _find_etc_dirs()]
  /-- Where the world's "/" really is (the harness's scratch root, e.g. `/tmp/x/r` or `/dev/shm/x/r`; `[]` = the real
      root).  Only `get_default`'s `/dev` test sees it: that test is on the raw argument string. -/
  mount : Str := []
  /-- Which `/dev` test the tree under test has: `false` = `target_filename.startswith("/dev")` (as pinned, finding
      C12-2), `true` = only the names of the process's streams (fixes/C12-2.diff). -/
  devStreamsOnly : Bool := false

def World.root (w : World) : Node := .dir w.rootDev w.rootCh
def World.get (w : World) (p : Path) : Option Node := w.root.get p

def World.isDir (w : World) (p : Path) : Bool :=
  match w.get p with
  | some (.dir _ _) => true
  | _ => false

def World.isFile (w : World) (p : Path) : Bool :=
  match w.get p with
  | some (.file _) => true
  | _ => false

/-- `_get_st_dev`: `None` for a path that does not exist.  (A file reports the
    device of its directory.) -/
def World.stDev (w : World) (p : Path) : Option Nat :=
  match w.get p with
  | some (.dir d _) => some d
  | some (.file _) =>
    (match w.get p.dropLast with
     | some (.dir d _) => some d
     | _ => none)
  | none => none

/-! ## Errors -/

inductive Err where
  | valueError            -- ValueError (bad search-path component, unknown assignment, no safe parent)
  | unsafeFilename        -- UnsafeFilenameError (a ValueError subclass)
  | syntaxError
  | ioError               -- unreachable: a listed file vanished
deriving DecidableEq, Repr

/-! ## `_get_env_var` -/

/-- `value[idx:idx+1] = default` for the first `'-'`. -/
def spliceDash (value dflt : List Str) : List Str :=
  match value.idxOf? ['-'] with
  | none => value
  | some i => value.take i ++ dflt ++ value.drop (i + 1)

def getEnvVar (v : Option Str) (dflt : List Str) : List Str :=
  let value := (splitOn ':' (v.getD [])).filter (· ≠ [])
  if value = [] then dflt else spliceDash value dflt

/-! ## `_ancestors_on_same_partition`, `_expand_tripledots` -/

/-- `Filename.ancestors`: self, parent, …, `/`. -/
def ancestors : Path → List Path
  | p => (List.range (p.length + 1)).map (fun i => p.take (p.length - i))

/-- The `for` loop of `_ancestors_on_same_partition`; `dev`, `res` are its variables. -/
def ancLoop (w : World) : List Path → Option Nat → List Path → List Path
  | [], _, res => res
  | f :: fs, dev, res =>
    match w.stDev f with
    | none => ancLoop w fs dev res
    | some d =>
      match dev with
      | none => ancLoop w fs (some d) (res ++ [f])
      | some d0 => if d0 ≠ d then res else ancLoop w fs dev (res ++ [f])

def ancestorsOnSamePartition (w : World) (p : Path) : List Path := ancLoop w (ancestors p) none []

/-- `Filename(pathname)` for a search-path string. -/
def mkFilename (cwd : Path) (s : Str) : Except Err Path :=
  let p := absPath cwd s
  if safePath p then .ok p else .error .unsafeFilename

def tripledots : Str := ['.', '.', '.', '/']

/-- `_expand_tripledots`; `res` is the accumulator `result`. -/
def expandTripledots (w : World) (target : Path) : List Str → List Path → Except Err (List Path)
  | [], res => .ok res
  | pn :: rest, res =>
    if !(startsWith pn tripledots) then
      match mkFilename w.cwd pn with
      | .error e => .error e
      | .ok f => expandTripledots w target rest (res ++ [f])
    else
      let suffix := pn.drop 4
      -- `expanded.append(p / suffix)` with UnsafeFilenameError skipped
      let expanded := (ancestorsOnSamePartition w target).filterMap fun a =>
        let f := joinPath a suffix
        if safePath f then some f else none
      expandTripledots w target rest (res ++ expanded.reverse)

/-- `stable_unique` -/
def stableUniqueGo : List Path → List Path → List Path
  | _, [] => []
  | seen, x :: xs => if x ∈ seen then stableUniqueGo seen xs else x :: stableUniqueGo (x :: seen) xs

def stableUnique (l : List Path) : List Path := stableUniqueGo [] l

/-! ## `expand_py_files_from_args` -/

def hidden (name : Str) : Bool := name.head? = some '.'
def pycache : Str := "__pycache__".toList
def dotPy : Str := ".py".toList

/-- The inclusion test of the recursive step for one directory entry. -/
def visible (name : Str) (n : Node) : Bool :=
  safeComp name && !hidden name && name != pycache &&
  (match n with
   | .file _ => endsWith name dotPy
   | .dir _ _ => true)

/-- Entries of directory `p` that the loop pushes, first-listed first. -/
def visibleChildren (p : Path) (ch : List (Str × Node)) : List (Path × Node) :=
  ch.filterMap fun (name, n) => if visible name n then some (p ++ [name], n) else none

/-- `for f in reversed(pathname.list()): … stack.append(…)` as written: the
    listing (unsafe names dropped by `Filename.list`) is walked backwards and
    each accepted entry is pushed; the stack's top is the list's head. -/
def pushChildrenCode (p : Path) (ch : List (Str × Node)) (stack : List (Path × Node)) : List (Path × Node) :=
  ((ch.filter fun (name, _) => safeComp name).reverse).foldl
    (fun st (name, n) =>
      if hidden name then st
      else if name = pycache then st
      else match n with
        | .file _ => if endsWith name dotPy then (p ++ [name], n) :: st else st
        | .dir _ _ => (p ++ [name], n) :: st)
    stack

mutual
  def Node.size : Node → Nat
    | .file _ => 1
    | .dir _ ch => 1 + sizeCh ch
  def sizeCh : List (Str × Node) → Nat
    | [] => 0
    | (_, n) :: rest => n.size + sizeCh rest
end

def stackSize : List (Path × Node) → Nat
  | [] => 0
  | (_, n) :: rest => n.size + stackSize rest

theorem stackSize_append (a b : List (Path × Node)) : stackSize (a ++ b) = stackSize a + stackSize b := by
  induction a with
  | nil => simp [stackSize]
  | cons x xs ih => obtain ⟨p, n⟩ := x; simp [stackSize, ih]; omega

theorem visibleChildren_cons (p : Path) (name : Str) (n : Node) (xs : List (Str × Node)) :
    visibleChildren p ((name, n) :: xs) =
      (if visible name n then [(p ++ [name], n)] else []) ++ visibleChildren p xs := by
  unfold visibleChildren
  by_cases h : visible name n <;> simp [h]

theorem stackSize_visibleChildren (p : Path) (ch : List (Str × Node)) :
    stackSize (visibleChildren p ch) ≤ sizeCh ch := by
  induction ch with
  | nil => simp [visibleChildren, stackSize, sizeCh]
  | cons x xs ih =>
    obtain ⟨name, n⟩ := x
    rw [visibleChildren_cons, stackSize_append]
    by_cases h : visible name n <;> simp [h, stackSize, sizeCh] <;> omega

/-- The `while stack:` loop.  `res` is `result`; the head of `stack` is the element `pop(-1)` takes. -/
def expandLoop : List (Path × Node) → List Path → List Path
  | [], res => res
  | (p, .file _) :: st, res => expandLoop st (res ++ [p])
  | (p, .dir _ ch) :: st, res => expandLoop (visibleChildren p ch ++ st) res
termination_by st => stackSize st
decreasing_by
  · simp [stackSize, Node.size]
  · simp only [stackSize, stackSize_append, Node.size]
    have := stackSize_visibleChildren p ch
    omega

/-- The first loop: `for pathname in reversed(pathnames)`: files and directories are pushed, anything else is
    reported to `on_error` (a no-op here). -/
def initStack (w : World) (pathnames : List Path) : List (Path × Node) :=
  pathnames.reverse.foldl
    (fun st p => match w.get p with
      | some n => (p, n) :: st
      | none => st)
    []

def expandPyFiles (w : World) (pathnames : List Path) : List Path := expandLoop (initStack w pathnames) []

/-! ## `_get_python_path` -/

def entryOk (p : Str) : Bool :=
  startsWith p ['/'] || startsWith p ['.', '/'] || startsWith p tripledots || startsWith p ['~', '/']

/-- `os.path.expanduser` on a component that passed `entryOk`. -/
def expandUser (home : Str) (p : Str) : Str :=
  if p.head? = some '~' then home ++ p.drop 1 else p

def EMPTY : Str := "EMPTY".toList

def getPythonPath (w : World) (v : Option Str) (dflt : List Str) (target : Path) : Except Err (List Path) :=
  let pathnames := getEnvVar v dflt
  if pathnames = [EMPTY] then .ok []
  else if !(pathnames.all entryOk) then .error .valueError
  else
    match expandTripledots w target (pathnames.map (expandUser w.home)) [] with
    | .error e => .error e
    | .ok fs => .ok (expandPyFiles w (stableUnique fs))

/-! ## Imports: `Import.split`, `dotted_prefixes`, `without_imports` -/

/-- `for level, char in enumerate(qname): if char != '.': break` -/
def dotLevel : Str → Nat
  | [] => 0
  | [_] => 0
  | c :: c' :: cs => if c ≠ '.' then 0 else dotLevel (c' :: cs) + 1

/-- `qname.rsplit(".", 1)` when `'.' in qname`. -/
def rsplitDot (q : Str) : Str × Str :=
  let parts := splitOn '.' q
  (joinWith '.' parts.dropLast, parts.getLast?.getD [])

/-- `Import.split`: (`module_name`, `member_name`); `import_as` plays no role in this property. -/
def Import.split (i : Import) : Option Str × Str :=
  if i.importAs = i.fullname then (none, i.fullname)
  else
    let level := dotLevel i.fullname
    let pre := i.fullname.take level
    let q := i.fullname.drop level
    let mm : Str × Str := if '.' ∈ q then rsplitDot q else ([], q)
    let module := pre ++ mm.1
    (if module = [] then none else some module, mm.2)

/-- `dotted_prefixes(name)` -/
def dottedPrefixes (name : Str) : List Str :=
  let parts := splitOn '.' name
  (List.range parts.length).map fun i =>
    let s := joinWith '.' (parts.take (i + 1))
    if s = [] then ['.'] else s

def star : Str := ['*']

/-- `ImportSet.without_imports` (sets as lists; the driver sorts and removes duplicates). -/
def withoutImports (self removals : List Import) : List Import :=
  if removals = [] then self
  else
    let starMods : List (Option Str) :=
      removals.filterMap fun r => if r.split.2 = star then some r.split.1 else none
    self.filter fun imp =>
      if imp ∈ removals then false
      else if starMods ≠ [] then
        match imp.split.1 with
        | some m => !((dottedPrefixes m).any fun pfx => (some pfx) ∈ starMods)
        | none => true
      else true

/-- `Import(k)` for a dotted identifier `k`: `from_parts(k, k.split('.')[-1])`. -/
def importOfName (k : Str) : Import := ⟨k, (splitOn '.' k).getLast?.getD []⟩

/-- `dict.update` on an association list kept in first-insertion order. -/
def mapSet : List (Str × Str) → Str → Str → List (Str × Str)
  | [], k, v => [(k, v)]
  | (k', v') :: rest, k, v => if k' = k then (k, v) :: rest else (k', v') :: mapSet rest k v

/-- `ImportMap._merge` over the `__canonical_imports__` dicts in order: later entries win. -/
def mergeMaps (maps : List (List (Str × Str))) : List (Str × Str) :=
  maps.foldl (fun acc m => m.foldl (fun a kv => mapSet a kv.1 kv.2) acc) []

/-- `ImportMap.without_imports`: exact matches on keys and values only. -/
def mapWithout (m : List (Str × Str)) (removals : List Import) : List (Str × Str) :=
  m.filter fun kv => !(importOfName kv.1 ∈ removals) && !(importOfName kv.2 ∈ removals)

/-- With fixes/C12-4.diff: is the dotted name `k` (a key or a value of the canonical map) named by `removals`?
    `from a import b` (as coded), `import a.b` (new), or a star removal of `a` / of a package containing `a` (new,
    the same rule as `ImportSet.without_imports`). -/
def nameRemoved (removals : List Import) (k : Str) : Bool :=
  let starMods : List (Option Str) :=
    removals.filterMap fun r => if r.split.2 = star then some r.split.1 else none
  decide (importOfName k ∈ removals) || decide ((⟨k, k⟩ : Import) ∈ removals) ||
    (match (importOfName k).split.1 with
     | some m => (dottedPrefixes m).any fun pfx => decide ((some pfx) ∈ starMods)
     | none => false)

/-- `ImportMap.without_imports` with fixes/C12-4.diff. -/
def mapWithoutFixed (m : List (Str × Str)) (removals : List Import) : List (Str × Str) :=
  m.filter fun kv => !(nameRemoved removals kv.1) && !(nameRemoved removals kv.2)

/-! ## `_from_code`, `_from_data` -/

structure DB where
  forget : List Import
  known : List Import
  mandatory : List Import
  canonical : List (Str × Str)
deriving DecidableEq, Repr

def fromData (known mand : List Import) (canon : List (List (Str × Str))) (forget : List Import) : DB :=
  { forget := forget
    known := withoutImports known forget
    mandatory := withoutImports mand forget
    canonical := mapWithout (mergeMaps canon) forget }

/-- `_from_data` with fixes/C12-4.diff. -/
def fromDataFixed (known mand : List Import) (canon : List (List (Str × Str))) (forget : List Import) : DB :=
  { fromData known mand canon forget with canonical := mapWithoutFixed (mergeMaps canon) forget }

/-- The repaired canonical map recomputed from a database as coded (the driver's `canonical_fixed`; equal to what
    `fromDataFixed` builds: `Props.fromDataFixed_eq_fixCanon`). -/
def DB.fixCanon (db : DB) : DB := { db with canonical := mapWithoutFixed db.canonical db.forget }

/-- The four accumulators of `_from_code`. -/
structure Acc where
  known : List Import := []
  mand : List Import := []
  canon : List (List (Str × Str)) := []
  forget : List Import := []
deriving DecidableEq, Repr

def collectStmts : List Stmt → Acc → Except Err Acc
  | [], a => .ok a
  | .known is :: rest, a => collectStmts rest { a with known := a.known ++ is }
  | .mandatory is :: rest, a => collectStmts rest { a with mand := a.mand ++ is }
  | .canonical ps :: rest, a => collectStmts rest { a with canon := a.canon ++ [ps] }
  | .forget is :: rest, a => collectStmts rest { a with forget := a.forget ++ is }
  | .bad :: _, _ => .error .valueError

def collectFiles : List FileC → Acc → Except Err Acc
  | [], a => .ok a
  | f :: rest, a =>
    if f.syn then .error .syntaxError
    else match collectStmts f.stmts a with
      | .error e => .error e
      | .ok a' => collectFiles rest a'

def fromCode (files : List FileC) : Except Err DB :=
  match collectFiles files {} with
  | .error e => .error e
  | .ok a => .ok (fromData a.known a.mand a.canon a.forget)

/-- Read the listed files (they exist: `expand_py_files_from_args` returned them). -/
def readFiles (w : World) : List Path → Except Err (List FileC)
  | [] => .ok []
  | p :: ps =>
    match w.get p with
    | some (.file c) =>
      (match readFiles w ps with
       | .ok cs => .ok (c :: cs)
       | .error e => .error e)
    | _ => .error .ioError

def fromFilenames (w : World) (files : List Path) : Except Err DB :=
  match readFiles w files with
  | .error e => .error e
  | .ok cs => fromCode cs

/-! ## `by_fullname_or_import_as` -/

/-- Every `d[key].add(imp)` the loop performs, in order. -/
def bfiInsertions (known : List Import) : List (Str × Import) :=
  known.flatMap fun imp =>
    (imp.importAs, imp) :: (dottedPrefixes imp.fullname).dropLast.map fun p => (p, (⟨p, p⟩ : Import))

def dedupKeys : List Str → List Str → List Str
  | _, [] => []
  | seen, x :: xs => if x ∈ seen then dedupKeys seen xs else x :: dedupKeys (x :: seen) xs

/-- The index as coded: one entry per key, value `d[key] - forget` (possibly empty: D15). -/
def byFullnameOrImportAs (db : DB) : List (Str × List Import) :=
  let ins := bfiInsertions db.known
  (dedupKeys [] (ins.map (·.1))).map fun k =>
    (k, ((ins.filter (·.1 = k)).map (·.2)).filter (fun i => !(i ∈ db.forget)))

/-- The index with the proposed repair of D15 (fixes/C12-D15.diff): empty entries are dropped. -/
def byFullnameOrImportAsFixed (db : DB) : List (Str × List Import) :=
  (byFullnameOrImportAs db).filter fun kv => kv.2 ≠ []

/-- `get_known_import` on the index: the deepest prefix of `name` that is a key. -/
def getKnownImport (idx : List (Str × List Import)) (name : Str) : Option (List Import) :=
  ((dottedPrefixes name).reverse.findSome? fun p => (idx.find? (·.1 = p)).map (·.2))

/-! ## `ImportDB.get_default` and its cache -/

structure Env where
  pp : Option Str                         -- PYFLYBY_PATH
  known : Option Str                      -- PYFLYBY_KNOWN_IMPORTS_PATH (only part of the key)
  mand : Option Str                       -- PYFLYBY_MANDATORY_IMPORTS_PATH (only part of the key)
deriving DecidableEq, Repr

inductive Key where
  | dir (d : Path) (env : Env)            -- (1, target_dirname, three env values)
  | files (fs : List Path)                -- (2, filenames, ())
deriving DecidableEq, Repr

abbrev Cache := List (Key × DB)

def Cache.find (c : Cache) (k : Key) : Option DB :=
  match c with
  | [] => none
  | (k', v) :: rest => if k' = k then some v else Cache.find rest k

/-- `for k in cache_keys: cache[k] = result` -/
def Cache.store (c : Cache) (keys : List Key) (db : DB) : Cache := keys.map (·, db) ++ c

structure Query where
  target : Str
  env : Env
deriving DecidableEq, Repr

def devPrefix : Str := "/dev".toList

/-- `_DEV_STREAM_RE` of fixes/C12-2.diff: `/dev/(stdin|stdout|stderr|null|tty|fd/[0-9]+)\Z`. -/
def devStreams : List Str := ["/dev/stdin", "/dev/stdout", "/dev/stderr", "/dev/null", "/dev/tty"].map String.toList
def devFdPrefix : Str := "/dev/fd/".toList
def isDevStream (t : Str) : Bool :=
  decide (t ∈ devStreams) ||
    (startsWith t devFdPrefix && !(t.drop 8).isEmpty && (t.drop 8).all fun c => decide ('0' ≤ c ∧ c ≤ '9'))

/-- The argument string `get_default` really receives for the abstract target `t`: the names of the process's streams
    are themselves, any other absolute path lives below the world's mount point, a relative path is passed as it is. -/
def rawTarget (w : World) (t : Str) : Str :=
  if t.head? = some '/' ∧ isDevStream t = false then w.mount ++ t else t

/-- The test in front of `target_dirname = Filename(".")` (line 307), in the variant the tree has. -/
def isDevTarget (w : World) (t : Str) : Bool :=
  if w.devStreamsOnly then isDevStream (rawTarget w t) else startsWith (rawTarget w t) devPrefix

/-- Lines 286-311: resolve the target, take the nearest safe ancestor (the target itself when it is a
    directory), `/dev…` targets mean the current directory. -/
def targetDirname (w : World) (target : Str) : Except Err Path :=
  let tp := absPath w.cwd target
  let cands := (if w.isDir tp then [tp] else []) ++ (ancestors tp).drop 1
  match cands.find? safePath with
  | none => .error .valueError
  | some sp =>
    if isDevTarget w target ∧ safePath w.cwd then .ok w.cwd else .ok sp

inductive WalkRes where
  | hit (db : DB)
  | stop (d : Path) (keys : List Key)

/-- The `while True:` loop (lines 313-326) on the reversed component list `rd` of `target_dirname`. -/
def walkUp (w : World) (env : Env) (cache : Cache) : List Str → List Key → WalkRes
  | rd, keys =>
    let d := rd.reverse
    let key := Key.dir d env
    match cache.find key with
    | some db => .hit db
    | none =>
      if w.isDir d then .stop d (keys ++ [key])
      else match rd with
        | [] => .stop d (keys ++ [key])            -- "/" is a directory
        | _ :: rd' => walkUp w env cache rd' (keys ++ [key])

def defaultPath (w : World) : List Str := w.etc ++ [".../.pyflyby".toList, "~/.pyflyby".toList]

/-- `ImportDB.get_default(target)` with `os.environ` = `q.env`: the answer (or the exception) and the cache afterwards. -/
def getDefault (w : World) (cache : Cache) (q : Query) : Except Err DB × Cache :=
  match targetDirname w q.target with
  | .error e => (.error e, cache)
  | .ok d0 =>
    match walkUp w q.env cache d0.reverse [] with
    | .hit db => (.ok db, cache)
    | .stop d keys =>
      -- `target_dirname != cache_keys[-1][0]` compares a Filename with the integer 1: always true
      let keys := keys ++ [Key.dir d q.env]
      match cache.find (Key.dir d q.env) with
      | some db => (.ok db, cache)
      | none =>
        match getPythonPath w q.env.pp (defaultPath w) d with
        | .error e => (.error e, cache)
        | .ok files =>
          let keys := keys ++ [Key.files files]
          match cache.find (Key.files files) with
          | some db => (.ok db, cache)
          | none =>
            match fromFilenames w files with
            | .error e => (.error e, cache)
            | .ok db => (.ok db, cache.store keys db)

/-- A history of lookups in one process, starting from `cache`. -/
def runHistory (w : World) : Cache → List Query → List (Except Err DB)
  | _, [] => []
  | c, q :: qs => (getDefault w c q).1 :: runHistory w (getDefault w c q).2 qs

/-- The cache after a history. -/
def cacheAfter (w : World) : Cache → List Query → Cache
  | c, [] => c
  | c, q :: qs => cacheAfter w (getDefault w c q).2 qs

end Pfb.C12
