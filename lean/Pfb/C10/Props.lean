/-
  Pfb.C10.Props — property theorems for C10 (statement splitting is a lossless,
  syntax-aligned partition).  Property theorems only; helper lemmas live in
  Pfb.C10.Lemmas / Pfb.TextLemmas.

  What is proved here is about the model `Pfb.C10.statements`; the model is tied
  to `_split_code_lines` / `PythonBlock.statements` by harness/c10.py.
  "Parses on its own to the same syntax tree" is CPython's and is decided by the
  direct oracle, not here.
-/
import Pfb.C10.Lemmas
namespace Pfb.C10
open Pfb

/-- The facts about the parser's output that the theorems need, and nothing more:
    node starts are real positions of the text, strictly increasing, before the
    end of the text.  Nothing is assumed about `endLine`. -/
structure WellPlaced (t : FText) (nodes : List Node) : Prop where
  lines_ne : t.lines ≠ []
  col_pos : 1 ≤ t.start.col
  valid : ∀ nd ∈ nodes, Valid t nd.start
  sorted : nodes.Pairwise (fun a b => a.start.lt b.start = true)
  before_end : ∀ nd ∈ nodes, nd.start.lt t.endpos = true

/-- Executable form of `WellPlaced`; the driver evaluates it on every case of the
    correspondence run, so the evidence shows the hypotheses are met by real inputs. -/
def validB (t : FText) (p : Pos) : Bool :=
  decide (t.start.line ≤ p.line) && decide (p.line - t.start.line < t.lines.length) &&
  decide (t.colOff (p.line - t.start.line) ≤ p.col) &&
  decide (p.col - t.colOff (p.line - t.start.line) ≤ (t.lines.getD (p.line - t.start.line) []).length)

def wellPlacedB (t : FText) (nodes : List Node) : Bool :=
  decide (t.lines ≠ []) && decide (1 ≤ t.start.col) && nodes.all (fun nd => validB t nd.start) &&
  decide (nodes.Pairwise (fun a b => a.start.lt b.start = true)) &&
  nodes.all (fun nd => nd.start.lt t.endpos)

theorem wellPlacedB_sound (t : FText) (nodes : List Node) (h : wellPlacedB t nodes = true) :
    WellPlaced t nodes := by
  unfold wellPlacedB at h
  simp only [Bool.and_eq_true, decide_eq_true_eq, List.all_eq_true] at h
  obtain ⟨⟨⟨⟨h1, h2⟩, h3⟩, h4⟩, h5⟩ := h
  refine ⟨h1, h2, ?_, h4, h5⟩
  intro nd hnd
  have := h3 nd hnd
  unfold validB at this
  simp only [Bool.and_eq_true, decide_eq_true_eq] at this
  exact ⟨this.1.1.1, this.1.1.2, this.1.2, this.2⟩

def catJoined (ps : List Piece) : Str := (ps.map (fun p => p.text.joined)).flatten

/-- What one node contributes. -/
theorem nodePieces_spec (t : FText) (i : Nat) (nd : Node) (nxt : Pos)
    (hne : t.lines ≠ []) (hcol : 1 ≤ t.start.col) (vs : Valid t nd.start) (vn : Valid t nxt)
    (hlt : nd.start.lt nxt = true) (hle : nxt.le t.endpos = true) :
    ∃ ps, nodePieces t i nd nxt = .ok ps ∧
      catJoined ps = extract t.joined (t.off nd.start) (t.off nxt) ∧
      ps.filterMap (·.node) = [i] ∧
      (∀ p ∈ ps, p.node = some i → p.text.start = nd.start) := by
  unfold nodePieces
  obtain ⟨e, he, hok⟩ := nodeEnd_spec t nd.start nxt nd.endLine hne hcol vs vn hlt hle
  simp only [he, bind, Except.bind]
  have hse : nd.start.le e = true := by
    have := hok.lt; unfold Pos.lt at this; unfold Pos.le
    simp at this ⊢; omega
  obtain ⟨a, ha, haj, has⟩ := slice_joined hne vs hok.valid hse
  rw [ha]
  simp only []
  by_cases heq : e = nxt
  · rw [if_neg (by simpa using heq)]
    refine ⟨_, rfl, ?_, by simp, ?_⟩
    · simp [catJoined, haj, heq]
    · intro p hp _; simp at hp; subst hp; exact has
  · rw [if_pos (by simpa using heq)]
    obtain ⟨b, hb, hbj, hbs⟩ := slice_joined hne hok.valid vn hok.le
    rw [hb]
    refine ⟨_, rfl, ?_, by simp, ?_⟩
    · simp only [catJoined, List.map_cons, List.map_nil, List.flatten_cons, List.flatten_nil,
        List.append_nil, haj, hbj]
      exact extract_append _ _ _ _ (off_mono vs hok.valid hse) (off_mono hok.valid vn hok.le)
    · intro p hp hn
      simp at hp
      rcases hp with rfl | rfl
      · exact has
      · simp at hn

theorem splitNodes_spec (t : FText) (nodes : List Node) (i : Nat) (hnn : nodes ≠ [])
    (wp : WellPlaced t nodes) :
    ∃ ps, splitNodes t i nodes = .ok ps ∧
      catJoined ps = extract t.joined (t.off (nodes.head hnn).start) t.joined.length ∧
      ps.filterMap (·.node) = List.range' i nodes.length ∧
      (∀ p ∈ ps, ∀ k, p.node = some k → ∃ nd, nodes[k - i]? = some nd ∧ i ≤ k ∧ p.text.start = nd.start) := by
  induction nodes generalizing i with
  | nil => exact absurd rfl hnn
  | cons nd rest ih =>
    have hne := wp.lines_ne
    have vend := endpos_valid t hne
    have vs := wp.valid nd (by simp)
    cases rest with
    | nil =>
      unfold splitNodes
      have hle : t.endpos.le t.endpos = true := by unfold Pos.le; simp
      obtain ⟨ps, hps, hcat, hfm, hpos⟩ :=
        nodePieces_spec t i nd t.endpos hne wp.col_pos vs vend (wp.before_end nd (by simp)) hle
      refine ⟨ps, hps, ?_, by simpa using hfm, ?_⟩
      · rw [hcat, off_endpos t hne]; rfl
      · intro p hp k hk
        have : k = i := by
          have hmem : k ∈ ps.filterMap (·.node) := List.mem_filterMap.mpr ⟨p, hp, hk⟩
          rw [hfm] at hmem; simpa using hmem
        subst this
        exact ⟨nd, by simp, Nat.le_refl _, hpos p hp hk⟩
    | cons n rest' =>
      unfold splitNodes
      have vn := wp.valid n (by simp)
      have hlt : nd.start.lt n.start = true := by
        have := wp.sorted; simp [List.pairwise_cons] at this; exact this.1.1
      have hnle : n.start.le t.endpos = true := by
        have := wp.before_end n (by simp); unfold Pos.lt at this; unfold Pos.le
        simp at this ⊢; omega
      obtain ⟨ps, hps, hcat, hfm, hpos⟩ :=
        nodePieces_spec t i nd n.start hne wp.col_pos vs vn hlt hnle
      have wp' : WellPlaced t (n :: rest') :=
        ⟨hne, wp.col_pos, fun x hx => wp.valid x (by simp [hx]),
          (List.pairwise_cons.mp wp.sorted).2, fun x hx => wp.before_end x (by simp [hx])⟩
      obtain ⟨qs, hqs, hqcat, hqfm, hqpos⟩ := ih (i + 1) (by simp) wp'
      simp only [hps, hqs, bind, Except.bind, pure, Except.pure]
      refine ⟨ps ++ qs, rfl, ?_, ?_, ?_⟩
      · have : catJoined (ps ++ qs) = catJoined ps ++ catJoined qs := by simp [catJoined]
        rw [this, hcat, hqcat]
        simp only [List.head_cons]
        apply extract_append
        · exact off_mono vs vn (by
            unfold Pos.lt at hlt; unfold Pos.le; simp at hlt ⊢; omega)
        · exact off_le_length vn
      · rw [List.filterMap_append, hfm, hqfm]
        simp [List.range'_succ]
      · intro p hp k hk
        rcases List.mem_append.mp hp with hp | hp
        · have : k = i := by
            have hmem : k ∈ ps.filterMap (·.node) := List.mem_filterMap.mpr ⟨p, hp, hk⟩
            rw [hfm] at hmem; simpa using hmem
          subst this
          exact ⟨nd, by simp, Nat.le_refl _, hpos p hp hk⟩
        · obtain ⟨x, hx, hik, hst⟩ := hqpos p hp k hk
          refine ⟨x, ?_, by omega, hst⟩
          have : k - i = (k - (i + 1)) + 1 := by omega
          rw [this]; simpa using hx

/-- **C10_total** — on well-placed input no assertion fails and no IndexError is
    raised: the splitter returns pieces. -/
theorem C10_total (t : FText) (nodes : List Node) (wp : WellPlaced t nodes) :
    ∃ ps, splitCodeLines t nodes = .ok ps := by
  unfold splitCodeLines
  cases nodes with
  | nil => exact ⟨_, rfl⟩
  | cons first rest =>
    have hne := wp.lines_ne
    have vf := wp.valid first (by simp)
    have hsf : t.start.le first.start = true := by
      have h1 := vf.hl; have h2 := vf.hc
      unfold Pos.le; unfold FText.colOff at h2
      simp
      by_cases h : t.start.line < first.start.line
      · left; exact h
      · right
        have : first.start.line - t.start.line = 0 := by omega
        rw [this] at h2; simp at h2
        exact ⟨by omega, h2⟩
    have hlast : ((first :: rest).getLast?.getD first).start.lt t.endpos = true := by
      apply wp.before_end
      rw [List.getLast?_eq_getLast (by simp)]
      simp
    simp only [hsf, hlast, not_true_eq_false, if_false, bind, Except.bind, pure, Except.pure]
    obtain ⟨ps, hps, _⟩ := splitNodes_spec t (first :: rest) 0 (by simp) wp
    rw [hps]
    by_cases hst : t.start = first.start
    · simp [hst]
    · obtain ⟨l, hl, _⟩ := slice_joined hne (start_valid t hne) vf hsf
      simp [hst, hl]

/-- **C10_lossless** — the concatenation of the pieces is exactly the text. -/
theorem C10_lossless (t : FText) (nodes : List Node) (wp : WellPlaced t nodes) :
    ∃ ps, splitCodeLines t nodes = .ok ps ∧ catJoined ps = t.joined := by
  unfold splitCodeLines
  cases nodes with
  | nil => exact ⟨_, rfl, by simp [catJoined]⟩
  | cons first rest =>
    have hne := wp.lines_ne
    have vf := wp.valid first (by simp)
    have hsf : t.start.le first.start = true := by
      have h1 := vf.hl; have h2 := vf.hc
      unfold Pos.le; unfold FText.colOff at h2
      simp
      by_cases h : t.start.line < first.start.line
      · left; exact h
      · right
        have : first.start.line - t.start.line = 0 := by omega
        rw [this] at h2; simp at h2
        exact ⟨by omega, h2⟩
    have hlast : ((first :: rest).getLast?.getD first).start.lt t.endpos = true := by
      apply wp.before_end
      rw [List.getLast?_eq_getLast (by simp)]
      simp
    simp only [hsf, hlast, not_true_eq_false, if_false, bind, Except.bind, pure, Except.pure]
    obtain ⟨ps, hps, hcat, _⟩ := splitNodes_spec t (first :: rest) 0 (by simp) wp
    rw [hps]
    simp only [List.head_cons] at hcat
    by_cases hst : t.start = first.start
    · refine ⟨ps, by simp [hst], ?_⟩
      rw [hcat, ← hst, off_start]
      exact extract_full _
    · obtain ⟨l, hl, hlj, _⟩ := slice_joined hne (start_valid t hne) vf hsf
      refine ⟨⟨none, l⟩ :: ps, by simp [hst, hl], ?_⟩
      have : catJoined (⟨none, l⟩ :: ps) = l.joined ++ catJoined ps := by simp [catJoined]
      rw [this, hlj, hcat, off_start]
      rw [extract_append _ _ _ _ (Nat.zero_le _) (off_le_length vf)]
      exact extract_full _

/-- **C10_one_node** — every node owns exactly one piece, in order. -/
theorem C10_one_node (t : FText) (nodes : List Node) (wp : WellPlaced t nodes) :
    ∃ ps, splitCodeLines t nodes = .ok ps ∧ ps.filterMap (·.node) = List.range nodes.length := by
  unfold splitCodeLines
  cases nodes with
  | nil => exact ⟨_, rfl, by simp⟩
  | cons first rest =>
    have hne := wp.lines_ne
    have vf := wp.valid first (by simp)
    have hsf : t.start.le first.start = true := by
      have h1 := vf.hl; have h2 := vf.hc
      unfold Pos.le; unfold FText.colOff at h2
      simp
      by_cases h : t.start.line < first.start.line
      · left; exact h
      · right
        have : first.start.line - t.start.line = 0 := by omega
        rw [this] at h2; simp at h2
        exact ⟨by omega, h2⟩
    have hlast : ((first :: rest).getLast?.getD first).start.lt t.endpos = true := by
      apply wp.before_end
      rw [List.getLast?_eq_getLast (by simp)]
      simp
    simp only [hsf, hlast, not_true_eq_false, if_false, bind, Except.bind, pure, Except.pure]
    obtain ⟨ps, hps, _, hfm, _⟩ := splitNodes_spec t (first :: rest) 0 (by simp) wp
    rw [hps]
    by_cases hst : t.start = first.start
    · exact ⟨ps, by simp [hst], by simp [hfm, List.range_eq_range']⟩
    · obtain ⟨l, hl, _, _⟩ := slice_joined hne (start_valid t hne) vf hsf
      exact ⟨⟨none, l⟩ :: ps, by simp [hst, hl], by simp [hfm, List.range_eq_range']⟩

/-- **C10_positions** — every piece that holds a node starts at that node's position. -/
theorem C10_positions (t : FText) (nodes : List Node) (wp : WellPlaced t nodes) :
    ∃ ps, splitCodeLines t nodes = .ok ps ∧
      ∀ p ∈ ps, ∀ k, p.node = some k → ∃ nd, nodes[k]? = some nd ∧ p.text.start = nd.start := by
  unfold splitCodeLines
  cases nodes with
  | nil => exact ⟨_, rfl, by intro p hp k hk; simp at hp; subst hp; simp at hk⟩
  | cons first rest =>
    have hne := wp.lines_ne
    have vf := wp.valid first (by simp)
    have hsf : t.start.le first.start = true := by
      have h1 := vf.hl; have h2 := vf.hc
      unfold Pos.le; unfold FText.colOff at h2
      simp
      by_cases h : t.start.line < first.start.line
      · left; exact h
      · right
        have : first.start.line - t.start.line = 0 := by omega
        rw [this] at h2; simp at h2
        exact ⟨by omega, h2⟩
    have hlast : ((first :: rest).getLast?.getD first).start.lt t.endpos = true := by
      apply wp.before_end
      rw [List.getLast?_eq_getLast (by simp)]
      simp
    simp only [hsf, hlast, not_true_eq_false, if_false, bind, Except.bind, pure, Except.pure]
    obtain ⟨ps, hps, _, _, hpos⟩ := splitNodes_spec t (first :: rest) 0 (by simp) wp
    rw [hps]
    have hpos' : ∀ p ∈ ps, ∀ k, p.node = some k →
        ∃ nd, (first :: rest)[k]? = some nd ∧ p.text.start = nd.start := by
      intro p hp k hk
      obtain ⟨nd, h1, _, h3⟩ := hpos p hp k hk
      exact ⟨nd, by simpa using h1, h3⟩
    by_cases hst : t.start = first.start
    · exact ⟨ps, by simp [hst], hpos'⟩
    · obtain ⟨l, hl, _, _⟩ := slice_joined hne (start_valid t hne) vf hsf
      refine ⟨⟨none, l⟩ :: ps, by simp [hst, hl], ?_⟩
      intro p hp k hk
      simp at hp
      rcases hp with rfl | hp
      · simp at hk
      · exact hpos' p hp k hk

/-! ### Non-statement pieces hold only comment / blank lines -/

theorem isCB_nil : isCommentOrBlank [] = true := by simp [isCommentOrBlank]

theorem isWsFF_isPySpace (c : Char) (h : isWsFF c = true) : isPySpace c = true := by
  unfold isWsFF at h
  simp only [Bool.or_eq_true, decide_eq_true_eq] at h
  rcases h with (h | h) | h <;> subst h <;> decide

/-- a run of blanks, tabs and form feeds is a blank line for `_is_comment_or_blank` -/
theorem isCB_of_ws (l : Str) (h : l.all isWsFF = true) : isCommentOrBlank l = true := by
  unfold isCommentOrBlank
  rw [List.all_eq_true] at h ⊢
  intro c hc
  exact isWsFF_isPySpace c (h c ((List.takeWhile_sublist _).subset hc))

theorem nodePieces_noncode (t : FText) (i : Nat) (nd : Node) (nxt : Pos)
    (hne : t.lines ≠ []) (hcol : 1 ≤ t.start.col) (vs : Valid t nd.start) (vn : Valid t nxt)
    (hlt : nd.start.lt nxt = true) (hle : nxt.le t.endpos = true) :
    ∃ ps, nodePieces t i nd nxt = .ok ps ∧
      ∀ p ∈ ps, p.node = none → ∀ l ∈ p.text.lines, isCommentOrBlank l = true := by
  unfold nodePieces
  obtain ⟨e, he, hok⟩ := nodeEnd_spec t nd.start nxt nd.endLine hne hcol vs vn hlt hle
  simp only [he, bind, Except.bind]
  have hse : nd.start.le e = true := by
    have := hok.lt; unfold Pos.lt at this; unfold Pos.le
    simp at this ⊢; omega
  obtain ⟨a, ha, _, _⟩ := slice_joined hne vs hok.valid hse
  rw [ha]
  simp only []
  by_cases heq : e = nxt
  · rw [if_neg (by simpa using heq)]
    exact ⟨_, rfl, by intro p hp hn; simp at hp; subst hp; simp at hn⟩
  · rw [if_pos (by simpa using heq)]
    obtain ⟨hcol1, hgt, hall, hlast⟩ := hok.gap heq
    have hsl := vs.hl
    have hel : t.start.line < e.line := by omega
    have hnz : e.line - t.start.line ≠ 0 := by omega
    obtain ⟨b, hb, hbl⟩ := slice_lines hok.valid vn hok.le hnz
    rw [hb]
    refine ⟨_, rfl, ?_⟩
    intro p hp hn l hl
    simp at hp
    rcases hp with rfl | rfl
    · simp at hn
    · simp only at hl
      rw [hbl] at hl
      have hi12 : e.line - t.start.line ≤ nxt.line - t.start.line := by
        have := hok.le; unfold Pos.le at this; simp at this; have := vn.hl; omega
      have hc1 : e.col - t.colOff (e.line - t.start.line) = 0 := by
        simp [FText.colOff, hnz, hcol1]
      rw [hc1] at hl
      unfold sliceLines at hl
      have hlen : (t.lines.take (nxt.line - t.start.line)).length = nxt.line - t.start.line := by
        have := vn.hi; simp; omega
      rw [List.drop_append_of_le_length (by omega)] at hl
      -- l is either one of the whole lines in [e.line, nxt.line) or the clipped last line
      have hmem : l ∈ (t.lines.take (nxt.line - t.start.line)).drop (e.line - t.start.line) ++
          [(t.lines.getD (nxt.line - t.start.line) []).take
            (nxt.col - t.colOff (nxt.line - t.start.line))] := by
        generalize hG : (t.lines.take (nxt.line - t.start.line)).drop (e.line - t.start.line) ++
          [(t.lines.getD (nxt.line - t.start.line) []).take
            (nxt.col - t.colOff (nxt.line - t.start.line))] = G at hl
        cases G with
        | nil => simp at hl
        | cons f r => simpa using hl
      rcases List.mem_append.mp hmem with hm | hm
      · obtain ⟨k, hk, rfl⟩ := List.mem_iff_getElem.mp hm
        simp only [List.getElem_drop, List.getElem_take]
        simp at hk
        have := hall (e.line + k) (by omega) (by omega)
        unfold lineOf at this
        have hidx : e.line + k - t.start.line = e.line - t.start.line + k := by omega
        rw [hidx] at this
        have hlt2 : e.line - t.start.line + k < t.lines.length := by have := vn.hi; omega
        simpa [List.getD, List.getElem?_eq_getElem hlt2] using this
      · simp at hm
        subst hm
        rcases hlast with hc | ⟨hend, hcb⟩ | ⟨hnl, hws⟩
        rotate_left 2
        · -- only whitespace in front of the next node on its line
          have hcoff : t.colOff (nxt.line - t.start.line) = 1 := by
            simp only [FText.colOff]; rw [if_neg (by omega)]
          rw [hcoff]
          unfold lineOf at hws
          exact isCB_of_ws _ hws
        · have : nxt.col - t.colOff (nxt.line - t.start.line) = 0 := by
            simp [FText.colOff, hc]
            split <;> omega
          rw [this]; simp [isCB_nil]
        · have hv := endpos_valid t hne
          have hpos : 0 < t.lines.length := List.length_pos_iff.mpr hne
          have hi : t.endpos.line - t.start.line = t.lines.length - 1 := by
            simp [FText.endpos]; omega
          have hc2 : nxt.col - t.colOff (nxt.line - t.start.line)
              = (t.lines.getD (nxt.line - t.start.line) []).length := by
            rw [hend, hi]
            have hlast' : t.lines.getD (t.lines.length - 1) [] = t.lines.getLast?.getD [] := by
              rw [List.getLast?_eq_getElem?]; simp [List.getD]
            rw [hlast']
            simp only [FText.endpos, FText.colOff]
            by_cases h1 : t.lines.length = 1
            · simp [h1]
            · rw [if_neg h1, if_neg (by omega)]; omega
          rw [hc2]
          simp only [List.getD] at hcb ⊢
          unfold lineOf at hcb
          simpa [List.getD] using hcb

theorem splitNodes_noncode (t : FText) (nodes : List Node) (i : Nat) (wp : WellPlaced t nodes) :
    ∃ ps, splitNodes t i nodes = .ok ps ∧
      ∀ p ∈ ps, p.node = none → ∀ l ∈ p.text.lines, isCommentOrBlank l = true := by
  induction nodes generalizing i with
  | nil => exact ⟨[], rfl, by simp⟩
  | cons nd rest ih =>
    have hne := wp.lines_ne
    have vend := endpos_valid t hne
    have vs := wp.valid nd (by simp)
    cases rest with
    | nil =>
      unfold splitNodes
      have hle : t.endpos.le t.endpos = true := by unfold Pos.le; simp
      exact nodePieces_noncode t i nd t.endpos hne wp.col_pos vs vend (wp.before_end nd (by simp)) hle
    | cons n rest' =>
      unfold splitNodes
      have vn := wp.valid n (by simp)
      have hlt : nd.start.lt n.start = true := by
        have := wp.sorted; simp [List.pairwise_cons] at this; exact this.1.1
      have hnle : n.start.le t.endpos = true := by
        have := wp.before_end n (by simp); unfold Pos.lt at this; unfold Pos.le
        simp at this ⊢; omega
      obtain ⟨ps, hps, hp⟩ := nodePieces_noncode t i nd n.start hne wp.col_pos vs vn hlt hnle
      have wp' : WellPlaced t (n :: rest') :=
        ⟨hne, wp.col_pos, fun x hx => wp.valid x (by simp [hx]),
          (List.pairwise_cons.mp wp.sorted).2, fun x hx => wp.before_end x (by simp [hx])⟩
      obtain ⟨qs, hqs, hq⟩ := ih (i + 1) wp'
      simp only [hps, hqs, bind, Except.bind, pure, Except.pure]
      refine ⟨ps ++ qs, rfl, ?_⟩
      intro p hpm hn
      rcases List.mem_append.mp hpm with h | h
      · exact hp p h hn
      · exact hq p h hn

/-- **C10_noncode** — every piece without a node consists of comment/blank lines
    only.  For the pieces between and after statements this is proved outright;
    for the leading piece (text before the first statement) it is the parser fact
    `hlead`. -/
theorem C10_noncode (t : FText) (nodes : List Node) (wp : WellPlaced t nodes) (hnn : nodes ≠ [])
    (hlead : ∀ l, t.slice t.start (nodes.head hnn).start = .ok l →
        ∀ x ∈ l.lines, isCommentOrBlank x = true) :
    ∃ ps, splitCodeLines t nodes = .ok ps ∧
      ∀ p ∈ ps, p.node = none → ∀ l ∈ p.text.lines, isCommentOrBlank l = true := by
  unfold splitCodeLines
  cases nodes with
  | nil => exact absurd rfl hnn
  | cons first rest =>
    have hne := wp.lines_ne
    have vf := wp.valid first (by simp)
    have hsf : t.start.le first.start = true := by
      have h1 := vf.hl; have h2 := vf.hc
      unfold Pos.le; unfold FText.colOff at h2
      simp
      by_cases h : t.start.line < first.start.line
      · left; exact h
      · right
        have : first.start.line - t.start.line = 0 := by omega
        rw [this] at h2; simp at h2
        exact ⟨by omega, h2⟩
    have hlast : ((first :: rest).getLast?.getD first).start.lt t.endpos = true := by
      apply wp.before_end
      rw [List.getLast?_eq_getLast (by simp)]
      simp
    simp only [hsf, hlast, not_true_eq_false, if_false, bind, Except.bind, pure, Except.pure]
    obtain ⟨ps, hps, hp⟩ := splitNodes_noncode t (first :: rest) 0 wp
    rw [hps]
    by_cases hst : t.start = first.start
    · exact ⟨ps, by simp [hst], hp⟩
    · obtain ⟨l, hl, _, _⟩ := slice_joined hne (start_valid t hne) vf hsf
      refine ⟨⟨none, l⟩ :: ps, by simp [hst, hl], ?_⟩
      intro p hpm hn
      simp at hpm
      rcases hpm with rfl | h
      · exact hlead l (by simpa using hl)
      · exact hp p h hn

/-! ### The leading-newline normalisation of `.statements` -/

theorem peel_joined (start : Pos) (node : Option Nat) (lines : List Str) :
    catJoined (peel start node lines) = joinNl lines := by
  fun_induction peel start node lines with
  | case1 node => simp [catJoined, FText.joined]
  | case2 node l => simp [catJoined, FText.joined]
  | case3 node l l' ls h ih =>
    have : catJoined (⟨none, ⟨[[], []], start⟩⟩ :: peel start none (l' :: ls))
        = ['\n'] ++ catJoined (peel start none (l' :: ls)) := by
      simp [catJoined, FText.joined, joinNl]
    rw [this, ih, h.1]
    simp [joinNl]
  | case4 node l l' ls h =>
    simp [catJoined, FText.joined]

/-- **normalize_lossless** — peeling leading newlines keeps the concatenation. -/
theorem normalize_lossless (ps : List Piece) : catJoined (normalize ps) = catJoined ps := by
  induction ps with
  | nil => simp [normalize, catJoined]
  | cons p ps ih =>
    have h1 : normalize (p :: ps) = peel p.text.start p.node p.text.lines ++ normalize ps := by
      simp [normalize]
    have h2 : ∀ a b : List Piece, catJoined (a ++ b) = catJoined a ++ catJoined b := by
      intro a b; simp [catJoined]
    rw [h1, h2, ih, peel_joined]
    simp [catJoined, FText.joined]

/-- **normalize_node_untouched** — a piece whose text does not begin with a
    newline (every statement piece: it begins with the statement's first
    character) passes through `.statements` unchanged, keeping its node. -/
theorem normalize_node_untouched (p : Piece)
    (h : ∀ l' ls, p.text.lines ≠ [] :: l' :: ls) (hne : p.text.lines ≠ []) :
    peel p.text.start p.node p.text.lines = [p] := by
  cases p with
  | mk node text =>
    cases text with
    | mk lines start =>
      simp only at h hne ⊢
      match lines, h, hne with
      | [l], _, _ => simp [peel]
      | l :: l' :: ls, h, _ =>
        rw [peel, if_neg]
        intro ⟨h1, _⟩
        exact h l' ls (by rw [h1])

/-- **C10_statements_lossless** — `PythonBlock(text).statements`: concatenation
    of all statement texts equals the input text. -/
theorem C10_statements_lossless (t : FText) (nodes : List Node) (wp : WellPlaced t nodes) :
    ∃ ps, statements t nodes = .ok ps ∧ catJoined ps = t.joined := by
  obtain ⟨ps, hps, hcat⟩ := C10_lossless t nodes wp
  refine ⟨normalize ps, ?_, ?_⟩
  · simp [statements, hps, bind, Except.bind, pure, Except.pure]
  · rw [normalize_lossless, hcat]

/-! ### Statement pieces pass through `.statements` untouched -/

/-- every node starts on a real character of the text that is not a newline
    (a statement cannot begin with a line break) -/
def StartsOnChar (t : FText) (nodes : List Node) : Prop :=
  ∀ nd ∈ nodes, ∃ c, t.joined[t.off nd.start]? = some c ∧ c ≠ '\n'

theorem nodePieces_node_head (t : FText) (i : Nat) (nd : Node) (nxt : Pos)
    (hne : t.lines ≠ []) (hcol : 1 ≤ t.start.col) (vs : Valid t nd.start) (vn : Valid t nxt)
    (hlt : nd.start.lt nxt = true) (hle : nxt.le t.endpos = true)
    (c : Char) (hc : t.joined[t.off nd.start]? = some c) (hnl : c ≠ '\n') :
    ∃ ps, nodePieces t i nd nxt = .ok ps ∧
      ∀ p ∈ ps, p.node = some i → p.text.lines ≠ [] ∧ ∀ l' ls, p.text.lines ≠ [] :: l' :: ls := by
  unfold nodePieces
  obtain ⟨e, he, hok⟩ := nodeEnd_spec t nd.start nxt nd.endLine hne hcol vs vn hlt hle
  simp only [he, bind, Except.bind]
  have hse : nd.start.le e = true := by
    have := hok.lt; unfold Pos.lt at this; unfold Pos.le
    simp at this ⊢; omega
  obtain ⟨a, ha, haj, _⟩ := slice_joined hne vs hok.valid hse
  rw [ha]
  simp only []
  have hhead : a.joined.head? = some c := by
    rw [haj, extract_head _ _ _ (off_strict vs hok.valid hok.lt) (off_le_length hok.valid)]
    exact hc
  have key : a.lines ≠ [] ∧ ∀ l' ls, a.lines ≠ [] :: l' :: ls := by
    constructor
    · intro h
      unfold FText.joined at hhead; rw [h] at hhead; simp [joinNl] at hhead
    · intro l' ls h
      unfold FText.joined at hhead; rw [h] at hhead
      simp [joinNl] at hhead
      exact hnl hhead.symm
  by_cases heq : e = nxt
  · rw [if_neg (by simpa using heq)]
    exact ⟨_, rfl, by intro p hp _; simp at hp; subst hp; exact key⟩
  · rw [if_pos (by simpa using heq)]
    obtain ⟨b, hb, _, _⟩ := slice_joined hne hok.valid vn hok.le
    rw [hb]
    refine ⟨_, rfl, ?_⟩
    intro p hp hn
    simp at hp
    rcases hp with rfl | rfl
    · exact key
    · simp at hn

theorem splitNodes_node_head (t : FText) (nodes : List Node) (i : Nat) (wp : WellPlaced t nodes)
    (hs : StartsOnChar t nodes) :
    ∃ ps, splitNodes t i nodes = .ok ps ∧
      ∀ p ∈ ps, p.node ≠ none → p.text.lines ≠ [] ∧ ∀ l' ls, p.text.lines ≠ [] :: l' :: ls := by
  induction nodes generalizing i with
  | nil => exact ⟨[], rfl, by simp⟩
  | cons nd rest ih =>
    have hne := wp.lines_ne
    have vend := endpos_valid t hne
    have vs := wp.valid nd (by simp)
    obtain ⟨c, hc, hnl⟩ := hs nd (by simp)
    cases rest with
    | nil =>
      unfold splitNodes
      have hle : t.endpos.le t.endpos = true := by unfold Pos.le; simp
      obtain ⟨ps, hps, hp⟩ := nodePieces_node_head t i nd t.endpos hne wp.col_pos vs vend
        (wp.before_end nd (by simp)) hle c hc hnl
      obtain ⟨ps', hps', _, hfm, _⟩ := nodePieces_spec t i nd t.endpos hne wp.col_pos vs vend
        (wp.before_end nd (by simp)) hle
      rw [hps] at hps'; cases hps'
      refine ⟨ps, hps, ?_⟩
      intro p hpm hn
      cases hk : p.node with
      | none => exact absurd hk hn
      | some k =>
        have hmem : k ∈ ps.filterMap (·.node) := List.mem_filterMap.mpr ⟨p, hpm, hk⟩
        rw [hfm] at hmem; simp at hmem; subst hmem
        exact hp p hpm hk
    | cons n rest' =>
      unfold splitNodes
      have vn := wp.valid n (by simp)
      have hlt : nd.start.lt n.start = true := by
        have := wp.sorted; simp [List.pairwise_cons] at this; exact this.1.1
      have hnle : n.start.le t.endpos = true := by
        have := wp.before_end n (by simp); unfold Pos.lt at this; unfold Pos.le
        simp at this ⊢; omega
      obtain ⟨ps, hps, hp⟩ := nodePieces_node_head t i nd n.start hne wp.col_pos vs vn hlt hnle c hc hnl
      obtain ⟨ps', hps', _, hfm, _⟩ := nodePieces_spec t i nd n.start hne wp.col_pos vs vn hlt hnle
      rw [hps] at hps'; cases hps'
      have wp' : WellPlaced t (n :: rest') :=
        ⟨hne, wp.col_pos, fun x hx => wp.valid x (by simp [hx]),
          (List.pairwise_cons.mp wp.sorted).2, fun x hx => wp.before_end x (by simp [hx])⟩
      obtain ⟨qs, hqs, hq⟩ := ih (i + 1) wp' (fun x hx => hs x (by simp [hx]))
      simp only [hps, hqs, bind, Except.bind, pure, Except.pure]
      refine ⟨ps ++ qs, rfl, ?_⟩
      intro p hpm hn
      rcases List.mem_append.mp hpm with h | h
      · cases hk : p.node with
        | none => exact absurd hk hn
        | some k =>
          have hmem : k ∈ ps.filterMap (·.node) := List.mem_filterMap.mpr ⟨p, h, hk⟩
          rw [hfm] at hmem; simp at hmem; subst hmem
          exact hp p h hk
      · exact hq p h hn

/-- **C10_statements_keep_nodes** — in `PythonBlock(text).statements` every statement
    piece of the splitter survives the leading-newline normalisation unchanged
    (same text, same start position, same node). -/
theorem C10_statements_keep_nodes (t : FText) (nodes : List Node) (wp : WellPlaced t nodes)
    (hs : StartsOnChar t nodes) :
    ∃ ps, splitCodeLines t nodes = .ok ps ∧ statements t nodes = .ok (normalize ps) ∧
      ∀ p ∈ ps, p.node ≠ none → peel p.text.start p.node p.text.lines = [p] ∧ p ∈ normalize ps := by
  have fin : ∀ ps qs : List Piece, (∀ p ∈ ps, p.node ≠ none → p ∈ qs) →
      (∀ p ∈ qs, p.node ≠ none → p.text.lines ≠ [] ∧ ∀ l' ls, p.text.lines ≠ [] :: l' :: ls) →
      ∀ p ∈ ps, p.node ≠ none → peel p.text.start p.node p.text.lines = [p] ∧ p ∈ normalize ps := by
    intro ps qs hmem hq p hp hn
    obtain ⟨h1, h2⟩ := hq p (hmem p hp hn) hn
    have hpeel := normalize_node_untouched p h2 h1
    refine ⟨hpeel, ?_⟩
    unfold normalize
    rw [List.mem_flatMap]
    exact ⟨p, hp, by rw [hpeel]; simp⟩
  have stm : ∀ ps, splitCodeLines t nodes = .ok ps → statements t nodes = .ok (normalize ps) := by
    intro ps h; simp [statements, h, bind, Except.bind, pure, Except.pure]
  cases nodes with
  | nil =>
    refine ⟨[⟨none, t⟩], rfl, stm _ rfl, ?_⟩
    intro p hp hn; simp at hp; subst hp; simp at hn
  | cons first rest =>
    have hne := wp.lines_ne
    have vf := wp.valid first (by simp)
    have hsf : t.start.le first.start = true := by
      have h1 := vf.hl; have h2 := vf.hc
      unfold Pos.le; unfold FText.colOff at h2
      simp
      by_cases h : t.start.line < first.start.line
      · left; exact h
      · right
        have : first.start.line - t.start.line = 0 := by omega
        rw [this] at h2; simp at h2
        exact ⟨by omega, h2⟩
    have hlast : ((first :: rest).getLast?.getD first).start.lt t.endpos = true := by
      apply wp.before_end
      rw [List.getLast?_eq_getLast (by simp)]
      simp
    obtain ⟨qs, hqs, hq⟩ := splitNodes_node_head t (first :: rest) 0 wp hs
    by_cases hst : t.start = first.start
    · have hsplit : splitCodeLines t (first :: rest) = .ok qs := by
        unfold splitCodeLines
        simp only [hsf, hlast, not_true_eq_false, if_false, bind, Except.bind, pure, Except.pure, hqs]
        simp [hst]
      exact ⟨qs, hsplit, stm _ hsplit, fin qs qs (fun p hp _ => hp) hq⟩
    · obtain ⟨l, hl, _, _⟩ := slice_joined hne (start_valid t hne) vf hsf
      have hsplit : splitCodeLines t (first :: rest) = .ok (⟨none, l⟩ :: qs) := by
        unfold splitCodeLines
        simp only [hsf, hlast, not_true_eq_false, if_false, bind, Except.bind, pure, Except.pure, hqs]
        simp [hst, hl]
      refine ⟨_, hsplit, stm _ hsplit, fin _ qs ?_ hq⟩
      intro p hp hn
      simp at hp
      rcases hp with rfl | hp
      · simp at hn
      · exact hp

/-! ### Non-vacuity: a concrete text meets the hypotheses and is split as expected -/

def exText : FText := FText.ofStr "# c\nx = '''a\n# b'''  # t\n\n# d\ny = 2".toList ⟨3, 5⟩
def exNodes : List Node := [⟨⟨4, 1⟩, 5⟩, ⟨⟨8, 1⟩, 8⟩]

example : wellPlacedB exText exNodes = true := by decide
example : WellPlaced exText exNodes := wellPlacedB_sound _ _ (by decide)
example : (statements exText exNodes).toOption.map (fun ps => ps.map fun p => (p.node, String.ofList p.text.joined, p.text.start.line, p.text.start.col))
    = some [(none, "# c\n", 3, 5), (some 0, "x = '''a\n# b'''  # t\n", 4, 1), (none, "\n", 6, 1),
            (none, "# d\n", 6, 1), (some 1, "y = 2", 8, 1)] := by decide

end Pfb.C10

namespace Pfb

/-- **slice_append** — adjacent slices concatenate to the enclosing slice. -/
theorem slice_append {t : FText} {a b c : Pos} (hne : t.lines ≠ [])
    (va : Valid t a) (vb : Valid t b) (vc : Valid t c)
    (hab : a.le b = true) (hbc : b.le c = true) :
    ∃ r1 r2 r3, t.slice a b = .ok r1 ∧ t.slice b c = .ok r2 ∧ t.slice a c = .ok r3 ∧
      r1.joined ++ r2.joined = r3.joined := by
  have hac : a.le c = true := by
    unfold Pos.le at *; simp at *; omega
  obtain ⟨r1, h1, j1, _⟩ := slice_joined hne va vb hab
  obtain ⟨r2, h2, j2, _⟩ := slice_joined hne vb vc hbc
  obtain ⟨r3, h3, j3, _⟩ := slice_joined hne va vc hac
  refine ⟨r1, r2, r3, h1, h2, h3, ?_⟩
  rw [j1, j2, j3]
  exact extract_append _ _ _ _ (off_mono va vb hab) (off_mono vb vc hbc)

/-- **Pos.add_true** — `text.startpos + (lineno-1, col)` (`FilePos.__add__`,
    column reset on line movement) is the true position of the character at
    0-based (line, col) of the text, whatever the text's own start position. -/
theorem Pos.add_true (t : FText) (dl dc : Nat) (hl : dl < t.lines.length)
    (hc : dc ≤ (t.lines.getD dl []).length) :
    Valid t (t.start.add dl dc) ∧ t.off (t.start.add dl dc) = lcOff t.lines dl dc := by
  unfold Pos.add
  by_cases h0 : dl = 0
  · subst h0
    simp only [if_true]
    refine ⟨⟨Nat.le_refl _, by simpa using hl, ?_, ?_⟩, ?_⟩
    · simp [FText.colOff]
    · simpa [FText.colOff] using hc
    · simp [FText.off, FText.colOff]
  · simp only [h0, if_false]
    have hi : t.start.line + dl - t.start.line = dl := by omega
    refine ⟨⟨by simp, by simpa [hi] using hl, ?_, ?_⟩, ?_⟩
    · simp [FText.colOff, hi, h0]
    · simp only [FText.colOff, hi, h0, if_false]
      have : 1 + dc - 1 = dc := by omega
      rw [this]; exact hc
    · simp only [FText.off, FText.colOff, hi, h0, if_false]
      have : 1 + dc - 1 = dc := by omega
      rw [this]

end Pfb
