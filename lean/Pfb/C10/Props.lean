import Pfb.C10.Model
