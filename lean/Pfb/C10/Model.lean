/-
  Pfb.C10.Model — `_is_comment_or_blank`, `_split_code_lines`
  (lib/python/pyflyby/_parse.py:46-56, 526-606) and the leading-newline
  normalisation of `PythonBlock.statements` (_parse.py:1152-1176).

  Input: the text, the start position and the last line number of each
  top-level AST node (these come from CPython's parser +
  `_annotate_ast_startpos` / `end_lineno`; they are parameters of the model,
  constrained by `WellPlaced` in the theorems).

  The `hasattr(node, 'endpos')` branch of `_split_code_lines` is dead on this
  tree (nothing sets `endpos` on a real node) and is not modelled; the
  correspondence check would expose it coming alive.
-/
import Pfb.Text
namespace Pfb.C10
open Pfb

/-- `re.sub("#.*", "", line).rstrip() == ""` for a line without newline. -/
def isCommentOrBlank (l : Str) : Bool := (l.takeWhile (· ≠ '#')).all isPySpace

def endsWithBackslash (l : Str) : Bool := l.getLast? = some '\\'

/-- The `while` loop of `_split_code_lines` (lines 598-602).  The argument is
    `endpos.lineno`; the result is the final `endpos.lineno`. -/
def scanBack (t : FText) (lastLine : Nat) : Nat → Except TextErr Nat
  | 0 => pure 0
  | k + 1 =>
    -- endpos.lineno = k+1, so endpos.lineno-1 = k
    if k > lastLine then do
      let l1 ← t.lineAt k
      if isCommentOrBlank l1 then do
        let l2 ← t.lineAt (k - 1)
        if !endsWithBackslash l2 || isCommentOrBlank l2 then scanBack t lastLine k
        else pure (k + 1)
      else pure (k + 1)
    else pure (k + 1)

/-- `s.strip(" \t\f") == ""` -/
def isWsFF (c : Char) : Bool := c = ' ' || c = '\t' || c = '\x0c'

/-- Lines 579-587: the end-of-text special case; and (repair 8ec4444) the next node starting in the middle of
    its line behind nothing but whitespace (a form feed in front of an import): that whitespace is non-code, the
    search for the end of this statement starts at the beginning of that line.  (`text[FilePos(e.line,1):e]` is
    the line's first `e.col - 1` characters: `e.line > lastLine ≥ text.startpos.lineno`.) -/
def eofAdjust (t : FText) (s : Pos) (lastLine : Nat) (e : Pos) : Except TextErr Pos :=
  if e.col ≠ 1 then
    if e = t.endpos then
      if ¬ (e.line > lastLine) then pure e else do
      let l ← t.lineAt e.line
      if isCommentOrBlank l then
        if ¬ (s.line < e.line) then throw .assertion
        else do
          let lp ← t.lineAt (e.line - 1)
          if !endsWithBackslash lp || isCommentOrBlank lp then pure ⟨e.line, 1⟩ else pure e
      else pure e
    else
      if e.line > lastLine then do
        let l ← t.lineAt e.line
        if (l.take (e.col - 1)).all isWsFF then pure ⟨e.line, 1⟩ else pure e
      else pure e
  else pure e

/-- End position of the piece owned by the node starting at `s`, the next node
    (or the end of text) being at `nxt`. -/
def nodeEnd (t : FText) (s : Pos) (endLine : Nat) (nxt : Pos) : Except TextErr Pos := do
  if ¬ s.lt nxt then throw .assertion
  if ¬ nxt.le t.endpos then throw .assertion
  -- last_lineno = max(startpos.lineno, text.startpos.lineno + end_lineno - 1)
  let lastLine := max s.line endLine
  let e ← eofAdjust t s lastLine nxt
  let e ← if e.col = 1 then (do let ln ← scanBack t lastLine e.line; pure (⟨ln, 1⟩ : Pos)) else pure e
  if ¬ (s.lt e ∧ e.le nxt) then throw .assertion
  pure e

/-- A piece: index of the node it holds (if any) and its text. -/
structure Piece where
  node : Option Nat
  text : FText
deriving Repr, DecidableEq

/-- A top-level node as the splitter sees it: start position and last line
    (`text.startpos.lineno + node.end_lineno - 1`). -/
structure Node where
  start : Pos
  endLine : Nat
deriving Repr, DecidableEq

def nodePieces (t : FText) (i : Nat) (nd : Node) (nxt : Pos) : Except TextErr (List Piece) := do
  let s := nd.start
  let e ← nodeEnd t s nd.endLine nxt
  let a ← t.slice s e
  if e ≠ nxt then do
    let b ← t.slice e nxt
    pure [⟨some i, a⟩, ⟨none, b⟩]
  else pure [⟨some i, a⟩]

def splitNodes (t : FText) : Nat → List Node → Except TextErr (List Piece)
  | _, [] => pure []
  | i, [s] => nodePieces t i s t.endpos
  | i, s :: n :: rest => do
    let ps ← nodePieces t i s n.start
    let qs ← splitNodes t (i + 1) (n :: rest)
    pure (ps ++ qs)

/-- `_split_code_lines(ast_nodes, text)` with `starts = [n.startpos for n in ast_nodes]`. -/
def splitCodeLines (t : FText) (nodes : List Node) : Except TextErr (List Piece) :=
  match nodes with
  | [] => pure [⟨none, t⟩]
  | first :: _ => do
    if ¬ t.start.le first.start then throw .assertion
    if ¬ (nodes.getLast?.getD first).start.lt t.endpos then throw .assertion
    let lead ← if t.start ≠ first.start then (do let l ← t.slice t.start first.start; pure [Piece.mk none l]) else pure []
    let rest ← splitNodes t 0 nodes
    pure (lead ++ rest)

/-- The `while` loop of `.statements`: peel leading newlines off a piece.  Each
    peeled `"\n"` becomes its own piece (same start position, as coded), the
    remainder keeps the start position too. -/
def peel (start : Pos) (node : Option Nat) : List Str → List Piece
  | [] => [⟨node, ⟨[], start⟩⟩]        -- unreachable: lines are never empty
  | [l] => [⟨node, ⟨[l], start⟩⟩]
  | l :: l' :: ls =>
    -- joined.startswith("\n") ⇔ first line is empty (and there is a second line)
    -- joined != "\n" ⇔ not (lines == ["", ""])
    if l = [] ∧ ¬ (l' = [] ∧ ls = []) then
      ⟨none, ⟨[[], []], start⟩⟩ :: peel start none (l' :: ls)
    else [⟨node, ⟨l :: l' :: ls, start⟩⟩]

def normalize (ps : List Piece) : List Piece :=
  ps.flatMap fun p => peel p.text.start p.node p.text.lines

/-- `PythonBlock(text).statements` as (node index?, text) pieces. -/
def statements (t : FText) (nodes : List Node) : Except TextErr (List Piece) := do
  let ps ← splitCodeLines t nodes
  pure (normalize ps)

end Pfb.C10
