/-
  Pfb.C10.Lemmas — helper lemmas for the C10 property theorems.
-/
import Pfb.TextLemmas
import Pfb.C10.Model
namespace Pfb.C10
open Pfb

theorem lineAt_ok (t : FText) (j : Nat) (h1 : t.start.line ≤ j) (h2 : j - t.start.line < t.lines.length) :
    t.lineAt j = .ok (t.lines.getD (j - t.start.line) []) := by
  unfold FText.lineAt FText.lineIdx
  simp [show ¬ j < t.start.line by omega, h2, bind, Except.bind, pure, Except.pure]

/-- line `j` (text coordinates) of `t` -/
def lineOf (t : FText) (j : Nat) : Str := t.lines.getD (j - t.start.line) []

theorem scanBack_spec (t : FText) (lastLine k : Nat) (h0 : t.start.line ≤ lastLine)
    (hk : k < t.start.line + t.lines.length) :
    ∃ r, scanBack t lastLine k = .ok r ∧ r ≤ k ∧ (r = k ∨ lastLine < r) ∧
      (∀ j, r ≤ j → j < k → isCommentOrBlank (lineOf t j) = true) := by
  induction k with
  | zero => exact ⟨0, rfl, Nat.le_refl _, Or.inl rfl, by intro j _ h; omega⟩
  | succ k ih =>
    unfold scanBack
    by_cases hgt : k > lastLine
    · rw [if_pos hgt]
      rw [lineAt_ok t k (by omega) (by omega)]
      simp only [bind, Except.bind]
      by_cases hcb : isCommentOrBlank (t.lines.getD (k - t.start.line) []) = true
      · rw [if_pos hcb]
        rw [lineAt_ok t (k - 1) (by omega) (by omega)]
        simp only []
        split
        · obtain ⟨r, hr, hle, hor, hall⟩ := ih (by omega)
          refine ⟨r, hr, by omega, ?_, ?_⟩
          · rcases hor with h | h
            · right; omega
            · right; exact h
          · intro j hj1 hj2
            by_cases hjk : j = k
            · subst hjk; exact hcb
            · exact hall j hj1 (by omega)
        · exact ⟨k + 1, rfl, Nat.le_refl _, Or.inl rfl, by intro j h1 h2; omega⟩
      · rw [if_neg hcb]
        exact ⟨k + 1, rfl, Nat.le_refl _, Or.inl rfl, by intro j h1 h2; omega⟩
    · rw [if_neg hgt]
      exact ⟨k + 1, rfl, Nat.le_refl _, Or.inl rfl, by intro j h1 h2; omega⟩

theorem start_valid (t : FText) (hne : t.lines ≠ []) : Valid t t.start := by
  refine ⟨Nat.le_refl _, ?_, ?_, ?_⟩
  · simp; exact List.length_pos_iff.mpr hne
  · simp [FText.colOff]
  · simp [FText.colOff]

theorem off_start (t : FText) : t.off t.start = 0 := by
  simp [FText.off, FText.colOff, lcOff]

theorem endpos_valid (t : FText) (hne : t.lines ≠ []) : Valid t t.endpos := by
  have hpos : 0 < t.lines.length := List.length_pos_iff.mpr hne
  have hi : t.endpos.line - t.start.line = t.lines.length - 1 := by
    simp [FText.endpos]; omega
  refine ⟨by simp [FText.endpos]; omega, by rw [hi]; omega, ?_, ?_⟩
  · rw [hi]
    simp only [FText.endpos, FText.colOff]
    by_cases h1 : t.lines.length = 1
    · simp [h1]
    · rw [if_neg h1, if_neg (by omega)]; omega
  · rw [hi]
    have hlast : t.lines.getD (t.lines.length - 1) [] = t.lines.getLast?.getD [] := by
      rw [List.getLast?_eq_getElem?]; simp [List.getD]
    rw [hlast]
    simp only [FText.endpos, FText.colOff]
    by_cases h1 : t.lines.length = 1
    · simp [h1]
    · rw [if_neg h1, if_neg (by omega)]; omega

theorem off_endpos (t : FText) (hne : t.lines ≠ []) : t.off t.endpos = t.joined.length := by
  have hpos : 0 < t.lines.length := List.length_pos_iff.mpr hne
  have hi : t.endpos.line - t.start.line = t.lines.length - 1 := by
    simp [FText.endpos]; omega
  unfold FText.off FText.joined
  rw [hi, ← lcOff_end _ hne]
  congr 1
  simp only [FText.endpos, FText.colOff]
  by_cases h1 : t.lines.length = 1
  · simp [h1]
  · rw [if_neg h1, if_neg (by omega)]; omega

/-- a position at column 1 of a line after the first is valid -/
theorem col1_valid (t : FText) (ln : Nat) (h1 : t.start.line < ln) (h2 : ln - t.start.line < t.lines.length) :
    Valid t ⟨ln, 1⟩ := by
  refine ⟨by simp; omega, h2, ?_, ?_⟩
  · simp only [FText.colOff]; rw [if_neg (by omega)]; exact Nat.le_refl _
  · simp only [FText.colOff]; rw [if_neg (by omega)]; simp

theorem eofAdjust_spec (t : FText) (s nxt : Pos) (lastLine : Nat) (hne : t.lines ≠ [])
    (hs : t.start.line ≤ lastLine) (hsl : s.line ≤ lastLine) (vn : Valid t nxt) :
    ∃ e, eofAdjust t s lastLine nxt = .ok e ∧
      (e = nxt ∨ (e = ⟨nxt.line, 1⟩ ∧ lastLine < nxt.line ∧
        ((nxt = t.endpos ∧ isCommentOrBlank (lineOf t nxt.line) = true) ∨
         ((lineOf t nxt.line).take (nxt.col - 1)).all isWsFF = true))) := by
  unfold eofAdjust
  by_cases hc : nxt.col ≠ 1
  · rw [if_pos hc]
    by_cases he : nxt = t.endpos
    · rw [if_pos he]
      by_cases hl : nxt.line > lastLine
      · rw [if_neg (by omega)]
        rw [lineAt_ok t nxt.line vn.hl vn.hi]
        simp only [bind, Except.bind]
        by_cases hcb : isCommentOrBlank (t.lines.getD (nxt.line - t.start.line) []) = true
        · rw [if_pos hcb, if_neg (by omega)]
          have := vn.hi
          rw [lineAt_ok t (nxt.line - 1) (by omega) (by omega)]
          simp only []
          split
          · exact ⟨_, rfl, Or.inr ⟨rfl, hl, Or.inl ⟨he, hcb⟩⟩⟩
          · exact ⟨_, rfl, Or.inl rfl⟩
        · rw [if_neg hcb]; exact ⟨_, rfl, Or.inl rfl⟩
      · rw [if_pos hl]; exact ⟨_, rfl, Or.inl rfl⟩
    · rw [if_neg he]
      by_cases hl : nxt.line > lastLine
      · rw [if_pos hl]
        rw [lineAt_ok t nxt.line vn.hl vn.hi]
        simp only [bind, Except.bind]
        by_cases hw : ((t.lines.getD (nxt.line - t.start.line) []).take (nxt.col - 1)).all isWsFF = true
        · rw [if_pos hw]; exact ⟨_, rfl, Or.inr ⟨rfl, hl, Or.inr hw⟩⟩
        · rw [if_neg hw]; exact ⟨_, rfl, Or.inl rfl⟩
      · rw [if_neg hl]; exact ⟨_, rfl, Or.inl rfl⟩
  · rw [if_neg hc]; exact ⟨_, rfl, Or.inl rfl⟩

/-- Facts about the end position chosen for a node. -/
structure EndOK (t : FText) (s : Pos) (lastLine : Nat) (nxt e : Pos) : Prop where
  valid : Valid t e
  lt : s.lt e = true
  le : e.le nxt = true
  /-- if a non-code piece follows, it consists of whole comment/blank lines -/
  gap : e ≠ nxt → e.col = 1 ∧ lastLine < e.line ∧
        (∀ j, e.line ≤ j → j < nxt.line → isCommentOrBlank (lineOf t j) = true) ∧
        (nxt.col = 1 ∨ (nxt = t.endpos ∧ isCommentOrBlank (lineOf t nxt.line) = true) ∨
          (t.start.line < nxt.line ∧ ((lineOf t nxt.line).take (nxt.col - 1)).all isWsFF = true))

theorem nodeEnd_spec (t : FText) (s nxt : Pos) (endLine : Nat) (hne : t.lines ≠ [])
    (hcol : 1 ≤ t.start.col) (vs : Valid t s) (vn : Valid t nxt)
    (hlt : s.lt nxt = true) (hle : nxt.le t.endpos = true) :
    ∃ e, nodeEnd t s endLine nxt = .ok e ∧ EndOK t s (max s.line endLine) nxt e := by
  unfold nodeEnd
  simp only [hlt, hle, not_true_eq_false, if_false, bind, Except.bind, pure, Except.pure]
  have hsl := vs.hl
  obtain ⟨e1, he1, hor⟩ := eofAdjust_spec t s nxt (max s.line endLine) hne (by omega) (by omega) vn
  rw [he1]
  simp only []
  have hnl := vn.hl; have hni := vn.hi
  have hs_col : 1 ≤ s.col := by
    have := vs.hc; unfold FText.colOff at this; split at this <;> omega
  have hltp : s.line < nxt.line ∨ (s.line = nxt.line ∧ s.col < nxt.col) := by
    unfold Pos.lt at hlt; simpa using hlt
  rcases hor with rfl | ⟨rfl, hgt, hwhy⟩
  · -- no EOF adjustment
    by_cases hc1 : e1.col = 1
    · rw [if_pos hc1]
      obtain ⟨r, hr, hrle, hror, hall⟩ := scanBack_spec t (max s.line endLine) e1.line (by omega) (by omega)
      rw [hr]
      simp only []
      have hsline : s.line < e1.line := by
        rcases hltp with h | ⟨_, h⟩
        · exact h
        · omega
      have hr_gt : s.line < r := by
        rcases hror with h | h
        · omega
        · omega
      have hlt' : (s.lt ⟨r, 1⟩) = true := by unfold Pos.lt; simp; left; exact hr_gt
      have hle' : (Pos.le ⟨r, 1⟩ e1) = true := by
        unfold Pos.le; simp; rw [hc1]
        by_cases h : r < e1.line
        · left; exact h
        · right; omega
      rw [if_neg (by simp [hlt', hle'])]
      refine ⟨_, rfl, col1_valid t r (by omega) (by omega), hlt', hle', ?_⟩
      intro hneq
      have hr_ne : r ≠ e1.line := by
        intro h; apply hneq; cases e1; simp_all
      refine ⟨rfl, ?_, ?_, Or.inl hc1⟩
      · rcases hror with h | h
        · exact absurd h hr_ne
        · exact h
      · intro j h1 h2; exact hall j h1 h2
    · rw [if_neg hc1]
      have hle' : e1.le e1 = true := by unfold Pos.le; simp
      rw [if_neg (by simp [hlt, hle'])]
      exact ⟨_, rfl, vn, hlt, hle', fun h => absurd rfl h⟩
  · -- EOF adjustment: e1 = (nxt.line, 1)
    rw [if_pos rfl]
    simp only []
    obtain ⟨r, hr, hrle, hror, hall⟩ := scanBack_spec t (max s.line endLine) nxt.line (by omega) (by omega)
    rw [hr]
    simp only []
    have hr_gt : s.line < r := by
      rcases hror with h | h
      · omega
      · omega
    have hn_col : 1 ≤ nxt.col := by
      have := vn.hc; unfold FText.colOff at this; split at this <;> omega
    have hlt' : (s.lt ⟨r, 1⟩) = true := by unfold Pos.lt; simp; left; exact hr_gt
    have hle' : (Pos.le ⟨r, 1⟩ nxt) = true := by
      unfold Pos.le; simp
      by_cases h : r < nxt.line
      · left; exact h
      · right; exact ⟨by omega, hn_col⟩
    rw [if_neg (by simp [hlt', hle'])]
    refine ⟨_, rfl, col1_valid t r (by omega) (by omega), hlt', hle', ?_⟩
    intro _
    refine ⟨rfl, ?_, ?_, Or.inr (hwhy.imp id (fun h => ⟨by omega, h⟩))⟩
    · show max s.line endLine < r
      rcases hror with h | h
      · omega
      · exact h
    · intro j h1 h2; exact hall j h1 h2

end Pfb.C10
