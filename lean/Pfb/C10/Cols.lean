/-
  C10 — column arithmetic glue: `ast` reports `col_offset` as a UTF-8 *byte* offset within the line, `FilePos`
  columns count *characters*.  `pyflyby._parse._char_col_offset` converts:

      len(line.encode("utf-8")[:col_offset].decode("utf-8", "replace"))      (ASCII lines: identity)

  Model: `charCol line b`.  Theorems: for every line and every prefix `p` of it, the byte offset of the end of `p`
  converts to `p.length` (so a statement that starts after any mix of 1-, 2-, 3- and 4-byte characters is cut at
  the right character), conversion is monotone and never exceeds the line length, and on ASCII lines it is the
  identity.
-/
import Pfb.Basic
namespace Pfb.C10
open Pfb

/-- number of bytes of the UTF-8 encoding of a character -/
def utf8Width (c : Char) : Nat :=
  if c.val.toNat < 0x80 then 1 else if c.val.toNat < 0x800 then 2 else if c.val.toNat < 0x10000 then 3 else 4

def utf8Len : Str → Nat
  | [] => 0
  | c :: cs => utf8Width c + utf8Len cs

/-- characters obtained by decoding (with replacement) the first `b` bytes of the encoding of `line`;
    a cut inside a character yields one replacement character -/
def charCol : Str → Nat → Nat
  | [], _ => 0
  | c :: cs, b =>
    if b = 0 then 0
    else if b < utf8Width c then 1
    else 1 + charCol cs (b - utf8Width c)

theorem utf8Width_pos (c : Char) : 0 < utf8Width c := by
  unfold utf8Width; split <;> (try split) <;> (try split) <;> omega

theorem utf8Len_append (p s : Str) : utf8Len (p ++ s) = utf8Len p + utf8Len s := by
  induction p with
  | nil => simp [utf8Len]
  | cons c cs ih => simp [utf8Len, ih]; omega

/-- **C10_col_prefix.** the byte offset at which a prefix ends converts to the length of that prefix -/
theorem C10_col_prefix (p s : Str) : charCol (p ++ s) (utf8Len p) = p.length := by
  induction p with
  | nil => cases s <;> simp [charCol, utf8Len]
  | cons c cs ih =>
    have hw := utf8Width_pos c
    simp only [List.cons_append, charCol, utf8Len, List.length_cons]
    have h1 : ¬ (utf8Width c + utf8Len cs = 0) := by omega
    have h2 : ¬ (utf8Width c + utf8Len cs < utf8Width c) := by omega
    simp only [h1, h2, if_false]
    have : utf8Width c + utf8Len cs - utf8Width c = utf8Len cs := by omega
    rw [this, ih]; omega

/-- the conversion never exceeds the number of characters of the line -/
theorem C10_col_le_length (l : Str) (b : Nat) : charCol l b ≤ l.length := by
  induction l generalizing b with
  | nil => simp [charCol]
  | cons c cs ih =>
    simp only [charCol, List.length_cons]
    split
    · omega
    · split
      · omega
      · have := ih (b - utf8Width c); omega

/-- monotone in the byte offset -/
theorem C10_col_mono (l : Str) (a b : Nat) (h : a ≤ b) : charCol l a ≤ charCol l b := by
  induction l generalizing a b with
  | nil => simp [charCol]
  | cons c cs ih =>
    have hw := utf8Width_pos c
    simp only [charCol]
    by_cases ha0 : a = 0
    · simp [ha0]
    · have hb0 : ¬ b = 0 := by omega
      simp only [ha0, hb0, if_false]
      by_cases ha : a < utf8Width c
      · simp only [ha, if_true]
        by_cases hb : b < utf8Width c
        · simp [hb]
        · simp only [hb, if_false]; omega
      · have hb : ¬ b < utf8Width c := by omega
        simp only [ha, hb, if_false]
        have := ih (a - utf8Width c) (b - utf8Width c) (by omega)
        omega

def isAscii (l : Str) : Bool := l.all (fun c => c.val.toNat < 0x80)

/-- on an ASCII line byte offsets are character offsets -/
theorem C10_col_ascii (l : Str) (b : Nat) (ha : isAscii l = true) (hb : b ≤ l.length) : charCol l b = b := by
  induction l generalizing b with
  | nil => simp at hb; simp [charCol, hb]
  | cons c cs ih =>
    simp only [isAscii, List.all_cons, Bool.and_eq_true, decide_eq_true_eq] at ha
    have hw : utf8Width c = 1 := by
      have h1 := ha.1
      unfold utf8Width
      rw [if_pos h1]
    simp only [charCol, hw]
    by_cases hb0 : b = 0
    · simp [hb0]
    · have : ¬ b < 1 := by omega
      simp only [hb0, this, if_false]
      have hc : isAscii cs = true := by simpa [isAscii] using ha.2
      rw [ih (b - 1) hc (by simp at hb; omega)]; omega

/-- non-vacuity: a line mixing all four widths -/
example : charCol "aé中🎉; import os".toList (utf8Len "aé中🎉; ".toList) = 6 := by decide

end Pfb.C10
