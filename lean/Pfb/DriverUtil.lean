/-
  Pfb.DriverUtil — JSON line-protocol plumbing shared by the per-property
  drivers (`Driver/Cxx.lean`).  Part of the trusted base, not of the model.
-/
import Lean.Data.Json
import Pfb.Basic
namespace Pfb.Drv
open Lean

def jstr (j : Json) (k : String) : Except String String := j.getObjValAs? String k
def jnat (j : Json) (k : String) : Except String Nat := j.getObjValAs? Nat k
def jint (j : Json) (k : String) : Except String Int := j.getObjValAs? Int k
def jbool (j : Json) (k : String) : Except String Bool := j.getObjValAs? Bool k
def jarr (j : Json) (k : String) : Except String (Array Json) := do
  let v ← j.getObjVal? k
  v.getArr?
def jobj (j : Json) (k : String) : Except String Json := j.getObjVal? k
def jopt (j : Json) (k : String) : Option Json :=
  match j.getObjVal? k with
  | .ok .null => none
  | .ok v => some v
  | .error _ => none

def toStr (s : String) : Pfb.Str := s.toList
def ofStr (s : Pfb.Str) : String := String.ofList s

def jStrList (a : Array Json) : Except String (List Pfb.Str) :=
  a.toList.mapM fun j => do let s ← j.getStr?; pure (toStr s)

def jNatList (a : Array Json) : Except String (List Nat) :=
  a.toList.mapM fun j => j.getNat?

def strJ (s : Pfb.Str) : Json := Json.str (ofStr s)
def strsJ (l : List Pfb.Str) : Json := Json.arr (l.map strJ).toArray
def natJ (n : Nat) : Json := Json.num (JsonNumber.fromNat n)
def natsJ (l : List Nat) : Json := Json.arr (l.map natJ).toArray

/-- Run `handle` on each stdin line (one JSON object per line), one JSON line out. -/
partial def serve (handle : Json → Except String Json) : IO Unit := do
  let stdin ← IO.getStdin
  let stdout ← IO.getStdout
  let rec loop : IO Unit := do
    let line ← stdin.getLine
    if line.isEmpty then return ()
    let out := match Json.parse line with
      | .error e => Json.mkObj [("fatal", Json.str ("json: " ++ e))]
      | .ok j =>
        let id := (j.getObjVal? "id").toOption.getD Json.null
        match handle j with
        | .ok r => r.setObjVal! "id" id
        | .error e => Json.mkObj [("id", id), ("fatal", Json.str e)]
    stdout.putStrLn out.compress
    loop
  loop
  stdout.flush

end Pfb.Drv
