/-
  Pfb.Text — model of `FilePos` / `FileText` (lib/python/pyflyby/_file.py:238-662).
-/
import Pfb.Basic
namespace Pfb

/-- `FilePos`: 1-based (lineno, colno). -/
structure Pos where
  line : Nat
  col : Nat
deriving DecidableEq, Repr, Inhabited

/-- tuple order `(lineno, colno) < (lineno, colno)` -/
def Pos.lt (a b : Pos) : Bool := a.line < b.line || (a.line == b.line && a.col < b.col)
def Pos.le (a b : Pos) : Bool := a.line < b.line || (a.line == b.line && a.col ≤ b.col)

/-- `FilePos.__add__` with a (line, col) delta: column is reset on line movement. -/
def Pos.add (p : Pos) (dl dc : Nat) : Pos :=
  if dl = 0 then ⟨p.line, p.col + dc⟩ else ⟨p.line + dl, 1 + dc⟩

/-- `FileText`: lines (split on "\n", never empty) and a start position. -/
structure FText where
  lines : List Str
  start : Pos
deriving DecidableEq, Repr, Inhabited

inductive TextErr where
  | indexError      -- IndexError from _lineno_to_index / _colno_to_index
  | assertion       -- AssertionError
deriving DecidableEq, Repr

def FText.ofStr (s : Str) (start : Pos := ⟨1, 1⟩) : FText := ⟨splitNl s, start⟩

def FText.joined (t : FText) : Str := joinNl t.lines

/-- `FileText.endpos` -/
def FText.endpos (t : FText) : Pos :=
  let last := t.lines.getLast?.getD []
  ⟨t.start.line + t.lines.length - 1,
   if t.lines.length = 1 then t.start.col + last.length else 1 + last.length⟩

/-- `_lineno_to_index` -/
def FText.lineIdx (t : FText) (lineno : Nat) : Except TextErr Nat :=
  if lineno < t.start.line then .error .indexError
  else
    let i := lineno - t.start.line
    if i < t.lines.length then .ok i else .error .indexError

/-- `_colno_to_index` -/
def FText.colIdx (t : FText) (i : Nat) (colno : Nat) : Except TextErr Nat :=
  let coloff := if i = 0 then t.start.col else 1
  if colno < coloff then .error .indexError
  else
    let c := colno - coloff
    if c ≤ (t.lines.getD i []).length then .ok c else .error .indexError

/-- `text[lineno]` with an int argument -/
def FText.lineAt (t : FText) (lineno : Nat) : Except TextErr Str := do
  let i ← t.lineIdx lineno
  pure (t.lines.getD i [])

/-- The list manipulation at the heart of `FileText.__getitem__(slice)`:
    `lines[i1:i2+1]`, last clipped to `[:c2]`, first clipped to `[c1:]`
    (written as: keep lines up to `i2` with the last clipped, drop `i1` lines,
    clip the first). -/
def sliceLines (lines : List Str) (i1 c1 i2 c2 : Nat) : List Str :=
  match (lines.take i2 ++ [(lines.getD i2 []).take c2]).drop i1 with
  | [] => []
  | f :: r => f.drop c1 :: r

/-- `text[a:b]` with two `FilePos` arguments. -/
def FText.slice (t : FText) (a b : Pos) : Except TextErr FText := do
  let i1 ← t.lineIdx a.line
  let c1 ← t.colIdx i1 a.col
  let i2 ← t.lineIdx b.line
  let c2 ← t.colIdx i2 b.col
  if ¬ (i1 ≤ i2) then .error .assertion
  else if i1 = 0 ∧ c1 = 0 ∧ i2 = t.lines.length - 1 ∧ c2 = (t.lines.getLast?.getD []).length then
    pure t
  else
    let rs := sliceLines t.lines i1 c1 i2 c2
    let sp : Pos := ⟨i1 + t.start.line, if i1 = 0 then c1 + t.start.col else c1 + 1⟩
    pure ⟨rs, sp⟩

/-- `FileText.concatenate` (for ≥ 2 arguments; a single argument is returned as is). -/
def FText.concat : List FText → FText
  | [] => ⟨[[]], ⟨1, 1⟩⟩
  | [t] => t
  | t :: ts => ⟨splitNl ((t :: ts).map FText.joined).flatten, t.start⟩

/-! ### Offsets: position → index into `joined` -/

/-- character offset of (line index `i`, column index `c`) in `joinNl lines` -/
def lcOff : List Str → Nat → Nat → Nat
  | _, 0, c => c
  | [], _ + 1, c => c
  | l :: ls, i + 1, c => l.length + 1 + lcOff ls i c

theorem drop_len_add {α} (a b : List α) (n : Nat) : (a ++ b).drop (a.length + n) = b.drop n := by
  induction a with
  | nil => simp
  | cons x xs ih =>
    have : (x :: xs).length + n = (xs.length + n) + 1 := by simp; omega
    rw [this]; simpa using ih

theorem take_len_add {α} (a b : List α) (n : Nat) : (a ++ b).take (a.length + n) = a ++ b.take n := by
  induction a with
  | nil => simp
  | cons x xs ih =>
    have : (x :: xs).length + n = (xs.length + n) + 1 := by simp; omega
    rw [this]; simpa using ih

theorem lcOff_drop (lines : List Str) (i c : Nat) (hi : i < lines.length)
    (hc : c ≤ (lines.getD i []).length) :
    (joinNl lines).drop (lcOff lines i c) = joinNl ((lines.getD i []).drop c :: lines.drop (i + 1)) := by
  induction lines generalizing i with
  | nil => simp at hi
  | cons l ls ih =>
    cases i with
    | zero =>
      simp [lcOff] at hc ⊢
      cases ls with
      | nil => simp [joinNl]
      | cons a as =>
        simp only [joinNl_cons_cons]
        rw [List.drop_append_of_le_length hc]
    | succ j =>
      have hj : j < ls.length := by simpa using hi
      have hne : ls ≠ [] := by intro h; simp [h] at hj
      rw [joinNl_cons_ne _ _ hne]
      simp only [lcOff]
      have : l.length + 1 + lcOff ls j c = (l ++ ['\n']).length + lcOff ls j c := by simp
      rw [this]
      have h2 : l ++ '\n' :: joinNl ls = (l ++ ['\n']) ++ joinNl ls := by simp
      rw [h2, drop_len_add]
      simp at hc
      simpa using ih j hj (by simpa using hc)

theorem lcOff_take (lines : List Str) (i c : Nat) (hi : i < lines.length)
    (hc : c ≤ (lines.getD i []).length) :
    (joinNl lines).take (lcOff lines i c) = joinNl (lines.take i ++ [(lines.getD i []).take c]) := by
  induction lines generalizing i with
  | nil => simp at hi
  | cons l ls ih =>
    cases i with
    | zero =>
      simp [lcOff] at hc ⊢
      cases ls with
      | nil => simp [joinNl]
      | cons a as =>
        simp only [joinNl]
        rw [List.take_append_of_le_length hc]
    | succ j =>
      have hj : j < ls.length := by simpa using hi
      have hne : ls ≠ [] := by intro h; simp [h] at hj
      rw [joinNl_cons_ne _ _ hne]
      simp only [lcOff]
      have : l.length + 1 + lcOff ls j c = (l ++ ['\n']).length + lcOff ls j c := by simp
      rw [this]
      have h2 : l ++ '\n' :: joinNl ls = (l ++ ['\n']) ++ joinNl ls := by simp
      rw [h2, take_len_add]
      simp at hc
      have := ih j hj (by simpa using hc)
      rw [this]
      simp only [List.take_succ_cons, List.cons_append]
      rw [joinNl_cons_ne _ _ (by simp)]
      simp

theorem lcOff_congr (A B : List Str) (i c : Nat) (h : A.take i = B.take i)
    (ha : i ≤ A.length) (hb : i ≤ B.length) : lcOff A i c = lcOff B i c := by
  induction i generalizing A B with
  | zero => simp [lcOff]
  | succ j ih =>
    cases A with
    | nil => simp at ha
    | cons a as =>
      cases B with
      | nil => simp at hb
      | cons b bs =>
        simp at h ha hb
        simp only [lcOff]
        rw [h.1, ih as bs h.2 ha hb]

/-- Index-level statement of "a slice is the substring between the two offsets". -/
theorem sliceLines_joined (lines : List Str) (i1 c1 i2 c2 : Nat)
    (h2 : i2 < lines.length) (hc2 : c2 ≤ (lines.getD i2 []).length)
    (h12 : i1 ≤ i2) (hc1 : c1 ≤ (lines.getD i1 []).length)
    (hcc : i1 = i2 → c1 ≤ c2) :
    joinNl (sliceLines lines i1 c1 i2 c2)
      = ((joinNl lines).take (lcOff lines i2 c2)).drop (lcOff lines i1 c1) := by
  rw [lcOff_take lines i2 c2 h2 hc2]
  have hlen : (lines.take i2 ++ [(lines.getD i2 []).take c2]).length = i2 + 1 := by
    simp; omega
  have hoff : lcOff lines i1 c1 = lcOff (lines.take i2 ++ [(lines.getD i2 []).take c2]) i1 c1 := by
    apply lcOff_congr
    · rw [List.take_append_of_le_length (by simp; omega)]
      simp [List.take_take, Nat.min_eq_left h12]
    · omega
    · omega
  rw [hoff]
  have hget : c1 ≤ ((lines.take i2 ++ [(lines.getD i2 []).take c2]).getD i1 []).length := by
    by_cases he : i1 = i2
    · subst he
      have hl : (lines.take i1).length = i1 := by simp; omega
      simp [List.getD, hl]
      have := hcc rfl
      have h3 : c1 ≤ (lines[i1]?.getD []).length := by simpa [List.getD] using hc1
      omega
    · have hlt : i1 < i2 := by omega
      have : i1 < (lines.take i2).length := by simp; omega
      simp [List.getD, List.getElem?_append_left this, hlt]
      simpa [List.getD] using hc1
  rw [lcOff_drop _ i1 c1 (by omega) hget]
  unfold sliceLines
  have hi1 : i1 < (lines.take i2 ++ [(lines.getD i2 []).take c2]).length := by omega
  generalize (lines.take i2 ++ [(lines.getD i2 []).take c2]) = L at hi1 ⊢
  rw [List.drop_eq_getElem_cons hi1]
  simp [List.getD, List.getElem?_eq_getElem hi1]

end Pfb
