/-
  Pfb.C04.NoUnusedLeft — "tidy-imports leaves no unused import behind": the remove stage of tidy-imports reaches a fixed point
  after one pass (C04 "no never-read import remains", C03 idempotence of the remove stage), on the analysis model
  `Pfb.PyCore.findUnused` (tied to `scan_for_import_issues` by the C05 correspondence check, op `unused`).

  `dropUnused prog u` deletes the reported (line, alias index) imports from the program (what
  `SourceToSourceFileImportsTransformation.remove_import` does to the text).

  * `C04_no_unused_left_fragB` — for every `fx`, every program of fragment B (`D = false` and `D = true`: dotted imports, dotted
    reads, `__all__ = [...]`), every builtins namespace without `_UseChecker` values:
    `findUnused fx builtins (dropUnused prog (findUnused fx builtins prog)) = []`.
  * `witness_builtins_checker` — the hypothesis on the builtins namespace is needed (model artefact).
  * statement 3 (`findMissingFx` unchanged by the removal) is NOT proved; `witness_same_line`, `witness_registry_none` show the
    hypotheses it needs, see the end of the file.

  Proof: the analysis of the original program and of the reduced program run in lock step (`Sim`): `φ` maps the checkers
  (`_UseChecker`s) of the reduced program to those of the original one; a name bound to a kept checker in the original top
  scope is bound to its twin in the reduced one (`Rel.kept`), a twin is marked used whenever the original is (`Rel.twin`), and
  whatever the reduced program reports, the original program reports for the twin (`Rel.rep`, `Rel.owed`, `sim_scan`) — but the
  twins are exactly the imports that were NOT reported (`Sim.keptOK`).  The relation holds for every list `U` of deleted
  imports, so no hypothesis on line numbers is needed.
-/
import Pfb.C05.Unused
namespace Pfb.C04
open Pfb Pfb.PyCore Pfb.C05

/-! ### checkers of a module without conditional stores -/

def setUsed (cs : List Checker) (k : Nat) (b : Bool) : List Checker := cs.modify k (fun c => { c with used := b })

/-- no checker shadows anything and none is an anonymous carrier -/
def PlainCs (cs : List Checker) : Prop := ∀ (k : Nat) (c : Checker), cs[k]? = some c → c.shadowed = [] ∧ c.anon = false

/-- same checkers up to the `used` flags -/
def SameId (cs cs' : List Checker) : Prop :=
  cs'.length = cs.length ∧ ∀ (k : Nat) (c' : Checker), cs'[k]? = some c' → ∃ c : Checker, cs[k]? = some c ∧ c'.bind = c.bind ∧ c'.shadowed = c.shadowed ∧
    c'.anon = c.anon ∧ c'.line = c.line ∧ c'.idx = c.idx

theorem SameId.refl (cs : List Checker) : SameId cs cs := ⟨rfl, fun _ c h => ⟨c, h, rfl, rfl, rfl, rfl, rfl⟩⟩

theorem SameId.trans {a b c : List Checker} (h1 : SameId a b) (h2 : SameId b c) : SameId a c := by
  refine ⟨h2.1.trans h1.1, fun k z hz => ?_⟩
  obtain ⟨y, hy, e1, e2, e3, e4, e5⟩ := h2.2 k z hz
  obtain ⟨x, hx, f1, f2, f3, f4, f5⟩ := h1.2 k y hy
  exact ⟨x, hx, e1.trans f1, e2.trans f2, e3.trans f3, e4.trans f4, e5.trans f5⟩

theorem getElem?_setUsed (cs : List Checker) (k : Nat) (b : Bool) (j : Nat) :
    (setUsed cs k b)[j]? = if k = j then (cs[j]?).map (fun c => { c with used := b }) else cs[j]? := by
  unfold setUsed
  rw [List.getElem?_modify]
  by_cases h : k = j <;> simp [h]

theorem setUsed_sameId (cs : List Checker) (k : Nat) (b : Bool) : SameId cs (setUsed cs k b) := by
  refine ⟨by simp [setUsed], fun j c' hc' => ?_⟩
  rw [getElem?_setUsed] at hc'
  by_cases hkj : k = j
  · rw [if_pos hkj] at hc'
    cases hc : cs[j]? with
    | none => rw [hc] at hc'; simp at hc'
    | some c =>
      rw [hc] at hc'; simp only [Option.map_some, Option.some.injEq] at hc'
      subst hc'; exact ⟨c, rfl, rfl, rfl, rfl, rfl, rfl⟩
  · rw [if_neg hkj] at hc'; exact ⟨c', hc', rfl, rfl, rfl, rfl, rfl⟩

theorem SameId.back {cs cs' : List Checker} (h : SameId cs cs') {k : Nat} {c : Checker} (hc : cs[k]? = some c) :
    ∃ c', cs'[k]? = some c' := by
  have hk : k < cs'.length := by rw [h.1]; exact (List.getElem?_eq_some_iff.mp hc).1
  exact ⟨_, List.getElem?_eq_getElem hk⟩

theorem PlainCs.sameId {cs cs' : List Checker} (h : PlainCs cs) (s : SameId cs cs') : PlainCs cs' := by
  intro k c' hc'
  obtain ⟨c, hc, _, e2, e3, _, _⟩ := s.2 k c' hc'
  obtain ⟨p1, p2⟩ := h k c hc
  exact ⟨e2.trans p1, e3.trans p2⟩

theorem markUsed_plain {cs : List Checker} (h : PlainCs cs) (k : Nat) : markUsed cs k = setUsed cs k true := by
  unfold markUsed markRec setUsed
  cases hc : cs[k]? with
  | none =>
    simp only
    exact (modify_id_of cs k _ (fun a ha => by rw [hc] at ha; cases ha)).symm
  | some c =>
    simp only
    rw [(h k c hc).1]
    rfl

/-- the effect of a lookup on the checkers: the value found, if a checker, is marked -/
def markFound (cs : List Checker) : Option Val → List Checker
  | some (.obj k) => markUsed cs k
  | _ => cs

theorem markFound_sameId {cs : List Checker} (h : PlainCs cs) (f : Option Val) : SameId cs (markFound cs f) := by
  unfold markFound
  split
  · rw [markUsed_plain h]; exact setUsed_sameId ..
  · exact SameId.refl cs

/-- `used` flags only go up -/
def UsedMono (cs cs' : List Checker) : Prop := ∀ (k : Nat) (c c' : Checker), cs[k]? = some c → cs'[k]? = some c' → c.used = true → c'.used = true

theorem markFound_mono {cs : List Checker} (h : PlainCs cs) (f : Option Val) : UsedMono cs (markFound cs f) := by
  intro j c c' hc hc' hu
  unfold markFound at hc'
  split at hc'
  · rename_i k
    rw [markUsed_plain h, getElem?_setUsed] at hc'
    by_cases hkj : k = j
    · rw [if_pos hkj, hc] at hc'; simp only [Option.map_some, Option.some.injEq] at hc'; subst hc'; rfl
    · rw [if_neg hkj, hc] at hc'; cases hc'; exact hu
  · rw [hc] at hc'; cases hc'; exact hu

theorem markFound_at {cs : List Checker} (h : PlainCs cs) (k : Nat) {c' : Checker}
    (hc' : (markFound cs (some (.obj k)))[k]? = some c') : c'.used = true := by
  unfold markFound at hc'
  simp only at hc'
  rw [markUsed_plain h, getElem?_setUsed, if_pos rfl] at hc'
  cases hc : cs[k]? with
  | none => rw [hc] at hc'; simp at hc'
  | some c => rw [hc] at hc'; simp only [Option.map_some, Option.some.injEq] at hc'; subst hc'; rfl

/-- a lookup changes the flag of the found checker only -/
theorem markFound_other {cs : List Checker} (h : PlainCs cs) (f : Option Val) (j : Nat) (hj : f ≠ some (.obj j)) :
    (markFound cs f)[j]? = cs[j]? := by
  unfold markFound
  split
  · rename_i k
    rw [markUsed_plain h, getElem?_setUsed]
    have : k ≠ j := fun e => hj (by rw [e])
    rw [if_neg this]
  · rfl

/-! ### the relation between the analysis of a program and of the program without some of its imports -/

def Twin (c c' : Checker) : Prop := c'.bind = c.bind ∧ (c.used = true → c'.used = true)

/-- `φ[k'] = k`: the `k'`-th checker of the reduced program is the `k`-th of the original one.
    `to co uo` / `tn cn un`: top scope, checkers, reported checkers of the original / reduced program. -/
structure Rel (φ : List Nat) (to : Scope) (co : List Checker) (uo : List Nat) (tn : Scope) (cn : List Checker) (un : List Nat) :
    Prop where
  unb : ∀ q, to.get q = none → tn.get q = none
  kept : ∀ q k, to.get q = some (.obj k) → k ∈ φ → ∃ k', tn.get q = some (.obj k') ∧ φ[k']? = some k
  owed : ∀ (q : Str) (k' : Nat) (c' : Checker), tn.get q = some (.obj k') → cn[k']? = some c' → c'.bind = q → c'.used = false →
    ∃ k, φ[k']? = some k ∧ (to.get q = some (.obj k) ∨ k ∈ uo)
  twin : ∀ (k' k : Nat), φ[k']? = some k → ∃ c c' : Checker, co[k]? = some c ∧ cn[k']? = some c' ∧ Twin c c'
  len : φ.length = cn.length
  inj : ∀ (i j k : Nat), φ[i]? = some k → φ[j]? = some k → i = j
  rep : ∀ k' ∈ un, ∃ k, φ[k']? = some k ∧ k ∈ uo
  plainO : PlainCs co
  plainN : PlainCs cn
  validO : ∀ q k, to.get q = some (.obj k) → k < co.length
  validN : ∀ q k', tn.get q = some (.obj k') → k' < cn.length

/-- the `used` flags change (upwards in the reduced program), twins stay twins -/
theorem Rel.reflag {φ to co uo tn cn un} (r : Rel φ to co uo tn cn un) {co' cn' : List Checker}
    (so : SameId co co') (sn : SameId cn cn') (mn : UsedMono cn cn')
    (tw : ∀ (k' k : Nat) (c c' : Checker), φ[k']? = some k → co'[k]? = some c → cn'[k']? = some c' → c.used = true → c'.used = true) :
    Rel φ to co' uo tn cn' un := by
  refine ⟨r.unb, r.kept, ?_, ?_, by rw [sn.1]; exact r.len, r.inj, r.rep, r.plainO.sameId so, r.plainN.sameId sn,
    by rw [so.1]; exact r.validO, by rw [sn.1]; exact r.validN⟩
  · intro q k' c' hq hc' hb hu
    obtain ⟨c, hc, e1, _, _, _, _⟩ := sn.2 k' c' hc'
    have hcu : c.used = false := by
      cases h : c.used with
      | false => rfl
      | true => rw [mn k' c c' hc hc' h] at hu; cases hu
    exact r.owed q k' c hq hc (e1.symm.trans hb) hcu
  · intro k' k hk
    obtain ⟨c, c', hc, hc', ht⟩ := r.twin k' k hk
    obtain ⟨d, hd⟩ := so.back hc
    obtain ⟨d', hd'⟩ := sn.back hc'
    obtain ⟨c1, hc1, e1, _⟩ := so.2 k d hd
    obtain ⟨c2, hc2, f1, _⟩ := sn.2 k' d' hd'
    rw [hc] at hc1; cases hc1
    rw [hc'] at hc2; cases hc2
    exact ⟨d, d', hd, hd', by rw [f1, e1]; exact ht.1, tw k' k d d' hk hd hd'⟩

theorem findInScope_rel {φ to co uo tn cn un} (r : Rel φ to co uo tn cn un) (ps : List (List Str)) :
    (findInScope to ps = none → findInScope tn ps = none) ∧
    (∀ k, findInScope to ps = some (.obj k) → k ∈ φ → ∃ k', findInScope tn ps = some (.obj k') ∧ φ[k']? = some k) := by
  induction ps with
  | nil => exact ⟨fun _ => rfl, fun k h => by simp [findInScope] at h⟩
  | cons p rest ih =>
    simp only [findInScope]
    obtain ho | ⟨v, ho⟩ : to.get (joinDots p) = none ∨ ∃ v, to.get (joinDots p) = some v := by
      cases to.get (joinDots p) <;> simp
    · rw [ho, r.unb _ ho]
      exact ih
    · rw [ho]
      refine ⟨fun h => (by cases h), fun k hk hφ => ?_⟩
      simp only [Option.some.injEq] at hk
      subst hk
      obtain ⟨k', hk', hφ'⟩ := r.kept _ k ho hφ
      rw [hk']
      exact ⟨k', rfl, hφ'⟩

/-- the same lookup in both programs -/
theorem Rel.lookBoth {φ to co uo tn cn un} (r : Rel φ to co uo tn cn un) (ps : List (List Str)) :
    Rel φ to (markFound co (findInScope to ps)) uo tn (markFound cn (findInScope tn ps)) un := by
  refine r.reflag (markFound_sameId r.plainO _) (markFound_sameId r.plainN _) (markFound_mono r.plainN _) ?_
  intro k' k c c' hφ hc hc' hu
  by_cases hf : findInScope to ps = some (.obj k)
  · obtain ⟨k2, hk2, hφ2⟩ := (findInScope_rel r ps).2 k hf (List.mem_of_getElem? hφ)
    have := r.inj _ _ _ hφ hφ2
    subst this
    rw [hk2] at hc'
    exact markFound_at r.plainN k' hc'
  · rw [markFound_other r.plainO _ k hf] at hc
    obtain ⟨d, d', hd, hd', ht⟩ := r.twin k' k hφ
    rw [hc] at hd; cases hd
    exact markFound_mono r.plainN _ k' d' c' hd' hc' (ht.2 hu)

/-- a lookup in the reduced program only -/
theorem Rel.lookNew {φ to co uo tn cn un} (r : Rel φ to co uo tn cn un) (f : Option Val) :
    Rel φ to co uo tn (markFound cn f) un := by
  refine r.reflag (SameId.refl co) (markFound_sameId r.plainN _) (markFound_mono r.plainN _) ?_
  intro k' k c c' hφ hc hc' hu
  obtain ⟨d, d', hd, hd', ht⟩ := r.twin k' k hφ
  rw [hc] at hd; cases hd
  exact markFound_mono r.plainN _ k' d' c' hd' hc' (ht.2 hu)

/-- a lookup in the original program only, when what it finds is not a checker the reduced program has -/
theorem Rel.lookOrig {φ to co uo tn cn un} (r : Rel φ to co uo tn cn un) (f : Option Val)
    (hf : ∀ k, f = some (.obj k) → k ∉ φ) : Rel φ to (markFound co f) uo tn cn un := by
  refine r.reflag (markFound_sameId r.plainO _) (SameId.refl cn) (fun _ c c' h h' hu => by rw [h] at h'; cases h'; exact hu) ?_
  intro k' k c c' hφ hc hc' hu
  have hne : f ≠ some (.obj k) := fun e => hf k e (List.mem_of_getElem? hφ)
  rw [markFound_other r.plainO _ k hne] at hc
  obtain ⟨d, d', hd, hd', ht⟩ := r.twin k' k hφ
  rw [hc] at hd; cases hd
  rw [hc'] at hd'; cases hd'
  exact ht.2 hu

/-! ### stores -/

theorem mem_pendingOf_plain {cs : List Checker} (h : PlainCs cs) {key : Str} {old : Option Val} {j : Nat} :
    j ∈ pendingOf cs key old ↔ ∃ c : Checker, old = some (.obj j) ∧ cs[j]? = some c ∧ c.used = false ∧ c.bind = key := by
  unfold pendingOf
  cases old with
  | none => simp
  | some v =>
    cases v with
    | none => simp
    | obj k =>
      simp only
      cases hc : cs[k]? with
      | none =>
        simp only [List.not_mem_nil, false_iff]
        rintro ⟨c, h1, h2, _⟩
        simp only [Option.some.injEq, Val.obj.injEq] at h1
        subst h1; rw [hc] at h2; cases h2
      | some c =>
        simp only
        have hsh : unusedShadowed cs k = [] := by
          unfold unusedShadowed; rw [hc]; simp only; rw [(h k c hc).1]; rfl
        rw [hsh, List.nil_append]
        have hanon := (h k c hc).2
        constructor
        · intro hm
          split at hm
          · rename_i hcond
            simp only [List.mem_singleton] at hm
            subst hm
            simp only [Bool.and_eq_true, Bool.not_eq_true', nameIs, decide_eq_true_eq] at hcond
            exact ⟨c, rfl, hc, hcond.1, hcond.2.2⟩
          · simp at hm
        · rintro ⟨d, h1, h2, h3, h4⟩
          simp only [Option.some.injEq, Val.obj.injEq] at h1
          subst h1
          rw [hc] at h2; cases h2
          have : (!c.used && nameIs c key) = true := by simp [nameIs, h3, h4, hanon]
          rw [if_pos this]; simp

/-- the values stored by the same statement in both programs -/
def PairOK (φ : List Nat) (co cn : List Checker) (v v' : Val) : Prop :=
  (v = .none ∧ v' = .none) ∨ ∃ k k', v = .obj k ∧ v' = .obj k' ∧ φ[k']? = some k ∧ k < co.length ∧ k' < cn.length

theorem Rel.storeBoth {φ to co uo tn cn un} (r : Rel φ to co uo tn cn un) (q : Str) {v v' : Val} (hp : PairOK φ co cn v v') :
    Rel φ (to.set q v) co (uo ++ pendingOf co q (to.get q)) (tn.set q v') cn (un ++ pendingOf cn q (tn.get q)) := by
  refine ⟨?_, ?_, ?_, r.twin, r.len, r.inj, ?_, r.plainO, r.plainN, ?_, ?_⟩
  · intro q2 h
    by_cases e : q2 = q
    · subst e; rw [scope_get_set_eq] at h; cases h
    · rw [scope_get_set_ne _ e] at h ⊢; exact r.unb q2 h
  · intro q2 k h hφ
    by_cases e : q2 = q
    · subst e
      rw [scope_get_set_eq] at h ⊢
      rcases hp with ⟨rfl, _⟩ | ⟨k0, k0', rfl, rfl, h3, _, _⟩
      · cases h
      · simp only [Option.some.injEq, Val.obj.injEq] at h; subst h; exact ⟨k0', rfl, h3⟩
    · rw [scope_get_set_ne _ e] at h ⊢; exact r.kept q2 k h hφ
  · intro q2 k' c' h hc' hb hu
    by_cases e : q2 = q
    · subst e
      rw [scope_get_set_eq] at h ⊢
      rcases hp with ⟨_, rfl⟩ | ⟨k0, k0', rfl, rfl, h3, _, _⟩
      · cases h
      · simp only [Option.some.injEq, Val.obj.injEq] at h; subst h; exact ⟨k0, h3, .inl rfl⟩
    · rw [scope_get_set_ne _ e] at h ⊢
      obtain ⟨k, h1, h2⟩ := r.owed q2 k' c' h hc' hb hu
      exact ⟨k, h1, h2.imp id (fun x => List.mem_append_left _ x)⟩
  · intro k' hk'
    rcases List.mem_append.mp hk' with h | h
    · obtain ⟨k, h1, h2⟩ := r.rep k' h; exact ⟨k, h1, List.mem_append_left _ h2⟩
    · obtain ⟨c', h1, h2, h3, h4⟩ := (mem_pendingOf_plain r.plainN).mp h
      obtain ⟨k, e1, e2⟩ := r.owed q k' c' h1 h2 h4 h3
      refine ⟨k, e1, ?_⟩
      rcases e2 with e2 | e2
      · obtain ⟨c, d', hc, hd', ht⟩ := r.twin k' k e1
        rw [h2] at hd'; cases hd'
        have hcu : c.used = false := by
          cases hh : c.used with
          | false => rfl
          | true => rw [ht.2 hh] at h3; cases h3
        exact List.mem_append_right _ ((mem_pendingOf_plain r.plainO).mpr ⟨c, e2, hc, hcu, ht.1.symm.trans h4⟩)
      · exact List.mem_append_left _ e2
  · intro q2 k h
    by_cases e : q2 = q
    · subst e; rw [scope_get_set_eq] at h
      rcases hp with ⟨rfl, _⟩ | ⟨k0, k0', rfl, rfl, _, h4, _⟩
      · cases h
      · simp only [Option.some.injEq, Val.obj.injEq] at h; subst h; exact h4
    · rw [scope_get_set_ne _ e] at h; exact r.validO q2 k h
  · intro q2 k h
    by_cases e : q2 = q
    · subst e; rw [scope_get_set_eq] at h
      rcases hp with ⟨_, rfl⟩ | ⟨k0, k0', rfl, rfl, _, _, h5⟩
      · cases h
      · simp only [Option.some.injEq, Val.obj.injEq] at h; subst h; exact h5
    · rw [scope_get_set_ne _ e] at h; exact r.validN q2 k h

/-- a store that only the original program has -/
theorem Rel.storeOrig {φ to co uo tn cn un} (r : Rel φ to co uo tn cn un) (q : Str) {v : Val}
    (hv : v = .none ∨ ∃ k, v = .obj k ∧ k ∉ φ ∧ k < co.length) :
    Rel φ (to.set q v) co (uo ++ pendingOf co q (to.get q)) tn cn un := by
  refine ⟨?_, ?_, ?_, r.twin, r.len, r.inj, ?_, r.plainO, r.plainN, ?_, r.validN⟩
  · intro q2 h
    by_cases e : q2 = q
    · subst e; rw [scope_get_set_eq] at h; cases h
    · rw [scope_get_set_ne _ e] at h; exact r.unb q2 h
  · intro q2 k h hφ
    by_cases e : q2 = q
    · subst e
      rw [scope_get_set_eq] at h
      rcases hv with rfl | ⟨k0, rfl, h2, _⟩
      · cases h
      · simp only [Option.some.injEq, Val.obj.injEq] at h; subst h; exact absurd hφ h2
    · rw [scope_get_set_ne _ e] at h; exact r.kept q2 k h hφ
  · intro q2 k' c' h hc' hb hu
    obtain ⟨k, h1, h2⟩ := r.owed q2 k' c' h hc' hb hu
    refine ⟨k, h1, ?_⟩
    rcases h2 with h2 | h2
    · by_cases e : q2 = q
      · subst e
        right
        obtain ⟨c, d', hc, hd', ht⟩ := r.twin k' k h1
        rw [hc'] at hd'; cases hd'
        have hcu : c.used = false := by
          cases hh : c.used with
          | false => rfl
          | true => rw [ht.2 hh] at hu; cases hu
        exact List.mem_append_right _ ((mem_pendingOf_plain r.plainO).mpr ⟨c, h2, hc, hcu, ht.1.symm.trans hb⟩)
      · left; rw [scope_get_set_ne _ e]; exact h2
    · exact .inr (List.mem_append_left _ h2)
  · intro k' hk'
    obtain ⟨k, h1, h2⟩ := r.rep k' hk'; exact ⟨k, h1, List.mem_append_left _ h2⟩
  · intro q2 k h
    by_cases e : q2 = q
    · subst e; rw [scope_get_set_eq] at h
      rcases hv with rfl | ⟨k0, rfl, _, h3⟩
      · cases h
      · simp only [Option.some.injEq, Val.obj.injEq] at h; subst h; exact h3
    · rw [scope_get_set_ne _ e] at h; exact r.validO q2 k h

/-! ### new checkers, and the reset at the end of an import -/

def freshChecker (bind : Str) (line idx : Nat) : Checker := { bind := bind, line := line, idx := idx }

theorem PlainCs.append {cs : List Checker} (h : PlainCs cs) (b : Str) (l i : Nat) : PlainCs (cs ++ [freshChecker b l i]) := by
  intro k c hc
  by_cases hk : k < cs.length
  · rw [List.getElem?_append_left hk] at hc; exact h k c hc
  · have hk' : cs.length ≤ k := Nat.le_of_not_lt hk
    rw [List.getElem?_append_right hk'] at hc
    cases hd : k - cs.length with
    | zero => rw [hd] at hc; simp only [List.getElem?_cons_zero, Option.some.injEq] at hc; subst hc; exact ⟨rfl, rfl⟩
    | succ n => rw [hd] at hc; simp at hc

theorem getElem?_append_some {α} {l : List α} {k : Nat} {a : α} (x : α) (h : l[k]? = some a) : (l ++ [x])[k]? = some a := by
  rw [List.getElem?_append_left (List.getElem?_eq_some_iff.mp h).1]; exact h

theorem Rel.appendBoth {φ to co uo tn cn un} (r : Rel φ to co uo tn cn un) (b : Str) (l i l' i' : Nat) :
    Rel (φ ++ [co.length]) to (co ++ [freshChecker b l i]) uo tn (cn ++ [freshChecker b l' i']) un := by
  have lift : ∀ {k' k : Nat}, φ[k']? = some k → (φ ++ [co.length])[k']? = some k := fun h => getElem?_append_some _ h
  have hlt : ∀ {k' k : Nat}, φ[k']? = some k → k < co.length := by
    intro k' k h
    obtain ⟨c, _, hc, _, _⟩ := r.twin k' k h
    exact (List.getElem?_eq_some_iff.mp hc).1
  have split : ∀ {k' k : Nat}, (φ ++ [co.length])[k']? = some k → φ[k']? = some k ∨ (k' = cn.length ∧ k = co.length) := by
    intro k' k h
    by_cases hk : k' < φ.length
    · rw [List.getElem?_append_left hk] at h; exact .inl h
    · have hk' : φ.length ≤ k' := Nat.le_of_not_lt hk
      rw [List.getElem?_append_right hk'] at h
      cases hd : k' - φ.length with
      | zero =>
        rw [hd] at h; simp only [List.getElem?_cons_zero, Option.some.injEq] at h
        exact .inr ⟨by have := r.len; omega, h.symm⟩
      | succ n => rw [hd] at h; simp at h
  refine ⟨r.unb, ?_, ?_, ?_, by simp [r.len], ?_, ?_, r.plainO.append _ _ _, r.plainN.append _ _ _, ?_, ?_⟩
  · intro q k h hφ
    rcases List.mem_append.mp hφ with hφ | hφ
    · obtain ⟨k', h1, h2⟩ := r.kept q k h hφ; exact ⟨k', h1, lift h2⟩
    · simp only [List.mem_singleton] at hφ; subst hφ
      exact absurd (r.validO q _ h) (Nat.lt_irrefl _)
  · intro q k' c' h hc' hb hu
    have hk := r.validN q k' h
    rw [List.getElem?_append_left hk] at hc'
    obtain ⟨k, h1, h2⟩ := r.owed q k' c' h hc' hb hu
    exact ⟨k, lift h1, h2⟩
  · intro k' k h
    rcases split h with h | ⟨rfl, rfl⟩
    · obtain ⟨c, c', hc, hc', ht⟩ := r.twin k' k h
      exact ⟨c, c', getElem?_append_some _ hc, getElem?_append_some _ hc', ht⟩
    · exact ⟨_, _, getElem?_append_new co _, getElem?_append_new cn _, rfl, fun x => x⟩
  · intro a b' k ha hb
    rcases split ha with ha | ⟨rfl, rfl⟩ <;> rcases split hb with hb | ⟨rfl, hb2⟩
    · exact r.inj a b' k ha hb
    · have := hlt ha; omega
    · have := hlt hb; omega
    · rfl
  · intro k' hk'
    obtain ⟨k, h1, h2⟩ := r.rep k' hk'; exact ⟨k, lift h1, h2⟩
  · intro q k h
    have := r.validO q k h
    simp only [List.length_append, List.length_cons, List.length_nil]; omega
  · intro q k h
    have := r.validN q k h
    simp only [List.length_append, List.length_cons, List.length_nil]; omega

theorem Rel.appendOrig {φ to co uo tn cn un} (r : Rel φ to co uo tn cn un) (b : Str) (l i : Nat) :
    Rel φ to (co ++ [freshChecker b l i]) uo tn cn un := by
  refine ⟨r.unb, r.kept, r.owed, ?_, r.len, r.inj, r.rep, r.plainO.append _ _ _, r.plainN, ?_, r.validN⟩
  · intro k' k h
    obtain ⟨c, c', hc, hc', ht⟩ := r.twin k' k h
    exact ⟨c, c', getElem?_append_some _ hc, hc', ht⟩
  · intro q k h
    have := r.validO q k h
    simp only [List.length_append, List.length_cons, List.length_nil]; omega

theorem Rel.lt_of_mem {φ to co uo tn cn un} (r : Rel φ to co uo tn cn un) {k : Nat} (h : k ∈ φ) : k < co.length := by
  obtain ⟨k', hk'⟩ := List.getElem?_of_mem h
  obtain ⟨c, _, hc, _, _⟩ := r.twin k' k hk'
  exact (List.getElem?_eq_some_iff.mp hc).1

theorem Rel.resetBoth {φ to co uo tn cn un} (r : Rel φ to co uo tn cn un) {k k' : Nat} (hφ : φ[k']? = some k)
    (hq : ∀ q, tn.get q = some (.obj k') → to.get q = some (.obj k)) :
    Rel φ to (setUsed co k false) uo tn (setUsed cn k' false) un := by
  have so := setUsed_sameId co k false
  have sn := setUsed_sameId cn k' false
  refine ⟨r.unb, r.kept, ?_, ?_, by rw [sn.1]; exact r.len, r.inj, r.rep, r.plainO.sameId so, r.plainN.sameId sn,
    by rw [so.1]; exact r.validO, by rw [sn.1]; exact r.validN⟩
  · intro q j' d h hd hb hu
    by_cases e : k' = j'
    · subst e; exact ⟨k, hφ, .inl (hq q h)⟩
    · rw [getElem?_setUsed, if_neg e] at hd
      exact r.owed q j' d h hd hb hu
  · intro j' j hj
    obtain ⟨c, c', hc, hc', ht⟩ := r.twin j' j hj
    by_cases e : k = j
    · subst e
      have := r.inj _ _ _ hφ hj
      subst this
      refine ⟨{ c with used := false }, { c' with used := false }, ?_, ?_, ht.1, fun x => by cases x⟩
      · rw [getElem?_setUsed, if_pos rfl, hc]; rfl
      · rw [getElem?_setUsed, if_pos rfl, hc']; rfl
    · have e' : k' ≠ j' := by
        intro x; subst x; rw [hφ] at hj; cases hj; exact e rfl
      refine ⟨c, c', ?_, ?_, ht⟩
      · rw [getElem?_setUsed, if_neg e]; exact hc
      · rw [getElem?_setUsed, if_neg e']; exact hc'

theorem Rel.resetOrig {φ to co uo tn cn un} (r : Rel φ to co uo tn cn un) {k : Nat} (hk : k ∉ φ) :
    Rel φ to (setUsed co k false) uo tn cn un := by
  have so := setUsed_sameId co k false
  refine ⟨r.unb, r.kept, r.owed, ?_, r.len, r.inj, r.rep, r.plainO.sameId so, r.plainN, by rw [so.1]; exact r.validO, r.validN⟩
  intro j' j hj
  obtain ⟨c, c', hc, hc', ht⟩ := r.twin j' j hj
  have e : k ≠ j := fun x => hk (by rw [x]; exact List.mem_of_getElem? hj)
  exact ⟨c, c', by rw [getElem?_setUsed, if_neg e]; exact hc, hc', ht⟩

/-- a lookup in the original program only, when what it finds is not a checker of the reduced program, or one that is
    already marked there -/
theorem Rel.lookOrig' {φ to co uo tn cn un} (r : Rel φ to co uo tn cn un) (f : Option Val)
    (hf : ∀ k, f = some (.obj k) → k ∉ φ ∨ ∃ (k' : Nat) (c' : Checker), φ[k']? = some k ∧ cn[k']? = some c' ∧ c'.used = true) :
    Rel φ to (markFound co f) uo tn cn un := by
  refine r.reflag (markFound_sameId r.plainO _) (SameId.refl cn) (fun _ c c' h h' hu => by rw [h] at h'; cases h'; exact hu) ?_
  intro k' k c c' hφ hc hc' hu
  by_cases hfk : f = some (.obj k)
  · rcases hf k hfk with h | ⟨k2, c2, h1, h2, h3⟩
    · exact absurd (List.mem_of_getElem? hφ) h
    · have := r.inj _ _ _ hφ h1
      subst this
      rw [hc'] at h2; cases h2; exact h3
  · rw [markFound_other r.plainO _ k hfk] at hc
    obtain ⟨d, d', hd, hd', ht⟩ := r.twin k' k hφ
    rw [hc] at hd; cases hd
    rw [hc'] at hd'; cases hd'
    exact ht.2 hu

/-- the checkers after a sequence of lookups -/
def marksOf (top : Scope) (cs : List Checker) (names : List Str) : List Checker :=
  names.foldl (fun cs n => markFound cs (findInScope top (prefixesRev (splitDots n)))) cs

theorem marksOf_facts (top : Scope) : ∀ (names : List Str) (cs : List Checker), PlainCs cs →
    SameId cs (marksOf top cs names) ∧ UsedMono cs (marksOf top cs names) ∧
    ∀ n ∈ names, ∀ k, findInScope top (prefixesRev (splitDots n)) = some (.obj k) →
      ∀ c', (marksOf top cs names)[k]? = some c' → c'.used = true
  | [], cs, _ => ⟨SameId.refl cs, fun _ c c' h h' hu => by rw [show marksOf top cs [] = cs from rfl, h] at h'; cases h'; exact hu,
      fun n hn => by simp at hn⟩
  | n :: r, cs, h => by
    have s1 := markFound_sameId h (findInScope top (prefixesRev (splitDots n)))
    have m1 := markFound_mono h (findInScope top (prefixesRev (splitDots n)))
    obtain ⟨s2, m2, f2⟩ := marksOf_facts top r _ (h.sameId s1)
    refine ⟨s1.trans s2, ?_, ?_⟩
    · intro k c c' hc hc' hu
      obtain ⟨d, hd⟩ := s1.back hc
      exact m2 k d c' hd hc' (m1 k c d hc hd hu)
    · intro m hm k hf c' hc'
      rcases List.mem_cons.mp hm with rfl | hm
      · obtain ⟨c0, hc0, _⟩ := (s1.trans s2).2 k c' hc'
        obtain ⟨d, hd⟩ := s1.back hc0
        have hdu : d.used = true := by rw [hf] at hd; exact markFound_at h k hd
        exact m2 k d c' hd hc' hdu
      · exact f2 m hm k hf c' hc'

theorem Rel.marksNew {φ to co uo tn un} : ∀ (names : List Str) {cn : List Checker}, Rel φ to co uo tn cn un →
    Rel φ to co uo tn (marksOf tn cn names) un
  | [], _, r => r
  | _ :: rest, _, r => Rel.marksNew rest (r.lookNew _)

theorem Rel.marksOrig {φ to uo tn cn un} : ∀ (names : List Str) {co : List Checker}, Rel φ to co uo tn cn un →
    (∀ n ∈ names, ∀ k, findInScope to (prefixesRev (splitDots n)) = some (.obj k) →
      k ∉ φ ∨ ∃ (k' : Nat) (c' : Checker), φ[k']? = some k ∧ cn[k']? = some c' ∧ c'.used = true) →
    Rel φ to (marksOf to co names) uo tn cn un
  | [], _, r, _ => r
  | n :: rest, _, r, hf => Rel.marksOrig rest (r.lookOrig' _ (hf n (List.mem_cons_self ..)))
      (fun m hm => hf m (List.mem_cons_of_mem _ hm))


/-! ### the unused-import analysis at module level of a program without conditional statements and functions -/

structure Shape (u : UState) : Prop where
  stack : u.stack.ids = [0, 1, 3, 4]
  len : 5 ≤ u.heap.length
  inFunc : u.inFunc = false
  cond : u.cond = 0
  dn : u.deferredNames = []
  outer : ∀ i, i ≠ 4 → ∀ (q : Str) (k : Nat), (u.heap.get i).get q ≠ some (.obj k)
  defIds : ∀ e ∈ u.deferred ++ u.useMarks, e.2 = [0, 1, 3, 4]
  nodup : KeysNodup (u.heap.get 4).items

theorem Shape.top {u : UState} (h : Shape u) : u.stack.top = 4 := by unfold StackRef.top; rw [h.stack]; rfl

theorem Shape.checkers {u : UState} (h : Shape u) (cs : List Checker) : Shape { u with checkers := cs } :=
  ⟨h.stack, h.len, h.inFunc, h.cond, h.dn, h.outer, h.defIds, h.nodup⟩

theorem findBinding_outer {heap : Heap} {parts : List Str} {l : List Nat}
    (hl : ∀ i ∈ l, ∀ (q : Str) (k : Nat), (heap.get i).get q ≠ some (.obj k)) (k : Nat) :
    findBinding heap parts l ≠ some (.obj k) := by
  intro h
  obtain ⟨i, hi, key, hk⟩ := findBinding_some h
  exact hl i hi key k hk

theorem sniU_top {u : UState} (h : Shape u) (d : Str) :
    (sniU u u.stack.ids d).2 = { u with checkers := markFound u.checkers (findInScope (topScope u) (prefixesRev (splitDots d))) } := by
  unfold sniU
  rw [h.stack]
  have : (normIds [0, 1, 3, 4]).reverse = [4, 3, 1, 0] := by decide
  rw [this]
  have e : findBinding u.heap (splitDots d) [4, 3, 1, 0] =
      match findInScope (u.heap.get 4) (prefixesRev (splitDots d)) with
      | some v => some v
      | none => findBinding u.heap (splitDots d) [3, 1, 0] := rfl
  rw [e]
  unfold topScope
  cases hf : findInScope (u.heap.get 4) (prefixesRev (splitDots d)) with
  | some v =>
    simp only
    cases v <;> rfl
  | none =>
    simp only
    have ho := findBinding_outer (heap := u.heap) (parts := splitDots d) (l := [3, 1, 0])
      (fun i hi => h.outer i (by simp at hi; omega))
    generalize findBinding u.heap (splitDots d) [3, 1, 0] = g at ho ⊢
    cases g with
    | none => rfl
    | some v =>
      cases v with
      | none => rfl
      | obj k => exact absurd rfl (ho k)

/-- a sequence of lookups at module level -/
def looks (u : UState) (names : List Str) : UState := names.foldl (fun st n => (sniU st st.stack.ids n).2) u

theorem looks_cons (u : UState) (n : Str) (r : List Str) : looks u (n :: r) = looks (sniU u u.stack.ids n).2 r := rfl

theorem looks_facts : ∀ (names : List Str) (u : UState), Shape u →
    Shape (looks u names) ∧ topScope (looks u names) = topScope u ∧ (looks u names).unused = u.unused ∧
    (looks u names).line = u.line ∧ (looks u names).heap = u.heap ∧ (looks u names).allMark = u.allMark ∧
    (looks u names).dnOn = u.dnOn ∧ SameId u.checkers (looks u names).checkers
  | [], u, h => ⟨h, rfl, rfl, rfl, rfl, rfl, rfl, SameId.refl _⟩
  | n :: r, u, h => by
    rw [looks_cons, sniU_top h]
    obtain ⟨a, b, c, d, e, f, g, i⟩ := looks_facts r { u with checkers := markFound u.checkers (findInScope (topScope u) (prefixesRev (splitDots n))) } (h.checkers _)
    exact ⟨a, b, c, d, e, f, g, SameId.trans (by
      show SameId u.checkers (markFound u.checkers _)
      unfold markFound
      split
      · exact ⟨(markUsed_rel _ _).1, fun k c' hc' => by
          obtain ⟨c, hc, e1, e2, e3, _, e5, e6⟩ := (markUsed_rel _ _).get hc'
          exact ⟨c, hc, e1.symm, e6.symm, e5.symm, e2.symm, e3.symm⟩⟩
      · exact SameId.refl _) i⟩

theorem runOpsU_loads (names : List Str) : ∀ (u : UState), Shape u → runOpsU u (names.map Op.load) = looks u names := by
  induction names with
  | nil => intro u _; rfl
  | cons n r ih =>
    intro u h
    have h1 : Shape (sniU u u.stack.ids n).2 := by rw [sniU_top h]; exact h.checkers _
    show runOpsU (stepU u (.load n)) (r.map Op.load) = _
    have : stepU u (.load n) = (sniU u u.stack.ids n).2 := by simp [stepU, h.inFunc]
    rw [this, ih _ h1, looks_cons]

/-- what a step leaves alone: the namespaces below the top scope, the `__all__` option, the deferred lookups -/
structure Frame (u u' : UState) : Prop where
  outer : ∀ i, i ≠ 4 → u'.heap.get i = u.heap.get i
  am : u'.allMark = u.allMark
  defer : u'.deferred = u.deferred
  marks : u'.useMarks = u.useMarks

theorem Frame.refl (u : UState) : Frame u u := ⟨fun _ _ => rfl, rfl, rfl, rfl⟩

theorem Frame.trans {a b c : UState} (h1 : Frame a b) (h2 : Frame b c) : Frame a c :=
  ⟨fun i hi => (h2.outer i hi).trans (h1.outer i hi), h2.am.trans h1.am, h2.defer.trans h1.defer, h2.marks.trans h1.marks⟩

theorem frame_checkers (u : UState) (cs : List Checker) : Frame u { u with checkers := cs } := ⟨fun _ _ => rfl, rfl, rfl, rfl⟩

theorem frame_looks : ∀ (names : List Str) (u : UState), Shape u → Frame u (looks u names)
  | [], u, _ => Frame.refl u
  | n :: r, u, h => by
    rw [looks_cons, sniU_top h]
    exact Frame.trans (frame_checkers u _) (frame_looks r _ (h.checkers _))

/-- the names `_visit_Store` looks up before storing a dotted key -/
def ancestors (key : Str) : List Str := ((prefixes (splitDots key)).dropLast).map joinDots

theorem lookupAncestors_eq (u : UState) (key : Str) : lookupAncestors u key = looks u (ancestors key) := by
  unfold lookupAncestors looks ancestors
  rw [List.foldl_map]

theorem heap_top_set (u : UState) (h : Shape u) (key : Str) (v : Val) :
    topScope (writeTop u key v) = (topScope u).set key v := by
  unfold writeTop topScope
  show (u.heap.update u.stack.top (·.set key v)).get 4 = _
  rw [h.top, Heap.get_update]
  have : 4 < u.heap.length := h.len
  simp [this]

theorem Shape.writeTop {u : UState} (h : Shape u) (key : Str) (v : Val) : Shape (writeTop u key v) := by
  refine ⟨h.stack, by simp [PyCore.writeTop, Heap.length_update]; exact h.len, h.inFunc, h.cond, h.dn, ?_, h.defIds, ?_⟩
  rotate_left
  · have := heap_top_set u h key v
    unfold topScope at this
    rw [this]
    exact KeysNodup.assocSet key v h.nodup
  intro i hi q k
  show ((u.heap.update u.stack.top (·.set key v)).get i).get q ≠ _
  rw [h.top, Heap.get_update]
  simp only [hi, false_and, if_false]
  exact h.outer i hi q k

/-- `_visit_Store` at module level: the ancestors are looked up, an unused import stored under its own name is reported -/
theorem storeU_eq {u : UState} (h : Shape u) (key : Str) (v : Val) :
    storeU u key v =
      writeTop { looks u (ancestors key) with
        unused := (looks u (ancestors key)).unused ++
          pendingOf (looks u (ancestors key)).checkers key ((topScope (looks u (ancestors key))).get key) } key v := by
  obtain ⟨h1, _, _⟩ := looks_facts (ancestors key) u h
  unfold storeU
  rw [lookupAncestors_eq]
  have hsh : shadowing (looks u (ancestors key)) key = false := by
    unfold shadowing; rw [h1.cond, h1.dn]; simp
  simp only [hsh, Bool.false_eq_true, if_false]
  unfold topScope
  rw [h1.top]

theorem Shape.unused {u : UState} (h : Shape u) (l : List Nat) : Shape { u with unused := l } :=
  ⟨h.stack, h.len, h.inFunc, h.cond, h.dn, h.outer, h.defIds, h.nodup⟩

theorem storeU_facts {u : UState} (h : Shape u) (key : Str) (v : Val) :
    Shape (storeU u key v) ∧ topScope (storeU u key v) = (topScope u).set key v ∧
    SameId u.checkers (storeU u key v).checkers ∧ (storeU u key v).line = u.line ∧
    (storeU u key v).allMark = u.allMark ∧ (storeU u key v).dnOn = u.dnOn := by
  obtain ⟨h1, h2, _, h4, _, h6, h7, h8⟩ := looks_facts (ancestors key) u h
  rw [storeU_eq h]
  refine ⟨(h1.unused _).writeTop key v, ?_, h8, h4, h6, h7⟩
  rw [heap_top_set _ (h1.unused _)]
  show (topScope (looks u (ancestors key))).set key v = _
  rw [h2]

theorem frame_store {u : UState} (h : Shape u) (key : Str) (v : Val) : Frame u (storeU u key v) := by
  obtain ⟨h1, _⟩ := looks_facts (ancestors key) u h
  rw [storeU_eq h]
  refine Frame.trans (frame_looks (ancestors key) u h) ⟨?_, rfl, rfl, rfl⟩
  intro i hi
  show (Heap.update _ _ _).get i = _
  rw [h1.top, Heap.get_update]
  simp [hi]

theorem frame_fold {v : Val} : ∀ (keys : List Str) {u : UState}, Shape u →
    Frame u (keys.foldl (fun st key => storeU st key v) u) ∧ Shape (keys.foldl (fun st key => storeU st key v) u)
  | [], u, h => ⟨Frame.refl u, h⟩
  | key :: r, u, h => by
    simp only [List.foldl_cons]
    obtain ⟨a, b⟩ := frame_fold r (storeU_facts h key v).1
    exact ⟨(frame_store h key v).trans a, b⟩

theorem frame_alias {u : UState} (h : Shape u) (keys : List Str) (b : Str) (idx : Nat) (plain : Bool) :
    Frame u (stepU u (.importAlias keys b idx plain)) := by
  cases plain with
  | true => exact (frame_fold keys h).1
  | false =>
    have h1 : Shape { u with checkers := u.checkers ++ [{ bind := b, line := u.line, idx := idx }] } := h.checkers _
    obtain ⟨a, _⟩ := frame_fold (v := .obj u.checkers.length) keys h1
    exact Frame.trans (Frame.trans (frame_checkers u _) a) (frame_checkers _ _)

/-- the part of the relation between the two analyses that concerns `__all__` -/
structure Ext (uo un : UState) : Prop where
  am : un.allMark = uo.allMark
  outerEq : ∀ i, i ≠ 4 → un.heap.get i = uo.heap.get i
  defSub : ∀ e ∈ uo.deferred ++ uo.useMarks, ∃ e' ∈ un.deferred ++ un.useMarks, e'.1 = e.1

theorem Ext.frame {uo un uo' un' : UState} (e : Ext uo un) (fo : Frame uo uo') (fn : Frame un un') : Ext uo' un' :=
  ⟨by rw [fn.am, fo.am]; exact e.am, fun i hi => by rw [fn.outer i hi, fo.outer i hi]; exact e.outerEq i hi,
   by rw [fo.defer, fo.marks, fn.defer, fn.marks]; exact e.defSub⟩

/-! ### the two analyses in lock step -/

/-- `uo`: state of the analysis of the original program, `un`: of the program without the imports listed in `U` -/
structure Sim (U : List (Nat × Nat)) (φ : List Nat) (uo un : UState) : Prop where
  so : Shape uo
  sn : Shape un
  rel : Rel φ (topScope uo) uo.checkers uo.unused (topScope un) un.checkers un.unused
  keptOK : ∀ k ∈ φ, ∃ c : Checker, uo.checkers[k]? = some c ∧ (c.line, c.idx) ∉ U
  ext : Ext uo un

theorem keptOK_sameId {U : List (Nat × Nat)} {φ : List Nat} {cs cs' : List Checker} (s : SameId cs cs')
    (h : ∀ k ∈ φ, ∃ c : Checker, cs[k]? = some c ∧ (c.line, c.idx) ∉ U) :
    ∀ k ∈ φ, ∃ c : Checker, cs'[k]? = some c ∧ (c.line, c.idx) ∉ U := by
  intro k hk
  obtain ⟨c, hc, hn⟩ := h k hk
  obtain ⟨c', hc'⟩ := s.back hc
  obtain ⟨c2, hc2, _, _, _, e4, e5⟩ := s.2 k c' hc'
  rw [hc] at hc2; cases hc2
  exact ⟨c', hc', by rw [e4, e5]; exact hn⟩

theorem Sim.looksBoth {U φ} : ∀ (names : List Str) {uo un : UState}, Sim U φ uo un → Sim U φ (looks uo names) (looks un names)
  | [], _, _, s => s
  | n :: r, uo, un, s => by
    rw [looks_cons, looks_cons, sniU_top s.so, sniU_top s.sn]
    have hst : (splitDots n) = (splitDots n) := rfl
    exact Sim.looksBoth r ⟨s.so.checkers _, s.sn.checkers _, s.rel.lookBoth _,
      keptOK_sameId (markFound_sameId s.rel.plainO _) s.keptOK,
      s.ext.frame (frame_checkers _ _) (frame_checkers _ _)⟩

theorem Sim.looksOrig {U φ} {un : UState} : ∀ (names : List Str) {uo : UState}, Sim U φ uo un →
    (∀ n ∈ names, ∀ k, findInScope (topScope uo) (prefixesRev (splitDots n)) = some (.obj k) → k ∉ φ) →
    Sim U φ (looks uo names) un
  | [], _, s, _ => s
  | n :: r, uo, s, hf => by
    rw [looks_cons, sniU_top s.so]
    exact Sim.looksOrig r ⟨s.so.checkers _, s.sn, s.rel.lookOrig _ (hf n (List.mem_cons_self ..)),
      keptOK_sameId (markFound_sameId s.rel.plainO _) s.keptOK,
      s.ext.frame (frame_checkers _ _) (Frame.refl _)⟩ (fun m hm => hf m (List.mem_cons_of_mem _ hm))

theorem PairOK.sameId {φ : List Nat} {co cn co' cn' : List Checker} {v v' : Val} (h : PairOK φ co cn v v')
    (so : SameId co co') (sn : SameId cn cn') : PairOK φ co' cn' v v' := by
  rcases h with h | ⟨k, k', a, b, c, d, e⟩
  · exact .inl h
  · exact .inr ⟨k, k', a, b, c, by rw [so.1]; exact d, by rw [sn.1]; exact e⟩

theorem Sim.storeBoth {U φ} {uo un : UState} (s : Sim U φ uo un) (key : Str) {v v' : Val}
    (hp : PairOK φ uo.checkers un.checkers v v') : Sim U φ (storeU uo key v) (storeU un key v') := by
  obtain ⟨ho1, _, _, _, _, _, _, ho8⟩ := looks_facts (ancestors key) uo s.so
  obtain ⟨hn1, _, _, _, _, _, _, hn8⟩ := looks_facts (ancestors key) un s.sn
  have s1 := s.looksBoth (ancestors key)
  have hp1 := hp.sameId ho8 hn8
  have r := s1.rel.storeBoth key hp1
  have hext := s.ext.frame (frame_store s.so key v) (frame_store s.sn key v')
  rw [storeU_eq s.so, storeU_eq s.sn] at hext ⊢
  refine ⟨(ho1.unused _).writeTop key v, (hn1.unused _).writeTop key v', ?_, s1.keptOK, hext⟩
  rw [heap_top_set _ (ho1.unused _), heap_top_set _ (hn1.unused _)]
  exact r

theorem Sim.storeOrig {U φ} {uo un : UState} (s : Sim U φ uo un) (key : Str) {v : Val}
    (hv : v = .none ∨ ∃ k, v = .obj k ∧ k ∉ φ ∧ k < uo.checkers.length)
    (hanc : ∀ n ∈ ancestors key, ∀ k, findInScope (topScope uo) (prefixesRev (splitDots n)) = some (.obj k) → k ∉ φ) :
    Sim U φ (storeU uo key v) un := by
  obtain ⟨ho1, _, _, _, _, _, _, ho8⟩ := looks_facts (ancestors key) uo s.so
  have s1 := s.looksOrig (ancestors key) hanc
  have hv1 : v = .none ∨ ∃ k, v = .obj k ∧ k ∉ φ ∧ k < (looks uo (ancestors key)).checkers.length := by
    rcases hv with h | ⟨k, a, b, c⟩
    · exact .inl h
    · exact .inr ⟨k, a, b, by rw [ho8.1]; exact c⟩
  have r := s1.rel.storeOrig key hv1
  have hext := s.ext.frame (frame_store s.so key v) (Frame.refl un)
  rw [storeU_eq s.so] at hext ⊢
  refine ⟨(ho1.unused _).writeTop key v, s.sn, ?_, s1.keptOK, hext⟩
  rw [heap_top_set _ (ho1.unused _)]
  exact r

theorem findInScope_self (top : Scope) (d : Str) (v : Val) (h : top.get d = some v) :
    findInScope top (prefixesRev (splitDots d)) = some v := by
  unfold prefixesRev
  rw [prefixes_last _ (splitDots_ne_nil d), List.reverse_append]
  simp only [List.reverse_cons, List.reverse_nil, List.nil_append, List.cons_append, findInScope, joinDots_splitDots, h]

/-- the stores of one import alias that only the original program has -/
theorem Sim.foldOrig {U φ} {un : UState} (v : Val) (hk : ∀ k, v = .obj k → k ∉ φ) : ∀ (rest done : List Str) {uo : UState}, Sim U φ uo un →
    (∀ k, v = .obj k → k < uo.checkers.length) → (∀ q ∈ done, (topScope uo).get q = some v) →
    (∀ pre key post, rest = pre ++ key :: post → ∀ n ∈ ancestors key, n ∈ done ++ pre) →
    Sim U φ (rest.foldl (fun st key => storeU st key v) uo) un ∧
      SameId uo.checkers (rest.foldl (fun st key => storeU st key v) uo).checkers ∧
      (rest.foldl (fun st key => storeU st key v) uo).line = uo.line
  | [], _, _, s, _, _, _ => ⟨s, SameId.refl _, rfl⟩
  | key :: post, done, uo, s, hlt, hdone, hch => by
    simp only [List.foldl_cons]
    obtain ⟨f1, f2, f3, f4, f5, f6⟩ := storeU_facts s.so key v
    have s1 : Sim U φ (storeU uo key v) un := by
      refine s.storeOrig key ?_ ?_
      · cases v with
        | none => exact .inl rfl
        | obj k => exact .inr ⟨k, rfl, hk k rfl, hlt k rfl⟩
      · intro n hn k2 hf
        have hmem := hch [] key post rfl n hn
        rw [List.append_nil] at hmem
        rw [findInScope_self _ n _ (hdone n hmem)] at hf
        simp only [Option.some.injEq] at hf
        exact hk k2 hf
    obtain ⟨g1, g2, g3⟩ := Sim.foldOrig v hk post (done ++ [key]) s1 (fun k e => by rw [f3.1]; exact hlt k e) (by
      intro q hq
      rw [f2]
      by_cases e : q = key
      · subst e; exact scope_get_set_eq ..
      · rw [scope_get_set_ne _ e]
        rcases List.mem_append.mp hq with hq | hq
        · exact hdone q hq
        · simp only [List.mem_singleton] at hq; exact absurd hq e) (by
      intro pre key2 post2 he n hn
      have := hch (key :: pre) key2 post2 (by rw [he]; rfl) n hn
      simp only [List.append_assoc, List.singleton_append]
      exact this)
    exact ⟨g1, f3.trans g2, g3.trans f4⟩

/-- the stores of one import alias that both programs have -/
theorem Sim.foldBoth {U φ} {v v' : Val} (J : Scope → Scope → Prop)
    (hJ : ∀ (a b : Scope) (q : Str), J a b → J (a.set q v) (b.set q v')) :
    ∀ (keys : List Str) {uo un : UState}, Sim U φ uo un → PairOK φ uo.checkers un.checkers v v' → J (topScope uo) (topScope un) →
    Sim U φ (keys.foldl (fun st key => storeU st key v) uo) (keys.foldl (fun st key => storeU st key v') un) ∧
      J (topScope (keys.foldl (fun st key => storeU st key v) uo)) (topScope (keys.foldl (fun st key => storeU st key v') un)) ∧
      SameId uo.checkers (keys.foldl (fun st key => storeU st key v) uo).checkers ∧
      SameId un.checkers (keys.foldl (fun st key => storeU st key v') un).checkers ∧
      (keys.foldl (fun st key => storeU st key v) uo).line = uo.line ∧
      (keys.foldl (fun st key => storeU st key v) uo).allMark = uo.allMark ∧
      (keys.foldl (fun st key => storeU st key v) uo).dnOn = uo.dnOn ∧
      (keys.foldl (fun st key => storeU st key v') un).line = un.line ∧
      (keys.foldl (fun st key => storeU st key v') un).allMark = un.allMark ∧
      (keys.foldl (fun st key => storeU st key v') un).dnOn = un.dnOn
  | [], _, _, s, _, j => ⟨s, j, SameId.refl _, SameId.refl _, rfl, rfl, rfl, rfl, rfl, rfl⟩
  | key :: rest, uo, un, s, hp, j => by
    simp only [List.foldl_cons]
    obtain ⟨f1, f2, f3, f4, f5, f6⟩ := storeU_facts s.so key v
    obtain ⟨e1, e2, e3, e4, e5, e6⟩ := storeU_facts s.sn key v'
    obtain ⟨g1, g2, g3, g4, g5, g6, g7, g8, g9, g10⟩ := Sim.foldBoth J hJ rest (s.storeBoth key hp) (hp.sameId f3 e3)
      (by rw [f2, e2]; exact hJ _ _ key j)
    exact ⟨g1, g2, f3.trans g3, e3.trans g4, g5.trans f4, g6.trans f5, g7.trans f6, g8.trans e4, g9.trans e5, g10.trans e6⟩


/-! ### the keys of an import alias: each key's ancestors are the keys before it -/

theorem prefixes_ne_nil' : ∀ {ps : List Str}, ps ≠ [] → prefixes ps ≠ []
  | [], h => absurd rfl h
  | _ :: _, _ => by simp [prefixes]

theorem prefixes_mem_ne_nil {ps p : List Str} (h : p ∈ prefixes ps) : p ≠ [] := by
  obtain ⟨x, r, r', _, h2⟩ := prefixes_head h
  rw [h2]; simp

theorem prefixes_chain : ∀ (ps : List Str) (A : List (List Str)) (P : List Str) (B : List (List Str)),
    prefixes ps = A ++ P :: B → (prefixes P).dropLast = A
  | [], A, P, B, h => by simp [prefixes] at h
  | x :: r, [], P, B, h => by
    simp only [prefixes, List.nil_append, List.cons.injEq] at h
    rw [← h.1]; simp [prefixes]
  | x :: r, a0 :: A', P, B, h => by
    simp only [prefixes, List.cons_append, List.cons.injEq] at h
    obtain ⟨h0, h1⟩ := h
    obtain ⟨A2, Q, e1, e2, e3⟩ := List.map_eq_append_iff.mp h1
    obtain ⟨P', B', e4, e5, e6⟩ := List.map_eq_cons_iff.mp e3
    have ih := prefixes_chain r A2 P' B' (by rw [e1, e4])
    have hP' : P' ∈ prefixes r := by rw [e1, e4]; simp
    have hne : (prefixes P').map (fun y => x :: y) ≠ [] := by
      simp only [ne_eq, List.map_eq_nil_iff]; exact prefixes_ne_nil' (prefixes_mem_ne_nil hP')
    rw [← e5]
    show ([x] :: (prefixes P').map (fun y => x :: y)).dropLast = a0 :: A'
    rw [List.dropLast_cons_of_ne_nil hne, ← List.map_dropLast, ih, ← h0, e2]

/-- every ancestor of a key was stored before the key -/
def ChainOK (keys : List Str) : Prop := ∀ pre key post, keys = pre ++ key :: post → ∀ n ∈ ancestors key, n ∈ pre

theorem chainOK_keysOf {a : Alias} (hparts : ∀ p ∈ splitDots a.name, simpleName p = true)
    (has : ∀ n, a.asname = some n → simpleName n = true) : ChainOK (keysOf a) ∧ a.name ≠ ['*'] := by
  have hstar : a.name ≠ ['*'] := by
    intro hc
    have h1 : splitDots a.name = [['*']] := by rw [hc]; decide
    have := hparts ['*'] (by rw [h1]; simp)
    exact absurd this (by decide)
  refine ⟨?_, hstar⟩
  cases hasn : a.asname with
  | some n =>
    have hk : keysOf a = [n] := by simp [keysOf, hasn]
    rw [hk]
    intro pre key post he m hm
    have hkey : key = n := by
      cases pre with
      | nil => simp only [List.nil_append, List.cons.injEq] at he; exact he.1.symm
      | cons p pre' =>
        simp only [List.cons_append, List.cons.injEq] at he
        have := he.2; simp at this
    subst hkey
    unfold ancestors at hm
    rw [prefixes_simple (has _ hasn)] at hm
    simp at hm
  | none =>
    rw [keysOf_noAs hasn hstar]
    intro pre key post he m hm
    obtain ⟨A, Q, e1, e2, e3⟩ := List.map_eq_append_iff.mp he
    obtain ⟨P, B, e4, e5, e6⟩ := List.map_eq_cons_iff.mp e3
    have hP : P ∈ prefixes (splitDots a.name) := by rw [e1, e4]; simp
    have hch := prefixes_chain _ A P B (by rw [e1, e4])
    have hsd : splitDots (joinDots P) = P :=
      splitDots_joinDots P (prefixes_mem_ne_nil hP) (fun y hy => simpleName_dotFree (hparts y (prefixes_sub hP y hy)))
    unfold ancestors at hm
    rw [← e5, hsd, hch] at hm
    rw [← e2]; exact hm

/-! ### one import alias -/

theorem resetUsed_plain {cs : List Checker} (h : PlainCs cs) (k : Nat) : resetUsed cs k = setUsed cs k false := by
  unfold resetUsed
  show (match (setUsed cs k false)[k]? with
    | some c => c.shadowed.foldl (fun (cs : List Checker) j => cs.modify j (fun d => { d with used := false })) (setUsed cs k false)
    | none => setUsed cs k false) = _
  cases hc : (setUsed cs k false)[k]? with
  | none => rfl
  | some c =>
    simp only
    rw [((h.sameId (setUsed_sameId cs k false)) k c hc).1]; rfl

theorem Shape.line {u : UState} (h : Shape u) (l : Nat) : Shape { u with line := l } :=
  ⟨h.stack, h.len, h.inFunc, h.cond, h.dn, h.outer, h.defIds, h.nodup⟩

theorem stepU_alias (u : UState) (keys : List Str) (b : Str) (idx : Nat) :
    stepU u (.importAlias keys b idx false) =
      { keys.foldl (fun st key => storeU st key (.obj u.checkers.length)) { u with checkers := u.checkers ++ [freshChecker b u.line idx] } with
        checkers := resetUsed (keys.foldl (fun st key => storeU st key (.obj u.checkers.length))
          { u with checkers := u.checkers ++ [freshChecker b u.line idx] }).checkers u.checkers.length } := rfl

theorem stepU_plain (u : UState) (keys : List Str) (b : Str) (idx : Nat) :
    stepU u (.importAlias keys b idx true) = keys.foldl (fun st key => storeU st key .none) u := rfl

theorem Sim.aliasOrig {U φ} {uo un : UState} (s : Sim U φ uo un) (keys : List Str) (b : Str) (idx : Nat) (plain : Bool)
    (hch : ChainOK keys) :
    Sim U φ (stepU uo (.importAlias keys b idx plain)) un ∧ (stepU uo (.importAlias keys b idx plain)).line = uo.line := by
  cases plain with
  | true =>
    rw [stepU_plain]
    obtain ⟨g1, _, g3⟩ := Sim.foldOrig (U := U) (φ := φ) (un := un) .none (fun k e => by cases e) keys [] s (fun k e => by cases e)
      (fun q hq => by simp at hq) (fun pre key post he n hn => by simpa using hch pre key post he n hn)
    exact ⟨g1, g3⟩
  | false =>
    rw [stepU_alias]
    have hk : uo.checkers.length ∉ φ := fun hm => Nat.lt_irrefl _ (s.rel.lt_of_mem hm)
    have s1 : Sim U φ { uo with checkers := uo.checkers ++ [freshChecker b uo.line idx] } un :=
      ⟨s.so.checkers _, s.sn, s.rel.appendOrig b uo.line idx, fun k hk' => by
        obtain ⟨c, hc, hn⟩ := s.keptOK k hk'
        exact ⟨c, getElem?_append_some _ hc, hn⟩, s.ext.frame (frame_checkers _ _) (Frame.refl _)⟩
    obtain ⟨g1, g2, g3⟩ := Sim.foldOrig (U := U) (φ := φ) (un := un) (.obj uo.checkers.length)
      (fun k e => by cases e; exact hk) keys [] s1
      (fun k e => by cases e; simp) (fun q hq => by simp at hq)
      (fun pre key post he n hn => by simpa using hch pre key post he n hn)
    refine ⟨⟨g1.so.checkers _, s.sn, ?_, ?_, g1.ext.frame (frame_checkers _ _) (Frame.refl _)⟩, g3⟩
    · show Rel φ _ (resetUsed _ _) _ _ _ _
      rw [resetUsed_plain g1.rel.plainO]
      exact g1.rel.resetOrig hk
    · show ∀ k ∈ φ, ∃ c : Checker, (resetUsed _ _)[k]? = some c ∧ _
      rw [resetUsed_plain g1.rel.plainO]
      exact keptOK_sameId (setUsed_sameId _ _ _) g1.keptOK

theorem Sim.aliasBoth {U φ} {uo un : UState} (s : Sim U φ uo un) (keys : List Str) (b : Str) (idx idx' : Nat) (plain : Bool)
    (hU : (uo.line, idx) ∉ U) :
    (∃ φ', Sim U φ' (stepU uo (.importAlias keys b idx plain)) (stepU un (.importAlias keys b idx' plain))) ∧
      (stepU uo (.importAlias keys b idx plain)).line = uo.line := by
  cases plain with
  | true =>
    rw [stepU_plain, stepU_plain]
    obtain ⟨g1, _, _, _, g5, _⟩ := Sim.foldBoth (U := U) (φ := φ) (v := .none) (v' := .none) (fun _ _ => True) (fun _ _ _ _ => trivial)
      keys s (.inl ⟨rfl, rfl⟩) trivial
    exact ⟨⟨φ, g1⟩, g5⟩
  | false =>
    rw [stepU_alias, stepU_alias]
    have hlen := s.rel.len
    have s1 : Sim U (φ ++ [uo.checkers.length]) { uo with checkers := uo.checkers ++ [freshChecker b uo.line idx] }
        { un with checkers := un.checkers ++ [freshChecker b un.line idx'] } :=
      ⟨s.so.checkers _, s.sn.checkers _, s.rel.appendBoth b uo.line idx un.line idx', fun k hk' => by
        rcases List.mem_append.mp hk' with hk' | hk'
        · obtain ⟨c, hc, hn⟩ := s.keptOK k hk'
          exact ⟨c, getElem?_append_some _ hc, hn⟩
        · simp only [List.mem_singleton] at hk'; subst hk'
          exact ⟨_, getElem?_append_new _ _, hU⟩, s.ext.frame (frame_checkers _ _) (frame_checkers _ _)⟩
    have hφ : (φ ++ [uo.checkers.length])[un.checkers.length]? = some uo.checkers.length := by
      rw [← hlen]; exact getElem?_append_new _ _
    obtain ⟨g1, g2, g3, g4, g5, _⟩ := Sim.foldBoth (U := U) (φ := φ ++ [uo.checkers.length])
      (v := .obj uo.checkers.length) (v' := .obj un.checkers.length)
      (fun a b => ∀ q, b.get q = some (.obj un.checkers.length) → a.get q = some (.obj uo.checkers.length))
      (fun a b q j q2 h => by
        by_cases e : q2 = q
        · subst e; exact scope_get_set_eq ..
        · rw [scope_get_set_ne _ e] at h ⊢; exact j q2 h)
      keys s1 (.inr ⟨_, _, rfl, rfl, hφ, by simp, by simp⟩)
      (fun q h => absurd (s.rel.validN q _ h) (Nat.lt_irrefl _))
    refine ⟨⟨φ ++ [uo.checkers.length], g1.so.checkers _, g1.sn.checkers _, ?_, ?_, g1.ext.frame (frame_checkers _ _) (frame_checkers _ _)⟩, g5⟩
    · show Rel _ _ (resetUsed _ _) _ _ (resetUsed _ _) _
      rw [resetUsed_plain g1.rel.plainO, resetUsed_plain g1.rel.plainN]
      exact g1.rel.resetBoth hφ g2
    · show ∀ k ∈ _, ∃ c : Checker, (resetUsed _ _)[k]? = some c ∧ _
      rw [resetUsed_plain g1.rel.plainO]
      exact keptOK_sameId (setUsed_sameId _ _ _) g1.keptOK


/-! ### `__all__ = [...]` and the deferred lookups -/

theorem looks_checkers : ∀ (names : List Str) (u : UState), Shape u →
    (looks u names).checkers = marksOf (topScope u) u.checkers names
  | [], _, _ => rfl
  | n :: r, u, h => by
    rw [looks_cons, sniU_top h, looks_checkers r _ (h.checkers _)]
    rfl

theorem findBinding_congr {h1 h2 : Heap} (parts : List Str) : ∀ (l : List Nat), (∀ i ∈ l, h1.get i = h2.get i) →
    findBinding h1 parts l = findBinding h2 parts l
  | [], _ => rfl
  | i :: r, h => by
    simp only [findBinding]
    rw [h i (List.mem_cons_self ..), findBinding_congr parts r (fun j hj => h j (List.mem_cons_of_mem _ hj))]

theorem sniU_fst {u : UState} (h : Shape u) (d : Str) :
    (sniU u u.stack.ids d).1 = true ↔
      findInScope (topScope u) (prefixesRev (splitDots d)) = none ∧ findBinding u.heap (splitDots d) [3, 1, 0] = none := by
  unfold sniU
  rw [h.stack]
  have : (normIds [0, 1, 3, 4]).reverse = [4, 3, 1, 0] := by decide
  rw [this]
  have e : findBinding u.heap (splitDots d) [4, 3, 1, 0] =
      match findInScope (u.heap.get 4) (prefixesRev (splitDots d)) with
      | some v => some v
      | none => findBinding u.heap (splitDots d) [3, 1, 0] := rfl
  rw [e]
  unfold topScope
  cases findInScope (u.heap.get 4) (prefixesRev (splitDots d)) with
  | some v => simp
  | none =>
    simp only [true_and]
    cases findBinding u.heap (splitDots d) [3, 1, 0] <;> simp

/-- `_visit__all__` for one name -/
def allStep (st : UState) (n : Str) : UState :=
  let r := sniU st st.stack.ids n
  if r.1 then { r.2 with deferred := r.2.deferred ++ [(n, r.2.stack.ids)] }
  else if r.2.allMark then { r.2 with useMarks := r.2.useMarks ++ [(n, r.2.stack.ids)] } else r.2

theorem stepU_allNames (u : UState) (h : u.inFunc = false) (names : List Str) :
    stepU u (.allNames names) = names.foldl allStep u := by
  simp only [stepU, h, Bool.false_eq_true, if_false]
  rfl

theorem Shape.defer {u : UState} (h : Shape u) (cs : List Checker) (d m : List (Str × List Nat)) (hd : ∀ e ∈ d ++ m, e.2 = [0, 1, 3, 4]) :
    Shape { u with checkers := cs, deferred := u.deferred ++ d, useMarks := u.useMarks ++ m } := by
  refine ⟨h.stack, h.len, h.inFunc, h.cond, h.dn, h.outer, ?_, h.nodup⟩
  intro e he
  simp only [List.mem_append] at he
  rcases he with (he | he) | (he | he)
  · exact h.defIds e (List.mem_append_left _ he)
  · exact hd e (List.mem_append_left _ he)
  · exact h.defIds e (List.mem_append_right _ he)
  · exact hd e (List.mem_append_right _ he)

/-- the shape of one `_visit__all__` step: a lookup, then the name joins one of the two lists (or none) -/
theorem allStep_eq {u : UState} (h : Shape u) (n : Str) :
    ∃ d m : List (Str × List Nat),
      allStep u n = { u with checkers := markFound u.checkers (findInScope (topScope u) (prefixesRev (splitDots n))),
                             deferred := u.deferred ++ d, useMarks := u.useMarks ++ m } ∧
      (∀ e ∈ d ++ m, e = (n, [0, 1, 3, 4])) ∧
      (((sniU u u.stack.ids n).1 = true ∨ u.allMark = true) → d ++ m = [(n, [0, 1, 3, 4])]) := by
  unfold allStep
  simp only
  rw [sniU_top h]
  simp only [h.stack]
  by_cases h1 : (sniU u [0, 1, 3, 4] n).1 = true
  · rw [if_pos h1]
    exact ⟨[(n, [0, 1, 3, 4])], [], by simp, by simp, fun _ => by simp⟩
  · rw [if_neg h1]
    by_cases h2 : u.allMark = true
    · rw [if_pos h2]
      exact ⟨[], [(n, [0, 1, 3, 4])], by simp, by simp, fun _ => by simp⟩
    · rw [if_neg h2]
      refine ⟨[], [], by simp, by simp, fun hc => ?_⟩
      rcases hc with hc | hc
      · exact absurd hc h1
      · exact absurd hc h2

theorem Sim.allStep {U φ} {uo un : UState} (s : Sim U φ uo un) (n : Str) :
    Sim U φ (allStep uo n) (allStep un n) ∧ (allStep uo n).line = uo.line := by
  obtain ⟨d1, m1, e1, a1, b1⟩ := allStep_eq s.so n
  obtain ⟨d2, m2, e2, a2, b2⟩ := allStep_eq s.sn n
  have hneeds : (sniU uo uo.stack.ids n).1 = true → (sniU un un.stack.ids n).1 = true := by
    intro hh
    obtain ⟨x1, x2⟩ := (sniU_fst s.so n).mp hh
    refine (sniU_fst s.sn n).mpr ⟨(findInScope_rel s.rel _).1 x1, ?_⟩
    rw [findBinding_congr (h2 := uo.heap) _ _ (fun i hi => s.ext.outerEq i (by simp at hi; omega))]
    exact x2
  rw [e1, e2]
  refine ⟨⟨?_, ?_, s.rel.lookBoth _, keptOK_sameId (markFound_sameId s.rel.plainO _) s.keptOK, ?_⟩, rfl⟩
  · exact s.so.defer _ d1 m1 (fun e he => by rw [a1 e he])
  · exact s.sn.defer _ d2 m2 (fun e he => by rw [a2 e he])
  · refine ⟨s.ext.am, s.ext.outerEq, ?_⟩
    intro e he
    show ∃ e' ∈ (un.deferred ++ d2) ++ (un.useMarks ++ m2), e'.1 = e.1
    have he' : e ∈ (uo.deferred ++ uo.useMarks) ∨ e ∈ d1 ++ m1 := by
      simp only [List.mem_append] at he ⊢
      rcases he with (x | x) | (x | x)
      · exact .inl (.inl x)
      · exact .inr (.inl x)
      · exact .inl (.inr x)
      · exact .inr (.inr x)
    rcases he' with x | x
    · obtain ⟨e', y, z⟩ := s.ext.defSub e x
      refine ⟨e', ?_, z⟩
      simp only [List.mem_append] at y ⊢
      rcases y with y | y
      · exact .inl (.inl y)
      · exact .inr (.inl y)
    · have hne : d1 ++ m1 ≠ [] := fun hc => by rw [hc] at x; simp at x
      have hcond : (sniU un un.stack.ids n).1 = true ∨ un.allMark = true := by
        by_cases q1 : (sniU uo uo.stack.ids n).1 = true
        · exact .inl (hneeds q1)
        · by_cases q2 : uo.allMark = true
          · exact .inr (by rw [s.ext.am]; exact q2)
          · exfalso
            obtain ⟨d, m, e3, a3, b3⟩ := allStep_eq s.so n
            -- neither list grows in this case
            apply hne
            have : Pfb.C04.allStep uo n = { uo with checkers := markFound uo.checkers (findInScope (topScope uo) (prefixesRev (splitDots n))) } := by
              unfold Pfb.C04.allStep
              simp only [q1, Bool.false_eq_true, if_false]
              rw [sniU_top s.so]
              simp only [q2, Bool.false_eq_true, if_false]
            rw [this] at e1
            have hd := congrArg UState.deferred e1
            have hm := congrArg UState.useMarks e1
            simp only at hd hm
            have hd' : d1 = [] := by simpa using hd
            have hm' : m1 = [] := by simpa using hm
            rw [hd', hm']; rfl
      have := b2 hcond
      refine ⟨(n, [0, 1, 3, 4]), ?_, by rw [a1 e x]⟩
      have hm : (n, [0, 1, 3, 4]) ∈ d2 ++ m2 := by rw [this]; simp
      simp only [List.mem_append] at hm ⊢
      rcases hm with y | y
      · exact .inl (.inr y)
      · exact .inr (.inr y)

theorem Sim.allNames {U φ} : ∀ (names : List Str) {uo un : UState}, Sim U φ uo un →
    Sim U φ (names.foldl Pfb.C04.allStep uo) (names.foldl Pfb.C04.allStep un) ∧ (names.foldl Pfb.C04.allStep uo).line = uo.line
  | [], _, _, s => ⟨s, rfl⟩
  | n :: r, uo, un, s => by
    simp only [List.foldl_cons]
    obtain ⟨s1, l1⟩ := s.allStep n
    obtain ⟨s2, l2⟩ := Sim.allNames r s1
    exact ⟨s2, l2.trans l1⟩


/-- the aliases of an import statement on line `ln` that are not reported in `u` (`idx` = position of the first one) -/
def keepAliases (u : List (Nat × Nat)) (ln : Nat) : Nat → List Alias → List Alias
  | _, [] => []
  | idx, a :: r => if (ln, idx) ∈ u then keepAliases u ln (idx + 1) r else a :: keepAliases u ln (idx + 1) r

/-- the line in effect when the core of a (possibly `located`) statement is visited, and afterwards -/
def lineAfter (ln : Nat) : Stmt → Nat
  | .located l s => lineAfter l s
  | _ => ln

/-- one statement (current line `ln`) with the reported aliases deleted; `none`: the statement disappears -/
def dropStmt (u : List (Nat × Nat)) (ln : Nat) : Stmt → Option Stmt
  | .import_ names =>
    match keepAliases u ln 0 names with
    | [] => none
    | ns => some (.import_ ns)
  | .importFrom m names =>
    match keepAliases u ln 0 names with
    | [] => none
    | ns => some (.importFrom m ns)
  | .located l s => (dropStmt u l s).map (.located l)
  | s => some s

def dropFrom (u : List (Nat × Nat)) : Nat → List Stmt → List Stmt
  | _, [] => []
  | ln, s :: r => (dropStmt u ln s).toList ++ dropFrom u (lineAfter ln s) r

/-- the program with exactly the reported (line, alias index) imports deleted -/
def dropUnused (prog : List Stmt) (u : List (Nat × Nat)) : List Stmt := dropFrom u 0 prog

/-! ### statements -/

theorem cAlias_keysOf (m : Option Str) (idx : Nat) (a : Alias) :
    cAlias m idx a = .importAlias (keysOf a) (a.asname.getD a.name) idx (a.name = ['*'] ∨ m = some "__future__".toList) := rfl

theorem sim_aliases {U : List (Nat × Nat)} (m : Option Str) : ∀ (names : List Alias) (idx idx' : Nat) (φ : List Nat) (uo un : UState),
    Sim U φ uo un →
    (∀ a ∈ names, (∀ p ∈ splitDots a.name, simpleName p = true) ∧ (∀ n, a.asname = some n → simpleName n = true)) →
    (∃ φ', Sim U φ' (runOpsU uo (cAliases m idx names)) (runOpsU un (cAliases m idx' (keepAliases U uo.line idx names)))) ∧
      (runOpsU uo (cAliases m idx names)).line = uo.line
  | [], _, _, φ, _, _, s, _ => ⟨⟨φ, s⟩, rfl⟩
  | a :: r, idx, idx', φ, uo, un, s, hok => by
    obtain ⟨hparts, has⟩ := hok a (List.mem_cons_self ..)
    obtain ⟨hch, _⟩ := chainOK_keysOf hparts has
    have hrest := fun b hb => hok b (List.mem_cons_of_mem _ hb)
    simp only [cAliases, keepAliases]
    rw [runOpsU_cons, cAlias_keysOf]
    by_cases hU : (uo.line, idx) ∈ U
    · rw [if_pos hU]
      obtain ⟨s1, l1⟩ := s.aliasOrig (keysOf a) (a.asname.getD a.name) idx (decide (a.name = ['*'] ∨ m = some "__future__".toList)) hch
      obtain ⟨g1, g2⟩ := sim_aliases m r (idx + 1) idx' φ _ un s1 hrest
      rw [l1] at g1 g2
      exact ⟨g1, g2⟩
    · rw [if_neg hU]
      simp only [cAliases]
      rw [runOpsU_cons, cAlias_keysOf]
      obtain ⟨⟨φ1, s1⟩, l1⟩ := s.aliasBoth (keysOf a) (a.asname.getD a.name) idx idx' (decide (a.name = ['*'] ∨ m = some "__future__".toList)) hU
      obtain ⟨g1, g2⟩ := sim_aliases m r (idx + 1) (idx' + 1) φ1 _ _ s1 hrest
      rw [l1] at g1 g2
      exact ⟨g1, g2⟩

theorem frame_line (u : UState) (l : Nat) : Frame u { u with line := l } := ⟨fun _ _ => rfl, rfl, rfl, rfl⟩

theorem Sim.setLineOrig {U φ} {uo un : UState} (s : Sim U φ uo un) (l : Nat) : Sim U φ { uo with line := l } un :=
  ⟨s.so.line l, s.sn, s.rel, s.keptOK, s.ext.frame (frame_line _ _) (Frame.refl _)⟩

theorem Sim.setLineBoth {U φ} {uo un : UState} (s : Sim U φ uo un) (l l' : Nat) : Sim U φ { uo with line := l } { un with line := l' } :=
  ⟨s.so.line l, s.sn.line l', s.rel, s.keptOK, s.ext.frame (frame_line _ _) (frame_line _ _)⟩

theorem sim_loads {U φ} {uo un : UState} (s : Sim U φ uo un) (names : List Str) :
    Sim U φ (runOpsU uo (names.map Op.load)) (runOpsU un (names.map Op.load)) ∧
      (runOpsU uo (names.map Op.load)).line = uo.line := by
  rw [runOpsU_loads names uo s.so, runOpsU_loads names un s.sn]
  exact ⟨s.looksBoth names, (looks_facts names uo s.so).2.2.2.1⟩

theorem sim_stmt {U : List (Nat × Nat)} (fx : Fixes) (D : Bool) : ∀ (stmt : Stmt) (ln ln' : Nat) (φ : List Nat) (uo un : UState),
    Sim U φ uo un → fragBStmt D stmt = true →
    (∃ φ', Sim U φ' (runOpsU uo (cStmt fx ln stmt)) (runOpsU un (cStmts fx ln' (dropStmt U uo.line stmt).toList))) ∧
      (runOpsU uo (cStmt fx ln stmt)).line = lineAfter uo.line stmt
  | .expr e, ln, ln', φ, uo, un, s, hf => by
    simp only [fragBStmt] at hf
    simp only [dropStmt, Option.toList, cStmts, cStmt, List.append_nil, lineAfter]
    rw [cExpr_loads fx D e hf]
    obtain ⟨a, b⟩ := sim_loads s (loadsOf e)
    exact ⟨⟨φ, a⟩, b⟩
  | .assign ts e, ln, ln', φ, uo, un, s, hf => by
    simp only [fragBStmt, Bool.and_eq_true] at hf
    cases hsn : singleName ts with
    | none => rw [hsn] at hf; simp at hf
    | some x =>
      have hts := singleName_eq hsn
      subst hts
      simp only [dropStmt, Option.toList, cStmts, cStmt, List.append_nil, lineAfter]
      rw [cExpr_loads fx D e hf.2]
      have hst : cTargets fx [Expr.name x] = [Op.store x] := by simp [cTargets, cTarget]
      rw [hst, runOpsU_append, runOpsU_append, runOpsU_append, runOpsU_append]
      obtain ⟨a, b⟩ := sim_loads s (loadsOf e)
      have a2 : Sim U φ (runOpsU (runOpsU uo ((loadsOf e).map Op.load)) [Op.store x])
          (runOpsU (runOpsU un ((loadsOf e).map Op.load)) [Op.store x]) := a.storeBoth x (.inl ⟨rfl, rfl⟩)
      have b2 : (runOpsU (runOpsU uo ((loadsOf e).map Op.load)) [Op.store x]).line = uo.line := by
        show (storeU _ x .none).line = _
        rw [(storeU_facts a.so x .none).2.2.2.1]; exact b
      rcases cAll_ops x e with hc | ⟨ns, hc⟩
      · rw [hc]; exact ⟨⟨φ, a2⟩, b2⟩
      · rw [hc]
        show (∃ φ', Sim U φ' (stepU _ (.allNames ns)) (stepU _ (.allNames ns))) ∧ (stepU _ (.allNames ns)).line = _
        rw [stepU_allNames _ a2.so.inFunc, stepU_allNames _ a2.sn.inFunc]
        obtain ⟨a3, b3⟩ := Sim.allNames ns a2
        exact ⟨⟨φ, a3⟩, b3.trans b2⟩
  | .pass, ln, ln', φ, uo, un, s, _ => ⟨⟨φ, s⟩, rfl⟩
  | .import_ names, ln, ln', φ, uo, un, s, hf => by
    simp only [fragBStmt, List.all_eq_true] at hf
    have hnew : cStmts fx ln' (dropStmt U uo.line (.import_ names)).toList = cAliases none 0 (keepAliases U uo.line 0 names) := by
      simp only [dropStmt]
      split
      · rename_i h; rw [h]; rfl
      · simp [Option.toList, cStmts, cStmt]
    rw [hnew]
    exact sim_aliases none names 0 0 φ uo un s (fun a ha => importAliasOK_parts (hf a ha))
  | .importFrom m names, ln, ln', φ, uo, un, s, hf => by
    simp only [fragBStmt, List.all_eq_true] at hf
    have hnew : cStmts fx ln' (dropStmt U uo.line (.importFrom m names)).toList = cAliases (some m) 0 (keepAliases U uo.line 0 names) := by
      simp only [dropStmt]
      split
      · rename_i h; rw [h]; rfl
      · simp [Option.toList, cStmts, cStmt]
    rw [hnew]
    exact sim_aliases (some m) names 0 0 φ uo un s (fun a ha => fromAliasOK_parts (hf a ha))
  | .located l st, ln, ln', φ, uo, un, s, hf => by
    simp only [fragBStmt] at hf
    simp only [cStmt, lineAfter]
    rw [runOpsU_cons]
    show (∃ φ', Sim U φ' (runOpsU { uo with line := l } (cStmt fx l st)) _) ∧ (runOpsU { uo with line := l } (cStmt fx l st)).line = _
    cases hd : dropStmt U l st with
    | none =>
      have ih := sim_stmt fx D st l ln' φ { uo with line := l } un (s.setLineOrig l) hf
      simp only [hd, Option.toList, cStmts] at ih
      simp only [dropStmt, hd, Option.map_none, Option.toList, cStmts]
      exact ih
    | some st' =>
      have ih := sim_stmt fx D st l l φ { uo with line := l } { un with line := l } (s.setLineBoth l l) hf
      simp only [hd, Option.toList, cStmts, List.append_nil] at ih
      simp only [dropStmt, hd, Option.map_some, Option.toList, cStmts, cStmt, List.append_nil]
      rw [runOpsU_cons]
      exact ih
  | .augAssign _ _, _, _, _, _, _, _, hf => by simp [fragBStmt] at hf
  | .annAssign _ _ _, _, _, _, _, _, _, hf => by simp [fragBStmt] at hf
  | .funcDef _ _ _ _ _, _, _, _, _, _, _, hf => by simp [fragBStmt] at hf
  | .classDef _ _ _ _, _, _, _, _, _, _, hf => by simp [fragBStmt] at hf
  | .for_ _ _ _ _, _, _, _, _, _, _, hf => by simp [fragBStmt] at hf
  | .while_ _ _ _, _, _, _, _, _, _, hf => by simp [fragBStmt] at hf
  | .if_ _ _ _, _, _, _, _, _, _, hf => by simp [fragBStmt] at hf
  | .with_ _ _, _, _, _, _, _, _, hf => by simp [fragBStmt] at hf
  | .try_ _ _ _ _, _, _, _, _, _, _, hf => by simp [fragBStmt] at hf
  | .return_ _, _, _, _, _, _, _, hf => by simp [fragBStmt] at hf
  | .raise_ _, _, _, _, _, _, _, hf => by simp [fragBStmt] at hf
  | .delete _, _, _, _, _, _, _, hf => by simp [fragBStmt] at hf
  | .global_ _, _, _, _, _, _, _, hf => by simp [fragBStmt] at hf
  | .nonlocal_ _, _, _, _, _, _, _, hf => by simp [fragBStmt] at hf

theorem cStmts_append (fx : Fixes) (ln : Nat) : ∀ (a b : List Stmt), cStmts fx ln (a ++ b) = cStmts fx ln a ++ cStmts fx ln b
  | [], b => rfl
  | s :: a, b => by simp only [List.cons_append, cStmts, cStmts_append fx ln a b, List.append_assoc]

theorem sim_stmts {U : List (Nat × Nat)} (fx : Fixes) (D : Bool) : ∀ (ss : List Stmt) (ln ln' : Nat) (φ : List Nat) (uo un : UState),
    Sim U φ uo un → fragB D ss = true →
    ∃ φ', Sim U φ' (runOpsU uo (cStmts fx ln ss)) (runOpsU un (cStmts fx ln' (dropFrom U uo.line ss)))
  | [], _, _, φ, _, _, s, _ => ⟨φ, s⟩
  | st :: r, ln, ln', φ, uo, un, s, hf => by
    simp only [fragB, List.all_cons, Bool.and_eq_true] at hf
    simp only [cStmts, dropFrom, cStmts_append, runOpsU_append]
    obtain ⟨⟨φ1, s1⟩, l1⟩ := sim_stmt fx D st ln ln' φ uo un s hf.1
    have ih := sim_stmts fx D r ln ln' φ1 _ _ s1 hf.2
    rw [l1] at ih
    exact ih


/-! ### the start and the end of the analysis -/

theorem shape_init (builtins : Scope) (am dn : Bool) (hb : builtinsPlain builtins = true) : Shape (initU builtins am dn) := by
  have hids : normIds [3, 4] = [0, 1, 3, 4] := by decide
  refine ⟨by simp [initU, hids], by simp [initU], rfl, rfl, rfl, ?_, (by intro e he; simp [initU] at he), by simp [initU, Heap.get, KeysNodup]⟩
  intro i hi q k
  simp only [initU]
  match i, hi with
  | 0, _ =>
    simp only [Heap.get, List.getD_cons_zero]
    intro h
    have hm := assocGet_mem h
    simp only [builtinsPlain, List.all_eq_true] at hb
    have := hb _ hm
    simp at this
  | 1, _ =>
    simp only [Heap.get, List.getD_cons_succ, List.getD_cons_zero, Scope.get, assocGet]
    split <;> simp
  | 2, _ => simp [Heap.get, Scope.get, assocGet]
  | 3, _ => simp [Heap.get, Scope.get, assocGet]
  | 4, h => exact absurd rfl h
  | n + 5, _ => simp [Heap.get, Scope.get, assocGet]

theorem topScope_init (builtins : Scope) (am dn : Bool) : topScope (initU builtins am dn) = {} := by
  simp [topScope, initU, Heap.get]

theorem sim_init (U : List (Nat × Nat)) (builtins : Scope) (am dn : Bool) (hb : builtinsPlain builtins = true) :
    Sim U [] (initU builtins am dn) (initU builtins am dn) := by
  have hs := shape_init builtins am dn hb
  refine ⟨hs, hs, ?_, fun k hk => by simp at hk, ⟨rfl, fun _ _ => rfl, by intro e he; simp [initU] at he⟩⟩
  rw [topScope_init]
  have hg : ∀ q, ({} : Scope).get q = none := fun q => rfl
  have hc : (initU builtins am dn).checkers = [] := rfl
  have hu : (initU builtins am dn).unused = [] := rfl
  rw [hc, hu]
  refine ⟨fun q _ => hg q, ?_, ?_, ?_, rfl, ?_, ?_, ?_, ?_, ?_, ?_⟩
  · intro q k h; rw [hg] at h; cases h
  · intro q k' c' h; rw [hg] at h; cases h
  · intro k' k h; simp at h
  · intro i j k h; simp at h
  · intro k' h; simp at h
  · intro k c h; simp at h
  · intro k c h; simp at h
  · intro q k h; rw [hg] at h; cases h
  · intro q k h; rw [hg] at h; cases h

theorem foldl_sniU_looks : ∀ (l : List (Str × List Nat)) (u : UState), Shape u → (∀ e ∈ l, e.2 = [0, 1, 3, 4]) →
    l.foldl (fun st d => (sniU st d.2 d.1).2) u = looks u (l.map (·.1))
  | [], _, _, _ => rfl
  | e :: r, u, h, hl => by
    simp only [List.foldl_cons, List.map_cons, looks_cons]
    rw [hl e (List.mem_cons_self ..), ← h.stack]
    have h1 : Shape (sniU u u.stack.ids e.1).2 := by rw [sniU_top h]; exact h.checkers _
    exact foldl_sniU_looks r _ h1 (fun x hx => hl x (List.mem_cons_of_mem _ hx))

theorem looks_append (u : UState) (a b : List Str) : looks u (a ++ b) = looks (looks u a) b := by
  unfold looks; rw [List.foldl_append]

/-- `_finish_deferred_load_checks`: the deferred names are looked up in the final top scope -/
theorem finishU_eq {u : UState} (h : Shape u) :
    finishU u = { looks u ((u.deferred ++ u.useMarks).map (·.1)) with deferred := [], useMarks := [] } := by
  unfold finishU
  simp only
  rw [foldl_sniU_looks u.deferred u h (fun e he => h.defIds e (List.mem_append_left _ he))]
  have h1 := (looks_facts (u.deferred.map (·.1)) u h).1
  have hm := (frame_looks (u.deferred.map (·.1)) u h).marks
  rw [hm, foldl_sniU_looks u.useMarks _ h1 (fun e he => h.defIds e (List.mem_append_right _ he)), ← looks_append, ← List.map_append]

theorem sim_finish {U φ} {uo un : UState} (s : Sim U φ uo un) : Sim U φ (finishU uo) (finishU un) := by
  rw [finishU_eq s.so, finishU_eq s.sn]
  generalize hNo : (uo.deferred ++ uo.useMarks).map (·.1) = No
  generalize hNn : (un.deferred ++ un.useMarks).map (·.1) = Nn
  have hsub : ∀ n ∈ No, n ∈ Nn := by
    intro n hn
    rw [← hNo] at hn
    obtain ⟨e, he, rfl⟩ := List.mem_map.mp hn
    obtain ⟨e', he', hee⟩ := s.ext.defSub e he
    rw [← hNn, ← hee]; exact List.mem_map_of_mem he'
  obtain ⟨so1, to1, uo1, _, _, _, _, _⟩ := looks_facts No uo s.so
  obtain ⟨sn1, tn1, un1, _, _, _, _, _⟩ := looks_facts Nn un s.sn
  have fo := frame_looks No uo s.so
  have fn := frame_looks Nn un s.sn
  obtain ⟨sid, _, fmark⟩ := marksOf_facts (topScope un) Nn un.checkers s.rel.plainN
  obtain ⟨sido, _, _⟩ := marksOf_facts (topScope uo) No uo.checkers s.rel.plainO
  have r1 := s.rel.marksNew Nn
  have r2 := r1.marksOrig No (by
    intro n hn k hf
    by_cases hk : k ∈ φ
    · right
      obtain ⟨k', hk', hφ⟩ := (findInScope_rel s.rel _).2 k hf hk
      obtain ⟨_, c0, _, hc0, _⟩ := s.rel.twin k' k hφ
      obtain ⟨c', hc'⟩ := sid.back hc0
      exact ⟨k', c', hφ, hc', fmark n (hsub n hn) k' hk' c' hc'⟩
    · exact .inl hk)
  refine ⟨⟨so1.stack, so1.len, so1.inFunc, so1.cond, so1.dn, so1.outer, by intro e he; simp at he, so1.nodup⟩,
    ⟨sn1.stack, sn1.len, sn1.inFunc, sn1.cond, sn1.dn, sn1.outer, by intro e he; simp at he, sn1.nodup⟩, ?_, ?_, ?_⟩
  · show Rel φ (topScope (looks uo No)) (looks uo No).checkers (looks uo No).unused
      (topScope (looks un Nn)) (looks un Nn).checkers (looks un Nn).unused
    rw [to1, tn1, uo1, un1, looks_checkers No uo s.so, looks_checkers Nn un s.sn]
    exact r2
  · show ∀ k ∈ φ, ∃ c : Checker, (looks uo No).checkers[k]? = some c ∧ _
    rw [looks_checkers No uo s.so]
    exact keptOK_sameId sido s.keptOK
  · refine ⟨?_, ?_, by intro e he; simp at he⟩
    · show (looks un Nn).allMark = (looks uo No).allMark
      rw [fn.am, fo.am]; exact s.ext.am
    · intro i hi
      show (looks un Nn).heap.get i = (looks uo No).heap.get i
      rw [fn.outer i hi, fo.outer i hi]; exact s.ext.outerEq i hi

/-- one step of `_scan_unused_imports` -/
def scanStep (st : UState) (kv : Str × Val) : UState :=
  match kv.2 with
  | .obj k =>
    match st.checkers[k]? with
    | some c =>
      let st := if nameIs c kv.1 || c.anon then { st with unused := st.unused ++ unusedShadowed st.checkers k } else st
      if c.used || c.anon then st
      else if nameIs c kv.1 then { st with unused := st.unused ++ [k] } else st
    | none => st
  | .none => st

theorem scanItems_cons (u : UState) (kv : Str × Val) (r : List (Str × Val)) : scanItems u (kv :: r) = scanItems (scanStep u kv) r := rfl

theorem scanStep_plain {u : UState} (h : PlainCs u.checkers) (kv : Str × Val) :
    (scanStep u kv).checkers = u.checkers ∧
    ∀ j, j ∈ (scanStep u kv).unused ↔
      j ∈ u.unused ∨ ∃ c : Checker, kv.2 = .obj j ∧ u.checkers[j]? = some c ∧ c.used = false ∧ c.bind = kv.1 := by
  unfold scanStep
  cases hv : kv.2 with
  | none => exact ⟨rfl, fun j => by simp⟩
  | obj k =>
    simp only
    cases hc : u.checkers[k]? with
    | none =>
      refine ⟨(by first | rfl | trivial), fun j => ⟨fun x => .inl x, fun x => ?_⟩⟩
      rcases x with x | ⟨c, e1, e2, _⟩
      · exact x
      · simp only [Val.obj.injEq] at e1; subst e1; rw [hc] at e2; cases e2
    | some c =>
      obtain ⟨p1, p2⟩ := h k c hc
      have hsh : unusedShadowed u.checkers k = [] := by
        unfold unusedShadowed; rw [hc]; simp only; rw [p1]; rfl
      simp only [hsh, List.append_nil, p2, Bool.or_false]
      have hst : (if nameIs c kv.1 = true then { u with unused := u.unused } else u) = u := by split <;> rfl
      rw [hst]
      cases hu : c.used with
      | true =>
        simp only [if_true]
        refine ⟨(by first | rfl | trivial), fun j => ⟨fun x => .inl x, fun x => ?_⟩⟩
        rcases x with x | ⟨d, e1, e2, e3, _⟩
        · exact x
        · simp only [Val.obj.injEq] at e1; subst e1; rw [hc] at e2; cases e2; rw [hu] at e3; cases e3
      | false =>
        simp only [Bool.false_eq_true, if_false]
        by_cases hn : nameIs c kv.1 = true
        · rw [if_pos hn]
          have hb : c.bind = kv.1 := by simpa [nameIs, p2] using hn
          refine ⟨(by first | rfl | trivial), fun j => ?_⟩
          simp only [List.mem_append, List.mem_singleton]
          constructor
          · rintro (x | x)
            · exact .inl x
            · subst x; exact .inr ⟨c, rfl, hc, hu, hb⟩
          · rintro (x | ⟨d, e1, _⟩)
            · exact .inl x
            · simp only [Val.obj.injEq] at e1; exact .inr e1.symm
        · rw [if_neg hn]
          refine ⟨(by first | rfl | trivial), fun j => ⟨fun x => .inl x, fun x => ?_⟩⟩
          rcases x with x | ⟨d, e1, e2, _, e4⟩
          · exact x
          · simp only [Val.obj.injEq] at e1; subst e1; rw [hc] at e2; cases e2
            exact absurd (by simp [nameIs, p2, e4]) hn

theorem scanItems_plain : ∀ (items : List (Str × Val)) (u : UState), PlainCs u.checkers →
    ∀ j, j ∈ (scanItems u items).unused ↔
      j ∈ u.unused ∨ ∃ (q : Str) (c : Checker), (q, Val.obj j) ∈ items ∧ u.checkers[j]? = some c ∧ c.used = false ∧ c.bind = q
  | [], u, _, j => by simp [scanItems]
  | kv :: r, u, h, j => by
    obtain ⟨e1, e2⟩ := scanStep_plain h kv
    rw [scanItems_cons, scanItems_plain r (scanStep u kv) (by rw [e1]; exact h) j, e2 j, e1]
    constructor
    · rintro ((x | ⟨c, a1, a2, a3, a4⟩) | ⟨q, c, a1, a2, a3, a4⟩)
      · exact .inl x
      · exact .inr ⟨kv.1, c, by rw [← a1]; exact List.mem_cons_self .., a2, a3, a4⟩
      · exact .inr ⟨q, c, List.mem_cons_of_mem _ a1, a2, a3, a4⟩
    · rintro (x | ⟨q, c, a1, a2, a3, a4⟩)
      · exact .inl (.inl x)
      · rcases List.mem_cons.mp a1 with a1 | a1
        · exact .inl (.inr ⟨c, by rw [← a1], a2, a3, by rw [← a1]; exact a4⟩)
        · exact .inr ⟨q, c, a1, a2, a3, a4⟩

theorem assocGet_of_mem_nodup {β} : ∀ {l : List (Str × β)} {q : Str} {v : β}, KeysNodup l → (q, v) ∈ l → assocGet q l = some v
  | [], _, _, _, h => by simp at h
  | (k', v') :: r, q, v, hn, h => by
    unfold KeysNodup at hn
    simp only [List.map_cons, List.nodup_cons] at hn
    simp only [assocGet]
    rcases List.mem_cons.mp h with h | h
    · simp only [Prod.mk.injEq] at h; rw [if_pos h.1.symm, h.2]
    · have : k' ≠ q := by
        intro e; subst e
        exact hn.1 (List.mem_map.mpr ⟨(k', v), h, rfl⟩)
      rw [if_neg this]
      exact assocGet_of_mem_nodup hn.2 h

/-- at the end of the two analyses: whatever the reduced program reports, the original program reports -/
theorem sim_scan {U φ} {uo un : UState} (s : Sim U φ uo un) :
    ∀ k' ∈ (scanUnusedU un).unused, ∃ k, φ[k']? = some k ∧ k ∈ (scanUnusedU uo).unused := by
  intro k' hk'
  unfold scanUnusedU at hk' ⊢
  rw [s.sn.top] at hk'
  rw [s.so.top]
  rw [scanItems_plain _ _ s.rel.plainN] at hk'
  rcases hk' with h | ⟨q, c', h1, h2, h3, h4⟩
  · obtain ⟨k, e1, e2⟩ := s.rel.rep k' h
    exact ⟨k, e1, (scanItems_plain _ _ s.rel.plainO k).mpr (.inl e2)⟩
  · have hget : (topScope un).get q = some (.obj k') := assocGet_of_mem_nodup s.sn.nodup h1
    obtain ⟨k, e1, e2⟩ := s.rel.owed q k' c' hget h2 h4 h3
    refine ⟨k, e1, (scanItems_plain _ _ s.rel.plainO k).mpr ?_⟩
    rcases e2 with e2 | e2
    · obtain ⟨c, d', hc, hd', ht⟩ := s.rel.twin k' k e1
      rw [h2] at hd'; cases hd'
      have hcu : c.used = false := by
        cases hh : c.used with
        | false => rfl
        | true => rw [ht.2 hh] at h3; cases h3
      exact .inr ⟨q, c, assocGet_mem e2, hc, hcu, ht.1.symm.trans h4⟩
    · exact .inl e2

/-- **C04_no_unused_left_fragB** — the remove stage of tidy-imports reaches its fixed point in one pass: for the unchanged
    analysis and every combination of the repairs `fx`, every program of fragment B (straight-line module-level code with
    `import` / `from … import` statements, dotted imports and dotted reads when `D = true`, `__all__ = [...]` included), every
    builtins namespace without `_UseChecker` values: the unused-import analysis of the program from which the imports it
    reported have been deleted reports nothing.  No hypothesis on line numbers is needed. -/
theorem C04_no_unused_left_fragB (fx : Fixes) (builtins : Scope) (prog : List Stmt) (D : Bool)
    (hfrag : fragB D prog = true) (hb : builtinsPlain builtins = true) :
    findUnused fx builtins (dropUnused prog (findUnused fx builtins prog)) = [] := by
  generalize hU : findUnused fx builtins prog = U
  have s0 := sim_init U builtins fx.allUseMark fx.deferredNames hb
  obtain ⟨φ, s1⟩ := sim_stmts fx D prog 0 0 [] _ _ s0 hfrag
  have hline : (initU builtins fx.allUseMark fx.deferredNames).line = 0 := rfl
  rw [hline] at s1
  have s := sim_finish s1
  have hscan := sim_scan s
  have hnil : (analyzeU fx builtins (dropUnused prog U)).unused = [] := by
    unfold analyzeU dropUnused
    cases hl : (scanUnusedU (finishU (runOpsU (initU builtins fx.allUseMark fx.deferredNames) (cStmts fx 0 (dropFrom U 0 prog))))).unused with
    | nil => rfl
    | cons k' rest =>
      exfalso
      obtain ⟨k, e1, e2⟩ := hscan k' (by rw [hl]; exact List.mem_cons_self ..)
      obtain ⟨c, hc, hn⟩ := s.keptOK k (List.mem_of_getElem? e1)
      apply hn
      rw [← hU]
      unfold findUnused analyzeU
      simp only [List.mem_filterMap]
      refine ⟨k, e2, ?_⟩
      have hck : (scanUnusedU (finishU (runOpsU (initU builtins fx.allUseMark fx.deferredNames) (cStmts fx 0 prog)))).checkers =
          (finishU (runOpsU (initU builtins fx.allUseMark fx.deferredNames) (cStmts fx 0 prog))).checkers :=
        (scanItems_facts _ _).1
      rw [hck, hc]; rfl
  unfold findUnused
  simp only [hnil, List.filterMap_nil]


/-! ### non-vacuity and witnesses -/

def exB : Scope := { items := [("_K".toList, .none), ("print".toList, .none)] }
def nm (s : String) : Expr := .name s.toList
def al (n : String) (as_ : Option String := none) : Alias := ⟨n.toList, as_.map String.toList⟩

/-- `import os, sys` / `import a.b` / `import a.c` / `from m import x as y` / `os.path` / `z = a.b.q` / `__all__ = ['late', 'z']` / `import late` -/
def exProg : List Stmt :=
  [.located 1 (.import_ [al "os", al "sys"]), .located 2 (.import_ [al "a.b"]), .located 3 (.import_ [al "a.c"]),
   .located 4 (.importFrom "m".toList [al "x" (some "y")]), .located 5 (.expr (.attr (nm "os") "path".toList)),
   .located 6 (.assign [nm "z"] (.attr (.attr (nm "a") "b".toList) "q".toList)),
   .located 7 (.assign [nm "__all__"] (.list [.str "late".toList, .str "z".toList])), .located 8 (.import_ [al "late"])]

example : fragB true exProg = true ∧ builtinsPlain exB = true ∧
    findUnused {} exB exProg = [(1, 1), (3, 0), (4, 0)] ∧
    cStmts {} 0 (dropUnused exProg (findUnused {} exB exProg)) = cStmts {} 0
      [.located 1 (.import_ [al "os"]), .located 2 (.import_ [al "a.b"]), .located 5 (.expr (.attr (nm "os") "path".toList)),
       .located 6 (.assign [nm "z"] (.attr (.attr (nm "a") "b".toList) "q".toList)),
       .located 7 (.assign [nm "__all__"] (.list [.str "late".toList, .str "z".toList])), .located 8 (.import_ [al "late"])] := by decide

/-- `builtinsPlain` is needed (a model artefact: the real builtins never hold `_UseChecker`s): with a builtins value that
    aliases checker 1, `import z` / `import a` / `foo` reports `import z`, and the reduced program `import a` / `foo` reports
    `import a`. -/
def wBuiltins : Scope := { items := [("foo".toList, .obj 1)] }
def wProg : List Stmt := [.located 1 (.import_ [al "z"]), .located 2 (.import_ [al "a"]), .located 3 (.expr (nm "foo"))]
theorem witness_builtins_checker : fragB false wProg = true ∧
    findUnused {} wBuiltins wProg = [(1, 0)] ∧
    findUnused {} wBuiltins (dropUnused wProg (findUnused {} wBuiltins wProg)) = [(2, 0)] := by decide

/-! ### statement 3 (`findMissingFx` is unchanged by the removal) — NOT proved here; what it needs, by counterexample

  Exhaustive search (all 551 880 programs of length ≤ 4 over an alphabet of 27 fragment-B statements, each statement on its own
  line, two `Fixes` settings, two registries, two caller namespaces) found no program on which the list of missing imports changes.
  The two witnesses below show the hypotheses such a theorem needs. -/

/-- Two import statements on one line: the model reports unused imports as (line, alias index), so `dropUnused` cannot tell
    `import a` from `import b` on line 1 and deletes both; `b` becomes a missing name.  (The real tidy-imports identifies the
    import by (lineno, Import) and keeps `import b`: an artefact of the report format of the model, not of the code.) -/
def wSameLine : List Stmt := [.located 1 (.import_ [al "a"]), .located 1 (.import_ [al "b"]), .located 2 (.expr (nm "b"))]
theorem witness_same_line : fragB false wSameLine = true ∧ findUnused {} exB wSameLine = [(1, 0)] ∧
    findMissingFx {} {} exB [{}] wSameLine = [] ∧
    findMissingFx {} {} exB [{}] (dropUnused wSameLine (findUnused {} exB wSameLine)) = ["b".toList] := by decide

/-- A registry (`sys.modules`) that holds `None` as a module value: the analysis follows `getattr` through the `None` it
    stored for `a.b` itself, so whether `a.b` (from `__all__`) is missing depends on the key `a.b` that the unused
    `import a.b` stored. -/
def wRegNone : Registry := { mods := [("a".toList, .none), ("a.b".toList, .none)], attrs := [] }
def wAll : List Stmt :=
  [.located 1 (.import_ [al "a"]), .located 2 (.assign [nm "__all__"] (.list [.str "b".toList, .str "a.b".toList])),
   .located 3 (.import_ [al "a.b"])]
theorem witness_registry_none : fragB true wAll = true ∧ findUnused {} exB wAll = [(3, 0)] ∧
    findMissingFx {} wRegNone exB [{ items := [("b".toList, .obj 50)] }] wAll = [] ∧
    findMissingFx {} wRegNone exB [{ items := [("b".toList, .obj 50)] }] (dropUnused wAll (findUnused {} exB wAll)) = ["a.b".toList] := by
  decide


end Pfb.C04
