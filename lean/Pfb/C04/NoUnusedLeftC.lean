/-
  Pfb.C04.NoUnusedLeftC — "tidy-imports leaves no unused import behind" (C04) / idempotence of the remove stage (C03) on
  fragment C: fragment B + module-level `def f(p1..pk): <straight-line body>` (`Pfb.C05.fragC`) followed by calls (`fragCall`).
  Continuation of `Pfb.C04.NoUnusedLeft` (fragment B); same analysis model `Pfb.PyCore.findUnused`, same `dropUnused`.

  * The full statement `findUnused fx b (dropUnused (prog ++ calls) (findUnused fx b (prog ++ calls))) = []` for every `fx` is
    FALSE on fragment C:
      - `witness_deferred_names_fragC`: with `fx.deferredNames = true` (repair 0e29f32, part of the present tree) a second pass
        reports one more import; the real `scan_for_import_issues` / `fix_unused_and_missing_imports` behave the same
        (`def f(): return a` / `import a.b` / `import a.b.c` / `a = 1` / `f()`: pass 1 removes `import a.b.c`, pass 2 removes
        `import a.b`) — a genuine idempotence defect;
      - `witness_unlocated_after_def`: a model artefact of the line bookkeeping (`dropUnused` identifies imports by line).
  * `C04_no_unused_left_fragC_partial`: the statement holds for every `fx` when every module-level statement carries its own
    line (`isLoc`), the builtins namespace is plain and not a class scope, and — only when `fx.deferredNames = true` — no
    module-level statement stores a key whose head was read by a function body seen before (`FC.rebindOK`, decidable: then no
    store of the module "shadows").  `C04_no_unused_left_fragC_noDeferredNames`: the corollary for `fx.deferredNames = false`.

  Proof: the lock step `Sim` of `NoUnusedLeft` is rebuilt (namespace `FC`) for module-level states whose deferred lists hold
  entries of finished function bodies (`EntOK`: module stack + argument scope + clone of the body scope) and whose heaps have
  grown by such scopes; both runs analyse the same `def`, so their heaps differ in cell 4 only (`Ext.outerEq`, `Ext.hlen`), they
  make the same deferred entries (`Ext.defSub`) and the same `_deferred_names` (`Ext.dnEq`); inside a body (`InD`, `PD`) a load
  either stops in the local scopes in both runs or is the module-level lookup in both (`sniU_body`, `PD.defer`); at the end an
  entry of a body either stops in its frozen local scopes in both runs or is a module-level lookup (`sniU_ent`, `effNames`,
  `sim_finish`).  Stores never shadow (`NoSh`, from `rebindOK` through `sim_tops`), so all checkers stay plain (`PlainCs`).
-/
import Pfb.C04.NoUnusedLeft
import Pfb.C05.UnusedC
namespace Pfb.C04
open Pfb Pfb.PyCore Pfb.C05

namespace FC

/-- the head of a dotted key -/
def keyHead (d : Str) : Str := (splitDots d).headD []

/-- a store of `key` in state `u` replaces (does not shadow): the tree lacks `_deferred_names`, or no function body seen so far
    reads the head of `key` -/
def NoSh (u : UState) (key : Str) : Prop := u.dnOn = true → keyHead key ∉ u.deferredNames

/-- the keys a module-level statement of fragment C stores (for a `def`: its name) -/
def storeKeys : Stmt → List Str
  | .assign ts _ => (match singleName ts with | some x => [x] | none => [])
  | .import_ names => names.flatMap keysOf
  | .importFrom _ names => names.flatMap keysOf
  | .funcDef name _ _ _ _ => [name]
  | .located _ s => storeKeys s
  | _ => []

/-- the scope ids of a deferred entry: the module-level stack, or the module-level stack + argument scope `a` + clone `c` of a body scope -/
def EntOK (ids : List Nat) : Prop := ids = [0, 1, 3, 4] ∨ ∃ a c, (normIds ids).reverse = [c, a, 4, 3, 1, 0] ∧ 5 ≤ a ∧ 5 ≤ c

structure Shape (u : UState) : Prop where
  stack : u.stack.ids = [0, 1, 3, 4]
  len : 5 ≤ u.heap.length
  inFunc : u.inFunc = false
  cond : u.cond = 0
  dn : True
  outer : ∀ i, i ≠ 4 → ∀ (q : Str) (k : Nat), (u.heap.get i).get q ≠ some (.obj k)
  defIds : ∀ e ∈ u.deferred ++ u.useMarks, EntOK e.2
  nodup : KeysNodup (u.heap.get 4).items

theorem Shape.top {u : UState} (h : Shape u) : u.stack.top = 4 := by unfold StackRef.top; rw [h.stack]; rfl

theorem Shape.checkers {u : UState} (h : Shape u) (cs : List Checker) : Shape { u with checkers := cs } :=
  ⟨h.stack, h.len, h.inFunc, h.cond, h.dn, h.outer, h.defIds, h.nodup⟩

theorem findBinding_outer {heap : Heap} {parts : List Str} {l : List Nat}
    (hl : ∀ i ∈ l, ∀ (q : Str) (k : Nat), (heap.get i).get q ≠ some (.obj k)) (k : Nat) :
    findBinding heap parts l ≠ some (.obj k) := by
  intro h
  obtain ⟨i, hi, key, hk⟩ := findBinding_some h
  exact hl i hi key k hk

theorem sniU_top {u : UState} (h : Shape u) (d : Str) :
    (sniU u u.stack.ids d).2 = { u with checkers := markFound u.checkers (findInScope (topScope u) (prefixesRev (splitDots d))) } := by
  unfold sniU
  rw [h.stack]
  have : (normIds [0, 1, 3, 4]).reverse = [4, 3, 1, 0] := by decide
  rw [this]
  have e : findBinding u.heap (splitDots d) [4, 3, 1, 0] =
      match findInScope (u.heap.get 4) (prefixesRev (splitDots d)) with
      | some v => some v
      | none => findBinding u.heap (splitDots d) [3, 1, 0] := rfl
  rw [e]
  unfold topScope
  cases hf : findInScope (u.heap.get 4) (prefixesRev (splitDots d)) with
  | some v =>
    simp only
    cases v <;> rfl
  | none =>
    simp only
    have ho := findBinding_outer (heap := u.heap) (parts := splitDots d) (l := [3, 1, 0])
      (fun i hi => h.outer i (by simp at hi; omega))
    generalize findBinding u.heap (splitDots d) [3, 1, 0] = g at ho ⊢
    cases g with
    | none => rfl
    | some v =>
      cases v with
      | none => rfl
      | obj k => exact absurd rfl (ho k)

/-- a sequence of lookups at module level -/
def looks (u : UState) (names : List Str) : UState := names.foldl (fun st n => (sniU st st.stack.ids n).2) u

theorem looks_cons (u : UState) (n : Str) (r : List Str) : looks u (n :: r) = looks (sniU u u.stack.ids n).2 r := rfl

theorem looks_facts : ∀ (names : List Str) (u : UState), Shape u →
    Shape (looks u names) ∧ topScope (looks u names) = topScope u ∧ (looks u names).unused = u.unused ∧
    (looks u names).line = u.line ∧ (looks u names).heap = u.heap ∧ (looks u names).allMark = u.allMark ∧
    (looks u names).dnOn = u.dnOn ∧ SameId u.checkers (looks u names).checkers
  | [], u, h => ⟨h, rfl, rfl, rfl, rfl, rfl, rfl, SameId.refl _⟩
  | n :: r, u, h => by
    rw [looks_cons, sniU_top h]
    obtain ⟨a, b, c, d, e, f, g, i⟩ := looks_facts r { u with checkers := markFound u.checkers (findInScope (topScope u) (prefixesRev (splitDots n))) } (h.checkers _)
    exact ⟨a, b, c, d, e, f, g, SameId.trans (by
      show SameId u.checkers (markFound u.checkers _)
      unfold markFound
      split
      · exact ⟨(markUsed_rel _ _).1, fun k c' hc' => by
          obtain ⟨c, hc, e1, e2, e3, _, e5, e6⟩ := (markUsed_rel _ _).get hc'
          exact ⟨c, hc, e1.symm, e6.symm, e5.symm, e2.symm, e3.symm⟩⟩
      · exact SameId.refl _) i⟩

theorem runOpsU_loads (names : List Str) : ∀ (u : UState), Shape u → runOpsU u (names.map Op.load) = looks u names := by
  induction names with
  | nil => intro u _; rfl
  | cons n r ih =>
    intro u h
    have h1 : Shape (sniU u u.stack.ids n).2 := by rw [sniU_top h]; exact h.checkers _
    show runOpsU (stepU u (.load n)) (r.map Op.load) = _
    have : stepU u (.load n) = (sniU u u.stack.ids n).2 := by simp [stepU, h.inFunc]
    rw [this, ih _ h1, looks_cons]

/-- what a step leaves alone: the namespaces below the top scope, the `__all__` option, the deferred lookups -/
structure Frame (u u' : UState) : Prop where
  outer : ∀ i, i ≠ 4 → u'.heap.get i = u.heap.get i
  am : u'.allMark = u.allMark
  defer : u'.deferred = u.deferred
  marks : u'.useMarks = u.useMarks
  len : u'.heap.length = u.heap.length
  cls4 : (u'.heap.get 4).isClass = (u.heap.get 4).isClass
  inClass : u'.inClass = u.inClass
  dnames : u'.deferredNames = u.deferredNames
  dnOn : u'.dnOn = u.dnOn

theorem Frame.refl (u : UState) : Frame u u := ⟨fun _ _ => rfl, rfl, rfl, rfl, rfl, rfl, rfl, rfl, rfl⟩

theorem Frame.trans {a b c : UState} (h1 : Frame a b) (h2 : Frame b c) : Frame a c :=
  ⟨fun i hi => (h2.outer i hi).trans (h1.outer i hi), h2.am.trans h1.am, h2.defer.trans h1.defer, h2.marks.trans h1.marks,
   h2.len.trans h1.len, h2.cls4.trans h1.cls4, h2.inClass.trans h1.inClass, h2.dnames.trans h1.dnames, h2.dnOn.trans h1.dnOn⟩

theorem NoSh.frame {u u' : UState} {key : Str} (h : NoSh u key) (f : Frame u u') : NoSh u' key := by
  intro hd; rw [f.dnames]; exact h (by rw [← f.dnOn]; exact hd)

theorem frame_checkers (u : UState) (cs : List Checker) : Frame u { u with checkers := cs } := ⟨fun _ _ => rfl, rfl, rfl, rfl, rfl, rfl, rfl, rfl, rfl⟩

theorem frame_looks : ∀ (names : List Str) (u : UState), Shape u → Frame u (looks u names)
  | [], u, _ => Frame.refl u
  | n :: r, u, h => by
    rw [looks_cons, sniU_top h]
    exact Frame.trans (frame_checkers u _) (frame_looks r _ (h.checkers _))

/-- the names `_visit_Store` looks up before storing a dotted key -/
def ancestors (key : Str) : List Str := ((prefixes (splitDots key)).dropLast).map joinDots

theorem lookupAncestors_eq (u : UState) (key : Str) : lookupAncestors u key = looks u (ancestors key) := by
  unfold lookupAncestors looks ancestors
  rw [List.foldl_map]

theorem heap_top_set (u : UState) (h : Shape u) (key : Str) (v : Val) :
    topScope (writeTop u key v) = (topScope u).set key v := by
  unfold writeTop topScope
  show (u.heap.update u.stack.top (·.set key v)).get 4 = _
  rw [h.top, Heap.get_update]
  have : 4 < u.heap.length := h.len
  simp [this]

theorem Shape.writeTop {u : UState} (h : Shape u) (key : Str) (v : Val) : Shape (writeTop u key v) := by
  refine ⟨h.stack, by simp [PyCore.writeTop, Heap.length_update]; exact h.len, h.inFunc, h.cond, h.dn, ?_, h.defIds, ?_⟩
  rotate_left
  · have := heap_top_set u h key v
    unfold topScope at this
    rw [this]
    exact KeysNodup.assocSet key v h.nodup
  intro i hi q k
  show ((u.heap.update u.stack.top (·.set key v)).get i).get q ≠ _
  rw [h.top, Heap.get_update]
  simp only [hi, false_and, if_false]
  exact h.outer i hi q k

/-- `_visit_Store` at module level: the ancestors are looked up, an unused import stored under its own name is reported -/
theorem storeU_eq {u : UState} (h : Shape u) {key : Str} (hk : NoSh u key) (v : Val) :
    storeU u key v =
      writeTop { looks u (ancestors key) with
        unused := (looks u (ancestors key)).unused ++
          pendingOf (looks u (ancestors key)).checkers key ((topScope (looks u (ancestors key))).get key) } key v := by
  obtain ⟨h1, _, _⟩ := looks_facts (ancestors key) u h
  unfold storeU
  rw [lookupAncestors_eq]
  have fl := frame_looks (ancestors key) u h
  have hsh : shadowing (looks u (ancestors key)) key = false := by
    unfold shadowing; rw [h1.cond]
    cases hd : (looks u (ancestors key)).dnOn with
    | false => simp
    | true =>
      have hn : (splitDots key).headD [] ∉ (looks u (ancestors key)).deferredNames := (hk.frame fl) hd
      simpa using hn
  simp only [hsh, Bool.false_eq_true, if_false]
  unfold topScope
  rw [h1.top]

theorem Shape.unused {u : UState} (h : Shape u) (l : List Nat) : Shape { u with unused := l } :=
  ⟨h.stack, h.len, h.inFunc, h.cond, h.dn, h.outer, h.defIds, h.nodup⟩

theorem storeU_facts {u : UState} (h : Shape u) {key : Str} (hk : NoSh u key) (v : Val) :
    Shape (storeU u key v) ∧ topScope (storeU u key v) = (topScope u).set key v ∧
    SameId u.checkers (storeU u key v).checkers ∧ (storeU u key v).line = u.line ∧
    (storeU u key v).allMark = u.allMark ∧ (storeU u key v).dnOn = u.dnOn := by
  obtain ⟨h1, h2, _, h4, _, h6, h7, h8⟩ := looks_facts (ancestors key) u h
  rw [storeU_eq h hk]
  refine ⟨(h1.unused _).writeTop key v, ?_, h8, h4, h6, h7⟩
  rw [heap_top_set _ (h1.unused _)]
  show (topScope (looks u (ancestors key))).set key v = _
  rw [h2]

theorem frame_store {u : UState} (h : Shape u) {key : Str} (hk : NoSh u key) (v : Val) : Frame u (storeU u key v) := by
  obtain ⟨h1, _⟩ := looks_facts (ancestors key) u h
  rw [storeU_eq h hk]
  refine Frame.trans (frame_looks (ancestors key) u h) ⟨?_, rfl, rfl, rfl, ?_, ?_, rfl, rfl, rfl⟩
  · intro i hi
    show (Heap.update _ _ _).get i = _
    rw [h1.top, Heap.get_update]
    simp [hi]
  · show (Heap.update _ _ _).length = _
    rw [Heap.length_update]
  · show ((Heap.update _ _ _).get 4).isClass = _
    rw [h1.top, Heap.get_update]
    split
    · exact scope_set_isClass ..
    · rfl

theorem frame_fold {v : Val} : ∀ (keys : List Str) {u : UState}, Shape u → (∀ key ∈ keys, NoSh u key) →
    Frame u (keys.foldl (fun st key => storeU st key v) u) ∧ Shape (keys.foldl (fun st key => storeU st key v) u)
  | [], u, h, _ => ⟨Frame.refl u, h⟩
  | key :: r, u, h, hk => by
    simp only [List.foldl_cons]
    have hk0 := hk key (List.mem_cons_self ..)
    have f1 := frame_store h hk0 v
    obtain ⟨a, b⟩ := frame_fold r (storeU_facts h hk0 v).1 (fun k hk' => (hk k (List.mem_cons_of_mem _ hk')).frame f1)
    exact ⟨f1.trans a, b⟩

theorem frame_alias {u : UState} (h : Shape u) (keys : List Str) (b : Str) (idx : Nat) (plain : Bool) (hns : ∀ key ∈ keys, NoSh u key) :
    Frame u (stepU u (.importAlias keys b idx plain)) := by
  cases plain with
  | true => exact (frame_fold keys h hns).1
  | false =>
    have h1 : Shape { u with checkers := u.checkers ++ [{ bind := b, line := u.line, idx := idx }] } := h.checkers _
    obtain ⟨a, _⟩ := frame_fold (v := .obj u.checkers.length) keys h1 hns
    exact Frame.trans (Frame.trans (frame_checkers u _) a) (frame_checkers _ _)

/-- the part of the relation between the two analyses that concerns `__all__` -/
structure Ext (uo un : UState) : Prop where
  am : un.allMark = uo.allMark
  outerEq : ∀ i, i ≠ 4 → un.heap.get i = uo.heap.get i
  defSub : ∀ e ∈ uo.deferred ++ uo.useMarks, e ∈ un.deferred ++ un.useMarks
  hlen : un.heap.length = uo.heap.length
  xo : UShape uo
  xn : UShape un
  dnEq : un.deferredNames = uo.deferredNames
  onEq : un.dnOn = uo.dnOn

theorem ushape_frame {u u' : UState} (hs : UShape u) (f : Frame u u') : UShape u' := by
  refine ⟨by rw [f.outer delayedId (by decide)]; exact hs.delayed, fun i hi => ?_, f.inClass.trans hs.inClass⟩
  by_cases h4 : i = 4
  · subst h4; rw [f.cls4]; exact hs.noClass 4 hi
  · rw [f.outer i h4]; exact hs.noClass i hi

theorem Ext.frame {uo un uo' un' : UState} (e : Ext uo un) (fo : Frame uo uo') (fn : Frame un un') : Ext uo' un' :=
  ⟨by rw [fn.am, fo.am]; exact e.am, fun i hi => by rw [fn.outer i hi, fo.outer i hi]; exact e.outerEq i hi,
   by rw [fo.defer, fo.marks, fn.defer, fn.marks]; exact e.defSub, by rw [fn.len, fo.len]; exact e.hlen,
   ushape_frame e.xo fo, ushape_frame e.xn fn, by rw [fn.dnames, fo.dnames]; exact e.dnEq, by rw [fn.dnOn, fo.dnOn]; exact e.onEq⟩

/-! ### the two analyses in lock step -/

/-- `uo`: state of the analysis of the original program, `un`: of the program without the imports listed in `U` -/
structure Sim (U : List (Nat × Nat)) (φ : List Nat) (uo un : UState) : Prop where
  so : Shape uo
  sn : Shape un
  rel : Rel φ (topScope uo) uo.checkers uo.unused (topScope un) un.checkers un.unused
  keptOK : ∀ k ∈ φ, ∃ c : Checker, uo.checkers[k]? = some c ∧ (c.line, c.idx) ∉ U
  ext : Ext uo un

theorem keptOK_sameId {U : List (Nat × Nat)} {φ : List Nat} {cs cs' : List Checker} (s : SameId cs cs')
    (h : ∀ k ∈ φ, ∃ c : Checker, cs[k]? = some c ∧ (c.line, c.idx) ∉ U) :
    ∀ k ∈ φ, ∃ c : Checker, cs'[k]? = some c ∧ (c.line, c.idx) ∉ U := by
  intro k hk
  obtain ⟨c, hc, hn⟩ := h k hk
  obtain ⟨c', hc'⟩ := s.back hc
  obtain ⟨c2, hc2, _, _, _, e4, e5⟩ := s.2 k c' hc'
  rw [hc] at hc2; cases hc2
  exact ⟨c', hc', by rw [e4, e5]; exact hn⟩

theorem Sim.noShN {U φ} {uo un : UState} (s : Sim U φ uo un) {key : Str} (hk : NoSh uo key) : NoSh un key := by
  intro hd; rw [s.ext.dnEq]; exact hk (by rw [← s.ext.onEq]; exact hd)

theorem Sim.looksBoth {U φ} : ∀ (names : List Str) {uo un : UState}, Sim U φ uo un → Sim U φ (looks uo names) (looks un names)
  | [], _, _, s => s
  | n :: r, uo, un, s => by
    rw [looks_cons, looks_cons, sniU_top s.so, sniU_top s.sn]
    have hst : (splitDots n) = (splitDots n) := rfl
    exact Sim.looksBoth r ⟨s.so.checkers _, s.sn.checkers _, s.rel.lookBoth _,
      keptOK_sameId (markFound_sameId s.rel.plainO _) s.keptOK,
      s.ext.frame (frame_checkers _ _) (frame_checkers _ _)⟩

theorem Sim.looksOrig {U φ} {un : UState} : ∀ (names : List Str) {uo : UState}, Sim U φ uo un →
    (∀ n ∈ names, ∀ k, findInScope (topScope uo) (prefixesRev (splitDots n)) = some (.obj k) → k ∉ φ) →
    Sim U φ (looks uo names) un
  | [], _, s, _ => s
  | n :: r, uo, s, hf => by
    rw [looks_cons, sniU_top s.so]
    exact Sim.looksOrig r ⟨s.so.checkers _, s.sn, s.rel.lookOrig _ (hf n (List.mem_cons_self ..)),
      keptOK_sameId (markFound_sameId s.rel.plainO _) s.keptOK,
      s.ext.frame (frame_checkers _ _) (Frame.refl _)⟩ (fun m hm => hf m (List.mem_cons_of_mem _ hm))

theorem PairOK.sameId {φ : List Nat} {co cn co' cn' : List Checker} {v v' : Val} (h : PairOK φ co cn v v')
    (so : SameId co co') (sn : SameId cn cn') : PairOK φ co' cn' v v' := by
  rcases h with h | ⟨k, k', a, b, c, d, e⟩
  · exact .inl h
  · exact .inr ⟨k, k', a, b, c, by rw [so.1]; exact d, by rw [sn.1]; exact e⟩

theorem Sim.storeBoth {U φ} {uo un : UState} (s : Sim U φ uo un) (key : Str) {v v' : Val}
    (hp : PairOK φ uo.checkers un.checkers v v') (hk : NoSh uo key) : Sim U φ (storeU uo key v) (storeU un key v') := by
  obtain ⟨ho1, _, _, _, _, _, _, ho8⟩ := looks_facts (ancestors key) uo s.so
  obtain ⟨hn1, _, _, _, _, _, _, hn8⟩ := looks_facts (ancestors key) un s.sn
  have s1 := s.looksBoth (ancestors key)
  have hp1 := hp.sameId ho8 hn8
  have r := s1.rel.storeBoth key hp1
  have hext := s.ext.frame (frame_store s.so hk v) (frame_store s.sn (s.noShN hk) v')
  rw [storeU_eq s.so hk, storeU_eq s.sn (s.noShN hk)] at hext ⊢
  refine ⟨(ho1.unused _).writeTop key v, (hn1.unused _).writeTop key v', ?_, s1.keptOK, hext⟩
  rw [heap_top_set _ (ho1.unused _), heap_top_set _ (hn1.unused _)]
  exact r

theorem Sim.storeOrig {U φ} {uo un : UState} (s : Sim U φ uo un) (key : Str) {v : Val}
    (hv : v = .none ∨ ∃ k, v = .obj k ∧ k ∉ φ ∧ k < uo.checkers.length)
    (hanc : ∀ n ∈ ancestors key, ∀ k, findInScope (topScope uo) (prefixesRev (splitDots n)) = some (.obj k) → k ∉ φ)
    (hk : NoSh uo key) :
    Sim U φ (storeU uo key v) un := by
  obtain ⟨ho1, _, _, _, _, _, _, ho8⟩ := looks_facts (ancestors key) uo s.so
  have s1 := s.looksOrig (ancestors key) hanc
  have hv1 : v = .none ∨ ∃ k, v = .obj k ∧ k ∉ φ ∧ k < (looks uo (ancestors key)).checkers.length := by
    rcases hv with h | ⟨k, a, b, c⟩
    · exact .inl h
    · exact .inr ⟨k, a, b, by rw [ho8.1]; exact c⟩
  have r := s1.rel.storeOrig key hv1
  have hext := s.ext.frame (frame_store s.so hk v) (Frame.refl un)
  rw [storeU_eq s.so hk] at hext ⊢
  refine ⟨(ho1.unused _).writeTop key v, s.sn, ?_, s1.keptOK, hext⟩
  rw [heap_top_set _ (ho1.unused _)]
  exact r

theorem findInScope_self (top : Scope) (d : Str) (v : Val) (h : top.get d = some v) :
    findInScope top (prefixesRev (splitDots d)) = some v := by
  unfold prefixesRev
  rw [prefixes_last _ (splitDots_ne_nil d), List.reverse_append]
  simp only [List.reverse_cons, List.reverse_nil, List.nil_append, List.cons_append, findInScope, joinDots_splitDots, h]

/-- the stores of one import alias that only the original program has -/
theorem Sim.foldOrig {U φ} {un : UState} (v : Val) (hk : ∀ k, v = .obj k → k ∉ φ) : ∀ (rest done : List Str) {uo : UState}, Sim U φ uo un →
    (∀ k, v = .obj k → k < uo.checkers.length) → (∀ q ∈ done, (topScope uo).get q = some v) →
    (∀ pre key post, rest = pre ++ key :: post → ∀ n ∈ ancestors key, n ∈ done ++ pre) →
    (∀ key ∈ rest, NoSh uo key) →
    Sim U φ (rest.foldl (fun st key => storeU st key v) uo) un ∧
      SameId uo.checkers (rest.foldl (fun st key => storeU st key v) uo).checkers ∧
      (rest.foldl (fun st key => storeU st key v) uo).line = uo.line
  | [], _, _, s, _, _, _, _ => ⟨s, SameId.refl _, rfl⟩
  | key :: post, done, uo, s, hlt, hdone, hch, hns => by
    simp only [List.foldl_cons]
    have hk0 := hns key (List.mem_cons_self ..)
    obtain ⟨f1, f2, f3, f4, f5, f6⟩ := storeU_facts s.so hk0 v
    have s1 : Sim U φ (storeU uo key v) un := by
      refine s.storeOrig key ?_ ?_ hk0
      · cases v with
        | none => exact .inl rfl
        | obj k => exact .inr ⟨k, rfl, hk k rfl, hlt k rfl⟩
      · intro n hn k2 hf
        have hmem := hch [] key post rfl n hn
        rw [List.append_nil] at hmem
        rw [findInScope_self _ n _ (hdone n hmem)] at hf
        simp only [Option.some.injEq] at hf
        exact hk k2 hf
    obtain ⟨g1, g2, g3⟩ := Sim.foldOrig v hk post (done ++ [key]) s1 (fun k e => by rw [f3.1]; exact hlt k e) (by
      intro q hq
      rw [f2]
      by_cases e : q = key
      · subst e; exact scope_get_set_eq ..
      · rw [scope_get_set_ne _ e]
        rcases List.mem_append.mp hq with hq | hq
        · exact hdone q hq
        · simp only [List.mem_singleton] at hq; exact absurd hq e) (by
      intro pre key2 post2 he n hn
      have := hch (key :: pre) key2 post2 (by rw [he]; rfl) n hn
      simp only [List.append_assoc, List.singleton_append]
      exact this) (fun k hk' => (hns k (List.mem_cons_of_mem _ hk')).frame (frame_store s.so hk0 v))
    exact ⟨g1, f3.trans g2, g3.trans f4⟩

/-- the stores of one import alias that both programs have -/
theorem Sim.foldBoth {U φ} {v v' : Val} (J : Scope → Scope → Prop)
    (hJ : ∀ (a b : Scope) (q : Str), J a b → J (a.set q v) (b.set q v')) :
    ∀ (keys : List Str) {uo un : UState}, Sim U φ uo un → PairOK φ uo.checkers un.checkers v v' → J (topScope uo) (topScope un) →
    (∀ key ∈ keys, NoSh uo key) →
    Sim U φ (keys.foldl (fun st key => storeU st key v) uo) (keys.foldl (fun st key => storeU st key v') un) ∧
      J (topScope (keys.foldl (fun st key => storeU st key v) uo)) (topScope (keys.foldl (fun st key => storeU st key v') un)) ∧
      SameId uo.checkers (keys.foldl (fun st key => storeU st key v) uo).checkers ∧
      SameId un.checkers (keys.foldl (fun st key => storeU st key v') un).checkers ∧
      (keys.foldl (fun st key => storeU st key v) uo).line = uo.line ∧
      (keys.foldl (fun st key => storeU st key v) uo).allMark = uo.allMark ∧
      (keys.foldl (fun st key => storeU st key v) uo).dnOn = uo.dnOn ∧
      (keys.foldl (fun st key => storeU st key v') un).line = un.line ∧
      (keys.foldl (fun st key => storeU st key v') un).allMark = un.allMark ∧
      (keys.foldl (fun st key => storeU st key v') un).dnOn = un.dnOn
  | [], _, _, s, _, j, _ => ⟨s, j, SameId.refl _, SameId.refl _, rfl, rfl, rfl, rfl, rfl, rfl⟩
  | key :: rest, uo, un, s, hp, j, hns => by
    simp only [List.foldl_cons]
    have hk0 := hns key (List.mem_cons_self ..)
    obtain ⟨f1, f2, f3, f4, f5, f6⟩ := storeU_facts s.so hk0 v
    obtain ⟨e1, e2, e3, e4, e5, e6⟩ := storeU_facts s.sn (s.noShN hk0) v'
    obtain ⟨g1, g2, g3, g4, g5, g6, g7, g8, g9, g10⟩ := Sim.foldBoth J hJ rest (s.storeBoth key hp hk0) (hp.sameId f3 e3)
      (by rw [f2, e2]; exact hJ _ _ key j) (fun k hk' => (hns k (List.mem_cons_of_mem _ hk')).frame (frame_store s.so hk0 v))
    exact ⟨g1, g2, f3.trans g3, e3.trans g4, g5.trans f4, g6.trans f5, g7.trans f6, g8.trans e4, g9.trans e5, g10.trans e6⟩


/-! ### the keys of an import alias: each key's ancestors are the keys before it -/

theorem prefixes_ne_nil' : ∀ {ps : List Str}, ps ≠ [] → prefixes ps ≠ []
  | [], h => absurd rfl h
  | _ :: _, _ => by simp [prefixes]

theorem prefixes_mem_ne_nil {ps p : List Str} (h : p ∈ prefixes ps) : p ≠ [] := by
  obtain ⟨x, r, r', _, h2⟩ := prefixes_head h
  rw [h2]; simp

theorem prefixes_chain : ∀ (ps : List Str) (A : List (List Str)) (P : List Str) (B : List (List Str)),
    prefixes ps = A ++ P :: B → (prefixes P).dropLast = A
  | [], A, P, B, h => by simp [prefixes] at h
  | x :: r, [], P, B, h => by
    simp only [prefixes, List.nil_append, List.cons.injEq] at h
    rw [← h.1]; simp [prefixes]
  | x :: r, a0 :: A', P, B, h => by
    simp only [prefixes, List.cons_append, List.cons.injEq] at h
    obtain ⟨h0, h1⟩ := h
    obtain ⟨A2, Q, e1, e2, e3⟩ := List.map_eq_append_iff.mp h1
    obtain ⟨P', B', e4, e5, e6⟩ := List.map_eq_cons_iff.mp e3
    have ih := prefixes_chain r A2 P' B' (by rw [e1, e4])
    have hP' : P' ∈ prefixes r := by rw [e1, e4]; simp
    have hne : (prefixes P').map (fun y => x :: y) ≠ [] := by
      simp only [ne_eq, List.map_eq_nil_iff]; exact prefixes_ne_nil' (prefixes_mem_ne_nil hP')
    rw [← e5]
    show ([x] :: (prefixes P').map (fun y => x :: y)).dropLast = a0 :: A'
    rw [List.dropLast_cons_of_ne_nil hne, ← List.map_dropLast, ih, ← h0, e2]

/-- every ancestor of a key was stored before the key -/
def ChainOK (keys : List Str) : Prop := ∀ pre key post, keys = pre ++ key :: post → ∀ n ∈ ancestors key, n ∈ pre

theorem chainOK_keysOf {a : Alias} (hparts : ∀ p ∈ splitDots a.name, simpleName p = true)
    (has : ∀ n, a.asname = some n → simpleName n = true) : ChainOK (keysOf a) ∧ a.name ≠ ['*'] := by
  have hstar : a.name ≠ ['*'] := by
    intro hc
    have h1 : splitDots a.name = [['*']] := by rw [hc]; decide
    have := hparts ['*'] (by rw [h1]; simp)
    exact absurd this (by decide)
  refine ⟨?_, hstar⟩
  cases hasn : a.asname with
  | some n =>
    have hk : keysOf a = [n] := by simp [keysOf, hasn]
    rw [hk]
    intro pre key post he m hm
    have hkey : key = n := by
      cases pre with
      | nil => simp only [List.nil_append, List.cons.injEq] at he; exact he.1.symm
      | cons p pre' =>
        simp only [List.cons_append, List.cons.injEq] at he
        have := he.2; simp at this
    subst hkey
    unfold ancestors at hm
    rw [prefixes_simple (has _ hasn)] at hm
    simp at hm
  | none =>
    rw [keysOf_noAs hasn hstar]
    intro pre key post he m hm
    obtain ⟨A, Q, e1, e2, e3⟩ := List.map_eq_append_iff.mp he
    obtain ⟨P, B, e4, e5, e6⟩ := List.map_eq_cons_iff.mp e3
    have hP : P ∈ prefixes (splitDots a.name) := by rw [e1, e4]; simp
    have hch := prefixes_chain _ A P B (by rw [e1, e4])
    have hsd : splitDots (joinDots P) = P :=
      splitDots_joinDots P (prefixes_mem_ne_nil hP) (fun y hy => simpleName_dotFree (hparts y (prefixes_sub hP y hy)))
    unfold ancestors at hm
    rw [← e5, hsd, hch] at hm
    rw [← e2]; exact hm

/-! ### one import alias -/

theorem resetUsed_plain {cs : List Checker} (h : PlainCs cs) (k : Nat) : resetUsed cs k = setUsed cs k false := by
  unfold resetUsed
  show (match (setUsed cs k false)[k]? with
    | some c => c.shadowed.foldl (fun (cs : List Checker) j => cs.modify j (fun d => { d with used := false })) (setUsed cs k false)
    | none => setUsed cs k false) = _
  cases hc : (setUsed cs k false)[k]? with
  | none => rfl
  | some c =>
    simp only
    rw [((h.sameId (setUsed_sameId cs k false)) k c hc).1]; rfl

theorem Shape.line {u : UState} (h : Shape u) (l : Nat) : Shape { u with line := l } :=
  ⟨h.stack, h.len, h.inFunc, h.cond, h.dn, h.outer, h.defIds, h.nodup⟩

theorem stepU_alias (u : UState) (keys : List Str) (b : Str) (idx : Nat) :
    stepU u (.importAlias keys b idx false) =
      { keys.foldl (fun st key => storeU st key (.obj u.checkers.length)) { u with checkers := u.checkers ++ [freshChecker b u.line idx] } with
        checkers := resetUsed (keys.foldl (fun st key => storeU st key (.obj u.checkers.length))
          { u with checkers := u.checkers ++ [freshChecker b u.line idx] }).checkers u.checkers.length } := rfl

theorem stepU_plain (u : UState) (keys : List Str) (b : Str) (idx : Nat) :
    stepU u (.importAlias keys b idx true) = keys.foldl (fun st key => storeU st key .none) u := rfl

theorem Sim.aliasOrig {U φ} {uo un : UState} (s : Sim U φ uo un) (keys : List Str) (b : Str) (idx : Nat) (plain : Bool)
    (hch : ChainOK keys) (hns : ∀ key ∈ keys, NoSh uo key) :
    Sim U φ (stepU uo (.importAlias keys b idx plain)) un ∧ (stepU uo (.importAlias keys b idx plain)).line = uo.line := by
  cases plain with
  | true =>
    rw [stepU_plain]
    obtain ⟨g1, _, g3⟩ := Sim.foldOrig (U := U) (φ := φ) (un := un) .none (fun k e => by cases e) keys [] s (fun k e => by cases e)
      (fun q hq => by simp at hq) (fun pre key post he n hn => by simpa using hch pre key post he n hn) hns
    exact ⟨g1, g3⟩
  | false =>
    rw [stepU_alias]
    have hk : uo.checkers.length ∉ φ := fun hm => Nat.lt_irrefl _ (s.rel.lt_of_mem hm)
    have s1 : Sim U φ { uo with checkers := uo.checkers ++ [freshChecker b uo.line idx] } un :=
      ⟨s.so.checkers _, s.sn, s.rel.appendOrig b uo.line idx, fun k hk' => by
        obtain ⟨c, hc, hn⟩ := s.keptOK k hk'
        exact ⟨c, getElem?_append_some _ hc, hn⟩, s.ext.frame (frame_checkers _ _) (Frame.refl _)⟩
    obtain ⟨g1, g2, g3⟩ := Sim.foldOrig (U := U) (φ := φ) (un := un) (.obj uo.checkers.length)
      (fun k e => by cases e; exact hk) keys [] s1
      (fun k e => by cases e; simp) (fun q hq => by simp at hq)
      (fun pre key post he n hn => by simpa using hch pre key post he n hn) hns
    refine ⟨⟨g1.so.checkers _, s.sn, ?_, ?_, g1.ext.frame (frame_checkers _ _) (Frame.refl _)⟩, g3⟩
    · show Rel φ _ (resetUsed _ _) _ _ _ _
      rw [resetUsed_plain g1.rel.plainO]
      exact g1.rel.resetOrig hk
    · show ∀ k ∈ φ, ∃ c : Checker, (resetUsed _ _)[k]? = some c ∧ _
      rw [resetUsed_plain g1.rel.plainO]
      exact keptOK_sameId (setUsed_sameId _ _ _) g1.keptOK

theorem Sim.aliasBoth {U φ} {uo un : UState} (s : Sim U φ uo un) (keys : List Str) (b : Str) (idx idx' : Nat) (plain : Bool)
    (hU : (uo.line, idx) ∉ U) (hns : ∀ key ∈ keys, NoSh uo key) :
    (∃ φ', Sim U φ' (stepU uo (.importAlias keys b idx plain)) (stepU un (.importAlias keys b idx' plain))) ∧
      (stepU uo (.importAlias keys b idx plain)).line = uo.line := by
  cases plain with
  | true =>
    rw [stepU_plain, stepU_plain]
    obtain ⟨g1, _, _, _, g5, _⟩ := Sim.foldBoth (U := U) (φ := φ) (v := .none) (v' := .none) (fun _ _ => True) (fun _ _ _ _ => trivial)
      keys s (.inl ⟨rfl, rfl⟩) trivial hns
    exact ⟨⟨φ, g1⟩, g5⟩
  | false =>
    rw [stepU_alias, stepU_alias]
    have hlen := s.rel.len
    have s1 : Sim U (φ ++ [uo.checkers.length]) { uo with checkers := uo.checkers ++ [freshChecker b uo.line idx] }
        { un with checkers := un.checkers ++ [freshChecker b un.line idx'] } :=
      ⟨s.so.checkers _, s.sn.checkers _, s.rel.appendBoth b uo.line idx un.line idx', fun k hk' => by
        rcases List.mem_append.mp hk' with hk' | hk'
        · obtain ⟨c, hc, hn⟩ := s.keptOK k hk'
          exact ⟨c, getElem?_append_some _ hc, hn⟩
        · simp only [List.mem_singleton] at hk'; subst hk'
          exact ⟨_, getElem?_append_new _ _, hU⟩, s.ext.frame (frame_checkers _ _) (frame_checkers _ _)⟩
    have hφ : (φ ++ [uo.checkers.length])[un.checkers.length]? = some uo.checkers.length := by
      rw [← hlen]; exact getElem?_append_new _ _
    obtain ⟨g1, g2, g3, g4, g5, _⟩ := Sim.foldBoth (U := U) (φ := φ ++ [uo.checkers.length])
      (v := .obj uo.checkers.length) (v' := .obj un.checkers.length)
      (fun a b => ∀ q, b.get q = some (.obj un.checkers.length) → a.get q = some (.obj uo.checkers.length))
      (fun a b q j q2 h => by
        by_cases e : q2 = q
        · subst e; exact scope_get_set_eq ..
        · rw [scope_get_set_ne _ e] at h ⊢; exact j q2 h)
      keys s1 (.inr ⟨_, _, rfl, rfl, hφ, by simp, by simp⟩)
      (fun q h => absurd (s.rel.validN q _ h) (Nat.lt_irrefl _)) hns
    refine ⟨⟨φ ++ [uo.checkers.length], g1.so.checkers _, g1.sn.checkers _, ?_, ?_, g1.ext.frame (frame_checkers _ _) (frame_checkers _ _)⟩, g5⟩
    · show Rel _ _ (resetUsed _ _) _ _ (resetUsed _ _) _
      rw [resetUsed_plain g1.rel.plainO, resetUsed_plain g1.rel.plainN]
      exact g1.rel.resetBoth hφ g2
    · show ∀ k ∈ _, ∃ c : Checker, (resetUsed _ _)[k]? = some c ∧ _
      rw [resetUsed_plain g1.rel.plainO]
      exact keptOK_sameId (setUsed_sameId _ _ _) g1.keptOK


/-! ### `__all__ = [...]` and the deferred lookups -/

theorem looks_checkers : ∀ (names : List Str) (u : UState), Shape u →
    (looks u names).checkers = marksOf (topScope u) u.checkers names
  | [], _, _ => rfl
  | n :: r, u, h => by
    rw [looks_cons, sniU_top h, looks_checkers r _ (h.checkers _)]
    rfl

theorem findBinding_congr {h1 h2 : Heap} (parts : List Str) : ∀ (l : List Nat), (∀ i ∈ l, h1.get i = h2.get i) →
    findBinding h1 parts l = findBinding h2 parts l
  | [], _ => rfl
  | i :: r, h => by
    simp only [findBinding]
    rw [h i (List.mem_cons_self ..), findBinding_congr parts r (fun j hj => h j (List.mem_cons_of_mem _ hj))]

theorem sniU_fst {u : UState} (h : Shape u) (d : Str) :
    (sniU u u.stack.ids d).1 = true ↔
      findInScope (topScope u) (prefixesRev (splitDots d)) = none ∧ findBinding u.heap (splitDots d) [3, 1, 0] = none := by
  unfold sniU
  rw [h.stack]
  have : (normIds [0, 1, 3, 4]).reverse = [4, 3, 1, 0] := by decide
  rw [this]
  have e : findBinding u.heap (splitDots d) [4, 3, 1, 0] =
      match findInScope (u.heap.get 4) (prefixesRev (splitDots d)) with
      | some v => some v
      | none => findBinding u.heap (splitDots d) [3, 1, 0] := rfl
  rw [e]
  unfold topScope
  cases findInScope (u.heap.get 4) (prefixesRev (splitDots d)) with
  | some v => simp
  | none =>
    simp only [true_and]
    cases findBinding u.heap (splitDots d) [3, 1, 0] <;> simp

/-- `_visit__all__` for one name -/
def allStep (st : UState) (n : Str) : UState :=
  let r := sniU st st.stack.ids n
  if r.1 then { r.2 with deferred := r.2.deferred ++ [(n, r.2.stack.ids)] }
  else if r.2.allMark then { r.2 with useMarks := r.2.useMarks ++ [(n, r.2.stack.ids)] } else r.2

theorem stepU_allNames (u : UState) (h : u.inFunc = false) (names : List Str) :
    stepU u (.allNames names) = names.foldl allStep u := by
  simp only [stepU, h, Bool.false_eq_true, if_false]
  rfl

theorem Shape.defer {u : UState} (h : Shape u) (cs : List Checker) (d m : List (Str × List Nat)) (hd : ∀ e ∈ d ++ m, e.2 = [0, 1, 3, 4]) :
    Shape { u with checkers := cs, deferred := u.deferred ++ d, useMarks := u.useMarks ++ m } := by
  refine ⟨h.stack, h.len, h.inFunc, h.cond, h.dn, h.outer, ?_, h.nodup⟩
  intro e he
  simp only [List.mem_append] at he
  rcases he with (he | he) | (he | he)
  · exact h.defIds e (List.mem_append_left _ he)
  · exact .inl (hd e (List.mem_append_left _ he))
  · exact h.defIds e (List.mem_append_right _ he)
  · exact .inl (hd e (List.mem_append_right _ he))

/-- the shape of one `_visit__all__` step: a lookup, then the name joins one of the two lists (or none) -/
theorem allStep_eq {u : UState} (h : Shape u) (n : Str) :
    ∃ d m : List (Str × List Nat),
      allStep u n = { u with checkers := markFound u.checkers (findInScope (topScope u) (prefixesRev (splitDots n))),
                             deferred := u.deferred ++ d, useMarks := u.useMarks ++ m } ∧
      (∀ e ∈ d ++ m, e = (n, [0, 1, 3, 4])) ∧
      (((sniU u u.stack.ids n).1 = true ∨ u.allMark = true) → d ++ m = [(n, [0, 1, 3, 4])]) := by
  unfold allStep
  simp only
  rw [sniU_top h]
  simp only [h.stack]
  by_cases h1 : (sniU u [0, 1, 3, 4] n).1 = true
  · rw [if_pos h1]
    exact ⟨[(n, [0, 1, 3, 4])], [], by simp, by simp, fun _ => by simp⟩
  · rw [if_neg h1]
    by_cases h2 : u.allMark = true
    · rw [if_pos h2]
      exact ⟨[], [(n, [0, 1, 3, 4])], by simp, by simp, fun _ => by simp⟩
    · rw [if_neg h2]
      refine ⟨[], [], by simp, by simp, fun hc => ?_⟩
      rcases hc with hc | hc
      · exact absurd hc h1
      · exact absurd hc h2

theorem Sim.allStep {U φ} {uo un : UState} (s : Sim U φ uo un) (n : Str) :
    Sim U φ (allStep uo n) (allStep un n) ∧ (allStep uo n).line = uo.line := by
  obtain ⟨d1, m1, e1, a1, b1⟩ := allStep_eq s.so n
  obtain ⟨d2, m2, e2, a2, b2⟩ := allStep_eq s.sn n
  have hneeds : (sniU uo uo.stack.ids n).1 = true → (sniU un un.stack.ids n).1 = true := by
    intro hh
    obtain ⟨x1, x2⟩ := (sniU_fst s.so n).mp hh
    refine (sniU_fst s.sn n).mpr ⟨(findInScope_rel s.rel _).1 x1, ?_⟩
    rw [findBinding_congr (h2 := uo.heap) _ _ (fun i hi => s.ext.outerEq i (by simp at hi; omega))]
    exact x2
  rw [e1, e2]
  refine ⟨⟨?_, ?_, s.rel.lookBoth _, keptOK_sameId (markFound_sameId s.rel.plainO _) s.keptOK, ?_⟩, rfl⟩
  · exact s.so.defer _ d1 m1 (fun e he => by rw [a1 e he])
  · exact s.sn.defer _ d2 m2 (fun e he => by rw [a2 e he])
  · refine ⟨s.ext.am, s.ext.outerEq, ?_, s.ext.hlen, ⟨s.ext.xo.delayed, s.ext.xo.noClass, s.ext.xo.inClass⟩,
      ⟨s.ext.xn.delayed, s.ext.xn.noClass, s.ext.xn.inClass⟩, s.ext.dnEq, s.ext.onEq⟩
    intro e he
    show e ∈ (un.deferred ++ d2) ++ (un.useMarks ++ m2)
    have he' : e ∈ (uo.deferred ++ uo.useMarks) ∨ e ∈ d1 ++ m1 := by
      simp only [List.mem_append] at he ⊢
      rcases he with (x | x) | (x | x)
      · exact .inl (.inl x)
      · exact .inr (.inl x)
      · exact .inl (.inr x)
      · exact .inr (.inr x)
    rcases he' with x | x
    · have y := s.ext.defSub e x
      simp only [List.mem_append] at y ⊢
      rcases y with y | y
      · exact .inl (.inl y)
      · exact .inr (.inl y)
    · have hne : d1 ++ m1 ≠ [] := fun hc => by rw [hc] at x; simp at x
      have hcond : (sniU un un.stack.ids n).1 = true ∨ un.allMark = true := by
        by_cases q1 : (sniU uo uo.stack.ids n).1 = true
        · exact .inl (hneeds q1)
        · by_cases q2 : uo.allMark = true
          · exact .inr (by rw [s.ext.am]; exact q2)
          · exfalso
            obtain ⟨d, m, e3, a3, b3⟩ := allStep_eq s.so n
            -- neither list grows in this case
            apply hne
            have : Pfb.C04.FC.allStep uo n = { uo with checkers := markFound uo.checkers (findInScope (topScope uo) (prefixesRev (splitDots n))) } := by
              unfold Pfb.C04.FC.allStep
              simp only [q1, Bool.false_eq_true, if_false]
              rw [sniU_top s.so]
              simp only [q2, Bool.false_eq_true, if_false]
            rw [this] at e1
            have hd := congrArg UState.deferred e1
            have hm := congrArg UState.useMarks e1
            simp only at hd hm
            have hd' : d1 = [] := by simpa using hd
            have hm' : m1 = [] := by simpa using hm
            rw [hd', hm']; rfl
      have := b2 hcond
      rw [a1 e x]
      have hm : (n, [0, 1, 3, 4]) ∈ d2 ++ m2 := by rw [this]; simp
      simp only [List.mem_append] at hm ⊢
      rcases hm with y | y
      · exact .inl (.inr y)
      · exact .inr (.inr y)

theorem Sim.allNames {U φ} : ∀ (names : List Str) {uo un : UState}, Sim U φ uo un →
    Sim U φ (names.foldl Pfb.C04.FC.allStep uo) (names.foldl Pfb.C04.FC.allStep un) ∧ (names.foldl Pfb.C04.FC.allStep uo).line = uo.line
  | [], _, _, s => ⟨s, rfl⟩
  | n :: r, uo, un, s => by
    simp only [List.foldl_cons]
    obtain ⟨s1, l1⟩ := s.allStep n
    obtain ⟨s2, l2⟩ := Sim.allNames r s1
    exact ⟨s2, l2.trans l1⟩


/-! ### statements -/

theorem cAlias_keysOf (m : Option Str) (idx : Nat) (a : Alias) :
    cAlias m idx a = .importAlias (keysOf a) (a.asname.getD a.name) idx (a.name = ['*'] ∨ m = some "__future__".toList) := rfl

theorem sim_aliases {U : List (Nat × Nat)} (m : Option Str) : ∀ (names : List Alias) (idx idx' : Nat) (φ : List Nat) (uo un : UState),
    Sim U φ uo un →
    (∀ a ∈ names, (∀ p ∈ splitDots a.name, simpleName p = true) ∧ (∀ n, a.asname = some n → simpleName n = true)) →
    (∀ a ∈ names, ∀ key ∈ keysOf a, NoSh uo key) →
    (∃ φ', Sim U φ' (runOpsU uo (cAliases m idx names)) (runOpsU un (cAliases m idx' (keepAliases U uo.line idx names)))) ∧
      (runOpsU uo (cAliases m idx names)).line = uo.line
  | [], _, _, φ, _, _, s, _, _ => ⟨⟨φ, s⟩, rfl⟩
  | a :: r, idx, idx', φ, uo, un, s, hok, hns => by
    obtain ⟨hparts, has⟩ := hok a (List.mem_cons_self ..)
    obtain ⟨hch, _⟩ := chainOK_keysOf hparts has
    have hrest := fun b hb => hok b (List.mem_cons_of_mem _ hb)
    have hnsa := hns a (List.mem_cons_self ..)
    have fa := frame_alias s.so (keysOf a) (a.asname.getD a.name) idx (decide (a.name = ['*'] ∨ m = some "__future__".toList)) hnsa
    have hnsr : ∀ b ∈ r, ∀ key ∈ keysOf b, NoSh (stepU uo (.importAlias (keysOf a) (a.asname.getD a.name) idx
        (decide (a.name = ['*'] ∨ m = some "__future__".toList)))) key :=
      fun b hb key hk => ((hns b (List.mem_cons_of_mem _ hb)) key hk).frame fa
    simp only [cAliases, keepAliases]
    rw [runOpsU_cons, cAlias_keysOf]
    by_cases hU : (uo.line, idx) ∈ U
    · rw [if_pos hU]
      obtain ⟨s1, l1⟩ := s.aliasOrig (keysOf a) (a.asname.getD a.name) idx (decide (a.name = ['*'] ∨ m = some "__future__".toList)) hch hnsa
      obtain ⟨g1, g2⟩ := sim_aliases m r (idx + 1) idx' φ _ un s1 hrest hnsr
      rw [l1] at g1 g2
      exact ⟨g1, g2⟩
    · rw [if_neg hU]
      simp only [cAliases]
      rw [runOpsU_cons, cAlias_keysOf]
      obtain ⟨⟨φ1, s1⟩, l1⟩ := s.aliasBoth (keysOf a) (a.asname.getD a.name) idx idx' (decide (a.name = ['*'] ∨ m = some "__future__".toList)) hU hnsa
      obtain ⟨g1, g2⟩ := sim_aliases m r (idx + 1) (idx' + 1) φ1 _ _ s1 hrest hnsr
      rw [l1] at g1 g2
      exact ⟨g1, g2⟩

theorem frame_line (u : UState) (l : Nat) : Frame u { u with line := l } := ⟨fun _ _ => rfl, rfl, rfl, rfl, rfl, rfl, rfl, rfl, rfl⟩

theorem Sim.setLineOrig {U φ} {uo un : UState} (s : Sim U φ uo un) (l : Nat) : Sim U φ { uo with line := l } un :=
  ⟨s.so.line l, s.sn, s.rel, s.keptOK, s.ext.frame (frame_line _ _) (Frame.refl _)⟩

theorem Sim.setLineBoth {U φ} {uo un : UState} (s : Sim U φ uo un) (l l' : Nat) : Sim U φ { uo with line := l } { un with line := l' } :=
  ⟨s.so.line l, s.sn.line l', s.rel, s.keptOK, s.ext.frame (frame_line _ _) (frame_line _ _)⟩

theorem sim_loads {U φ} {uo un : UState} (s : Sim U φ uo un) (names : List Str) :
    Sim U φ (runOpsU uo (names.map Op.load)) (runOpsU un (names.map Op.load)) ∧
      (runOpsU uo (names.map Op.load)).line = uo.line := by
  rw [runOpsU_loads names uo s.so, runOpsU_loads names un s.sn]
  exact ⟨s.looksBoth names, (looks_facts names uo s.so).2.2.2.1⟩

theorem sim_stmt {U : List (Nat × Nat)} (fx : Fixes) (D : Bool) : ∀ (stmt : Stmt) (ln ln' : Nat) (φ : List Nat) (uo un : UState),
    Sim U φ uo un → fragBStmt D stmt = true → (∀ key ∈ storeKeys stmt, NoSh uo key) →
    (∃ φ', Sim U φ' (runOpsU uo (cStmt fx ln stmt)) (runOpsU un (cStmts fx ln' (dropStmt U uo.line stmt).toList))) ∧
      (runOpsU uo (cStmt fx ln stmt)).line = lineAfter uo.line stmt
  | .expr e, ln, ln', φ, uo, un, s, hf, _ => by
    simp only [fragBStmt] at hf
    simp only [dropStmt, Option.toList, cStmts, cStmt, List.append_nil, lineAfter]
    rw [cExpr_loads fx D e hf]
    obtain ⟨a, b⟩ := sim_loads s (loadsOf e)
    exact ⟨⟨φ, a⟩, b⟩
  | .assign ts e, ln, ln', φ, uo, un, s, hf, hns => by
    simp only [fragBStmt, Bool.and_eq_true] at hf
    cases hsn : singleName ts with
    | none => rw [hsn] at hf; simp at hf
    | some x =>
      have hts := singleName_eq hsn
      subst hts
      simp only [dropStmt, Option.toList, cStmts, cStmt, List.append_nil, lineAfter]
      rw [cExpr_loads fx D e hf.2]
      have hst : cTargets fx [Expr.name x] = [Op.store x] := by simp [cTargets, cTarget]
      rw [hst, runOpsU_append, runOpsU_append, runOpsU_append, runOpsU_append]
      obtain ⟨a, b⟩ := sim_loads s (loadsOf e)
      have hx : NoSh uo x := hns x (by simp [storeKeys, singleName])
      have fl : Frame uo (runOpsU uo ((loadsOf e).map Op.load)) := by
        rw [runOpsU_loads _ uo s.so]; exact frame_looks _ uo s.so
      have a2 : Sim U φ (runOpsU (runOpsU uo ((loadsOf e).map Op.load)) [Op.store x])
          (runOpsU (runOpsU un ((loadsOf e).map Op.load)) [Op.store x]) := a.storeBoth x (.inl ⟨rfl, rfl⟩) (hx.frame fl)
      have b2 : (runOpsU (runOpsU uo ((loadsOf e).map Op.load)) [Op.store x]).line = uo.line := by
        show (storeU _ x .none).line = _
        rw [(storeU_facts a.so (hx.frame fl) .none).2.2.2.1]; exact b
      rcases cAll_ops x e with hc | ⟨ns, hc⟩
      · rw [hc]; exact ⟨⟨φ, a2⟩, b2⟩
      · rw [hc]
        show (∃ φ', Sim U φ' (stepU _ (.allNames ns)) (stepU _ (.allNames ns))) ∧ (stepU _ (.allNames ns)).line = _
        rw [stepU_allNames _ a2.so.inFunc, stepU_allNames _ a2.sn.inFunc]
        obtain ⟨a3, b3⟩ := Sim.allNames ns a2
        exact ⟨⟨φ, a3⟩, b3.trans b2⟩
  | .pass, ln, ln', φ, uo, un, s, _, _ => ⟨⟨φ, s⟩, rfl⟩
  | .import_ names, ln, ln', φ, uo, un, s, hf, hns => by
    simp only [fragBStmt, List.all_eq_true] at hf
    have hnew : cStmts fx ln' (dropStmt U uo.line (.import_ names)).toList = cAliases none 0 (keepAliases U uo.line 0 names) := by
      simp only [dropStmt]
      split
      · rename_i h; rw [h]; rfl
      · simp [Option.toList, cStmts, cStmt]
    rw [hnew]
    exact sim_aliases none names 0 0 φ uo un s (fun a ha => importAliasOK_parts (hf a ha))
      (fun a ha key hk => hns key (List.mem_flatMap.mpr ⟨a, ha, hk⟩))
  | .importFrom m names, ln, ln', φ, uo, un, s, hf, hns => by
    simp only [fragBStmt, List.all_eq_true] at hf
    have hnew : cStmts fx ln' (dropStmt U uo.line (.importFrom m names)).toList = cAliases (some m) 0 (keepAliases U uo.line 0 names) := by
      simp only [dropStmt]
      split
      · rename_i h; rw [h]; rfl
      · simp [Option.toList, cStmts, cStmt]
    rw [hnew]
    exact sim_aliases (some m) names 0 0 φ uo un s (fun a ha => fromAliasOK_parts (hf a ha))
      (fun a ha key hk => hns key (List.mem_flatMap.mpr ⟨a, ha, hk⟩))
  | .located l st, ln, ln', φ, uo, un, s, hf, hns => by
    simp only [fragBStmt] at hf
    simp only [cStmt, lineAfter]
    rw [runOpsU_cons]
    show (∃ φ', Sim U φ' (runOpsU { uo with line := l } (cStmt fx l st)) _) ∧ (runOpsU { uo with line := l } (cStmt fx l st)).line = _
    cases hd : dropStmt U l st with
    | none =>
      have ih := sim_stmt fx D st l ln' φ { uo with line := l } un (s.setLineOrig l) hf hns
      simp only [hd, Option.toList, cStmts] at ih
      simp only [dropStmt, hd, Option.map_none, Option.toList, cStmts]
      exact ih
    | some st' =>
      have ih := sim_stmt fx D st l l φ { uo with line := l } { un with line := l } (s.setLineBoth l l) hf hns
      simp only [hd, Option.toList, cStmts, List.append_nil] at ih
      simp only [dropStmt, hd, Option.map_some, Option.toList, cStmts, cStmt, List.append_nil]
      rw [runOpsU_cons]
      exact ih
  | .augAssign _ _, _, _, _, _, _, _, hf, _ => by simp [fragBStmt] at hf
  | .annAssign _ _ _, _, _, _, _, _, _, hf, _ => by simp [fragBStmt] at hf
  | .funcDef _ _ _ _ _, _, _, _, _, _, _, hf, _ => by simp [fragBStmt] at hf
  | .classDef _ _ _ _, _, _, _, _, _, _, hf, _ => by simp [fragBStmt] at hf
  | .for_ _ _ _ _, _, _, _, _, _, _, hf, _ => by simp [fragBStmt] at hf
  | .while_ _ _ _, _, _, _, _, _, _, hf, _ => by simp [fragBStmt] at hf
  | .if_ _ _ _, _, _, _, _, _, _, hf, _ => by simp [fragBStmt] at hf
  | .with_ _ _, _, _, _, _, _, _, hf, _ => by simp [fragBStmt] at hf
  | .try_ _ _ _ _, _, _, _, _, _, _, hf, _ => by simp [fragBStmt] at hf
  | .return_ _, _, _, _, _, _, _, hf, _ => by simp [fragBStmt] at hf
  | .raise_ _, _, _, _, _, _, _, hf, _ => by simp [fragBStmt] at hf
  | .delete _, _, _, _, _, _, _, hf, _ => by simp [fragBStmt] at hf
  | .global_ _, _, _, _, _, _, _, hf, _ => by simp [fragBStmt] at hf
  | .nonlocal_ _, _, _, _, _, _, _, hf, _ => by simp [fragBStmt] at hf

theorem cStmts_append (fx : Fixes) (ln : Nat) : ∀ (a b : List Stmt), cStmts fx ln (a ++ b) = cStmts fx ln a ++ cStmts fx ln b
  | [], b => rfl
  | s :: a, b => by simp only [List.cons_append, cStmts, cStmts_append fx ln a b, List.append_assoc]

/-! ### the start and the end of the analysis -/

theorem shape_init (builtins : Scope) (am dn : Bool) (hb : builtinsPlain builtins = true) : Shape (initU builtins am dn) := by
  have hids : normIds [3, 4] = [0, 1, 3, 4] := by decide
  refine ⟨by simp [initU, hids], by simp [initU], rfl, rfl, trivial, ?_, (by intro e he; simp [initU] at he), by simp [initU, Heap.get, KeysNodup]⟩
  intro i hi q k
  simp only [initU]
  match i, hi with
  | 0, _ =>
    simp only [Heap.get, List.getD_cons_zero]
    intro h
    have hm := assocGet_mem h
    simp only [builtinsPlain, List.all_eq_true] at hb
    have := hb _ hm
    simp at this
  | 1, _ =>
    simp only [Heap.get, List.getD_cons_succ, List.getD_cons_zero, Scope.get, assocGet]
    split <;> simp
  | 2, _ => simp [Heap.get, Scope.get, assocGet]
  | 3, _ => simp [Heap.get, Scope.get, assocGet]
  | 4, h => exact absurd rfl h
  | n + 5, _ => simp [Heap.get, Scope.get, assocGet]

theorem topScope_init (builtins : Scope) (am dn : Bool) : topScope (initU builtins am dn) = {} := by
  simp [topScope, initU, Heap.get]

theorem sim_init (U : List (Nat × Nat)) (builtins : Scope) (am dn : Bool) (hb : builtinsPlain builtins = true)
    (hbc : builtins.isClass = false) :
    Sim U [] (initU builtins am dn) (initU builtins am dn) := by
  have hs := shape_init builtins am dn hb
  refine ⟨hs, hs, ?_, fun k hk => by simp at hk, ⟨rfl, fun _ _ => rfl, fun e he => he, rfl,
    ushape_init builtins am dn hbc, ushape_init builtins am dn hbc, rfl, rfl⟩⟩
  rw [topScope_init]
  have hg : ∀ q, ({} : Scope).get q = none := fun q => rfl
  have hc : (initU builtins am dn).checkers = [] := rfl
  have hu : (initU builtins am dn).unused = [] := rfl
  rw [hc, hu]
  refine ⟨fun q _ => hg q, ?_, ?_, ?_, rfl, ?_, ?_, ?_, ?_, ?_, ?_⟩
  · intro q k h; rw [hg] at h; cases h
  · intro q k' c' h; rw [hg] at h; cases h
  · intro k' k h; simp at h
  · intro i j k h; simp at h
  · intro k' h; simp at h
  · intro k c h; simp at h
  · intro k c h; simp at h
  · intro q k h; rw [hg] at h; cases h
  · intro q k h; rw [hg] at h; cases h

/-- does the lookup of a deferred entry stop in the frozen local scopes (clone `c`, argument scope `a`) -/
def isLocalEnt (heap : Heap) (e : Str × List Nat) : Bool :=
  match (normIds e.2).reverse with
  | [c, a, 4, 3, 1, 0] => (findBinding heap (splitDots e.1) [c, a]).isSome
  | _ => false

/-- the names of the deferred entries whose lookup reaches the module-level scopes -/
def effNames (heap : Heap) (l : List (Str × List Nat)) : List Str := (l.filter (fun e => !isLocalEnt heap e)).map (·.1)

theorem findBinding_append (heap : Heap) (parts : List Str) : ∀ (l1 l2 : List Nat),
    findBinding heap parts (l1 ++ l2) = match findBinding heap parts l1 with
      | some v => some v
      | none => findBinding heap parts l2
  | [], l2 => rfl
  | i :: r, l2 => by
    simp only [List.cons_append, findBinding]
    cases findInScope (heap.get i) (prefixesRev parts) with
    | some v => rfl
    | none => exact findBinding_append heap parts r l2

theorem sniU_ent {u : UState} (h : Shape u) (e : Str × List Nat) (he : EntOK e.2) :
    (sniU u e.2 e.1).2 = if isLocalEnt u.heap e then u else (sniU u u.stack.ids e.1).2 := by
  rcases he with he | ⟨a, c, hrev, ha, hc⟩
  · have hl : isLocalEnt u.heap e = false := by
      unfold isLocalEnt; rw [he]
      have : (normIds [0, 1, 3, 4]).reverse = [4, 3, 1, 0] := by decide
      rw [this]; rfl
    rw [hl, he, h.stack]; rfl
  · have hl : isLocalEnt u.heap e = (findBinding u.heap (splitDots e.1) [c, a]).isSome := by
      unfold isLocalEnt; rw [hrev]; rfl
    rw [hl]
    have hno := findBinding_outer (heap := u.heap) (parts := splitDots e.1) (l := [c, a])
      (fun i hi => h.outer i (by simp at hi; omega))
    have hsplit : findBinding u.heap (splitDots e.1) [c, a, 4, 3, 1, 0] = match findBinding u.heap (splitDots e.1) [c, a] with
        | some v => some v
        | none => findBinding u.heap (splitDots e.1) [4, 3, 1, 0] := findBinding_append u.heap _ [c, a] [4, 3, 1, 0]
    have h4 : (normIds u.stack.ids).reverse = [4, 3, 1, 0] := by rw [h.stack]; decide
    unfold sniU
    rw [hrev, hsplit, h4]
    cases hf : findBinding u.heap (splitDots e.1) [c, a] with
    | some v =>
      cases v with
      | none => rfl
      | obj k => exact absurd hf (hno k)
    | none => rfl

theorem foldl_sniU_looks : ∀ (l : List (Str × List Nat)) (u : UState), Shape u → (∀ e ∈ l, EntOK e.2) →
    l.foldl (fun st d => (sniU st d.2 d.1).2) u = looks u (effNames u.heap l)
  | [], _, _, _ => rfl
  | e :: r, u, h, hl => by
    simp only [List.foldl_cons]
    rw [sniU_ent h e (hl e (List.mem_cons_self ..))]
    by_cases hloc : isLocalEnt u.heap e = true
    · rw [if_pos hloc]
      have : effNames u.heap (e :: r) = effNames u.heap r := by simp [effNames, hloc]
      rw [this]
      exact foldl_sniU_looks r u h (fun x hx => hl x (List.mem_cons_of_mem _ hx))
    · rw [if_neg hloc]
      have : effNames u.heap (e :: r) = e.1 :: effNames u.heap r := by simp [effNames, hloc]
      rw [this, looks_cons]
      have h1 : Shape (sniU u u.stack.ids e.1).2 := by rw [sniU_top h]; exact h.checkers _
      have hh : (sniU u u.stack.ids e.1).2.heap = u.heap := by rw [sniU_top h]
      rw [← hh]
      exact foldl_sniU_looks r _ h1 (fun x hx => hl x (List.mem_cons_of_mem _ hx))

theorem effNames_append (heap : Heap) (a b : List (Str × List Nat)) : effNames heap (a ++ b) = effNames heap a ++ effNames heap b := by
  simp [effNames, List.filter_append]

theorem isLocalEnt_congr {h1 h2 : Heap} (e : Str × List Nat) (he : EntOK e.2) (hc : ∀ i, i ≠ 4 → h1.get i = h2.get i) :
    isLocalEnt h1 e = isLocalEnt h2 e := by
  rcases he with he | ⟨a, c, hrev, ha, hc5⟩
  · have : (normIds [0, 1, 3, 4]).reverse = [4, 3, 1, 0] := by decide
    unfold isLocalEnt; rw [he, this]; rfl
  · unfold isLocalEnt; rw [hrev]
    show (findBinding h1 (splitDots e.1) [c, a]).isSome = (findBinding h2 (splitDots e.1) [c, a]).isSome
    rw [findBinding_congr (h2 := h2) _ _ (fun i hi => hc i (by simp at hi; omega))]

theorem looks_append (u : UState) (a b : List Str) : looks u (a ++ b) = looks (looks u a) b := by
  unfold looks; rw [List.foldl_append]

/-- `_finish_deferred_load_checks`: the deferred names are looked up in the final top scope -/
theorem finishU_eq {u : UState} (h : Shape u) :
    finishU u = { looks u (effNames u.heap (u.deferred ++ u.useMarks)) with deferred := [], useMarks := [] } := by
  unfold finishU
  simp only
  rw [foldl_sniU_looks u.deferred u h (fun e he => h.defIds e (List.mem_append_left _ he))]
  have hf := looks_facts (effNames u.heap u.deferred) u h
  have h1 := hf.1
  have hhp : (looks u (effNames u.heap u.deferred)).heap = u.heap := hf.2.2.2.2.1
  have hm := (frame_looks (effNames u.heap u.deferred) u h).marks
  rw [hm, foldl_sniU_looks u.useMarks _ h1 (fun e he => h.defIds e (List.mem_append_right _ he)), hhp, ← looks_append, ← effNames_append]

theorem sim_finish {U φ} {uo un : UState} (s : Sim U φ uo un) : Sim U φ (finishU uo) (finishU un) := by
  rw [finishU_eq s.so, finishU_eq s.sn]
  generalize hNo : effNames uo.heap (uo.deferred ++ uo.useMarks) = No
  generalize hNn : effNames un.heap (un.deferred ++ un.useMarks) = Nn
  have hsub : ∀ n ∈ No, n ∈ Nn := by
    intro n hn
    rw [← hNo] at hn
    obtain ⟨e, he, rfl⟩ := List.mem_map.mp hn
    obtain ⟨he1, he2⟩ := List.mem_filter.mp he
    have he' := s.ext.defSub e he1
    rw [← hNn]
    refine List.mem_map_of_mem (List.mem_filter.mpr ⟨he', ?_⟩)
    rw [isLocalEnt_congr e (s.so.defIds e he1) (fun i hi => (s.ext.outerEq i hi).symm)] at he2
    exact he2
  obtain ⟨so1, to1, uo1, _, _, _, _, _⟩ := looks_facts No uo s.so
  obtain ⟨sn1, tn1, un1, _, _, _, _, _⟩ := looks_facts Nn un s.sn
  have fo := frame_looks No uo s.so
  have fn := frame_looks Nn un s.sn
  obtain ⟨sid, _, fmark⟩ := marksOf_facts (topScope un) Nn un.checkers s.rel.plainN
  obtain ⟨sido, _, _⟩ := marksOf_facts (topScope uo) No uo.checkers s.rel.plainO
  have r1 := s.rel.marksNew Nn
  have r2 := r1.marksOrig No (by
    intro n hn k hf
    by_cases hk : k ∈ φ
    · right
      obtain ⟨k', hk', hφ⟩ := (findInScope_rel s.rel _).2 k hf hk
      obtain ⟨_, c0, _, hc0, _⟩ := s.rel.twin k' k hφ
      obtain ⟨c', hc'⟩ := sid.back hc0
      exact ⟨k', c', hφ, hc', fmark n (hsub n hn) k' hk' c' hc'⟩
    · exact .inl hk)
  refine ⟨⟨so1.stack, so1.len, so1.inFunc, so1.cond, so1.dn, so1.outer, by intro e he; simp at he, so1.nodup⟩,
    ⟨sn1.stack, sn1.len, sn1.inFunc, sn1.cond, sn1.dn, sn1.outer, by intro e he; simp at he, sn1.nodup⟩, ?_, ?_, ?_⟩
  · show Rel φ (topScope (looks uo No)) (looks uo No).checkers (looks uo No).unused
      (topScope (looks un Nn)) (looks un Nn).checkers (looks un Nn).unused
    rw [to1, tn1, uo1, un1, looks_checkers No uo s.so, looks_checkers Nn un s.sn]
    exact r2
  · show ∀ k ∈ φ, ∃ c : Checker, (looks uo No).checkers[k]? = some c ∧ _
    rw [looks_checkers No uo s.so]
    exact keptOK_sameId sido s.keptOK
  · refine ⟨?_, ?_, by intro e he; simp at he, ?_, ?_, ?_, ?_, ?_⟩
    · show (looks un Nn).allMark = (looks uo No).allMark
      rw [fn.am, fo.am]; exact s.ext.am
    · intro i hi
      show (looks un Nn).heap.get i = (looks uo No).heap.get i
      rw [fn.outer i hi, fo.outer i hi]; exact s.ext.outerEq i hi
    · show (looks un Nn).heap.length = (looks uo No).heap.length
      rw [fn.len, fo.len]; exact s.ext.hlen
    · have := ushape_frame s.ext.xo fo
      exact ⟨this.delayed, this.noClass, this.inClass⟩
    · have := ushape_frame s.ext.xn fn
      exact ⟨this.delayed, this.noClass, this.inClass⟩
    · show (looks un Nn).deferredNames = (looks uo No).deferredNames
      rw [fn.dnames, fo.dnames]; exact s.ext.dnEq
    · show (looks un Nn).dnOn = (looks uo No).dnOn
      rw [fn.dnOn, fo.dnOn]; exact s.ext.onEq

/-- one step of `_scan_unused_imports` -/
def scanStep (st : UState) (kv : Str × Val) : UState :=
  match kv.2 with
  | .obj k =>
    match st.checkers[k]? with
    | some c =>
      let st := if nameIs c kv.1 || c.anon then { st with unused := st.unused ++ unusedShadowed st.checkers k } else st
      if c.used || c.anon then st
      else if nameIs c kv.1 then { st with unused := st.unused ++ [k] } else st
    | none => st
  | .none => st

theorem scanItems_cons (u : UState) (kv : Str × Val) (r : List (Str × Val)) : scanItems u (kv :: r) = scanItems (scanStep u kv) r := rfl

theorem scanStep_plain {u : UState} (h : PlainCs u.checkers) (kv : Str × Val) :
    (scanStep u kv).checkers = u.checkers ∧
    ∀ j, j ∈ (scanStep u kv).unused ↔
      j ∈ u.unused ∨ ∃ c : Checker, kv.2 = .obj j ∧ u.checkers[j]? = some c ∧ c.used = false ∧ c.bind = kv.1 := by
  unfold scanStep
  cases hv : kv.2 with
  | none => exact ⟨rfl, fun j => by simp⟩
  | obj k =>
    simp only
    cases hc : u.checkers[k]? with
    | none =>
      refine ⟨(by first | rfl | trivial), fun j => ⟨fun x => .inl x, fun x => ?_⟩⟩
      rcases x with x | ⟨c, e1, e2, _⟩
      · exact x
      · simp only [Val.obj.injEq] at e1; subst e1; rw [hc] at e2; cases e2
    | some c =>
      obtain ⟨p1, p2⟩ := h k c hc
      have hsh : unusedShadowed u.checkers k = [] := by
        unfold unusedShadowed; rw [hc]; simp only; rw [p1]; rfl
      simp only [hsh, List.append_nil, p2, Bool.or_false]
      have hst : (if nameIs c kv.1 = true then { u with unused := u.unused } else u) = u := by split <;> rfl
      rw [hst]
      cases hu : c.used with
      | true =>
        simp only [if_true]
        refine ⟨(by first | rfl | trivial), fun j => ⟨fun x => .inl x, fun x => ?_⟩⟩
        rcases x with x | ⟨d, e1, e2, e3, _⟩
        · exact x
        · simp only [Val.obj.injEq] at e1; subst e1; rw [hc] at e2; cases e2; rw [hu] at e3; cases e3
      | false =>
        simp only [Bool.false_eq_true, if_false]
        by_cases hn : nameIs c kv.1 = true
        · rw [if_pos hn]
          have hb : c.bind = kv.1 := by simpa [nameIs, p2] using hn
          refine ⟨(by first | rfl | trivial), fun j => ?_⟩
          simp only [List.mem_append, List.mem_singleton]
          constructor
          · rintro (x | x)
            · exact .inl x
            · subst x; exact .inr ⟨c, rfl, hc, hu, hb⟩
          · rintro (x | ⟨d, e1, _⟩)
            · exact .inl x
            · simp only [Val.obj.injEq] at e1; exact .inr e1.symm
        · rw [if_neg hn]
          refine ⟨(by first | rfl | trivial), fun j => ⟨fun x => .inl x, fun x => ?_⟩⟩
          rcases x with x | ⟨d, e1, e2, _, e4⟩
          · exact x
          · simp only [Val.obj.injEq] at e1; subst e1; rw [hc] at e2; cases e2
            exact absurd (by simp [nameIs, p2, e4]) hn

theorem scanItems_plain : ∀ (items : List (Str × Val)) (u : UState), PlainCs u.checkers →
    ∀ j, j ∈ (scanItems u items).unused ↔
      j ∈ u.unused ∨ ∃ (q : Str) (c : Checker), (q, Val.obj j) ∈ items ∧ u.checkers[j]? = some c ∧ c.used = false ∧ c.bind = q
  | [], u, _, j => by simp [scanItems]
  | kv :: r, u, h, j => by
    obtain ⟨e1, e2⟩ := scanStep_plain h kv
    rw [scanItems_cons, scanItems_plain r (scanStep u kv) (by rw [e1]; exact h) j, e2 j, e1]
    constructor
    · rintro ((x | ⟨c, a1, a2, a3, a4⟩) | ⟨q, c, a1, a2, a3, a4⟩)
      · exact .inl x
      · exact .inr ⟨kv.1, c, by rw [← a1]; exact List.mem_cons_self .., a2, a3, a4⟩
      · exact .inr ⟨q, c, List.mem_cons_of_mem _ a1, a2, a3, a4⟩
    · rintro (x | ⟨q, c, a1, a2, a3, a4⟩)
      · exact .inl (.inl x)
      · rcases List.mem_cons.mp a1 with a1 | a1
        · exact .inl (.inr ⟨c, by rw [← a1], a2, a3, by rw [← a1]; exact a4⟩)
        · exact .inr ⟨q, c, a1, a2, a3, a4⟩

theorem assocGet_of_mem_nodup {β} : ∀ {l : List (Str × β)} {q : Str} {v : β}, KeysNodup l → (q, v) ∈ l → assocGet q l = some v
  | [], _, _, _, h => by simp at h
  | (k', v') :: r, q, v, hn, h => by
    unfold KeysNodup at hn
    simp only [List.map_cons, List.nodup_cons] at hn
    simp only [assocGet]
    rcases List.mem_cons.mp h with h | h
    · simp only [Prod.mk.injEq] at h; rw [if_pos h.1.symm, h.2]
    · have : k' ≠ q := by
        intro e; subst e
        exact hn.1 (List.mem_map.mpr ⟨(k', v), h, rfl⟩)
      rw [if_neg this]
      exact assocGet_of_mem_nodup hn.2 h

/-- at the end of the two analyses: whatever the reduced program reports, the original program reports -/
theorem sim_scan {U φ} {uo un : UState} (s : Sim U φ uo un) :
    ∀ k' ∈ (scanUnusedU un).unused, ∃ k, φ[k']? = some k ∧ k ∈ (scanUnusedU uo).unused := by
  intro k' hk'
  unfold scanUnusedU at hk' ⊢
  rw [s.sn.top] at hk'
  rw [s.so.top]
  rw [scanItems_plain _ _ s.rel.plainN] at hk'
  rcases hk' with h | ⟨q, c', h1, h2, h3, h4⟩
  · obtain ⟨k, e1, e2⟩ := s.rel.rep k' h
    exact ⟨k, e1, (scanItems_plain _ _ s.rel.plainO k).mpr (.inl e2)⟩
  · have hget : (topScope un).get q = some (.obj k') := assocGet_of_mem_nodup s.sn.nodup h1
    obtain ⟨k, e1, e2⟩ := s.rel.owed q k' c' hget h2 h4 h3
    refine ⟨k, e1, (scanItems_plain _ _ s.rel.plainO k).mpr ?_⟩
    rcases e2 with e2 | e2
    · obtain ⟨c, d', hc, hd', ht⟩ := s.rel.twin k' k e1
      rw [h2] at hd'; cases hd'
      have hcu : c.used = false := by
        cases hh : c.used with
        | false => rfl
        | true => rw [ht.2 hh] at h3; cases h3
      exact .inr ⟨q, c, assocGet_mem e2, hc, hcu, ht.1.symm.trans h4⟩
    · exact .inl e2

/-! ### inside a function definition -/

theorem normIds_body {n0 : Nat} (h5 : 5 ≤ n0) : (normIds [0, 1, 3, 4, n0, n0 + 1]).reverse = [n0 + 1, n0, 4, 3, 1, 0] := by
  have := normIds_six (a := n0) (c := n0 + 1) h5 (by omega)
  rw [normIds_idem] at this; exact this

/-- what a lookup from inside the body finds: nothing to mark when a local scope binds a prefix, else the module-level lookup -/
def lkD (n0 : Nat) (u : UState) (d : Str) : Option Val :=
  if (findBinding u.heap (splitDots d) [n0 + 1, n0]).isSome then none else findInScope (topScope u) (prefixesRev (splitDots d))

theorem sniU_body {n0 : Nat} {u : UState} (hst : u.stack.ids = [0, 1, 3, 4, n0, n0 + 1]) (h5 : 5 ≤ n0)
    (hout : ∀ i, i ≠ 4 → ∀ (q : Str) (k : Nat), (u.heap.get i).get q ≠ some (.obj k)) (d : Str) :
    ∃ b, sniU u u.stack.ids d = (b, { u with checkers := markFound u.checkers (lkD n0 u d) }) := by
  unfold sniU lkD
  rw [hst, normIds_body h5, show [n0 + 1, n0, 4, 3, 1, 0] = [n0 + 1, n0] ++ [4, 3, 1, 0] from rfl, findBinding_append]
  have hno := findBinding_outer (heap := u.heap) (parts := splitDots d) (l := [n0 + 1, n0])
    (fun i hi => hout i (by simp at hi; omega))
  cases hl : findBinding u.heap (splitDots d) [n0 + 1, n0] with
  | some v =>
    cases v with
    | none => exact ⟨false, rfl⟩
    | obj k => exact absurd hl (hno k)
  | none =>
    simp only [Option.isSome_none, Bool.false_eq_true, if_false]
    have e : findBinding u.heap (splitDots d) [4, 3, 1, 0] = match findInScope (u.heap.get 4) (prefixesRev (splitDots d)) with
        | some v => some v
        | none => findBinding u.heap (splitDots d) [3, 1, 0] := rfl
    rw [e]; unfold topScope
    cases hf : findInScope (u.heap.get 4) (prefixesRev (splitDots d)) with
    | some v =>
      cases v with
      | none => exact ⟨false, rfl⟩
      | obj k => exact ⟨false, rfl⟩
    | none =>
      have ho := findBinding_outer (heap := u.heap) (parts := splitDots d) (l := [3, 1, 0])
        (fun i hi => hout i (by simp at hi; omega))
      generalize findBinding u.heap (splitDots d) [3, 1, 0] = g at ho ⊢
      cases g with
      | none => exact ⟨true, rfl⟩
      | some v =>
        cases v with
        | none => exact ⟨false, rfl⟩
        | obj k => exact absurd rfl (ho k)

/-- one `_visit_Load_defered` inside the body, as a record update -/
theorem deferU_eq {n0 : Nat} {u : UState} (hst : u.stack.ids = [0, 1, 3, 4, n0, n0 + 1]) (h5 : 5 ≤ n0)
    (hout : ∀ i, i ≠ 4 → ∀ (q : Str) (k : Nat), (u.heap.get i).get q ≠ some (.obj k)) (d : Str) :
    ∃ D M : List (Str × List Nat), deferU u d = { u with
        deferredNames := (splitDots d).headD [] :: u.deferredNames,
        checkers := markFound u.checkers (lkD n0 u d), heap := u.heap ++ [u.heap.get (n0 + 1)],
        deferred := u.deferred ++ D, useMarks := u.useMarks ++ M } ∧
      D ++ M = [(d, normIds ([0, 1, 3, 4, n0] ++ [u.heap.length]))] := by
  obtain ⟨b, hb⟩ := sniU_body (u := { u with deferredNames := (splitDots d).headD [] :: u.deferredNames }) hst h5 hout d
  have htop : u.stack.top = n0 + 1 := by unfold StackRef.top; rw [hst]; rfl
  have hdl : u.stack.ids.dropLast = [0, 1, 3, 4, n0] := by rw [hst]; rfl
  unfold deferU deferCore
  simp only [hb]
  cases b
  · refine ⟨[], [(d, normIds ([0, 1, 3, 4, n0] ++ [u.heap.length]))], ?_, rfl⟩
    simp only [cloneTopU, htop, hdl, Bool.false_eq_true, if_false, List.append_nil]
    rfl
  · refine ⟨[(d, normIds ([0, 1, 3, 4, n0] ++ [u.heap.length]))], [], ?_, rfl⟩
    simp only [cloneTopU, htop, hdl, if_true, List.append_nil]
    rfl

/-- `u` is inside the body of a `def` that started at the module-level state `u0` (heap length `n0`) -/
structure InD (n0 : Nat) (u0 u : UState) : Prop where
  stack : u.stack.ids = [0, 1, 3, 4, n0, n0 + 1]
  inFunc : u.inFunc = true
  savedFunc : u.savedFunc = false :: u0.savedFunc
  saved : ∃ S : StackRef, S.ids = [0, 1, 3, 4, n0] ∧ u.saved = S :: u0.stack :: u0.saved
  lenB : n0 + 2 ≤ u.heap.length
  n5 : 5 ≤ n0
  old : ∀ i, i < n0 → u.heap.get i = u0.heap.get i
  freshItems : ∀ i, n0 ≤ i → ∀ kv ∈ (u.heap.get i).items, kv.2 = Val.none
  unusedEq : u.unused = u0.unused
  inClass : u.inClass = 0
  am : u.allMark = u0.allMark
  cond : u.cond = 0
  on : u.dnOn = u0.dnOn
  ents : ∀ e ∈ u.deferred ++ u.useMarks, EntOK e.2
  sh0 : Shape u0

theorem InD.outer {n0 : Nat} {u0 u : UState} (h : InD n0 u0 u) :
    ∀ i, i ≠ 4 → ∀ (q : Str) (k : Nat), (u.heap.get i).get q ≠ some (.obj k) := by
  intro i hi q k hc
  by_cases hlt : i < n0
  · rw [h.old i hlt] at hc; exact h.sh0.outer i hi q k hc
  · have := h.freshItems i (by omega) _ (assocGet_mem hc); cases this

theorem InD.top {n0 : Nat} {u0 u : UState} (h : InD n0 u0 u) : u.stack.top = n0 + 1 := by
  unfold StackRef.top; rw [h.stack]; rfl

theorem mem_ents_split {α} {a b D M : List α} {e : α} : e ∈ (a ++ D) ++ (b ++ M) ↔ e ∈ a ++ b ∨ e ∈ D ++ M := by
  simp only [List.mem_append]
  constructor
  · rintro ((x | x) | (x | x))
    · exact .inl (.inl x)
    · exact .inr (.inl x)
    · exact .inl (.inr x)
    · exact .inr (.inr x)
  · rintro ((x | x) | (x | x))
    · exact .inl (.inl x)
    · exact .inr (.inl x)
    · exact .inl (.inr x)
    · exact .inr (.inr x)

theorem InD.defer {n0 : Nat} {u0 u : UState} (h : InD n0 u0 u) (d : Str) : InD n0 u0 (deferU u d) := by
  obtain ⟨D, M, e, hDM⟩ := deferU_eq h.stack h.n5 h.outer d
  rw [e]
  have hlenB := h.lenB
  refine ⟨h.stack, h.inFunc, h.savedFunc, h.saved, ?_, h.n5, ?_, ?_, h.unusedEq, h.inClass, h.am, h.cond, h.on, ?_, h.sh0⟩
  · show n0 + 2 ≤ (u.heap ++ [_]).length
    simp; omega
  · intro i hi
    show Heap.get (u.heap ++ [_]) i = _
    rw [Heap.get_append_left _ _ (by omega)]; exact h.old i hi
  · intro i hi kv hkv
    change kv ∈ (Heap.get (u.heap ++ [u.heap.get (n0 + 1)]) i).items at hkv
    by_cases hil : i < u.heap.length
    · rw [Heap.get_append_left _ _ hil] at hkv; exact h.freshItems i hi kv hkv
    · by_cases hie : i = u.heap.length
      · subst hie; rw [Heap.get_append_new] at hkv; exact h.freshItems _ (by omega) kv hkv
      · rw [Heap.get_ge _ (by simp; omega)] at hkv; simp at hkv
  · intro x hx
    change x ∈ (u.deferred ++ D) ++ (u.useMarks ++ M) at hx
    rcases mem_ents_split.mp hx with hx | hx
    · exact h.ents x hx
    · rw [hDM, List.mem_singleton] at hx
      rw [hx]
      have h5 := h.n5
      exact .inr ⟨n0, u.heap.length, normIds_six h.n5 (by omega), h.n5, by omega⟩

theorem InD.store {n0 : Nat} {u0 u : UState} (h : InD n0 u0 u) (x : Str) (hx : simpleName x = true) :
    storeU u x .none = { u with heap := u.heap.update (n0 + 1) (·.set x .none) } ∧ InD n0 u0 (storeU u x .none) := by
  have hp := storeU_plain u x hx (fun v hv => by
    rw [h.top] at hv
    have := h.freshItems (n0 + 1) (by omega) _ (assocGet_mem hv); exact this)
  rw [h.top] at hp
  refine ⟨hp, ?_⟩
  rw [hp]
  have hlenB := h.lenB
  refine ⟨h.stack, h.inFunc, h.savedFunc, h.saved, ?_, h.n5, ?_, ?_, h.unusedEq, h.inClass, h.am, h.cond, h.on, h.ents, h.sh0⟩
  · show n0 + 2 ≤ (u.heap.update _ _).length
    rw [Heap.length_update]; exact hlenB
  · intro i hi
    show (u.heap.update (n0 + 1) (·.set x .none)).get i = _
    rw [Heap.get_update, if_neg (by omega)]; exact h.old i hi
  · intro i hi kv hkv
    change kv ∈ ((u.heap.update (n0 + 1) (·.set x .none)).get i).items at hkv
    rw [Heap.get_update] at hkv
    split at hkv
    · rcases mem_assocSet hkv with h1 | h1
      · exact h.freshItems _ (by omega) kv h1
      · rw [h1]
    · exact h.freshItems i hi kv hkv

theorem InD.setLine {n0 : Nat} {u0 u : UState} (h : InD n0 u0 u) (l : Nat) : InD n0 u0 { u with line := l } :=
  ⟨h.stack, h.inFunc, h.savedFunc, h.saved, h.lenB, h.n5, h.old, h.freshItems, h.unusedEq, h.inClass, h.am, h.cond, h.on, h.ents, h.sh0⟩

/-- the two analyses inside the same `def` -/
structure PD (U : List (Nat × Nat)) (φ : List Nat) (n0 : Nat) (uo0 un0 uo un : UState) : Prop where
  io : InD n0 uo0 uo
  inn : InD n0 un0 un
  rel : Rel φ (topScope uo0) uo.checkers uo0.unused (topScope un0) un.checkers un0.unused
  keptOK : ∀ k ∈ φ, ∃ c : Checker, uo.checkers[k]? = some c ∧ (c.line, c.idx) ∉ U
  hlen : un.heap.length = uo.heap.length
  cells : ∀ i, i ≠ 4 → un.heap.get i = uo.heap.get i
  sub : ∀ e ∈ uo.deferred ++ uo.useMarks, e ∈ un.deferred ++ un.useMarks
  dnEq : un.deferredNames = uo.deferredNames

theorem InD.topEq {n0 : Nat} {u0 u : UState} (h : InD n0 u0 u) : topScope u = topScope u0 := by
  unfold topScope; exact h.old 4 (by have := h.n5; omega)

theorem PD.defer {U φ n0} {uo0 un0 uo un : UState} (p : PD U φ n0 uo0 un0 uo un) (d : Str) :
    PD U φ n0 uo0 un0 (deferU uo d) (deferU un d) := by
  have io' := p.io.defer d
  have in' := p.inn.defer d
  obtain ⟨Do, Mo, eo, ho⟩ := deferU_eq p.io.stack p.io.n5 p.io.outer d
  obtain ⟨Dn, Mn, en, hn⟩ := deferU_eq p.inn.stack p.inn.n5 p.inn.outer d
  have h5 := p.io.n5
  have hloc : findBinding un.heap (splitDots d) [n0 + 1, n0] = findBinding uo.heap (splitDots d) [n0 + 1, n0] :=
    findBinding_congr _ _ (fun i hi => p.cells i (by simp at hi; omega))
  refine ⟨io', in', ?_, ?_, ?_, ?_, ?_, by rw [eo, en]; show _ :: un.deferredNames = _ :: uo.deferredNames; rw [p.dnEq]⟩
  · rw [eo, en]
    show Rel φ _ (markFound uo.checkers (lkD n0 uo d)) _ _ (markFound un.checkers (lkD n0 un d)) _
    unfold lkD
    rw [hloc, p.io.topEq, p.inn.topEq]
    by_cases hl : (findBinding uo.heap (splitDots d) [n0 + 1, n0]).isSome = true
    · rw [if_pos hl, if_pos hl]; exact p.rel
    · rw [if_neg hl, if_neg hl]; exact p.rel.lookBoth _
  · rw [eo]
    exact keptOK_sameId (markFound_sameId p.rel.plainO _) p.keptOK
  · rw [eo, en]
    show (un.heap ++ [_]).length = (uo.heap ++ [_]).length
    simp [p.hlen]
  · intro i hi
    rw [eo, en]
    show Heap.get (un.heap ++ [un.heap.get (n0 + 1)]) i = Heap.get (uo.heap ++ [uo.heap.get (n0 + 1)]) i
    by_cases hil : i < uo.heap.length
    · rw [Heap.get_append_left _ _ hil, Heap.get_append_left _ _ (by rw [p.hlen]; exact hil)]; exact p.cells i hi
    · by_cases hie : i = uo.heap.length
      · subst hie
        rw [Heap.get_append_new, ← p.hlen, Heap.get_append_new]
        exact p.cells _ (by omega)
      · have hl := p.hlen
        rw [Heap.get_ge _ (by simp; omega), Heap.get_ge _ (by simp; omega)]
  · intro x hx
    rw [eo] at hx; rw [en]
    change x ∈ (uo.deferred ++ Do) ++ (uo.useMarks ++ Mo) at hx
    show x ∈ (un.deferred ++ Dn) ++ (un.useMarks ++ Mn)
    rcases mem_ents_split.mp hx with hx | hx
    · exact mem_ents_split.mpr (.inl (p.sub x hx))
    · refine mem_ents_split.mpr (.inr ?_)
      rw [ho] at hx; rw [hn, p.hlen]; exact hx

theorem PD.store {U φ n0} {uo0 un0 uo un : UState} (p : PD U φ n0 uo0 un0 uo un) (x : Str) (hx : simpleName x = true) :
    PD U φ n0 uo0 un0 (storeU uo x .none) (storeU un x .none) := by
  obtain ⟨eo, io'⟩ := p.io.store x hx
  obtain ⟨en, in'⟩ := p.inn.store x hx
  refine ⟨io', in', ?_, ?_, ?_, ?_, ?_, by rw [eo, en]; exact p.dnEq⟩
  · rw [eo, en]; exact p.rel
  · rw [eo]; exact p.keptOK
  · rw [eo, en]
    show (un.heap.update _ _).length = (uo.heap.update _ _).length
    rw [Heap.length_update, Heap.length_update]; exact p.hlen
  · intro i hi
    rw [eo, en]
    show (un.heap.update (n0 + 1) (·.set x .none)).get i = (uo.heap.update (n0 + 1) (·.set x .none)).get i
    rw [Heap.get_update, Heap.get_update, p.hlen]
    split
    · rw [p.cells (n0 + 1) (by have := p.io.n5; omega)]
    · exact p.cells i hi
  · rw [eo, en]; exact p.sub

theorem PD.setLine {U φ n0} {uo0 un0 uo un : UState} (p : PD U φ n0 uo0 un0 uo un) (l l' : Nat) :
    PD U φ n0 uo0 un0 { uo with line := l } { un with line := l' } :=
  ⟨p.io.setLine l, p.inn.setLine l', p.rel, p.keptOK, p.hlen, p.cells, p.sub, p.dnEq⟩

theorem InD.defer_dn {n0 : Nat} {u0 u : UState} (h : InD n0 u0 u) (d : Str) :
    (deferU u d).deferredNames = keyHead d :: u.deferredNames := by
  obtain ⟨D, M, e, _⟩ := deferU_eq h.stack h.n5 h.outer d
  rw [e]; rfl

/-- the names that join `_deferred_names` between `u` and `u'` are heads of names of `L` -/
def DnSub (u u' : UState) (L : List Str) : Prop := ∀ n ∈ u'.deferredNames, n ∈ u.deferredNames ∨ n ∈ L.map keyHead

theorem PD.loads {U φ n0} {uo0 un0 : UState} : ∀ (L : List Str) {uo un : UState}, PD U φ n0 uo0 un0 uo un →
    PD U φ n0 uo0 un0 (runOpsU uo (L.map Op.load)) (runOpsU un (L.map Op.load)) ∧ DnSub uo (runOpsU uo (L.map Op.load)) L
  | [], _, _, p => ⟨p, fun n hn => .inl hn⟩
  | d :: L, uo, un, p => by
    have hso : runOpsU uo ((d :: L).map Op.load) = runOpsU (deferU (deferU uo d) d) (L.map Op.load) := by
      show runOpsU (stepU uo (.load d)) _ = _
      simp [stepU, p.io.inFunc]
    have hsn : runOpsU un ((d :: L).map Op.load) = runOpsU (deferU (deferU un d) d) (L.map Op.load) := by
      show runOpsU (stepU un (.load d)) _ = _
      simp [stepU, p.inn.inFunc]
    rw [hso, hsn]
    obtain ⟨p2, h2⟩ := PD.loads L ((p.defer d).defer d)
    refine ⟨p2, fun n hn => ?_⟩
    rcases h2 n hn with h | h
    · rw [(p.defer d).io.defer_dn d, p.io.defer_dn d] at h
      simp only [List.mem_cons] at h
      rcases h with h | h | h
      · exact .inr (by rw [h]; simp)
      · exact .inr (by rw [h]; simp)
      · exact .inl h
    · exact .inr (by simp only [List.map_cons, List.mem_cons]; exact .inr h)

theorem DnSub.trans {a b c : UState} {L1 L2 : List Str} (h1 : DnSub a b L1) (h2 : DnSub b c L2) : DnSub a c (L1 ++ L2) := by
  intro n hn
  rcases h2 n hn with h | h
  · rcases h1 n h with h | h
    · exact .inl h
    · exact .inr (by rw [List.map_append]; exact List.mem_append_left _ h)
  · exact .inr (by rw [List.map_append]; exact List.mem_append_right _ h)

/-- one statement of a function body, both analyses -/
theorem PD.stmt {U φ n0} {uo0 un0 : UState} (fx : Fixes) (D : Bool) : ∀ (stmt : Stmt) (ln : Nat) {uo un : UState},
    fbodyStmt D stmt = true → PD U φ n0 uo0 un0 uo un →
    PD U φ n0 uo0 un0 (runOpsU uo (cStmt fx ln stmt)) (runOpsU un (cStmt fx ln stmt)) ∧
      DnSub uo (runOpsU uo (cStmt fx ln stmt)) (stmtLoads stmt)
  | .expr e, ln, uo, un, hfr, p => by
    simp only [cStmt, stmtLoads, cExpr_loads fx D e (by simpa [fbodyStmt] using hfr)]
    exact PD.loads _ p
  | .assign ts e, ln, uo, un, hfr, p => by
    simp only [fbodyStmt, Bool.and_eq_true] at hfr
    cases hsn : singleName ts with
    | none => rw [hsn] at hfr; simp at hfr
    | some x =>
      have hts := singleName_eq hsn; subst hts
      rw [hsn] at hfr
      obtain ⟨p1, d1⟩ := PD.loads (loadsOf e) p
      have p2 := p1.store x hfr.1
      have e2 := (p1.io.store x hfr.1).1
      have hst : ∀ u : UState, runOpsU (runOpsU u ((loadsOf e).map Op.load)) (cTargets fx [Expr.name x]) =
          storeU (runOpsU u ((loadsOf e).map Op.load)) x .none := by intro u; simp [cTargets, cTarget, runOpsU, stepU]
      have hall : ∀ u : UState, u.inFunc = true → runOpsU u (cAll [Expr.name x] e) = u := by
        intro u hu
        rcases cAll_cases x e with h0 | ⟨_, ns, h0⟩
        · rw [h0]; rfl
        · rw [h0]; exact allNamesU_inFunc _ ns hu
      simp only [cStmt, stmtLoads, runOpsU_append, cExpr_loads fx D e hfr.2, hst, hall _ p2.io.inFunc, hall _ p2.inn.inFunc]
      refine ⟨p2, fun n hn => d1 n ?_⟩
      rw [e2] at hn; exact hn
  | .pass, ln, uo, un, _, p => by simp only [cStmt, stmtLoads]; exact ⟨p, fun n hn => .inl hn⟩
  | .return_ none, ln, uo, un, _, p => by simp only [cStmt, cOptExpr, stmtLoads]; exact ⟨p, fun n hn => .inl hn⟩
  | .return_ (some e), ln, uo, un, hfr, p => by
    simp only [cStmt, cOptExpr, stmtLoads, cExpr_loads fx D e (by simpa [fbodyStmt] using hfr)]
    exact PD.loads _ p
  | .located l s', ln, uo, un, hfr, p => by
    simp only [cStmt, stmtLoads, runOpsU_setLine]
    exact PD.stmt fx D s' l (by simpa [fbodyStmt] using hfr) (p.setLine l l)
  | .augAssign _ _, _, _, _, hfr, _ => by simp [fbodyStmt] at hfr
  | .annAssign _ _ _, _, _, _, hfr, _ => by simp [fbodyStmt] at hfr
  | .import_ _, _, _, _, hfr, _ => by simp [fbodyStmt] at hfr
  | .importFrom _ _, _, _, _, hfr, _ => by simp [fbodyStmt] at hfr
  | .funcDef _ _ _ _ _, _, _, _, hfr, _ => by simp [fbodyStmt] at hfr
  | .classDef _ _ _ _, _, _, _, hfr, _ => by simp [fbodyStmt] at hfr
  | .for_ _ _ _ _, _, _, _, hfr, _ => by simp [fbodyStmt] at hfr
  | .while_ _ _ _, _, _, _, hfr, _ => by simp [fbodyStmt] at hfr
  | .if_ _ _ _, _, _, _, hfr, _ => by simp [fbodyStmt] at hfr
  | .with_ _ _, _, _, _, hfr, _ => by simp [fbodyStmt] at hfr
  | .try_ _ _ _ _, _, _, _, hfr, _ => by simp [fbodyStmt] at hfr
  | .raise_ _, _, _, _, hfr, _ => by simp [fbodyStmt] at hfr
  | .delete _, _, _, _, hfr, _ => by simp [fbodyStmt] at hfr
  | .global_ _, _, _, _, hfr, _ => by simp [fbodyStmt] at hfr
  | .nonlocal_ _, _, _, _, hfr, _ => by simp [fbodyStmt] at hfr

theorem PD.body {U φ n0} {uo0 un0 : UState} (fx : Fixes) (D : Bool) : ∀ (body : List Stmt) (ln : Nat) {uo un : UState},
    body.all (fbodyStmt D) = true → PD U φ n0 uo0 un0 uo un →
    PD U φ n0 uo0 un0 (runOpsU uo (cStmts fx ln body)) (runOpsU un (cStmts fx ln body)) ∧
      DnSub uo (runOpsU uo (cStmts fx ln body)) (bodyLoads body)
  | [], _, _, _, _, p => ⟨p, fun n hn => .inl hn⟩
  | s :: r, ln, uo, un, hfr, p => by
    simp only [List.all_cons, Bool.and_eq_true] at hfr
    simp only [cStmts, bodyLoads, runOpsU_append]
    obtain ⟨p1, d1⟩ := PD.stmt fx D s ln hfr.1 p
    obtain ⟨p2, d2⟩ := PD.body fx D r ln hfr.2 p1
    exact ⟨p2, d1.trans d2⟩

/-! ### module-level statements of fragment B leave `_deferred_names` alone -/

def KeepDn (u u' : UState) : Prop := u'.deferredNames = u.deferredNames ∧ u'.dnOn = u.dnOn

theorem KeepDn.refl (u : UState) : KeepDn u u := ⟨rfl, rfl⟩
theorem KeepDn.trans {a b c : UState} (h1 : KeepDn a b) (h2 : KeepDn b c) : KeepDn a c := ⟨h2.1.trans h1.1, h2.2.trans h1.2⟩
theorem Frame.keep {u u' : UState} (f : Frame u u') : KeepDn u u' := ⟨f.dnames, f.dnOn⟩

theorem shape_alias {u : UState} (h : Shape u) (keys : List Str) (b : Str) (idx : Nat) (plain : Bool) (hns : ∀ key ∈ keys, NoSh u key) :
    Shape (stepU u (.importAlias keys b idx plain)) := by
  cases plain with
  | true => exact (frame_fold keys h hns).2
  | false =>
    have h1 : Shape { u with checkers := u.checkers ++ [{ bind := b, line := u.line, idx := idx }] } := h.checkers _
    obtain ⟨_, a⟩ := frame_fold (v := .obj u.checkers.length) keys h1 hns
    exact a.checkers _

theorem dn_aliases (m : Option Str) : ∀ (names : List Alias) (idx : Nat) (u : UState), Shape u →
    (∀ a ∈ names, ∀ key ∈ keysOf a, NoSh u key) → KeepDn u (runOpsU u (cAliases m idx names))
  | [], _, u, _, _ => KeepDn.refl u
  | a :: r, idx, u, h, hns => by
    simp only [cAliases]
    rw [runOpsU_cons, cAlias_keysOf]
    have hnsa := hns a (List.mem_cons_self ..)
    have fa := frame_alias h (keysOf a) (a.asname.getD a.name) idx (decide (a.name = ['*'] ∨ m = some "__future__".toList)) hnsa
    have sa := shape_alias h (keysOf a) (a.asname.getD a.name) idx (decide (a.name = ['*'] ∨ m = some "__future__".toList)) hnsa
    exact fa.keep.trans (dn_aliases m r (idx + 1) _ sa (fun b hb key hk => ((hns b (List.mem_cons_of_mem _ hb)) key hk).frame fa))

theorem allNames_dn : ∀ (names : List Str) (u : UState), Shape u → KeepDn u (names.foldl allStep u)
  | [], u, _ => KeepDn.refl u
  | n :: r, u, h => by
    simp only [List.foldl_cons]
    obtain ⟨d, m, e, a, _⟩ := allStep_eq h n
    have h1 : Shape (allStep u n) := by rw [e]; exact h.defer _ d m (fun x hx => by rw [a x hx])
    have k1 : KeepDn u (allStep u n) := by rw [e]; exact ⟨rfl, rfl⟩
    exact k1.trans (allNames_dn r _ h1)

theorem dn_stmt (fx : Fixes) (D : Bool) : ∀ (stmt : Stmt) (ln : Nat) (u : UState), Shape u → fragBStmt D stmt = true →
    (∀ key ∈ storeKeys stmt, NoSh u key) → KeepDn u (runOpsU u (cStmt fx ln stmt))
  | .expr e, ln, u, h, hf, _ => by
    simp only [fragBStmt] at hf
    simp only [cStmt]
    rw [cExpr_loads fx D e hf, runOpsU_loads _ u h]
    exact (frame_looks _ u h).keep
  | .assign ts e, ln, u, h, hf, hns => by
    simp only [fragBStmt, Bool.and_eq_true] at hf
    cases hsn : singleName ts with
    | none => rw [hsn] at hf; simp at hf
    | some x =>
      have hts := singleName_eq hsn
      subst hts
      simp only [cStmt]
      rw [cExpr_loads fx D e hf.2]
      have hst : cTargets fx [Expr.name x] = [Op.store x] := by simp [cTargets, cTarget]
      rw [hst, runOpsU_append, runOpsU_append, runOpsU_loads _ u h]
      have fl := frame_looks (loadsOf e) u h
      have h1 := (looks_facts (loadsOf e) u h).1
      have hx : NoSh u x := hns x (by simp [storeKeys, singleName])
      have f2 := frame_store h1 (hx.frame fl) .none
      have h2 := (storeU_facts h1 (hx.frame fl) .none).1
      have e2 : runOpsU (looks u (loadsOf e)) [Op.store x] = storeU (looks u (loadsOf e)) x .none := rfl
      rw [e2]
      rcases cAll_ops x e with hc | ⟨ns, hc⟩
      · rw [hc]; exact fl.keep.trans f2.keep
      · rw [hc]
        show KeepDn u (stepU _ (.allNames ns))
        rw [stepU_allNames _ h2.inFunc]
        exact (fl.keep.trans f2.keep).trans (allNames_dn ns _ h2)
  | .pass, _, u, _, _, _ => KeepDn.refl u
  | .import_ names, ln, u, h, hf, hns => by
    simp only [cStmt]
    exact dn_aliases none names 0 u h (fun a ha key hk => hns key (List.mem_flatMap.mpr ⟨a, ha, hk⟩))
  | .importFrom m names, ln, u, h, hf, hns => by
    simp only [cStmt]
    exact dn_aliases (some m) names 0 u h (fun a ha key hk => hns key (List.mem_flatMap.mpr ⟨a, ha, hk⟩))
  | .located l st, ln, u, h, hf, hns => by
    simp only [fragBStmt] at hf
    simp only [cStmt]
    rw [runOpsU_cons]
    exact dn_stmt fx D st l { u with line := l } (h.line l) hf hns
  | .augAssign _ _, _, _, _, hf, _ => by simp [fragBStmt] at hf
  | .annAssign _ _ _, _, _, _, hf, _ => by simp [fragBStmt] at hf
  | .funcDef _ _ _ _ _, _, _, _, hf, _ => by simp [fragBStmt] at hf
  | .classDef _ _ _ _, _, _, _, hf, _ => by simp [fragBStmt] at hf
  | .for_ _ _ _ _, _, _, _, hf, _ => by simp [fragBStmt] at hf
  | .while_ _ _ _, _, _, _, hf, _ => by simp [fragBStmt] at hf
  | .if_ _ _ _, _, _, _, hf, _ => by simp [fragBStmt] at hf
  | .with_ _ _, _, _, _, hf, _ => by simp [fragBStmt] at hf
  | .try_ _ _ _ _, _, _, _, hf, _ => by simp [fragBStmt] at hf
  | .return_ _, _, _, _, hf, _ => by simp [fragBStmt] at hf
  | .raise_ _, _, _, _, hf, _ => by simp [fragBStmt] at hf
  | .delete _, _, _, _, hf, _ => by simp [fragBStmt] at hf
  | .global_ _, _, _, _, hf, _ => by simp [fragBStmt] at hf
  | .nonlocal_ _, _, _, _, hf, _ => by simp [fragBStmt] at hf

/-! ### entering and leaving a definition -/

def argCell (names : List Str) : Scope := names.foldl (fun sc x => sc.set x .none) ({ isClass := false } : Scope)
def bodyCell (name : Str) : Scope := ({ isClass := false } : Scope).set name .none

theorem foldl_set_isClass : ∀ (names : List Str) (sc : Scope), (names.foldl (fun sc x => sc.set x .none) sc).isClass = sc.isClass
  | [], _ => rfl
  | x :: r, sc => by simp only [List.foldl_cons]; rw [foldl_set_isClass r]; rfl

theorem foldl_set_items : ∀ (names : List Str) (sc : Scope), (∀ kv ∈ sc.items, kv.2 = Val.none) →
    ∀ kv ∈ (names.foldl (fun sc x => sc.set x .none) sc).items, kv.2 = Val.none
  | [], _, h => h
  | x :: r, sc, h => by
    simp only [List.foldl_cons]
    apply foldl_set_items r
    intro kv hkv
    rcases mem_assocSet hkv with h1 | h1
    · exact h kv h1
    · rw [h1]

theorem stores_local : ∀ (names : List Str) (u : UState) (t : Nat), u.stack.top = t → t < u.heap.length →
    (∀ x ∈ names, simpleName x = true) → (∀ kv ∈ (u.heap.get t).items, kv.2 = Val.none) →
    ∃ H : Heap, runOpsU u (names.map Op.store) = { u with heap := H } ∧ H.length = u.heap.length ∧
      (∀ i, i ≠ t → H.get i = u.heap.get i) ∧ H.get t = names.foldl (fun sc x => sc.set x .none) (u.heap.get t)
  | [], u, t, _, _, _, _ => ⟨u.heap, rfl, rfl, fun _ _ => rfl, rfl⟩
  | x :: r, u, t, ht, hlt, hs, hv => by
    have hp := storeU_plain u x (hs x (List.mem_cons_self ..)) (fun v hg => by rw [ht] at hg; exact hv _ (assocGet_mem hg))
    rw [ht] at hp
    have hstep : runOpsU u ((x :: r).map Op.store) = runOpsU (storeU u x .none) (r.map Op.store) := rfl
    rw [hstep, hp]
    obtain ⟨H, e, hl, ho, hc⟩ := stores_local r { u with heap := u.heap.update t (·.set x .none) } t ht
      (by show t < (u.heap.update t _).length; rw [Heap.length_update]; exact hlt)
      (fun y hy => hs y (List.mem_cons_of_mem _ hy)) (by
        intro kv hkv
        change kv ∈ ((u.heap.update t (·.set x .none)).get t).items at hkv
        rw [Heap.get_update, if_pos ⟨rfl, hlt⟩] at hkv
        rcases mem_assocSet hkv with h1 | h1
        · exact hv kv h1
        · rw [h1])
    refine ⟨H, e, ?_, ?_, ?_⟩
    · rw [hl]; show (u.heap.update t _).length = _; rw [Heap.length_update]
    · intro i hi
      rw [ho i hi]
      show (u.heap.update t _).get i = _
      rw [Heap.get_update, if_neg (fun h => hi h.1)]
    · rw [hc]
      show List.foldl _ ((u.heap.update t (·.set x .none)).get t) r = _
      rw [Heap.get_update, if_pos ⟨rfl, hlt⟩]; rfl

/-- the ops before the body of `def name(params)`, as a record update -/
theorem def_prefix (fx : Fixes) {u : UState} (h : Shape u) (hs : UShape u) (ln : Nat) (name : Str) (ps : List Param)
    (hn : simpleName name = true) (hps : ps.all simpleParam = true) :
    ∃ (H : Heap) (S2 SA : StackRef), runOpsU u ([.pushScope true false false, .dunderClass] ++ cDecos fx ln [] ++ [.setLine ln] ++
        cArgs fx (.mk ps [] none [] [] none) ++ cRet fx none ++ [.enterFunc, .pushScope false false true, .storeIfNotInClass name])
      = { u with heap := H, stack := S2, saved := SA :: u.stack :: u.saved, inFunc := true, savedFunc := false :: u.savedFunc, line := ln } ∧
      S2.ids = [0, 1, 3, 4, u.heap.length, u.heap.length + 1] ∧ SA.ids = [0, 1, 3, 4, u.heap.length] ∧
      H.length = u.heap.length + 2 ∧ (∀ i, i < u.heap.length → H.get i = u.heap.get i) ∧
      H.get u.heap.length = argCell (paramNames ps) ∧ H.get (u.heap.length + 1) = bodyCell name := by
  have h5 := h.len
  have hnorm4 : normIds [0, 1, 3, 4] = [0, 1, 3, 4] := by decide
  have hnot4 : ∀ m : Nat, 5 ≤ m → m ∉ [0, 1, 3, 4] := by
    intro m hm hc
    simp only [List.mem_cons, List.not_mem_nil, or_false] at hc
    omega
  simp only [cDecos, cArgs, cRet, cExprs, cOptExprs, cParamAnns, cParamAnns_simple fx ps hps, ite_self,
    List.append_nil, List.nil_append, List.cons_append, cParams_simple fx ps hps, cParams]
  -- first push
  let c0 : Scope := { isClass := false }
  let u1 : UState := { u with heap := u.heap ++ [c0], saved := u.stack :: u.saved, stack := u.stack.withNewScope u.heap true false u.heap.length }
  have hids1 : u1.stack.ids = [0, 1, 3, 4, u.heap.length] := by
    show (u.stack.withNewScope u.heap true false u.heap.length).ids = _
    rw [withNewScope_idsU u.stack u.heap true false u.heap.length (by rw [h.stack]; exact hnorm4)
      (by rw [h.stack]; exact hs.noClass) hs.delayed (by rw [h.stack]; exact hnot4 _ h5) (by omega) (by omega), h.stack]
    rfl
  have e1 : runOpsU u (.pushScope true false false :: .dunderClass :: .setLine ln :: .upScope :: .downScope ::
      ((paramNames ps).map Op.store ++ [.enterFunc, .pushScope false false true, .storeIfNotInClass name])) =
      runOpsU { u1 with line := ln } ((paramNames ps).map Op.store ++ [.enterFunc, .pushScope false false true, .storeIfNotInClass name]) := by
    have hd : stepU u1 .dunderClass = u1 := by
      have : u1.inClass = 0 := hs.inClass
      simp [stepU, this]
    have s1 : stepU u (.pushScope true false false) = u1 := rfl
    have s3 : stepU u1 (.setLine ln) = { u1 with line := ln } := rfl
    have s45 : stepU (stepU { u1 with line := ln } .upScope) .downScope = { u1 with line := ln } := updown_id _
    rw [runOpsU_cons, s1, runOpsU_cons, hd, runOpsU_cons, s3, runOpsU_cons, runOpsU_cons, s45]
  rw [e1, runOpsU_append]
  have htop1 : ({ u1 with line := ln } : UState).stack.top = u.heap.length := by
    show u1.stack.top = _
    unfold StackRef.top; rw [hids1]; rfl
  have hc0 : Heap.get (u.heap ++ [c0]) u.heap.length = c0 := Heap.get_append_new _ _
  obtain ⟨H1, a1, al, ao, ac⟩ := stores_local (paramNames ps) { u1 with line := ln } u.heap.length htop1
    (by show u.heap.length < (u.heap ++ [c0]).length; simp) (paramNames_simple ps hps)
    (by show ∀ kv ∈ (Heap.get (u.heap ++ [c0]) u.heap.length).items, _; rw [hc0]; intro kv hkv; simp [c0] at hkv)
  rw [a1]
  have al' : H1.length = u.heap.length + 1 := by rw [al]; show (u.heap ++ [c0]).length = _; simp
  have ao' : ∀ i, i < u.heap.length → H1.get i = u.heap.get i := by
    intro i hi
    rw [ao i (by omega)]
    show Heap.get (u.heap ++ [c0]) i = _
    exact Heap.get_append_left _ _ hi
  have ac' : H1.get u.heap.length = argCell (paramNames ps) := by
    rw [ac]; show List.foldl _ (Heap.get (u.heap ++ [c0]) u.heap.length) _ = _; rw [hc0]; rfl
  let u2 : UState := { u1 with line := ln, heap := H1 }
  have hids2 : u2.stack.ids = [0, 1, 3, 4, u.heap.length] := hids1
  let u3 : UState := { u2 with savedFunc := u2.inFunc :: u2.savedFunc, inFunc := true }
  let u4 : UState := { u3 with heap := u3.heap ++ [c0], saved := u3.stack :: u3.saved, stack := u3.stack.withNewScope u3.heap false true u3.heap.length }
  have hcls2 : ∀ i ∈ u2.stack.ids, (u2.heap.get i).isClass = false := by
    intro i hi
    rw [hids2] at hi
    simp only [List.mem_cons, List.not_mem_nil, or_false] at hi
    by_cases hlt : i < u.heap.length
    · show (H1.get i).isClass = false
      rw [ao' i hlt]
      apply hs.noClass
      simp only [List.mem_cons, List.not_mem_nil, or_false]
      rcases hi with h | h | h | h | h
      · exact .inl h
      · exact .inr (.inl h)
      · exact .inr (.inr (.inl h))
      · exact .inr (.inr (.inr h))
      · omega
    · have : i = u.heap.length := by omega
      subst this
      show (H1.get u.heap.length).isClass = false
      rw [ac']; unfold argCell; rw [foldl_set_isClass]
  have hnorm5 : normIds u2.stack.ids = u2.stack.ids := by
    rw [hids2, show [0, 1, 3, 4, u.heap.length] = [0, 1, 3, 4] ++ [u.heap.length] from rfl,
      normIds_snoc_fresh (by omega) (by omega) (hnot4 _ h5), hnorm4]
  have hlen2 : u2.heap.length = u.heap.length + 1 := al'
  have hnew2 : u2.heap.length ∉ u2.stack.ids := by
    rw [hids2, hlen2]
    intro hc
    simp only [List.mem_cons, List.not_mem_nil, or_false] at hc
    omega
  have hids4 : u4.stack.ids = [0, 1, 3, 4, u.heap.length, u.heap.length + 1] := by
    show (u2.stack.withNewScope u2.heap false true u2.heap.length).ids = _
    rw [withNewScope_idsU u2.stack u2.heap false true u2.heap.length hnorm5
      hcls2 (by show (H1.get delayedId).items = []; rw [ao' delayedId (by unfold delayedId; omega)]; exact hs.delayed)
      hnew2 (by rw [hlen2]; omega) (by rw [hlen2]; omega), hids2, hlen2]
    rfl
  have htop4 : u4.stack.top = u.heap.length + 1 := by unfold StackRef.top; rw [hids4]; rfl
  have hlen4 : u4.heap.length = u.heap.length + 2 := by show (H1 ++ [c0]).length = _; simp [al']
  have e2 : runOpsU u2 [.enterFunc, .pushScope false false true, .storeIfNotInClass name] = storeU u4 name .none := by
    have : u4.inClass = 0 := hs.inClass
    show stepU u4 (.storeIfNotInClass name) = _
    simp [stepU, this]
  show ∃ (H : Heap) (S2 SA : StackRef), runOpsU u2 _ = _ ∧ _
  rw [e2]
  have hnew4 : Heap.get (H1 ++ [c0]) (u.heap.length + 1) = c0 := by rw [← al']; exact Heap.get_append_new _ _
  have hp := storeU_plain u4 name hn (fun v hg => by
    rw [htop4] at hg
    change (Heap.get (H1 ++ [c0]) (u.heap.length + 1)).get name = some v at hg
    rw [hnew4] at hg; simp [c0, Scope.get, assocGet] at hg)
  rw [hp, htop4]
  refine ⟨(H1 ++ [c0]).update (u.heap.length + 1) (·.set name .none), u4.stack, u2.stack, ?_, hids4, hids2, ?_, ?_, ?_, ?_⟩
  · have hf : u.inFunc = false := h.inFunc
    simp only [u4, u3, u2, u1, hf]
  · rw [Heap.length_update]; simp [al']
  · intro i hi
    rw [Heap.get_update, if_neg (by omega), Heap.get_append_left _ _ (by omega)]; exact ao' i hi
  · rw [Heap.get_update, if_neg (by omega), Heap.get_append_left _ _ (by omega)]; exact ac'
  · rw [Heap.get_update, if_pos ⟨rfl, by simp [al']⟩, hnew4]; rfl

/-- leaving the definition: both local scopes hold no checker, nothing is reported -/
theorem def_suffix {n0 : Nat} {u0 u : UState} (h : InD n0 u0 u) :
    runOpsU u [.popScope, .exitFunc, .popScope] =
      { u with stack := u0.stack, saved := u0.saved, inFunc := false, savedFunc := u0.savedFunc } := by
  obtain ⟨S, hS, hsaved⟩ := h.saved
  have hlenB := h.lenB
  have c1 : collectUnused u (u.heap.get u.stack.top).items = u :=
    collectUnused_plain u _ (h.freshItems _ (by rw [h.top]; omega))
  have e1 : stepU u .popScope = { u with stack := S, saved := u0.stack :: u0.saved } := by
    simp only [stepU, c1, hsaved]
  have e2 : stepU { u with stack := S, saved := u0.stack :: u0.saved } .exitFunc =
      { u with stack := S, saved := u0.stack :: u0.saved, inFunc := false, savedFunc := u0.savedFunc } := by
    simp only [stepU, h.savedFunc]
  let u2 : UState := { u with stack := S, saved := u0.stack :: u0.saved, inFunc := false, savedFunc := u0.savedFunc }
  have htop2 : u2.stack.top = n0 := by
    show S.top = n0
    unfold StackRef.top; rw [hS]; rfl
  have c2 : collectUnused u2 (u2.heap.get u2.stack.top).items = u2 :=
    collectUnused_plain u2 _ (by
      show ∀ kv ∈ (u.heap.get u2.stack.top).items, _
      rw [htop2]; exact h.freshItems _ (Nat.le_refl _))
  have e3 : stepU u2 .popScope = { u2 with stack := u0.stack, saved := u0.saved } := by
    simp only [stepU, c2]
    rfl
  show stepU (stepU (stepU u .popScope) .exitFunc) .popScope = _
  rw [e1, e2, e3]

theorem argCell_items (names : List Str) : ∀ kv ∈ (argCell names).items, kv.2 = Val.none :=
  foldl_set_items names _ (by intro kv hkv; simp at hkv)

theorem bodyCell_items (name : Str) : ∀ kv ∈ (bodyCell name).items, kv.2 = Val.none := by
  intro kv hkv
  rcases mem_assocSet hkv with h1 | h1
  · simp at h1
  · rw [h1]

/-- the state at the start of the body -/
theorem inD_start {u : UState} (h : Shape u) (hx : UShape u) {H : Heap} {S2 SA : StackRef} {ln : Nat} {names : List Str} {name : Str}
    (h2 : S2.ids = [0, 1, 3, 4, u.heap.length, u.heap.length + 1]) (hA : SA.ids = [0, 1, 3, 4, u.heap.length])
    (hl : H.length = u.heap.length + 2) (ho : ∀ i, i < u.heap.length → H.get i = u.heap.get i)
    (ha : H.get u.heap.length = argCell names) (hb : H.get (u.heap.length + 1) = bodyCell name) :
    InD u.heap.length u { u with
      heap := H, stack := S2, saved := SA :: u.stack :: u.saved, inFunc := true,
      savedFunc := false :: u.savedFunc, line := ln } := by
  refine ⟨h2, rfl, rfl, ⟨SA, hA, rfl⟩, by show _ ≤ H.length; omega, h.len, ho, ?_, rfl, hx.inClass, rfl, h.cond, rfl, h.defIds, h⟩
  intro i hi kv hkv
  change kv ∈ (H.get i).items at hkv
  by_cases h0 : i = u.heap.length
  · subst h0; rw [ha] at hkv; exact argCell_items _ kv hkv
  · by_cases h1 : i = u.heap.length + 1
    · subst h1; rw [hb] at hkv; exact bodyCell_items _ kv hkv
    · rw [Heap.get_ge _ (by omega)] at hkv; simp at hkv

theorem rel_congr {φ : List Nat} {to to' : Scope} {co : List Checker} {uo uo' : List Nat} {tn tn' : Scope} {cn : List Checker}
    {un un' : List Nat} (h : Rel φ to co uo tn cn un) (e1 : to' = to) (e2 : uo' = uo) (e3 : tn' = tn) (e4 : un' = un) :
    Rel φ to' co uo' tn' cn un' := by subst e1 e2 e3 e4; exact h

/-- `def name(params): body` at module level, both analyses -/
theorem sim_def {U : List (Nat × Nat)} {φ : List Nat} (fx : Fixes) (D : Bool) {uo un : UState} (s : Sim U φ uo un) (ln : Nat)
    (name : Str) (ps : List Param) (body : List Stmt)
    (hn : simpleName name = true) (hps : ps.all simpleParam = true) (hb : body.all (fbodyStmt D) = true)
    (hns : uo.dnOn = true → keyHead name ∉ (bodyLoads body).map keyHead ++ uo.deferredNames) :
    Sim U φ (runOpsU uo (cStmt fx ln (.funcDef name (.mk ps [] none [] [] none) body [] none)))
      (runOpsU un (cStmt fx ln (.funcDef name (.mk ps [] none [] [] none) body [] none))) ∧
    DnSub uo (runOpsU uo (cStmt fx ln (.funcDef name (.mk ps [] none [] [] none) body [] none))) (bodyLoads body) ∧
    (runOpsU uo (cStmt fx ln (.funcDef name (.mk ps [] none [] [] none) body [] none))).dnOn = uo.dnOn := by
  obtain ⟨Ho, S2o, SAo, eo, o2, oA, ol, oo, oa, ob⟩ := def_prefix fx s.so s.ext.xo ln name ps hn hps
  obtain ⟨Hn, S2n, SAn, en, n2, nA, nl, no, na, nb⟩ := def_prefix fx s.sn s.ext.xn ln name ps hn hps
  have hlen := s.ext.hlen
  have h5 := s.so.len
  have io := inD_start (ln := ln) s.so s.ext.xo o2 oA ol oo oa ob
  have inn := inD_start (ln := ln) s.sn s.ext.xn n2 nA nl no na nb
  rw [hlen] at inn n2 nA nl na nb
  have hcells : ∀ i, i ≠ 4 → Hn.get i = Ho.get i := by
    intro i hi
    by_cases hlt : i < uo.heap.length
    · rw [oo i hlt, no i (by omega)]; exact s.ext.outerEq i hi
    · by_cases h0 : i = uo.heap.length
      · subst h0; rw [oa, na]
      · by_cases h1 : i = uo.heap.length + 1
        · subst h1; rw [ob, nb]
        · rw [Heap.get_ge _ (by omega), Heap.get_ge _ (by omega)]
  have p1 := PD.mk (U := U) (φ := φ) io inn s.rel s.keptOK (show Hn.length = Ho.length by omega) hcells s.ext.defSub s.ext.dnEq
  obtain ⟨p2, d2⟩ := PD.body fx D body ln hb p1
  have so2 := def_suffix p2.io
  have sn2 := def_suffix p2.inn
  have hsplit : ∀ u : UState, runOpsU u (cStmt fx ln (.funcDef name (.mk ps [] none [] [] none) body [] none)) =
      runOpsU (runOpsU (runOpsU (runOpsU u ([.pushScope true false false, .dunderClass] ++ cDecos fx ln [] ++ [.setLine ln] ++
        cArgs fx (.mk ps [] none [] [] none) ++ cRet fx none ++ [.enterFunc, .pushScope false false true, .storeIfNotInClass name]))
        (cStmts fx ln body)) [.popScope, .exitFunc, .popScope]) [.store name] := by
    intro u
    simp only [cStmt]
    rw [runOpsU_append, runOpsU_append]
    rfl
  rw [hsplit uo, hsplit un, eo, en, so2, sn2]
  show Sim U φ (storeU _ name .none) (storeU _ name .none) ∧ DnSub uo (storeU _ name .none) (bodyLoads body) ∧
    (storeU _ name .none).dnOn = uo.dnOn
  have key : ∀ (uo3 un3 : UState), Sim U φ uo3 un3 → DnSub uo uo3 (bodyLoads body) → uo3.dnOn = uo.dnOn →
      (Sim U φ (storeU uo3 name .none) (storeU un3 name .none) ∧ DnSub uo (storeU uo3 name .none) (bodyLoads body) ∧
        (storeU uo3 name .none).dnOn = uo.dnOn) := by
    intro uo3 un3 s3 d3 hon
    have hk3 : NoSh uo3 name := by
      intro hd hmem
      have hu : uo.dnOn = true := by rw [← hon]; exact hd
      rcases d3 _ hmem with h | h
      · exact hns hu (List.mem_append_right _ h)
      · exact hns hu (List.mem_append_left _ h)
    refine ⟨s3.storeBoth name (.inl ⟨rfl, rfl⟩) hk3, fun n hn => d3 n ?_, ?_⟩
    · rw [(frame_store s3.so hk3 .none).dnames] at hn; exact hn
    · rw [(frame_store s3.so hk3 .none).dnOn]; exact hon
  refine key _ _ ?_ (fun n hn => d2 n hn) p2.io.on
  have hlo := p2.io.lenB
  have hln := p2.inn.lenB
  refine ⟨⟨s.so.stack, Nat.le_trans (show 5 ≤ uo.heap.length + 2 by omega) hlo, rfl, p2.io.cond, trivial, p2.io.outer, p2.io.ents, ?_⟩,
    ⟨s.sn.stack, Nat.le_trans (show 5 ≤ uo.heap.length + 2 by omega) hln, rfl, p2.inn.cond, trivial, p2.inn.outer, p2.inn.ents, ?_⟩, ?_, p2.keptOK,
    ⟨?_, p2.cells, p2.sub, p2.hlen, ⟨?_, ?_, p2.io.inClass⟩, ⟨?_, ?_, p2.inn.inClass⟩, p2.dnEq,
      (p2.inn.on.trans s.ext.onEq).trans p2.io.on.symm⟩⟩
  · show KeysNodup (Heap.get _ 4).items
    rw [p2.io.old 4 (by omega)]; exact s.so.nodup
  · show KeysNodup (Heap.get _ 4).items
    rw [p2.inn.old 4 (by omega)]; exact s.sn.nodup
  · exact rel_congr p2.rel p2.io.topEq p2.io.unusedEq p2.inn.topEq p2.inn.unusedEq
  · show UState.allMark _ = UState.allMark _
    rw [p2.inn.am, p2.io.am]; exact s.ext.am
  · show (Heap.get _ delayedId).items = []
    rw [p2.io.old delayedId (by unfold delayedId; omega)]; exact s.ext.xo.delayed
  · intro i hi
    have hi' := hi
    simp only [List.mem_cons, List.not_mem_nil, or_false] at hi'
    show (Heap.get _ i).isClass = false
    rw [p2.io.old i (by omega)]; exact s.ext.xo.noClass i hi
  · show (Heap.get _ delayedId).items = []
    rw [p2.inn.old delayedId (by unfold delayedId; omega)]; exact s.ext.xn.delayed
  · intro i hi
    have hi' := hi
    simp only [List.mem_cons, List.not_mem_nil, or_false] at hi'
    show (Heap.get _ i).isClass = false
    rw [p2.inn.old i (by omega)]; exact s.ext.xn.noClass i hi

/-! ### module-level statements of fragment C, and the trailing calls -/

/-- the heads of the names read by the body of a `def` statement -/
def defReads : Stmt → List Str
  | .funcDef _ _ body _ _ => (bodyLoads body).map keyHead
  | .located _ s => defReads s
  | _ => []

/-- no module-level statement stores a key whose head a function body seen so far reads (`DN`: the heads read so far; the
    name of a `def` is stored after its own body has been seen) -/
def rebindOK : List Str → List Stmt → Bool
  | _, [] => true
  | DN, s :: r => (storeKeys s).all (fun k => !(defReads s ++ DN).contains (keyHead k)) && rebindOK (defReads s ++ DN) r

/-- `_deferred_names` grows by names of `R` only, the flag stays -/
def After (u u' : UState) (R : List Str) : Prop := (∀ n ∈ u'.deferredNames, n ∈ u.deferredNames ∨ n ∈ R) ∧ u'.dnOn = u.dnOn

theorem KeepDn.after {u u' : UState} (h : KeepDn u u') (R : List Str) : After u u' R :=
  ⟨fun n hn => .inl (by rw [← h.1]; exact hn), h.2⟩

/-- the stores of `stmt` in state `u` do not shadow -/
def StoresOK (u : UState) (stmt : Stmt) : Prop := u.dnOn = true → ∀ k ∈ storeKeys stmt, keyHead k ∉ defReads stmt ++ u.deferredNames

theorem sim_defStmt {U : List (Nat × Nat)} (fx : Fixes) (D : Bool) : ∀ (stmt : Stmt) (ln : Nat) {φ : List Nat} {uo un : UState},
    fragDef D stmt = true → Sim U φ uo un → StoresOK uo stmt →
    Sim U φ (runOpsU uo (cStmt fx ln stmt)) (runOpsU un (cStmt fx ln stmt)) ∧ (∀ x, dropStmt U x stmt = some stmt) ∧
      After uo (runOpsU uo (cStmt fx ln stmt)) (defReads stmt)
  | .located l s', ln, φ, uo, un, h, s, hns => by
    have h' : fragDef D s' = true := by simpa [fragDef] using h
    obtain ⟨s1, hd, ha⟩ := sim_defStmt fx D s' l h' (s.setLineBoth l l) hns
    refine ⟨?_, fun x => by simp [dropStmt, hd], ?_⟩
    · simp only [cStmt]; rw [runOpsU_cons, runOpsU_cons]; exact s1
    · simp only [cStmt]; rw [runOpsU_cons]; exact ha
  | .funcDef name a body decos ret, ln, φ, uo, un, h, s, hns => by
    obtain ⟨ps, rfl, rfl, rfl, h1, h2, h3⟩ := fragDef_funcDef h
    obtain ⟨s1, d1, o1⟩ := sim_def fx D s ln name ps body h1 h2 h3 (fun hd => hns hd name (by simp [storeKeys]))
    exact ⟨s1, fun _ => rfl, d1, o1⟩
  | .expr _, _, _, _, _, h, _, _ => by simp [fragDef] at h
  | .assign _ _, _, _, _, _, h, _, _ => by simp [fragDef] at h
  | .pass, _, _, _, _, h, _, _ => by simp [fragDef] at h
  | .import_ _, _, _, _, _, h, _, _ => by simp [fragDef] at h
  | .importFrom _ _, _, _, _, _, h, _, _ => by simp [fragDef] at h
  | .augAssign _ _, _, _, _, _, h, _, _ => by simp [fragDef] at h
  | .annAssign _ _ _, _, _, _, _, h, _, _ => by simp [fragDef] at h
  | .classDef _ _ _ _, _, _, _, _, h, _, _ => by simp [fragDef] at h
  | .for_ _ _ _ _, _, _, _, _, h, _, _ => by simp [fragDef] at h
  | .while_ _ _ _, _, _, _, _, h, _, _ => by simp [fragDef] at h
  | .if_ _ _ _, _, _, _, _, h, _, _ => by simp [fragDef] at h
  | .with_ _ _, _, _, _, _, h, _, _ => by simp [fragDef] at h
  | .try_ _ _ _ _, _, _, _, _, h, _, _ => by simp [fragDef] at h
  | .return_ _, _, _, _, _, h, _, _ => by simp [fragDef] at h
  | .raise_ _, _, _, _, _, h, _, _ => by simp [fragDef] at h
  | .delete _, _, _, _, _, h, _, _ => by simp [fragDef] at h
  | .global_ _, _, _, _, _, h, _, _ => by simp [fragDef] at h
  | .nonlocal_ _, _, _, _, _, h, _, _ => by simp [fragDef] at h

theorem fragCall_shape {D : Bool} {stmt : Stmt} (h : fragCall D stmt = true) :
    (∃ l s, stmt = .located l s ∧ fragCall D s = true) ∨
    ∃ f args, stmt = .expr (.call (.name f) args) ∧ simpleName f = true ∧ fragBExprs D args = true := by
  unfold fragCall at h
  split at h
  · exact .inl ⟨_, _, rfl, h⟩
  · simp only [Bool.and_eq_true] at h; exact .inr ⟨_, _, rfl, h.1, h.2⟩
  · cases h

theorem sim_callStmt {U : List (Nat × Nat)} (fx : Fixes) (D : Bool) : ∀ (stmt : Stmt) (ln : Nat) {φ : List Nat} {uo un : UState},
    fragCall D stmt = true → Sim U φ uo un →
    Sim U φ (runOpsU uo (cStmt fx ln stmt)) (runOpsU un (cStmt fx ln stmt)) ∧ (∀ x, dropStmt U x stmt = some stmt) ∧
      KeepDn uo (runOpsU uo (cStmt fx ln stmt))
  | .located l s', ln, φ, uo, un, h, s => by
    have h' : fragCall D s' = true := by
      rcases fragCall_shape h with ⟨l2, s2, he, h2⟩ | ⟨f, args, he, _, _⟩
      · cases he; exact h2
      · cases he
    obtain ⟨s1, hd, hk⟩ := sim_callStmt fx D s' l h' (s.setLineBoth l l)
    refine ⟨?_, fun x => by simp [dropStmt, hd], ?_⟩
    · simp only [cStmt]; rw [runOpsU_cons, runOpsU_cons]; exact s1
    · simp only [cStmt]; rw [runOpsU_cons]; exact hk
  | .expr e, ln, φ, uo, un, h, s => by
    rcases fragCall_shape h with ⟨l2, s2, he, h2⟩ | ⟨f, args, he, hf, ha⟩
    · cases he
    · cases he
      have hops : cStmt fx ln (.expr (.call (.name f) args)) = (f :: loadsOfs args).map Op.load := by
        simp only [cStmt, cExpr, cExprs_loads fx D args ha]; rfl
      rw [hops]
      refine ⟨(sim_loads s _).1, fun _ => rfl, ?_⟩
      rw [runOpsU_loads _ uo s.so]
      exact (frame_looks _ uo s.so).keep
  | .funcDef _ _ _ _ _, _, _, _, _, h, _ => by simp [fragCall] at h
  | .assign _ _, _, _, _, _, h, _ => by simp [fragCall] at h
  | .pass, _, _, _, _, h, _ => by simp [fragCall] at h
  | .import_ _, _, _, _, _, h, _ => by simp [fragCall] at h
  | .importFrom _ _, _, _, _, _, h, _ => by simp [fragCall] at h
  | .augAssign _ _, _, _, _, _, h, _ => by simp [fragCall] at h
  | .annAssign _ _ _, _, _, _, _, h, _ => by simp [fragCall] at h
  | .classDef _ _ _ _, _, _, _, _, h, _ => by simp [fragCall] at h
  | .for_ _ _ _ _, _, _, _, _, h, _ => by simp [fragCall] at h
  | .while_ _ _ _, _, _, _, _, h, _ => by simp [fragCall] at h
  | .if_ _ _ _, _, _, _, _, h, _ => by simp [fragCall] at h
  | .with_ _ _, _, _, _, _, h, _ => by simp [fragCall] at h
  | .try_ _ _ _ _, _, _, _, _, h, _ => by simp [fragCall] at h
  | .return_ _, _, _, _, _, h, _ => by simp [fragCall] at h
  | .raise_ _, _, _, _, _, h, _ => by simp [fragCall] at h
  | .delete _, _, _, _, _, h, _ => by simp [fragCall] at h
  | .global_ _, _, _, _, _, h, _ => by simp [fragCall] at h
  | .nonlocal_ _, _, _, _, _, h, _ => by simp [fragCall] at h

end FC

/-- the statement carries its own line number -/
def isLoc : Stmt → Bool
  | .located _ _ => true
  | _ => false

theorem isLoc_shape {s : Stmt} (h : isLoc s = true) : ∃ l c, s = .located l c := by
  unfold isLoc at h
  split at h
  · exact ⟨_, _, rfl⟩
  · cases h

namespace FC

/-- one module-level statement `located l c` of fragment C, or a trailing call -/
theorem sim_top {U : List (Nat × Nat)} (fx : Fixes) (D : Bool) {φ : List Nat} {uo un : UState} (s : Sim U φ uo un) (l : Nat) (c : Stmt)
    (ln ln' x : Nat) (h : (fragCStmt D (.located l c) || fragCall D (.located l c)) = true) (hns : StoresOK uo (.located l c)) :
    (∃ φ', Sim U φ' (runOpsU uo (cStmt fx ln (.located l c))) (runOpsU un (cStmts fx ln' (dropStmt U x (.located l c)).toList))) ∧
      After uo (runOpsU uo (cStmt fx ln (.located l c))) (defReads (.located l c)) := by
  have hsame : ∀ u : UState, runOpsU u (cStmts fx ln' [.located l c]) = runOpsU u (cStmt fx ln (.located l c)) := by
    intro u; simp only [cStmts, cStmt, List.append_nil]
  simp only [fragCStmt, Bool.or_eq_true] at h
  rcases h with (h | h) | h
  · have hk : ∀ key ∈ storeKeys (.located l c), NoSh uo key :=
      fun key hkey hd hmem => hns hd key hkey (List.mem_append_right _ hmem)
    obtain ⟨⟨φ', s1⟩, _⟩ := sim_stmt fx D (.located l c) ln ln' φ uo un s h hk
    exact ⟨⟨φ', s1⟩, (dn_stmt fx D (.located l c) ln uo s.so h hk).after _⟩
  · obtain ⟨s1, hd, ha⟩ := sim_defStmt (U := U) fx D (.located l c) ln h s hns
    rw [hd x]
    exact ⟨⟨φ, by simp only [Option.toList]; rw [hsame]; exact s1⟩, ha⟩
  · obtain ⟨s1, hd, hk⟩ := sim_callStmt (U := U) fx D (.located l c) ln h s
    rw [hd x]
    exact ⟨⟨φ, by simp only [Option.toList]; rw [hsame]; exact s1⟩, hk.after _⟩

def topOK (D : Bool) (s : Stmt) : Bool := isLoc s && (fragCStmt D s || fragCall D s)

theorem sim_tops {U : List (Nat × Nat)} (fx : Fixes) (D : Bool) : ∀ (ss : List Stmt) (DN : List Str) (ln ln' : Nat) (φ : List Nat) (uo un : UState),
    Sim U φ uo un → ss.all (topOK D) = true → (∀ n ∈ uo.deferredNames, n ∈ DN) → (uo.dnOn = true → rebindOK DN ss = true) → ∀ x,
    ∃ φ', Sim U φ' (runOpsU uo (cStmts fx ln ss)) (runOpsU un (cStmts fx ln' (dropFrom U x ss)))
  | [], _, _, _, φ, _, _, s, _, _, _, _ => ⟨φ, s⟩
  | st :: r, DN, ln, ln', φ, uo, un, s, hf, hdn, hrb, x => by
    simp only [List.all_cons, Bool.and_eq_true, topOK] at hf
    obtain ⟨l, c, rfl⟩ := isLoc_shape hf.1.1
    simp only [cStmts, dropFrom, cStmts_append, runOpsU_append]
    have hns : StoresOK uo (.located l c) := by
      intro hd k hk hmem
      have h1 := hrb hd
      simp only [rebindOK, Bool.and_eq_true, List.all_eq_true] at h1
      have h2 := h1.1 k hk
      simp only [Bool.not_eq_true', List.contains_eq_mem, decide_eq_false_iff_not] at h2
      apply h2
      rcases List.mem_append.mp hmem with h | h
      · exact List.mem_append_left _ h
      · exact List.mem_append_right _ (hdn _ h)
    obtain ⟨⟨φ1, s1⟩, ha⟩ := sim_top fx D s l c ln ln' x hf.1.2 hns
    refine sim_tops fx D r (defReads (.located l c) ++ DN) ln ln' φ1 _ _ s1 (by simpa [topOK] using hf.2) ?_ ?_ _
    · intro n hn
      rcases ha.1 n hn with h | h
      · exact List.mem_append_right _ (hdn n h)
      · exact List.mem_append_left _ h
    · intro hd
      have h1 := hrb (by rw [← ha.2]; exact hd)
      simp only [rebindOK, Bool.and_eq_true] at h1
      exact h1.2

end FC

/-! ### witnesses: the full statement is false on fragment C -/

def defS (name : String) (ps : List String) (body : List Stmt) : Stmt :=
  .funcDef name.toList (.mk (ps.map (fun p => Param.mk p.toList none)) [] none [] [] none) body [] none

/-- `def f(): return a` / `import a.b` / `import a.b.c` / `a = _K` / `f()` -/
def wDnProg : List Stmt :=
  [.located 1 (defS "f" [] [.located 2 (.return_ (some (nm "a")))]), .located 3 (.import_ [al "a.b"]), .located 4 (.import_ [al "a.b.c"]),
   .located 5 (.assign [nm "a"] .const)]
def wDnCalls : List Stmt := [.located 6 (.expr (.call (nm "f") []))]

set_option maxRecDepth 100000 in
/-- With the repair `deferredNames` (0e29f32, part of the present tree) the remove stage does NOT reach its fixed point in one
    pass on fragment C: the body of `f` reads `a`, so the later stores of `a` only *shadow* what they overwrite; the first pass
    reports `import a.b.c` only (the checker of `import a.b` hangs, as shadowed, on the binding of `a` that `f` reads), and
    without `import a.b.c` the second pass reports `import a.b`.  The real `scan_for_import_issues` /
    `fix_unused_and_missing_imports` behave the same (second tidy pass removes `import a.b`): a genuine idempotence defect. -/
theorem witness_deferred_names_fragC :
    fragC true wDnProg = true ∧ wDnCalls.all (fragCall true) = true ∧ builtinsPlain exB = true ∧
    findUnused { deferredNames := true } exB (wDnProg ++ wDnCalls) = [(4, 0)] ∧
    findUnused { deferredNames := true } exB
      (dropUnused (wDnProg ++ wDnCalls) (findUnused { deferredNames := true } exB (wDnProg ++ wDnCalls))) = [(3, 0)] := by decide +kernel

/-- A model artefact of the line bookkeeping: a module-level statement without its own `located` wrapper that follows a `def`
    whose body has `located` statements is analysed on the body's last line, while `dropUnused` looks for it on the line of the
    `def`: nothing is deleted.  (Real statements always carry their own `lineno`.) -/
def wLnProg : List Stmt := [.located 1 (defS "f" [] [.located 7 .pass]), .import_ [al "a"]]
set_option maxRecDepth 100000 in
theorem witness_unlocated_after_def :
    fragC false wLnProg = true ∧ findUnused {} exB wLnProg = [(7, 0)] ∧
    findUnused {} exB (dropUnused wLnProg (findUnused {} exB wLnProg)) = [(7, 0)] := by decide +kernel

/-- **C04_no_unused_left_fragC_partial** — the remove stage of tidy-imports reaches its fixed point in one pass on fragment C
    (fragment B + module-level `def f(p1..pk): <straight-line body>`, followed by calls `f(e1..ek)`), for every combination
    of the repairs `fx`, when
    * with the repair `deferredNames` (the present tree), no module-level statement stores a key whose head is read by a
      function body seen before (`FC.rebindOK`; without it the statement is false: `witness_deferred_names_fragC`),
    * every module-level statement carries its own line (`isLoc`; needed: `witness_unlocated_after_def`),
    * the builtins namespace has no `_UseChecker` values and is not a class scope:
    the unused-import analysis of the program from which the imports it reported have been deleted reports nothing. -/
theorem C04_no_unused_left_fragC_partial (fx : Fixes) (builtins : Scope) (prog calls : List Stmt) (D : Bool)
    (hfrag : fragC D prog = true) (hcalls : calls.all (fragCall D) = true) (hloc : (prog ++ calls).all isLoc = true)
    (hb : builtinsPlain builtins = true) (hbc : builtins.isClass = false)
    (hrb : fx.deferredNames = true → FC.rebindOK [] (prog ++ calls) = true) :
    findUnused fx builtins (dropUnused (prog ++ calls) (findUnused fx builtins (prog ++ calls))) = [] := by
  generalize hU : findUnused fx builtins (prog ++ calls) = U
  have s0 := FC.sim_init U builtins fx.allUseMark fx.deferredNames hb hbc
  have hok : (prog ++ calls).all (FC.topOK D) = true := by
    simp only [List.all_eq_true] at hloc ⊢
    intro st hst
    simp only [FC.topOK, Bool.and_eq_true, Bool.or_eq_true]
    refine ⟨hloc st hst, ?_⟩
    rcases List.mem_append.mp hst with h | h
    · left
      simp only [fragC, List.all_eq_true] at hfrag
      have := hfrag st h
      simpa [Bool.or_eq_true] using this
    · right
      simp only [List.all_eq_true] at hcalls
      exact hcalls st h
  obtain ⟨φ, s1⟩ := FC.sim_tops fx D (prog ++ calls) [] 0 0 [] _ _ s0 hok (fun n hn => by simp [initU] at hn) hrb 0
  have s := FC.sim_finish s1
  have hscan := FC.sim_scan s
  have hnil : (analyzeU fx builtins (dropUnused (prog ++ calls) U)).unused = [] := by
    unfold analyzeU dropUnused
    cases hl : (scanUnusedU (finishU (runOpsU (initU builtins fx.allUseMark fx.deferredNames) (cStmts fx 0 (dropFrom U 0 (prog ++ calls)))))).unused with
    | nil => rfl
    | cons k' rest =>
      exfalso
      obtain ⟨k, e1, e2⟩ := hscan k' (by rw [hl]; exact List.mem_cons_self ..)
      obtain ⟨c, hc, hn⟩ := s.keptOK k (List.mem_of_getElem? e1)
      apply hn
      rw [← hU]
      unfold findUnused analyzeU
      simp only [List.mem_filterMap]
      refine ⟨k, e2, ?_⟩
      have hck : (scanUnusedU (finishU (runOpsU (initU builtins fx.allUseMark fx.deferredNames) (cStmts fx 0 (prog ++ calls))))).checkers =
          (finishU (runOpsU (initU builtins fx.allUseMark fx.deferredNames) (cStmts fx 0 (prog ++ calls)))).checkers :=
        (scanItems_facts _ _).1
      rw [hck, hc]; rfl
  unfold findUnused
  simp only [hnil, List.filterMap_nil]

/-- the analysis without the repair `deferredNames`: no hypothesis on rebinding -/
theorem C04_no_unused_left_fragC_noDeferredNames (fx : Fixes) (builtins : Scope) (prog calls : List Stmt) (D : Bool)
    (hfrag : fragC D prog = true) (hcalls : calls.all (fragCall D) = true) (hloc : (prog ++ calls).all isLoc = true)
    (hb : builtinsPlain builtins = true) (hbc : builtins.isClass = false) (hdn : fx.deferredNames = false) :
    findUnused fx builtins (dropUnused (prog ++ calls) (findUnused fx builtins (prog ++ calls))) = [] :=
  C04_no_unused_left_fragC_partial fx builtins prog calls D hfrag hcalls hloc hb hbc (fun h => by rw [hdn] at h; cases h)

/-! ### non-vacuity -/

/-- `import os, sys` / `import a.b` / `import a.c` / `def f(os, q): r = q; return a.b.z, r` / `import late` /
    `def g(): late; os` / `x = g` / `f(os, x)` -/
def exProgC : List Stmt :=
  [.located 1 (.import_ [al "os", al "sys"]), .located 2 (.import_ [al "a.b"]), .located 3 (.import_ [al "a.c"]),
   .located 4 (defS "f" ["os", "q"] [.located 5 (.assign [nm "r"] (nm "q")),
      .located 6 (.return_ (some (.tuple [.attr (.attr (nm "a") "b".toList) "z".toList, nm "r"])))]),
   .located 7 (.import_ [al "late"]),
   .located 8 (defS "g" [] [.located 9 (.expr (nm "late")), .located 10 (.expr (nm "os"))]),
   .located 11 (.assign [nm "x"] (nm "g"))]
def exCallsC : List Stmt := [.located 12 (.expr (.call (nm "f") [nm "os", nm "x"]))]

set_option maxRecDepth 100000 in
example : fragC true exProgC = true ∧ exCallsC.all (fragCall true) = true ∧ (exProgC ++ exCallsC).all isLoc = true ∧
    builtinsPlain exB = true ∧ exB.isClass = false ∧ FC.rebindOK [] (exProgC ++ exCallsC) = true ∧
    findUnused { deferredNames := true } exB (exProgC ++ exCallsC) = [(1, 1), (3, 0)] ∧
    findUnused {} exB (exProgC ++ exCallsC) = [(1, 1), (3, 0)] := by decide +kernel

/-- the witness program violates `rebindOK` (its hypothesis is what excludes it) -/
example : FC.rebindOK [] (wDnProg ++ wDnCalls) = false := by decide +kernel

end Pfb.C04
