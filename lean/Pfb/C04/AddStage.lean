/-
  Pfb.C04.AddStage — the ADD half of C04 at run level: "a name the module reads without binding it, for which the add stage
  puts an import statement before the first read, is not missing any more, and running the result raises no NameError for it;
  the added import makes no other name missing".  Models: `Pfb.PyCore.findMissingFx` (missing-import mode of
  `_MissingImportFinder`) and the reference semantics `Pfb.PyCore.runProgram`; WHERE the import is placed is the subject of the
  Blocks-level theorems of `Pfb.C04.Props` (`C04_unique_added`, `C04_placement`, `C04_first_use_min`).

  For every fragment-B program `pre ++ [imp] ++ post` (`D = false` / `D = true`), `imp` an import statement, every `fx`:
  * `C04_add_resolves_fragB`         — `imp` binds `h`, no statement of `pre` reads `h` or a name below it (`noReadOf h pre`),
                                       `sys.modules[h]` is not `None`: no name with head `h` is reported for `pre ++ [imp] ++ post`;
  * `C04_add_resolves_by_line_fragB` — the same conclusion from the side condition as the add stage establishes it: every
                                       statement of `pre` is on a line `< k` and the analysis of `pre ++ post` reports the names
                                       below `h` on lines `≥ k` only (`C04_placement` / `C04_first_use_min`);
  * `C04_add_stage_safe_fragB`, `C04_add_stage_safe_by_line_fragB` — (+ `C05_sound_fragB`) the reference run of
                                       `pre ++ [imp] ++ post` raises no NameError for `h`;
  * `C04_add_keeps_others`           — every name reported for `pre ++ [imp] ++ post` is reported for `pre ++ post`
                                       (no side condition; `C04_add_keeps_other_heads`: the heads);
  * `C04_add_stage_no_new_fragB`     — every NameError of the run of the new program is the head of a name reported for the
                                       old program, and is not `h`;
  * `C04_add_import_binds`           — (`importStmt_spec`) an importable (`importOK`) import statement binding `h` completes,
                                       leaves `h` bound in the globals and raises no NameError;
  * `witness_import_after_first_read` (the side condition on `pre` is needed: the D5 situation),
    `witness_registry_none_entry` (the hypothesis on the registry is needed).

  Proof.  The actions of a fragment-B program are loads, stores, `__all__`, import aliases and line numbers (`cStmts_ops`).
  One run (`RInv`, `MissOK`): the stack never changes, the deferred (`__all__`) names are checked against it at the end, and
  once the key `h` is in the top scope (value `None`, never a dead end unless `sys.modules[h] is None`) no name below `h` needs
  an import; before that point it is enough that no name below `h` has been reported (`add_resolves_core`).
  Two runs (`Mono`): the heap of the new run binds everything the old one binds (same values), so every needs-import answer
  of the new run is one of the old run (`sni_mono`), for the body and for the deferred names.
  Note: a name of `__all__` that is reported carries the line of the `__all__ = [...]` statement, so that line counts as a
  "use" for the placement (`hfirst` of the by-line theorems).
-/
import Pfb.C04.KeepsMissing
import Pfb.C02.Equiv
namespace Pfb.C04
open Pfb Pfb.PyCore Pfb.C05

/-! ### vocabulary -/

/-- the dotted names a module-level statement of fragment B reads (both branches of a conditional expression) -/
def stmtReads : Stmt → List Str
  | .expr e => loadsOf e
  | .assign _ e => loadsOf e
  | .located _ s => stmtReads s
  | _ => []

def progReads (p : List Stmt) : List Str := p.flatMap stmtReads

/-- no statement of `p` reads `h` or a dotted name below `h` -/
def noReadOf (h : Str) (p : List Stmt) : Bool := (progReads p).all (fun d => headOf d != h)

/-- an import statement one of whose aliases binds `h` -/
def importBinds (h : Str) : Stmt → Bool
  | .import_ names => names.any (fun a => aliasBinds a == h)
  | .importFrom _ names => names.any (fun a => aliasBinds a == h)
  | .located _ s => importBinds h s
  | _ => false

/-! ### the visitor actions of fragment B -/

def opOK : Op → Bool
  | .setLine _ => true
  | .load _ => true
  | .store _ => true
  | .allNames _ => true
  | .importAlias _ _ _ _ => true
  | _ => false

def opLoads : Op → List Str
  | .load d => [d]
  | _ => []

/-- the actions of an import statement -/
def opImp : Op → Bool
  | .setLine _ => true
  | .importAlias _ _ _ _ => true
  | _ => false

def opBinds (h : Str) : Op → Bool
  | .importAlias keys _ _ _ => keys.contains h
  | _ => false

theorem opImp_ok {o : Op} (h : opImp o = true) : opOK o = true := by
  cases o <;> simp_all [opImp, opOK]

theorem opImp_loads {o : Op} (h : opImp o = true) : opLoads o = [] := by
  cases o <;> simp_all [opImp, opLoads]

theorem cAliases_imp (m : Option Str) : ∀ (names : List Alias) (idx : Nat), (cAliases m idx names).all opImp = true
  | [], _ => rfl
  | a :: r, idx => by
    simp only [cAliases, List.all_cons, Bool.and_eq_true]
    exact ⟨rfl, cAliases_imp m r (idx + 1)⟩

theorem aliasBinds_simple {a : Alias} (hparts : ∀ p ∈ splitDots a.name, simpleName p = true)
    (has : ∀ n, a.asname = some n → simpleName n = true) : simpleName (aliasBinds a) = true := by
  cases hasn : a.asname with
  | some n => simp only [aliasBinds, hasn]; exact has n hasn
  | none =>
    simp only [aliasBinds, hasn]
    cases hs : splitDots a.name with
    | nil => exact absurd hs (splitDots_ne_nil _)
    | cons x r => exact hparts x (by rw [hs]; simp)

theorem cAliases_binds (m : Option Str) (h : Str) : ∀ (names : List Alias) (idx : Nat),
    (∀ a ∈ names, (∀ p ∈ splitDots a.name, simpleName p = true) ∧ (∀ n, a.asname = some n → simpleName n = true)) →
    names.any (fun a => aliasBinds a == h) = true → (cAliases m idx names).any (opBinds h) = true
  | [], _, _, hb => by simp at hb
  | a :: r, idx, hok, hb => by
    simp only [List.any_cons, Bool.or_eq_true] at hb
    simp only [cAliases, List.any_cons, Bool.or_eq_true]
    rcases hb with hb | hb
    · left
      obtain ⟨hparts, has⟩ := hok a (List.mem_cons_self ..)
      have hb' : aliasBinds a = h := by simpa using hb
      rw [cAlias_keysOf]
      simp only [opBinds, List.contains_iff_mem]
      have hs := aliasBinds_simple hparts has
      rw [← hb']
      exact ((keysOf_facts hparts has).1 _ hs).mpr rfl
    · right
      exact cAliases_binds m h r (idx + 1) (fun b hb' => hok b (List.mem_cons_of_mem _ hb')) hb

/-- the actions of a fragment-B statement: loads (exactly `stmtReads`), stores, `__all__`, import aliases, line numbers -/
theorem cStmt_ops (fx : Fixes) (D : Bool) : ∀ (s : Stmt) (ln : Nat), fragBStmt D s = true →
    (cStmt fx ln s).all opOK = true ∧ (cStmt fx ln s).flatMap opLoads = stmtReads s
  | .expr e, ln, hf => by
    simp only [fragBStmt] at hf
    simp only [cStmt, stmtReads]
    rw [cExpr_loads fx D e hf]
    constructor
    · simp [List.all_map, opOK]
    · simp [List.flatMap_map, opLoads]
  | .assign ts e, ln, hf => by
    simp only [fragBStmt, Bool.and_eq_true] at hf
    cases hsn : singleName ts with
    | none => rw [hsn] at hf; simp at hf
    | some x =>
      have hts := singleName_eq hsn
      subst hts
      simp only [cStmt, stmtReads]
      rw [cExpr_loads fx D e hf.2]
      have hst : cTargets fx [Expr.name x] = [Op.store x] := by simp [cTargets, cTarget]
      rw [hst]
      rcases cAll_ops x e with hc | ⟨ns, hc⟩ <;> rw [hc]
      · constructor
        · simp [List.all_map, opOK]
        · simp [List.flatMap_map, opLoads]
      · constructor
        · simp [List.all_map, opOK]
        · simp [List.flatMap_map, opLoads]
  | .pass, _, _ => by simp [cStmt, stmtReads]
  | .import_ names, ln, _ => by
    simp only [cStmt, stmtReads]
    have := cAliases_imp none names 0
    rw [List.all_eq_true] at this
    refine ⟨List.all_eq_true.mpr (fun o ho => opImp_ok (this o ho)), ?_⟩
    rw [List.flatMap_eq_nil_iff]
    exact fun o ho => opImp_loads (this o ho)
  | .importFrom m names, ln, _ => by
    simp only [cStmt, stmtReads]
    have := cAliases_imp (some m) names 0
    rw [List.all_eq_true] at this
    refine ⟨List.all_eq_true.mpr (fun o ho => opImp_ok (this o ho)), ?_⟩
    rw [List.flatMap_eq_nil_iff]
    exact fun o ho => opImp_loads (this o ho)
  | .located l s, ln, hf => by
    simp only [fragBStmt] at hf
    obtain ⟨h1, h2⟩ := cStmt_ops fx D s l hf
    simp only [cStmt, stmtReads, List.all_cons, List.flatMap_cons, opOK, opLoads, Bool.true_and, List.nil_append]
    exact ⟨h1, h2⟩
  | .augAssign _ _, _, hf => by simp [fragBStmt] at hf
  | .annAssign _ _ _, _, hf => by simp [fragBStmt] at hf
  | .funcDef _ _ _ _ _, _, hf => by simp [fragBStmt] at hf
  | .classDef _ _ _ _, _, hf => by simp [fragBStmt] at hf
  | .for_ _ _ _ _, _, hf => by simp [fragBStmt] at hf
  | .while_ _ _ _, _, hf => by simp [fragBStmt] at hf
  | .if_ _ _ _, _, hf => by simp [fragBStmt] at hf
  | .with_ _ _, _, hf => by simp [fragBStmt] at hf
  | .try_ _ _ _ _, _, hf => by simp [fragBStmt] at hf
  | .return_ _, _, hf => by simp [fragBStmt] at hf
  | .raise_ _, _, hf => by simp [fragBStmt] at hf
  | .delete _, _, hf => by simp [fragBStmt] at hf
  | .global_ _, _, hf => by simp [fragBStmt] at hf
  | .nonlocal_ _, _, hf => by simp [fragBStmt] at hf

theorem cStmts_ops (fx : Fixes) (D : Bool) (ln : Nat) : ∀ (p : List Stmt), fragB D p = true →
    (cStmts fx ln p).all opOK = true ∧ (cStmts fx ln p).flatMap opLoads = progReads p
  | [], _ => ⟨rfl, rfl⟩
  | s :: r, hf => by
    simp only [fragB, List.all_cons, Bool.and_eq_true] at hf
    obtain ⟨a1, a2⟩ := cStmt_ops fx D s ln hf.1
    obtain ⟨b1, b2⟩ := cStmts_ops fx D ln r hf.2
    simp only [cStmts, List.all_append, List.flatMap_append, progReads, List.flatMap_cons, Bool.and_eq_true]
    exact ⟨⟨a1, b1⟩, by rw [a2]; unfold progReads at b2; rw [b2]⟩

/-- the actions of an import statement: line numbers and import aliases; one of them stores `h` -/
theorem cStmt_imp (fx : Fixes) (D : Bool) (h : Str) : ∀ (s : Stmt) (ln : Nat), fragBStmt D s = true → Pfb.C02.isImport s = true →
    (cStmt fx ln s).all opImp = true ∧ (importBinds h s = true → (cStmt fx ln s).any (opBinds h) = true)
  | .import_ names, ln, hf, _ => by
    simp only [fragBStmt, List.all_eq_true] at hf
    simp only [cStmt, importBinds]
    exact ⟨cAliases_imp none names 0, cAliases_binds none h names 0 (fun a ha => importAliasOK_parts (hf a ha))⟩
  | .importFrom m names, ln, hf, _ => by
    simp only [fragBStmt, List.all_eq_true] at hf
    simp only [cStmt, importBinds]
    exact ⟨cAliases_imp (some m) names 0, cAliases_binds (some m) h names 0 (fun a ha => fromAliasOK_parts (hf a ha))⟩
  | .located l s, ln, hf, hi => by
    simp only [fragBStmt] at hf
    simp only [Pfb.C02.isImport] at hi
    obtain ⟨h1, h2⟩ := cStmt_imp fx D h s l hf hi
    simp only [cStmt, importBinds, List.all_cons, List.any_cons, opImp, opBinds, Bool.true_and, Bool.false_or]
    exact ⟨h1, h2⟩
  | .expr _, _, _, hi => by cases hi
  | .assign _ _, _, _, hi => by cases hi
  | .pass, _, _, hi => by cases hi
  | .augAssign _ _, _, _, hi => by cases hi
  | .annAssign _ _ _, _, _, hi => by cases hi
  | .funcDef _ _ _ _ _, _, _, hi => by cases hi
  | .classDef _ _ _ _, _, _, hi => by cases hi
  | .for_ _ _ _ _, _, _, hi => by cases hi
  | .while_ _ _ _, _, _, hi => by cases hi
  | .if_ _ _ _, _, _, hi => by cases hi
  | .with_ _ _, _, _, hi => by cases hi
  | .try_ _ _ _ _, _, _, hi => by cases hi
  | .return_ _, _, _, hi => by cases hi
  | .raise_ _, _, _, hi => by cases hi
  | .delete _, _, _, hi => by cases hi
  | .global_ _, _, _, hi => by cases hi
  | .nonlocal_ _, _, _, hi => by cases hi


/-! ### the needs-import decision -/

theorem head_prefix (d : Str) : [headOf d] ∈ prefixes (splitDots d) := by
  unfold headOf
  cases hs : splitDots d with
  | nil => exact absurd hs (splitDots_ne_nil d)
  | cons x r => simp [prefixes]

/-- a name whose head is bound to `None` in a namespace of the stack needs no import (provided `sys.modules[head]` is not `None`) -/
theorem sni_bound_false {reg : Registry} {heap : Heap} {ids : List Nat} {h d : Str} {tp : Nat}
    (hreg : reg.get h ≠ some Val.none) (htp : tp ∈ normIds ids) (hb : (heap.get tp).get h = some Val.none)
    (hd : headOf d = h) : (symbolNeedsImport reg heap ids d).1 = false := by
  cases hs : (symbolNeedsImport reg heap ids d).1 with
  | false => rfl
  | true =>
    exfalso
    rw [symbolNeedsImport_spec] at hs
    have hp := head_prefix d
    rw [hd] at hp
    obtain ⟨pre, part, post, var', pname', _, hf, hg, _⟩ := hs tp htp [h] hp Val.none (by simpa [joinDots] using hb)
    cases hf with
    | nil => exact hreg (by simpa [joinDots] using hg)
    | cons h1 _ _ => exact hreg (by simpa [joinDots] using h1)

def HLe (ho hn : Heap) : Prop := ∀ i q v, (ho.get i).get q = some v → (hn.get i).get q = some v

theorem sni_mono {reg : Registry} {ho hn : Heap} (hle : HLe ho hn) (ids : List Nat) (n : Str)
    (h : (symbolNeedsImport reg hn ids n).1 = true) : (symbolNeedsImport reg ho ids n).1 = true := by
  rw [symbolNeedsImport_spec] at h ⊢
  intro i hi p hp var hv
  exact h i hi p hp var (hle _ _ _ hv)

theorem star_mono {ho hn : Heap} (hle : HLe ho hn) (ids : List Nat) (h : hasStar ho ids = true) : hasStar hn ids = true := by
  unfold hasStar at h ⊢
  rw [List.any_eq_true] at h ⊢
  obtain ⟨i, hi, hs⟩ := h
  refine ⟨i, hi, ?_⟩
  cases hg : (ho.get i).get ['*'] with
  | none => rw [hg] at hs; cases hs
  | some v => rw [hle _ _ _ hg]; rfl

theorem cond_mono {reg : Registry} {ho hn : Heap} (hle : HLe ho hn) (ids : List Nat) (n : Str)
    (h : ((symbolNeedsImport reg hn ids n).1 && !hasStar hn ids) = true) :
    ((symbolNeedsImport reg ho ids n).1 && !hasStar ho ids) = true := by
  simp only [Bool.and_eq_true, Bool.not_eq_true'] at h ⊢
  refine ⟨sni_mono hle ids n h.1, ?_⟩
  cases hs : hasStar ho ids with
  | false => rfl
  | true => rw [star_mono hle ids hs] at h; exact absurd h.2 (by simp)

/-- `_finish_deferred_load_checks`: which names it adds -/
theorem fold_checkLoad_mem (reg : Registry) : ∀ (ds : List Deferred) (st : AState),
    (ds.foldl (fun st d => checkLoad reg st d.name d.ids d.line) st).heap = st.heap ∧
    ∀ m, m ∈ (ds.foldl (fun st d => checkLoad reg st d.name d.ids d.line) st).missing.map (·.name) ↔
      m ∈ st.missing.map (·.name) ∨
        ∃ d ∈ ds, ((symbolNeedsImport reg st.heap d.ids d.name).1 && !hasStar st.heap d.ids) = true ∧ m = d.name
  | [], st => ⟨rfl, fun m => by simp⟩
  | d :: r, st => by
    simp only [List.foldl_cons]
    obtain ⟨c1, _, _, _, _, c6⟩ := checkLoad_facts reg st d.name d.ids d.line
    obtain ⟨i1, i2⟩ := fold_checkLoad_mem reg r (checkLoad reg st d.name d.ids d.line)
    refine ⟨i1.trans c1, fun m => ?_⟩
    rw [i2 m, c6 m, c1]
    constructor
    · rintro ((h | ⟨h1, h2⟩) | ⟨d', hd', h1, h2⟩)
      · exact .inl h
      · exact .inr ⟨d, List.mem_cons_self .., h1, h2⟩
      · exact .inr ⟨d', List.mem_cons_of_mem _ hd', h1, h2⟩
    · rintro (h | ⟨d', hd', h1, h2⟩)
      · exact .inl (.inl h)
      · rcases List.mem_cons.mp hd' with rfl | hd'
        · exact .inl (.inr ⟨h1, h2⟩)
        · exact .inr ⟨d', hd', h1, h2⟩

theorem finish_missing (reg : Registry) (st : AState) (m : Str) :
    m ∈ (finishDeferred reg st).missing.map (·.name) ↔
      m ∈ st.missing.map (·.name) ∨
        ∃ d ∈ st.deferred, ((symbolNeedsImport reg st.heap d.ids d.name).1 && !hasStar st.heap d.ids) = true ∧ m = d.name :=
  (fold_checkLoad_mem reg st.deferred st).2 m

theorem fold_deferGlobal_facts (reg : Registry) : ∀ (ns : List Str) (st : AState),
    (ns.foldl (deferGlobal reg) st).heap = st.heap ∧ (ns.foldl (deferGlobal reg) st).stack = st.stack ∧
    (ns.foldl (deferGlobal reg) st).inFunc = st.inFunc ∧ (ns.foldl (deferGlobal reg) st).missing = st.missing ∧
    ∀ d ∈ (ns.foldl (deferGlobal reg) st).deferred, d ∈ st.deferred ∨
      (d.ids = st.stack.ids ∧ d.name ∈ ns ∧ (symbolNeedsImport reg st.heap st.stack.ids d.name).1 = true)
  | [], st => ⟨rfl, rfl, rfl, rfl, fun d hd => .inl hd⟩
  | n :: r, st => by
    simp only [List.foldl_cons]
    obtain ⟨g1, g2, g3, g4, _, g6⟩ := deferGlobal_facts reg st n
    obtain ⟨i1, i2, i3, i4, i5⟩ := fold_deferGlobal_facts reg r (deferGlobal reg st n)
    refine ⟨i1.trans g1, i2.trans g2, i3.trans g3, i4.trans g4, fun d hd => ?_⟩
    rcases i5 d hd with h | ⟨h1, h2, h3⟩
    · rw [g6] at h
      split at h
      · rename_i hs
        rcases List.mem_append.mp h with h | h
        · exact .inl h
        · simp only [List.mem_singleton] at h
          subst h
          exact .inr ⟨rfl, List.mem_cons_self .., hs⟩
      · exact .inl h
    · rw [g1, g2] at h3
      exact .inr ⟨h1.trans (by rw [g2]), List.mem_cons_of_mem _ h2, h3⟩

/-! ### one run: once `h` is bound at module level no name below `h` is reported -/

structure RInv (h : Str) (b : Bool) (st : AState) : Prop where
  inFunc : st.inFunc = false
  topLt : st.stack.top < st.heap.length
  topMem : st.stack.top ∈ normIds st.stack.ids
  defIds : ∀ d ∈ st.deferred, d.ids = st.stack.ids
  bound : b = true → (st.heap.get st.stack.top).get h = some Val.none

/-- no name below `h` has been reported so far -/
def MissOK (h : Str) (st : AState) : Prop := ∀ n ∈ st.missing.map (·.name), headOf n ≠ h

theorem RInv.weaken {h : Str} {b : Bool} {st : AState} (r : RInv h b st) : RInv h false st :=
  ⟨r.inFunc, r.topLt, r.topMem, r.defIds, fun hb => by cases hb⟩

theorem RInv.keys {h : Str} {b : Bool} {st : AState} (r : RInv h b st) (keys : List Str) :
    RInv h (b || keys.contains h) (keys.foldl storeTop st) ∧ (keys.foldl storeTop st).missing = st.missing := by
  obtain ⟨k1, k2, k3, k4, k5, k6⟩ := storeKeys_get keys st r.topLt
  refine ⟨⟨k3.trans r.inFunc, by rw [k1, k2]; exact r.topLt, by rw [k1]; exact r.topMem,
    by rw [k5, k1]; exact r.defIds, fun hb => ?_⟩, k4⟩
  rw [k1, k6]
  by_cases hk : h ∈ keys
  · simp [hk]
  · simp only [hk, and_false, if_false]
    have : keys.contains h = false := by simpa using hk
    rw [this, Bool.or_false] at hb
    exact r.bound hb

/-- `_check_load`: the entries are kept; a new entry carries the line and the name of the load, and the needs-import test
    succeeded -/
theorem checkLoad_missing (reg : Registry) (st : AState) (name : Str) (ids : List Nat) (line : Nat) :
    (∀ m ∈ st.missing, m ∈ (checkLoad reg st name ids line).missing) ∧
    ∀ m ∈ (checkLoad reg st name ids line).missing, m ∈ st.missing ∨
      (m.line = line ∧ m.name = name ∧ (symbolNeedsImport reg st.heap ids name).1 = true) := by
  unfold checkLoad
  dsimp only
  split
  · rename_i hc
    simp only [Bool.and_eq_true] at hc
    split
    · exact ⟨fun m hm => hm, fun m hm => .inl hm⟩
    · refine ⟨fun m hm => List.mem_append_left _ hm, fun m hm => ?_⟩
      rcases List.mem_append.mp hm with hm | hm
      · exact .inl hm
      · simp only [List.mem_singleton] at hm
        subst hm
        exact .inr ⟨rfl, rfl, hc.1⟩
  · exact ⟨fun m hm => hm, fun m hm => .inl hm⟩

/-- one action: the shape of the state; which entries the missing list gains -/
theorem RInv.op {reg : Registry} {h : Str} {b : Bool} {st : AState} (r : RInv h b st) (o : Op) (ho : opOK o = true) :
    RInv h (b || opBinds h o) (step reg st o) ∧
    (∀ m ∈ st.missing, m ∈ (step reg st o).missing) ∧
    (∀ m ∈ (step reg st o).missing, m ∈ st.missing ∨
      (m.line = st.line ∧ m.name ∈ opLoads o ∧ (symbolNeedsImport reg st.heap st.stack.ids m.name).1 = true)) := by
  cases o with
  | setLine n =>
    simp only [opBinds, Bool.or_false]
    exact ⟨⟨r.inFunc, r.topLt, r.topMem, r.defIds, r.bound⟩, fun m hm => hm, fun m hm => .inl hm⟩
  | load d =>
    simp only [opBinds, Bool.or_false]
    have hs : step reg st (.load d) = checkLoad reg st d st.stack.ids st.line := by simp [step, r.inFunc]
    rw [hs]
    obtain ⟨c1, c2, c3, c4, _, _⟩ := checkLoad_facts reg st d st.stack.ids st.line
    obtain ⟨e1, e2⟩ := checkLoad_missing reg st d st.stack.ids st.line
    refine ⟨⟨c3.trans r.inFunc, by rw [c1, c2]; exact r.topLt, by rw [c2]; exact r.topMem,
      by rw [c4, c2]; exact r.defIds, by rw [c1, c2]; exact r.bound⟩, e1, fun m hm => ?_⟩
    rcases e2 m hm with h1 | ⟨h1, h2, h3⟩
    · exact .inl h1
    · exact .inr ⟨h1, by simp [opLoads, h2], by rw [h2]; exact h3⟩
  | store x =>
    simp only [opBinds, Bool.or_false]
    obtain ⟨k1, k2⟩ := r.keys [x]
    have hw := k1.weaken
    have hs : step reg st (.store x) = [x].foldl storeTop st := rfl
    rw [hs]
    refine ⟨⟨hw.inFunc, hw.topLt, hw.topMem, hw.defIds, fun hb => k1.bound (by rw [hb]; rfl)⟩, ?_, ?_⟩
    · rw [k2]; exact fun m hm => hm
    · rw [k2]; exact fun m hm => .inl hm
  | allNames ns =>
    simp only [opBinds, Bool.or_false]
    have hs : step reg st (.allNames ns) = ns.foldl (deferGlobal reg) st := by simp [step, r.inFunc]
    rw [hs]
    obtain ⟨f1, f2, f3, f4, f5⟩ := fold_deferGlobal_facts reg ns st
    refine ⟨⟨f3.trans r.inFunc, by rw [f1, f2]; exact r.topLt, by rw [f2]; exact r.topMem, ?_,
      by rw [f1, f2]; exact r.bound⟩, by rw [f4]; exact fun m hm => hm, by rw [f4]; exact fun m hm => .inl hm⟩
    intro d hd
    rw [f2]
    rcases f5 d hd with h | ⟨h, _, _⟩
    · exact r.defIds d h
    · exact h
  | importAlias keys bn idx pl =>
    have hs : step reg st (.importAlias keys bn idx pl) = keys.foldl storeTop st := rfl
    rw [hs]
    obtain ⟨k1, k2⟩ := r.keys keys
    refine ⟨k1, ?_, ?_⟩
    · rw [k2]; exact fun m hm => hm
    · rw [k2]; exact fun m hm => .inl hm
  | pushScope _ _ _ => cases ho
  | popScope => cases ho
  | upScope => cases ho
  | downScope => cases ho
  | enterFunc => cases ho
  | exitFunc => cases ho
  | classDelayed _ _ => cases ho
  | incClass => cases ho
  | decClass => cases ho
  | removeMissing _ _ => cases ho
  | dunderClass => cases ho
  | storeIfNotInClass _ => cases ho
  | delName _ _ => cases ho
  | condEnter => cases ho
  | condExit => cases ho
  | handlerEnd _ => cases ho

theorem MissOK.op {reg : Registry} {h : Str} {b : Bool} {st : AState} (hreg : reg.get h ≠ some Val.none)
    (r : RInv h b st) (mk : MissOK h st) (o : Op) (ho : opOK o = true)
    (hl : b = false → ∀ d ∈ opLoads o, headOf d ≠ h) : MissOK h (step reg st o) := by
  intro n hn
  obtain ⟨m, hm, rfl⟩ := List.mem_map.mp hn
  rcases (r.op (reg := reg) o ho).2.2 m hm with h1 | ⟨_, h2, h3⟩
  · exact mk _ (List.mem_map.mpr ⟨m, h1, rfl⟩)
  · cases hb : b with
    | false => exact hl hb _ h2
    | true =>
      intro hd
      rw [sni_bound_false hreg r.topMem (r.bound hb) hd] at h3
      cases h3

theorem RInv.run {reg : Registry} {h : Str} : ∀ (ops : List Op) {b : Bool} {st : AState}, RInv h b st → ops.all opOK = true →
    RInv h (b || ops.any (opBinds h)) (runOps reg st ops) ∧ ∀ m ∈ st.missing, m ∈ (runOps reg st ops).missing
  | [], b, _, r, _ => ⟨by simp only [List.any_nil, Bool.or_false]; exact r, fun m hm => hm⟩
  | o :: rest, b, st, r, hok => by
    simp only [List.all_cons, Bool.and_eq_true] at hok
    rw [Pfb.PyCore.runOps_cons]
    obtain ⟨r1, m1, _⟩ := r.op (reg := reg) o hok.1
    obtain ⟨r2, m2⟩ := RInv.run (reg := reg) rest r1 hok.2
    refine ⟨?_, fun m hm => m2 m (m1 m hm)⟩
    simpa [Bool.or_assoc] using r2

/-- before the binding: the actions load no name below `h` -/
theorem MissOK.runA {reg : Registry} {h : Str} (hreg : reg.get h ≠ some Val.none) : ∀ (ops : List Op) (st : AState),
    RInv h false st → MissOK h st → ops.all opOK = true → (∀ d ∈ ops.flatMap opLoads, headOf d ≠ h) →
    MissOK h (runOps reg st ops)
  | [], _, _, mk, _, _ => mk
  | o :: rest, st, r, mk, hok, hl => by
    simp only [List.all_cons, Bool.and_eq_true] at hok
    rw [Pfb.PyCore.runOps_cons]
    exact MissOK.runA hreg rest _ (r.op (reg := reg) o hok.1).1.weaken
      (mk.op hreg r o hok.1 (fun _ d hd => hl d (by simp [hd]))) hok.2
      (fun d hd => hl d (by simp only [List.flatMap_cons, List.mem_append]; exact .inr hd))

/-- after the binding: any actions -/
theorem MissOK.runB {reg : Registry} {h : Str} (hreg : reg.get h ≠ some Val.none) : ∀ (ops : List Op) (st : AState),
    RInv h true st → MissOK h st → ops.all opOK = true → MissOK h (runOps reg st ops)
  | [], _, _, mk, _ => mk
  | o :: rest, st, r, mk, hok => by
    simp only [List.all_cons, Bool.and_eq_true] at hok
    rw [Pfb.PyCore.runOps_cons]
    have r1 := (r.op (reg := reg) o hok.1).1
    simp only [Bool.true_or] at r1
    exact MissOK.runB hreg rest _ r1 (mk.op hreg r o hok.1 (fun hb => by cases hb)) hok.2

theorem init_heap_length (builtins : Scope) (ns : List Scope) : (initState builtins ns).heap.length = 3 + ns.length + 1 := by
  simp [initState]; omega

theorem init_topMem (builtins : Scope) (ns : List Scope) :
    (initState builtins ns).stack.top ∈ normIds (initState builtins ns).stack.ids := by
  obtain ⟨scopes, hids, _⟩ := initState_ids builtins ns
  rw [init_top, hids]
  exact mem_normIds_iff.mpr (.inr (.inr (List.mem_append_right _ (List.mem_singleton.mpr rfl))))

theorem rinv_init (h : Str) (builtins : Scope) (ns : List Scope) : RInv h false (initState builtins ns) :=
  ⟨rfl, by rw [init_top, init_heap_length]; omega, init_topMem builtins ns, fun d hd => by simp [initState] at hd,
   fun hb => by cases hb⟩

theorem fragB_split {D : Bool} {pre post : List Stmt} {imp : Stmt} (h : fragB D (pre ++ [imp] ++ post) = true) :
    fragB D pre = true ∧ fragBStmt D imp = true ∧ fragB D post = true := by
  simp only [fragB, List.all_append, List.all_cons, List.all_nil, Bool.and_eq_true, Bool.and_true] at h
  exact ⟨h.1.1, h.1.2, h.2⟩

theorem cStmts_split (fx : Fixes) (pre post : List Stmt) (imp : Stmt) :
    cStmts fx 0 (pre ++ [imp] ++ post) = cStmts fx 0 pre ++ cStmt fx 0 imp ++ cStmts fx 0 post := by
  rw [cStmts_append, cStmts_append]
  simp [cStmts]

/-- the core: it is enough that the scan of `pre` reports no name below `h` -/
theorem add_resolves_core {reg : Registry} {h : Str} (hreg : reg.get h ≠ some Val.none) (fx : Fixes) (builtins : Scope)
    (ns : List Scope) (pre post : List Stmt) (imp : Stmt) (D : Bool) (hfr : fragB D (pre ++ [imp] ++ post) = true)
    (hi : Pfb.C02.isImport imp = true) (hb : importBinds h imp = true)
    (hpre : MissOK h (runOps reg (initState builtins ns) (cStmts fx 0 pre))) :
    ∀ d ∈ findMissingFx fx reg builtins ns (pre ++ [imp] ++ post), headOf d ≠ h := by
  obtain ⟨f1, f2, f3⟩ := fragB_split hfr
  obtain ⟨a1, _⟩ := cStmts_ops fx D 0 pre f1
  obtain ⟨b1, _⟩ := cStmt_ops fx D imp 0 f2
  obtain ⟨b0, b3⟩ := cStmt_imp fx D h imp 0 f2 hi
  obtain ⟨c1, _⟩ := cStmts_ops fx D 0 post f3
  have r1 := (RInv.run (reg := reg) _ (rinv_init h builtins ns) a1).1.weaken
  have hnoread : (cStmt fx 0 imp).flatMap opLoads = [] := by
    rw [List.flatMap_eq_nil_iff]
    rw [List.all_eq_true] at b0
    exact fun o ho => opImp_loads (b0 o ho)
  have r2 := (RInv.run (reg := reg) _ r1 b1).1
  rw [b3 hb] at r2
  have k2 := MissOK.runA hreg _ _ r1 hpre b1 (by rw [hnoread]; simp)
  have r3 := (RInv.run (reg := reg) _ r2 c1).1
  simp only [Bool.true_or, Bool.false_or] at r2 r3
  have k3 := MissOK.runB hreg _ _ r2 k2 c1
  intro d hd
  unfold findMissingFx analyzeFx at hd
  rw [mem_sortedSet, finish_missing, cStmts_split, Pfb.PyCore.runOps_append, Pfb.PyCore.runOps_append] at hd
  rcases hd with hd | ⟨e, he, hc, rfl⟩
  · exact k3 d hd
  · intro hh
    rw [r3.defIds e he, sni_bound_false hreg r3.topMem (r3.bound rfl) hh] at hc
    simp at hc

/-- **C04_add_resolves_fragB** — the add stage resolves the name it adds the import for.  For the unchanged analysis and every
    combination of the repairs `fx`, every fragment-B program `pre ++ [imp] ++ post` (`D = false` and `D = true`) where `imp` is an
    import statement one of whose aliases binds `h` (`aliasBinds`) and no statement of `pre` reads `h` or a dotted name below
    it (`noReadOf h pre`), every caller namespaces, every registry in which `sys.modules[h]` is not `None`:
    no name reported by `find_missing_imports` for the new program has head `h`.  (`__all__ = ['h', …]` in `pre` is allowed:
    those names are checked at the end of the module.)  Nothing is assumed about the old program `pre ++ post` (in the add stage
    `h` is the head of a name reported for it) nor about the import succeeding (`importOK`). -/
theorem C04_add_resolves_fragB (fx : Fixes) (reg : Registry) (builtins : Scope) (ns : List Scope)
    (pre post : List Stmt) (imp : Stmt) (h : Str) (D : Bool) (hfr : fragB D (pre ++ [imp] ++ post) = true)
    (hi : Pfb.C02.isImport imp = true) (hb : importBinds h imp = true) (hpre : noReadOf h pre = true)
    (hreg : reg.get h ≠ some Val.none) :
    ∀ d ∈ findMissingFx fx reg builtins ns (pre ++ [imp] ++ post), headOf d ≠ h := by
  refine add_resolves_core hreg fx builtins ns pre post imp D hfr hi hb ?_
  obtain ⟨f1, _, _⟩ := fragB_split hfr
  obtain ⟨a1, a2⟩ := cStmts_ops fx D 0 pre f1
  refine MissOK.runA hreg _ _ (rinv_init h builtins ns) (fun n hn => by simp [initState] at hn) a1 ?_
  rw [a2]
  intro d hd
  simp only [noReadOf, List.all_eq_true, bne_iff_ne, ne_eq] at hpre
  exact hpre d hd

/-- **C04_add_stage_safe_fragB** — with `C05_sound_fragB` (registry instantiated with the empty one): in the reference run of
    `pre ++ [imp] ++ post` no NameError is raised for `h`, for every fuel and every start state that agrees with the namespaces
    (whether or not the import itself succeeds: a failing import ends the run). -/
theorem C04_add_stage_safe_fragB (fx : Fixes) (builtins : Scope) (ns : List Scope) (pre post : List Stmt) (imp : Stmt)
    (h : Str) (s0 : XState) (fuel : Nat) (D : Bool) (hfr : fragB D (pre ++ [imp] ++ post) = true)
    (hi : Pfb.C02.isImport imp = true) (hb : importBinds h imp = true) (hpre : noReadOf h pre = true)
    (hag : Agree builtins ns s0) (hdf : D = true → nsDotFree builtins ns = true) :
    h ∉ (runProgram fuel (pre ++ [imp] ++ post) [] s0).1.ne := by
  intro hn
  obtain ⟨d, hd, hh, _⟩ := C05_sound_fragB fx {} builtins ns _ s0 fuel D hfr hag hdf h hn
  exact C04_add_resolves_fragB fx {} builtins ns pre post imp h D hfr hi hb hpre (by simp [Registry.get, assocGet]) d hd hh

/-! ### the side condition in terms of line numbers (what `C04_first_use_min` and `C04_placement` provide) -/

/-- every line number in the statement is below `k` -/
def stmtBelow (k : Nat) : Stmt → Bool
  | .located l s => decide (l < k) && stmtBelow k s
  | _ => true

/-- the statements before the insertion point sit on lines below `k` -/
def linesBelow (k : Nat) (p : List Stmt) : Bool := p.all (stmtBelow k)

def opBelow (k : Nat) : Op → Bool
  | .setLine n => decide (n < k)
  | _ => true

theorem cAliases_below (m : Option Str) (k : Nat) : ∀ (names : List Alias) (idx : Nat), (cAliases m idx names).all (opBelow k) = true
  | [], _ => rfl
  | a :: r, idx => by
    simp only [cAliases, List.all_cons, Bool.and_eq_true]
    exact ⟨rfl, cAliases_below m k r (idx + 1)⟩

theorem cStmt_below (fx : Fixes) (D : Bool) (k : Nat) : ∀ (s : Stmt) (ln : Nat), fragBStmt D s = true → stmtBelow k s = true →
    (cStmt fx ln s).all (opBelow k) = true
  | .located l s, ln, hf, hk => by
    simp only [fragBStmt] at hf
    simp only [stmtBelow, Bool.and_eq_true] at hk
    simp only [cStmt, List.all_cons, opBelow, Bool.and_eq_true]
    exact ⟨hk.1, cStmt_below fx D k s l hf hk.2⟩
  | .expr e, ln, hf, _ => by
    simp only [fragBStmt] at hf
    simp only [cStmt]
    rw [cExpr_loads fx D e hf]
    simp [List.all_map, opBelow]
  | .assign ts e, ln, hf, _ => by
    simp only [fragBStmt, Bool.and_eq_true] at hf
    cases hsn : singleName ts with
    | none => rw [hsn] at hf; simp at hf
    | some x =>
      have hts := singleName_eq hsn
      subst hts
      simp only [cStmt]
      rw [cExpr_loads fx D e hf.2]
      have hst : cTargets fx [Expr.name x] = [Op.store x] := by simp [cTargets, cTarget]
      rw [hst]
      rcases cAll_ops x e with hc | ⟨ns, hc⟩ <;> rw [hc] <;> simp [List.all_map, opBelow]
  | .pass, _, _, _ => by simp [cStmt]
  | .import_ names, ln, _, _ => by simp only [cStmt]; exact cAliases_below none k names 0
  | .importFrom m names, ln, _, _ => by simp only [cStmt]; exact cAliases_below (some m) k names 0
  | .augAssign _ _, _, hf, _ => by simp [fragBStmt] at hf
  | .annAssign _ _ _, _, hf, _ => by simp [fragBStmt] at hf
  | .funcDef _ _ _ _ _, _, hf, _ => by simp [fragBStmt] at hf
  | .classDef _ _ _ _, _, hf, _ => by simp [fragBStmt] at hf
  | .for_ _ _ _ _, _, hf, _ => by simp [fragBStmt] at hf
  | .while_ _ _ _, _, hf, _ => by simp [fragBStmt] at hf
  | .if_ _ _ _, _, hf, _ => by simp [fragBStmt] at hf
  | .with_ _ _, _, hf, _ => by simp [fragBStmt] at hf
  | .try_ _ _ _ _, _, hf, _ => by simp [fragBStmt] at hf
  | .return_ _, _, hf, _ => by simp [fragBStmt] at hf
  | .raise_ _, _, hf, _ => by simp [fragBStmt] at hf
  | .delete _, _, hf, _ => by simp [fragBStmt] at hf
  | .global_ _, _, hf, _ => by simp [fragBStmt] at hf
  | .nonlocal_ _, _, hf, _ => by simp [fragBStmt] at hf

theorem cStmts_below (fx : Fixes) (D : Bool) (k ln : Nat) : ∀ (p : List Stmt), fragB D p = true → linesBelow k p = true →
    (cStmts fx ln p).all (opBelow k) = true
  | [], _, _ => rfl
  | s :: r, hf, hk => by
    simp only [fragB, List.all_cons, Bool.and_eq_true] at hf
    simp only [linesBelow, List.all_cons, Bool.and_eq_true] at hk
    simp only [cStmts, List.all_append, Bool.and_eq_true]
    exact ⟨cStmt_below fx D k s ln hf.1 hk.1, cStmts_below fx D k ln r hf.2 hk.2⟩

theorem foldl_storeTop_line : ∀ (keys : List Str) (st : AState), (keys.foldl storeTop st).line = st.line
  | [], _ => rfl
  | _ :: r, st => by simp only [List.foldl_cons]; rw [foldl_storeTop_line r]; rfl

theorem foldl_deferGlobal_line (reg : Registry) : ∀ (ns : List Str) (st : AState), (ns.foldl (deferGlobal reg) st).line = st.line
  | [], _ => rfl
  | n :: r, st => by
    simp only [List.foldl_cons]
    rw [foldl_deferGlobal_line reg r, (deferGlobal_facts reg st n).2.2.2.2.1]

/-- the current line after one action -/
theorem step_line {reg : Registry} {st : AState} (hf : st.inFunc = false) (k : Nat) (o : Op) (ho : opOK o = true)
    (hb : opBelow k o = true) (hl : st.line < k) : (step reg st o).line < k := by
  cases o with
  | setLine n =>
    simp only [opBelow, decide_eq_true_eq] at hb
    exact hb
  | load d =>
    have hs : step reg st (.load d) = checkLoad reg st d st.stack.ids st.line := by simp [step, hf]
    rw [hs, (checkLoad_facts reg st d st.stack.ids st.line).2.2.2.2.1]; exact hl
  | store x => exact hl
  | allNames ns =>
    have hs : step reg st (.allNames ns) = ns.foldl (deferGlobal reg) st := by simp [step, hf]
    rw [hs, foldl_deferGlobal_line]; exact hl
  | importAlias keys bn idx pl =>
    have hs : step reg st (.importAlias keys bn idx pl) = keys.foldl storeTop st := rfl
    rw [hs, foldl_storeTop_line]; exact hl
  | pushScope _ _ _ => cases ho
  | popScope => cases ho
  | upScope => cases ho
  | downScope => cases ho
  | enterFunc => cases ho
  | exitFunc => cases ho
  | classDelayed _ _ => cases ho
  | incClass => cases ho
  | decClass => cases ho
  | removeMissing _ _ => cases ho
  | dunderClass => cases ho
  | storeIfNotInClass _ => cases ho
  | delName _ _ => cases ho
  | condEnter => cases ho
  | condExit => cases ho
  | handlerEnd _ => cases ho

/-- the entries reported while the lines are below `k` carry a line below `k` -/
theorem run_below {reg : Registry} {h : Str} (k : Nat) : ∀ (ops : List Op) {b : Bool} (st : AState), RInv h b st →
    ops.all opOK = true → ops.all (opBelow k) = true → st.line < k → (∀ m ∈ st.missing, m.line < k) →
    ∀ m ∈ (runOps reg st ops).missing, m.line < k
  | [], _, _, _, _, _, _, hm => hm
  | o :: rest, b, st, r, hok, hbl, hl, hm => by
    simp only [List.all_cons, Bool.and_eq_true] at hok hbl
    rw [Pfb.PyCore.runOps_cons]
    obtain ⟨r1, _, m2⟩ := r.op (reg := reg) o hok.1
    refine run_below k rest _ r1 hok.2 hbl.2 (step_line r.inFunc k o hok.1 hbl.1 hl) ?_
    intro m hm'
    rcases m2 m hm' with h1 | ⟨h1, _, _⟩
    · exact hm m h1
    · rw [h1]; exact hl

/-- **C04_add_resolves_by_line_fragB** — the side condition of `C04_add_resolves_fragB` as the add stage establishes it:
    `k` is a (positive) line such that every name below `h` that the analysis of the OLD program reports is reported on a line
    `≥ k` (`C04_first_use_min`: the line handed to `add_import` is the smallest such line) and every statement of `pre` sits on
    a line `< k` (`C04_placement`: the chosen block ends before that line).  `pre` may read `h` where it is bound. -/
theorem C04_add_resolves_by_line_fragB (fx : Fixes) (reg : Registry) (builtins : Scope) (ns : List Scope)
    (pre post : List Stmt) (imp : Stmt) (h : Str) (D : Bool) (k : Nat) (hfr : fragB D (pre ++ [imp] ++ post) = true)
    (hi : Pfb.C02.isImport imp = true) (hb : importBinds h imp = true) (hk : 0 < k) (hlines : linesBelow k pre = true)
    (hfirst : ∀ m ∈ (analyzeFx fx reg builtins ns (pre ++ post)).missing, headOf m.name = h → k ≤ m.line)
    (hreg : reg.get h ≠ some Val.none) :
    ∀ d ∈ findMissingFx fx reg builtins ns (pre ++ [imp] ++ post), headOf d ≠ h := by
  refine add_resolves_core hreg fx builtins ns pre post imp D hfr hi hb ?_
  obtain ⟨f1, _, f3⟩ := fragB_split hfr
  obtain ⟨a1, _⟩ := cStmts_ops fx D 0 pre f1
  obtain ⟨c1, _⟩ := cStmts_ops fx D 0 post f3
  have r0 := rinv_init h builtins ns
  have hb1 := run_below (reg := reg) k _ _ r0 a1 (cStmts_below fx D k 0 pre f1 hlines) hk (fun m hm => by simp [initState] at hm)
  obtain ⟨r1, _⟩ := RInv.run (reg := reg) _ r0 a1
  obtain ⟨_, m2⟩ := RInv.run (reg := reg) (cStmts fx 0 post) r1 c1
  intro n hn hh
  obtain ⟨m, hm, rfl⟩ := List.mem_map.mp hn
  have hfin : m ∈ (analyzeFx fx reg builtins ns (pre ++ post)).missing := by
    unfold analyzeFx
    rw [cStmts_append, Pfb.PyCore.runOps_append]
    exact finishDeferred_mono reg _ m (m2 m hm)
  have h1 := hfirst m hfin hh
  have h2 := hb1 m hm
  omega

/-- run level, with the side condition in terms of line numbers -/
theorem C04_add_stage_safe_by_line_fragB (fx : Fixes) (builtins : Scope) (ns : List Scope) (pre post : List Stmt) (imp : Stmt)
    (h : Str) (s0 : XState) (fuel : Nat) (D : Bool) (k : Nat) (hfr : fragB D (pre ++ [imp] ++ post) = true)
    (hi : Pfb.C02.isImport imp = true) (hb : importBinds h imp = true) (hk : 0 < k) (hlines : linesBelow k pre = true)
    (hfirst : ∀ m ∈ (analyzeFx fx {} builtins ns (pre ++ post)).missing, headOf m.name = h → k ≤ m.line)
    (hag : Agree builtins ns s0) (hdf : D = true → nsDotFree builtins ns = true) :
    h ∉ (runProgram fuel (pre ++ [imp] ++ post) [] s0).1.ne := by
  intro hn
  obtain ⟨d, hd, hh, _⟩ := C05_sound_fragB fx {} builtins ns _ s0 fuel D hfr hag hdf h hn
  exact C04_add_resolves_by_line_fragB fx {} builtins ns pre post imp h D k hfr hi hb hk hlines hfirst
    (by simp [Registry.get, assocGet]) d hd hh

/-! ### two runs: the program without and with the added import -/

structure Mono (ao an : AState) : Prop where
  stk : an.stack = ao.stack
  fo : ao.inFunc = false
  fn : an.inFunc = false
  lo : ao.stack.top < ao.heap.length
  ln : an.stack.top < an.heap.length
  heap : HLe ao.heap an.heap
  vo : ∀ q v, (ao.heap.get ao.stack.top).get q = some v → v = Val.none
  miss : ∀ n ∈ an.missing.map (·.name), n ∈ ao.missing.map (·.name)
  defer : ∀ d ∈ an.deferred, ∃ d' ∈ ao.deferred, d'.name = d.name ∧ d'.ids = d.ids

/-- the new run stores keys the old run does not (the added import) -/
theorem Mono.keysN {ao an : AState} (m : Mono ao an) (keys : List Str) : Mono ao (keys.foldl storeTop an) := by
  obtain ⟨k1, k2, k3, k4, k5, k6⟩ := storeKeys_get keys an m.ln
  refine ⟨k1.trans m.stk, m.fo, k3.trans m.fn, m.lo, by rw [k1, k2]; exact m.ln, ?_, m.vo, by rw [k4]; exact m.miss,
    by rw [k5]; exact m.defer⟩
  intro i q v hv
  rw [k6]
  split
  · rename_i hc
    rw [hc.1, m.stk] at hv
    rw [m.vo q v hv]
  · exact m.heap i q v hv

/-- both runs store the same keys -/
theorem Mono.keys {ao an : AState} (m : Mono ao an) (keys : List Str) :
    Mono (keys.foldl storeTop ao) (keys.foldl storeTop an) := by
  obtain ⟨o1, o2, o3, o4, o5, o6⟩ := storeKeys_get keys ao m.lo
  obtain ⟨k1, k2, k3, k4, k5, k6⟩ := storeKeys_get keys an m.ln
  refine ⟨by rw [k1, o1]; exact m.stk, o3.trans m.fo, k3.trans m.fn, by rw [o1, o2]; exact m.lo, by rw [k1, k2]; exact m.ln,
    ?_, ?_, by rw [k4, o4]; exact m.miss, by rw [k5, o5]; exact m.defer⟩
  · intro i q v hv
    rw [o6] at hv
    rw [k6, m.stk]
    split
    · rename_i hc
      rw [if_pos hc] at hv; exact hv
    · rename_i hc
      rw [if_neg hc] at hv; exact m.heap i q v hv
  · intro q v hv
    rw [o1, o6] at hv
    split at hv
    · cases hv; rfl
    · exact m.vo q v hv

theorem Mono.deferG {reg : Registry} {ao an : AState} (m : Mono ao an) (n : Str) :
    Mono (deferGlobal reg ao n) (deferGlobal reg an n) := by
  obtain ⟨o1, o2, o3, o4, _, o6⟩ := deferGlobal_facts reg ao n
  obtain ⟨n1, n2, n3, n4, _, n6⟩ := deferGlobal_facts reg an n
  refine ⟨by rw [n2, o2]; exact m.stk, o3.trans m.fo, n3.trans m.fn, by rw [o1, o2]; exact m.lo, by rw [n1, n2]; exact m.ln,
    by rw [o1, n1]; exact m.heap, by rw [o1, o2]; exact m.vo, by rw [n4, o4]; exact m.miss, ?_⟩
  have hsub : ∀ d' ∈ ao.deferred, d' ∈ (deferGlobal reg ao n).deferred := by
    intro d' hd'
    rw [o6]
    split
    · exact List.mem_append_left _ hd'
    · exact hd'
  have hold : ∀ d ∈ an.deferred, ∃ d' ∈ (deferGlobal reg ao n).deferred, d'.name = d.name ∧ d'.ids = d.ids := by
    intro d hd
    obtain ⟨d', h1, h2⟩ := m.defer d hd
    exact ⟨d', hsub d' h1, h2⟩
  intro d hd
  rw [n6] at hd
  split at hd
  · rename_i hs
    rcases List.mem_append.mp hd with hd | hd
    · exact hold d hd
    · simp only [List.mem_singleton] at hd
      subst hd
      rw [m.stk] at hs
      have hso := sni_mono (reg := reg) m.heap _ _ hs
      refine ⟨⟨n, ao.stack.ids, ao.line⟩, ?_, rfl, by rw [m.stk]⟩
      rw [o6, if_pos hso]
      exact List.mem_append_right _ (List.mem_singleton.mpr rfl)
  · exact hold d hd

theorem Mono.deferGs {reg : Registry} : ∀ (ns : List Str) {ao an : AState}, Mono ao an →
    Mono (ns.foldl (deferGlobal reg) ao) (ns.foldl (deferGlobal reg) an)
  | [], _, _, m => m
  | n :: r, _, _, m => by
    simp only [List.foldl_cons]
    exact Mono.deferGs r (m.deferG n)

theorem Mono.op {reg : Registry} {ao an : AState} (m : Mono ao an) (o : Op) (ho : opOK o = true) :
    Mono (step reg ao o) (step reg an o) := by
  cases o with
  | setLine n => exact ⟨m.stk, m.fo, m.fn, m.lo, m.ln, m.heap, m.vo, m.miss, m.defer⟩
  | load d =>
    have hso : step reg ao (.load d) = checkLoad reg ao d ao.stack.ids ao.line := by simp [step, m.fo]
    have hsn : step reg an (.load d) = checkLoad reg an d an.stack.ids an.line := by simp [step, m.fn]
    rw [hso, hsn]
    obtain ⟨o1, o2, o3, o4, _, o6⟩ := checkLoad_facts reg ao d ao.stack.ids ao.line
    obtain ⟨n1, n2, n3, n4, _, n6⟩ := checkLoad_facts reg an d an.stack.ids an.line
    refine ⟨by rw [n2, o2]; exact m.stk, o3.trans m.fo, n3.trans m.fn, by rw [o1, o2]; exact m.lo, by rw [n1, n2]; exact m.ln,
      by rw [o1, n1]; exact m.heap, by rw [o1, o2]; exact m.vo, ?_, by rw [n4, o4]; exact m.defer⟩
    intro x hx
    rw [o6]
    rcases (n6 x).mp hx with hx | ⟨hc, rfl⟩
    · exact .inl (m.miss x hx)
    · rw [m.stk] at hc
      exact .inr ⟨cond_mono m.heap _ _ hc, rfl⟩
  | store x => exact m.keys [x]
  | allNames ns =>
    have hso : step reg ao (.allNames ns) = ns.foldl (deferGlobal reg) ao := by simp [step, m.fo]
    have hsn : step reg an (.allNames ns) = ns.foldl (deferGlobal reg) an := by simp [step, m.fn]
    rw [hso, hsn]
    exact Mono.deferGs ns m
  | importAlias keys bn idx pl => exact m.keys keys
  | pushScope _ _ _ => cases ho
  | popScope => cases ho
  | upScope => cases ho
  | downScope => cases ho
  | enterFunc => cases ho
  | exitFunc => cases ho
  | classDelayed _ _ => cases ho
  | incClass => cases ho
  | decClass => cases ho
  | removeMissing _ _ => cases ho
  | dunderClass => cases ho
  | storeIfNotInClass _ => cases ho
  | delName _ _ => cases ho
  | condEnter => cases ho
  | condExit => cases ho
  | handlerEnd _ => cases ho


/-- an action of the added import statement, executed by the new run only -/
theorem Mono.opN {reg : Registry} {ao an : AState} (m : Mono ao an) (o : Op) (ho : opImp o = true) :
    Mono ao (step reg an o) := by
  cases o with
  | setLine n => exact ⟨m.stk, m.fo, m.fn, m.lo, m.ln, m.heap, m.vo, m.miss, m.defer⟩
  | importAlias keys bn idx pl => exact m.keysN keys
  | load _ => cases ho
  | store _ => cases ho
  | allNames _ => cases ho
  | pushScope _ _ _ => cases ho
  | popScope => cases ho
  | upScope => cases ho
  | downScope => cases ho
  | enterFunc => cases ho
  | exitFunc => cases ho
  | classDelayed _ _ => cases ho
  | incClass => cases ho
  | decClass => cases ho
  | removeMissing _ _ => cases ho
  | dunderClass => cases ho
  | storeIfNotInClass _ => cases ho
  | delName _ _ => cases ho
  | condEnter => cases ho
  | condExit => cases ho
  | handlerEnd _ => cases ho

theorem Mono.run {reg : Registry} : ∀ (ops : List Op) {ao an : AState}, Mono ao an → ops.all opOK = true →
    Mono (runOps reg ao ops) (runOps reg an ops)
  | [], _, _, m, _ => m
  | o :: r, _, _, m, hok => by
    simp only [List.all_cons, Bool.and_eq_true] at hok
    rw [Pfb.PyCore.runOps_cons, Pfb.PyCore.runOps_cons]
    exact Mono.run r (m.op o hok.1) hok.2

theorem Mono.runN {reg : Registry} : ∀ (ops : List Op) {ao an : AState}, Mono ao an → ops.all opImp = true →
    Mono ao (runOps reg an ops)
  | [], _, _, m, _ => m
  | o :: r, _, _, m, hok => by
    simp only [List.all_cons, Bool.and_eq_true] at hok
    rw [Pfb.PyCore.runOps_cons]
    exact Mono.runN r (m.opN o hok.1) hok.2

theorem mono_init (builtins : Scope) (ns : List Scope) : Mono (initState builtins ns) (initState builtins ns) := by
  have ht : (initState builtins ns).stack.top < (initState builtins ns).heap.length := by
    rw [init_top, init_heap_length]; omega
  refine ⟨rfl, rfl, rfl, ht, ht, fun _ _ _ h => h, ?_, fun _ h => h, fun d hd => by simp [initState] at hd⟩
  intro q v hv
  rw [init_top, initHeap_priv] at hv
  cases hv

/-- **C04_add_keeps_others** — adding an import statement anywhere in a fragment-B program makes no name missing that was
    not missing before: every name `find_missing_imports` reports for `pre ++ [imp] ++ post` it reports for `pre ++ post`
    (for the unchanged analysis and every combination of the repairs, every registry, builtins and caller namespaces; no
    side condition on `pre`, no hypothesis on the registry). -/
theorem C04_add_keeps_others (fx : Fixes) (reg : Registry) (builtins : Scope) (ns : List Scope)
    (pre post : List Stmt) (imp : Stmt) (D : Bool) (hfr : fragB D (pre ++ [imp] ++ post) = true) (hi : Pfb.C02.isImport imp = true) :
    ∀ d ∈ findMissingFx fx reg builtins ns (pre ++ [imp] ++ post), d ∈ findMissingFx fx reg builtins ns (pre ++ post) := by
  obtain ⟨f1, f2, f3⟩ := fragB_split hfr
  obtain ⟨a1, _⟩ := cStmts_ops fx D 0 pre f1
  obtain ⟨b0, _⟩ := cStmt_imp fx D [] imp 0 f2 hi
  obtain ⟨c1, _⟩ := cStmts_ops fx D 0 post f3
  have m1 := Mono.run (reg := reg) _ (mono_init builtins ns) a1
  have m2 := Mono.runN (reg := reg) _ m1 b0
  have m3 := Mono.run (reg := reg) _ m2 c1
  intro d hd
  unfold findMissingFx analyzeFx at hd ⊢
  rw [mem_sortedSet, finish_missing] at hd ⊢
  rw [cStmts_split, Pfb.PyCore.runOps_append, Pfb.PyCore.runOps_append] at hd
  rw [cStmts_append, Pfb.PyCore.runOps_append]
  rcases hd with hd | ⟨e, he, hc, rfl⟩
  · exact .inl (m3.miss d hd)
  · obtain ⟨e', he', h1, h2⟩ := m3.defer e he
    refine .inr ⟨e', he', ?_, h1.symm⟩
    rw [h1, h2]
    exact cond_mono m3.heap _ _ hc

/-- the heads of the reported names: the form used by the add stage (one import per reported head) -/
theorem C04_add_keeps_other_heads (fx : Fixes) (reg : Registry) (builtins : Scope) (ns : List Scope)
    (pre post : List Stmt) (imp : Stmt) (D : Bool) (hfr : fragB D (pre ++ [imp] ++ post) = true) (hi : Pfb.C02.isImport imp = true) :
    ∀ x ∈ (findMissingFx fx reg builtins ns (pre ++ [imp] ++ post)).map headOf,
      x ∈ (findMissingFx fx reg builtins ns (pre ++ post)).map headOf := by
  intro x hx
  obtain ⟨d, hd, rfl⟩ := List.mem_map.mp hx
  exact List.mem_map.mpr ⟨d, C04_add_keeps_others fx reg builtins ns pre post imp D hfr hi d hd, rfl⟩

/-- **C04_add_stage_no_new_fragB** — run level: every name for which the reference run of the program WITH the added import
    raises NameError is the head of a name that was already reported missing for the program WITHOUT it, and it is not `h`:
    the add stage resolves `h` and introduces no NameError. -/
theorem C04_add_stage_no_new_fragB (fx : Fixes) (reg : Registry) (builtins : Scope) (ns : List Scope)
    (pre post : List Stmt) (imp : Stmt) (h : Str) (s0 : XState) (fuel : Nat) (D : Bool)
    (hfr : fragB D (pre ++ [imp] ++ post) = true) (hi : Pfb.C02.isImport imp = true) (hb : importBinds h imp = true)
    (hpre : noReadOf h pre = true) (hag : Agree builtins ns s0) (hdf : D = true → nsDotFree builtins ns = true) :
    ∀ n ∈ (runProgram fuel (pre ++ [imp] ++ post) [] s0).1.ne,
      n ≠ h ∧ ∃ d ∈ findMissingFx fx reg builtins ns (pre ++ post), headOf d = n := by
  intro n hn
  refine ⟨fun e => C04_add_stage_safe_fragB fx builtins ns pre post imp h s0 fuel D hfr hi hb hpre hag hdf (e ▸ hn), ?_⟩
  obtain ⟨d, hd, hh, _⟩ := C05_sound_fragB fx reg builtins ns _ s0 fuel D hfr hag hdf n hn
  exact ⟨d, C04_add_keeps_others fx reg builtins ns pre post imp D hfr hi d hd, hh⟩


/-! ### the added import itself, at run level (`importStmt_spec`) -/

theorem foldl_aStep_bound (h : Str) : ∀ (atoms : List Pfb.C02.Atom) (g : Str → Option Pfb.C02.AVal),
    (h ∈ atoms.map Pfb.C02.Atom.bound ∨ (g h).isSome = true) → ((atoms.foldl Pfb.C02.aStep g) h).isSome = true
  | [], g, hh => by
    rcases hh with hh | hh
    · simp at hh
    · exact hh
  | x :: r, g, hh => by
    simp only [List.foldl_cons]
    apply foldl_aStep_bound h r
    by_cases e : h = x.bound
    · right; simp [Pfb.C02.aStep, e]
    · rcases hh with hh | hh
      · simp only [List.map_cons, List.mem_cons] at hh
        rcases hh with hh | hh
        · exact absurd hh e
        · exact .inl hh
      · right; simp only [Pfb.C02.aStep, if_neg e]; exact hh

theorem importBinds_atoms (h : Str) : ∀ (s : Stmt), importBinds h s = true → h ∈ (Pfb.C02.stmtAtoms s).map Pfb.C02.Atom.bound
  | .import_ names, hb => by
    simp only [importBinds, List.any_eq_true, beq_iff_eq] at hb
    obtain ⟨a, ha, rfl⟩ := hb
    simp only [Pfb.C02.stmtAtoms, List.map_map, List.mem_map]
    exact ⟨a, ha, rfl⟩
  | .importFrom m names, hb => by
    simp only [importBinds, List.any_eq_true, beq_iff_eq] at hb
    obtain ⟨a, ha, rfl⟩ := hb
    simp only [Pfb.C02.stmtAtoms, List.map_map, List.mem_map]
    exact ⟨a, ha, rfl⟩
  | .located _ s, hb => by
    simp only [importBinds] at hb
    simp only [Pfb.C02.stmtAtoms]
    exact importBinds_atoms h s hb
  | .expr _, hb => by cases hb
  | .assign _ _, hb => by cases hb
  | .pass, hb => by cases hb
  | .augAssign _ _, hb => by cases hb
  | .annAssign _ _ _, hb => by cases hb
  | .funcDef _ _ _ _ _, hb => by cases hb
  | .classDef _ _ _ _, hb => by cases hb
  | .for_ _ _ _ _, hb => by cases hb
  | .while_ _ _ _, hb => by cases hb
  | .if_ _ _ _, hb => by cases hb
  | .with_ _ _, hb => by cases hb
  | .try_ _ _ _ _, hb => by cases hb
  | .return_ _, hb => by cases hb
  | .raise_ _, hb => by cases hb
  | .delete _, hb => by cases hb
  | .global_ _, hb => by cases hb
  | .nonlocal_ _, hb => by cases hb

/-- **C04_add_import_binds** — an import statement that is importable in the universe of `Exec` (`importOK`) and one of whose
    aliases binds `h`, executed in any state satisfying the module-table invariant with enough fuel, completes normally, leaves
    `h` bound in the globals and raises no NameError. -/
theorem C04_add_import_binds (imp : Stmt) (h : Str) (f : Nat) (s : XState) (hinv : Pfb.C02.MInv s)
    (hi : Pfb.C02.isImport imp = true) (hok : Pfb.C02.importOK imp = true) (hb : importBinds h imp = true)
    (hf : Pfb.C02.needI imp ≤ f) :
    ∃ s1, execStmt f {} imp s = (s1, .ok .normal) ∧ (assocGet h s1.globals).isSome = true ∧ s1.ne = s.ne := by
  obtain ⟨s1, he, r⟩ := Pfb.C02.importStmt_spec imp f s hinv hi hok hf
  refine ⟨s1, he, ?_, r.obs.ne⟩
  have hg := congrFun r.glob h
  have hs := foldl_aStep_bound h (Pfb.C02.stmtAtoms imp) (Pfb.C02.absG s) (.inl (importBinds_atoms h imp hb))
  rw [← hg] at hs
  unfold Pfb.C02.absG at hs
  cases hgl : assocGet h s1.globals with
  | none => rw [hgl] at hs; cases hs
  | some v => rfl

/-! ### non-vacuity (Exec's universe: roots `pa`, `pb`; members `m1 m2 d1 d2`) -/

/-- `x = _K` / `__all__ = ['pa', 'x']` ‖ `import pa.s1` ‖ `y = pa.s1.m1` / `z = pb.m2 if x else pa.nope`: the old program
    reports `pa`, `pa.nope`, `pa.s1.m1`, `pb.m2`; the new one `pb.m2` only -/
def exPre : List Stmt :=
  [.located 1 (.assign [nm "x"] (nm "_K")), .located 2 (.assign [nm "__all__"] (.list [.str "pa".toList, .str "x".toList]))]
def exImp : Stmt := .located 3 (.import_ [al "pa.s1"])
def exPost : List Stmt :=
  [.located 4 (.assign [nm "y"] (.attr (.attr (nm "pa") "s1".toList) "m1".toList)),
   .located 5 (.assign [nm "z"] (.ifExp (nm "x") (.attr (nm "pb") "m2".toList) (.attr (nm "pa") "nope".toList)))]

example : fragB true (exPre ++ [exImp] ++ exPost) = true ∧ Pfb.C02.isImport exImp = true ∧ importBinds "pa".toList exImp = true ∧
    noReadOf "pa".toList exPre = true ∧ Pfb.C02.importOK exImp = true ∧ nsDotFree exB [{}] = true ∧
    findMissingFx {} {} exB [{}] (exPre ++ exPost) = ["pa".toList, "pa.nope".toList, "pa.s1.m1".toList, "pb.m2".toList] ∧
    findMissingFx {} {} exB [{}] (exPre ++ [exImp] ++ exPost) = ["pb.m2".toList] := by decide
example : Agree exB [{}] (mkState exB [{}]) := agree_mk _ _ (by decide) (by decide)
example : (runProgram 100 (exPre ++ [exImp] ++ exPost) [] (mkState exB [{}])).1.ne = ["pb".toList] := by decide +kernel
example : (runProgram 100 (exPre ++ exPost) [] (mkState exB [{}])).1.ne = ["pa".toList] := by decide +kernel

/-- `D = false`: `print(_K)` ‖ `from pa import m1 as q` ‖ `r = q + w` -/
def exPre0 : List Stmt := [.located 1 (.expr (.binop (nm "print") (nm "_K")))]
def exImp0 : Stmt := .located 2 (.importFrom "pa".toList [al "m1" (some "q")])
def exPost0 : List Stmt := [.located 3 (.assign [nm "r"] (.binop (nm "q") (nm "w")))]
example : fragB false (exPre0 ++ [exImp0] ++ exPost0) = true ∧ Pfb.C02.isImport exImp0 = true ∧ importBinds "q".toList exImp0 = true ∧
    noReadOf "q".toList exPre0 = true ∧ Pfb.C02.importOK exImp0 = true ∧
    findMissingFx {} {} exB [{}] (exPre0 ++ exPost0) = ["q".toList, "w".toList] ∧
    findMissingFx {} {} exB [{}] (exPre0 ++ [exImp0] ++ exPost0) = ["w".toList] := by decide

/-- the side condition by line numbers, `pre` reading `h` where it is bound: the caller's namespace holds the module `pa`
    (`sys.modules['pa']`, without the attribute `s1`): `print(pa)` ‖ `import pa.s1` ‖ `print(pa.s1.m1)`, `k = 3` -/
def exLreg : Registry := { mods := [("pa".toList, .obj 5)], attrs := [] }
def exLns : List Scope := [{ items := [("pa".toList, .obj 5)] }]
def exLpre : List Stmt := [.located 1 (.expr (.binop (nm "print") (nm "pa")))]
def exLimp : Stmt := .located 2 (.import_ [al "pa.s1"])
def exLpost : List Stmt := [.located 3 (.expr (.binop (nm "print") (.attr (.attr (nm "pa") "s1".toList) "m1".toList)))]
example : fragB true (exLpre ++ [exLimp] ++ exLpost) = true ∧ Pfb.C02.isImport exLimp = true ∧
    importBinds "pa".toList exLimp = true ∧ linesBelow 3 exLpre = true ∧ noReadOf "pa".toList exLpre = false ∧
    (∀ m ∈ (analyzeFx {} exLreg exB exLns (exLpre ++ exLpost)).missing, headOf m.name = "pa".toList → 3 ≤ m.line) ∧
    exLreg.get "pa".toList ≠ some Val.none ∧
    findMissingFx {} exLreg exB exLns (exLpre ++ exLpost) = ["pa.s1.m1".toList] ∧
    findMissingFx {} exLreg exB exLns (exLpre ++ [exLimp] ++ exLpost) = [] := by decide
example : linesBelow 3 exPre0 = true ∧
    (∀ m ∈ (analyzeFx {} {} exB [{}] (exPre0 ++ exPost0)).missing, headOf m.name = "q".toList → 3 ≤ m.line) := by decide
example : Pfb.C02.MInv (mkState exB [{}]) := Pfb.C02.MInv.init _ rfl rfl (fun n v h => by cases h)
example : Pfb.C02.needI exImp ≤ 100 := by decide

/-! ### witnesses: the hypotheses are needed -/

/-- the side condition on `pre` (the D5 situation, repaired in /repo by b68cae6: the import was placed by the line of the
    lexicographically first missing name, after the first read of another one): `print(pa.m1)` ‖ `import pa` ‖ `print(pa.m2)` —
    the import comes after the first read, `pa.m1` is still reported and the run still raises NameError for `pa` -/
def wPre : List Stmt := [.located 1 (.expr (.binop (nm "print") (.attr (nm "pa") "m1".toList)))]
def wImp : Stmt := .located 2 (.import_ [al "pa"])
def wPost : List Stmt := [.located 3 (.expr (.binop (nm "print") (.attr (nm "pa") "m2".toList)))]
theorem witness_import_after_first_read :
    fragB true (wPre ++ [wImp] ++ wPost) = true ∧ Pfb.C02.isImport wImp = true ∧ importBinds "pa".toList wImp = true ∧
    Pfb.C02.importOK wImp = true ∧ noReadOf "pa".toList wPre = false ∧
    findMissingFx {} {} exB [{}] (wPre ++ [wImp] ++ wPost) = ["pa.m1".toList] ∧
    (runProgram 100 (wPre ++ [wImp] ++ wPost) [] (mkState exB [{}])).1.ne = ["pa".toList] ∧
    findMissingFx {} {} exB [{}] ([wImp] ++ wPre ++ wPost) = [] ∧
    (runProgram 100 ([wImp] ++ wPre ++ wPost) [] (mkState exB [{}])).1.ne = [] := by decide +kernel

/-- `sys.modules[h]` is `None` (an import of `h` is blocked): the analysis follows the attribute through the registry entry,
    which is the value it has stored for `h` itself, and still reports `pa.m1` -/
def wRegAdd : Registry := { mods := [("pa".toList, Val.none)], attrs := [] }
theorem witness_registry_none_entry :
    fragB true ([] ++ [wImp] ++ wPre) = true ∧ noReadOf "pa".toList [] = true ∧ importBinds "pa".toList wImp = true ∧
    wRegAdd.get "pa".toList = some Val.none ∧
    findMissingFx {} wRegAdd exB [{}] ([] ++ [wImp] ++ wPre) = ["pa.m1".toList] := by decide

end Pfb.C04
