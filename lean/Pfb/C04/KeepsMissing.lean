/-
  Pfb.C04.KeepsMissing — "removing the unused imports creates no new missing name" (C04 / C02), on the analysis models
  `Pfb.PyCore.findUnused` (unused-import mode) and `Pfb.PyCore.findMissingFx` (missing-import mode) of `_MissingImportFinder`.

  * `C04_removal_keeps_missing_fragB` — for every `fx`, every program of fragment B (`D = false` / `D = true`, `__all__ = [...]`
    and `from __future__ import …` included), every caller namespaces:
      `findMissingFx fx reg builtins ns (dropUnused prog (findUnused fx builtins prog)) = findMissingFx fx reg builtins ns prog`
    under: `builtinsPlain builtins` (`witness_builtins_value`), `regNoNone reg` (`witness_registry_none` in NoUnusedLeft),
    pairwise distinct (line, alias index) pairs of the import aliases (`witness_same_line` in NoUnusedLeft).
  * `C04_tidy_remove_stage_safe_fragB` — with `C05_precise_fragB` (original program) and `C05_sound_fragB` (reduced program):
    if the reference run of a fragment-B program (no conditional expression, no `__all__`) completes, the reference run of the
    program without its unused imports raises no NameError.

  Proof.  Part 1: invariants `UW` of the unused-import analysis of ONE program — a reported checker is unused and no key of the
  top scope holds it any more (`N`, `Uf`), because the keys that hold a checker are its bound name and ancestors of it, the
  ancestors only as long as the bound name does (`V`); hence a checker found by a lookup is never in the final report.
  Part 2: the two missing-import analyses (`ao` original, `an` reduced) and the unused-import analysis of the original program
  (`uo`) run in lock step (`Sim3`): the three top scopes bind the same keys, except the keys held by deleted checkers; under
  `Good U uo.checkers` (no checker marked used is deleted — true at the end by part 1) every lookup gives the same
  needs-import answer in `ao` and `an` (`Sim3.sniEq`), so the reported names and the deferred names agree.
-/
import Pfb.C04.NoUnusedLeft
import Pfb.C05.Props
import Pfb.C11.Lemmas
namespace Pfb.C04
open Pfb Pfb.PyCore Pfb.C05

/-! ### part 1: invariants of the unused-import analysis of one program -/

def pairOf (c : Checker) : Nat × Nat := (c.line, c.idx)

structure UW (ex : Option Nat) (T : Scope) (cs : List Checker) (un : List Nat) : Prop where
  plain : PlainCs cs
  V : ∀ q j, T.get q = some (.obj j) → some j ≠ ex →
    ∃ c, cs[j]? = some c ∧ (q = c.bind ∨ (q ∈ ancestors c.bind ∧ T.get c.bind = some (.obj j)))
  L : ∀ q j, T.get q = some (.obj j) → j < cs.length
  N : ∀ j ∈ un, ∀ q, T.get q ≠ some (.obj j)
  Uf : ∀ j ∈ un, ∃ c, cs[j]? = some c ∧ c.used = false
  X : ∀ k, ex = some k → k ∉ un

theorem findInScope_none_iff (T : Scope) : ∀ (ps : List (List Str)),
    findInScope T ps = none ↔ ∀ p ∈ ps, T.get (joinDots p) = none
  | [] => by simp [findInScope]
  | p :: r => by
    simp only [findInScope]
    cases h : T.get (joinDots p) with
    | none =>
      simp only
      rw [findInScope_none_iff T r]
      simp [h]
    | some v => simp [h]

theorem UW.look {ex T cs un} (w : UW ex T cs un) (ps : List (List Str)) :
    UW ex T (markFound cs (findInScope T ps)) un := by
  have s := markFound_sameId w.plain (findInScope T ps)
  refine ⟨w.plain.sameId s, ?_, by intro q j h; rw [s.1]; exact w.L q j h, w.N, ?_, w.X⟩
  · intro q j h hne
    obtain ⟨c, hc, hor⟩ := w.V q j h hne
    obtain ⟨c', hc'⟩ := s.back hc
    obtain ⟨c2, hc2, e1, _⟩ := s.2 j c' hc'
    rw [hc] at hc2; cases hc2
    exact ⟨c', hc', by rw [e1]; exact hor⟩
  · intro j hj
    obtain ⟨c, hc, hu⟩ := w.Uf j hj
    have hne : findInScope T ps ≠ some (.obj j) := by
      intro hf
      obtain ⟨p, _, hp⟩ := findInScope_some hf
      exact w.N j hj _ hp
    exact ⟨c, by rw [markFound_other w.plain _ j hne]; exact hc, hu⟩

theorem UW.marks {ex T un} : ∀ (names : List Str) {cs : List Checker}, UW ex T cs un → UW ex T (marksOf T cs names) un
  | [], _, w => w
  | _ :: r, _, w => UW.marks r (w.look _)

theorem UW.store {ex T cs un} (w : UW ex T cs un) (key : Str) (v : Val)
    (H : ∀ n ∈ ancestors key, T.get n = some v)
    (hv : ∀ j, v = .obj j → ex = some j ∧ j < cs.length)
    (hP : ∀ k, ex = some k → k ∉ pendingOf cs key (T.get key)) :
    UW ex (T.set key v) cs (un ++ pendingOf cs key (T.get key)) := by
  refine ⟨w.plain, ?_, ?_, ?_, ?_, ?_⟩
  · intro q j h hne
    by_cases e : q = key
    · subst e; rw [scope_get_set_eq] at h; simp only [Option.some.injEq] at h
      exact absurd (hv j h).1.symm hne
    · rw [scope_get_set_ne _ e] at h
      obtain ⟨c, hc, hor⟩ := w.V q j h hne
      refine ⟨c, hc, ?_⟩
      rcases hor with hor | ⟨h1, h2⟩
      · exact .inl hor
      · right; refine ⟨h1, ?_⟩
        by_cases e2 : c.bind = key
        · exfalso
          rw [e2] at h1
          have := H q h1
          rw [h] at this; simp only [Option.some.injEq] at this
          exact hne (hv j this.symm).1.symm
        · rw [scope_get_set_ne _ e2]; exact h2
  · intro q j h
    by_cases e : q = key
    · subst e; rw [scope_get_set_eq] at h; simp only [Option.some.injEq] at h; exact (hv j h).2
    · rw [scope_get_set_ne _ e] at h; exact w.L q j h
  · intro j hj0 q h
    rcases List.mem_append.mp hj0 with hj | hj
    · by_cases e : q = key
      · rw [e, scope_get_set_eq] at h; simp only [Option.some.injEq] at h
        exact w.X j (hv j h).1 hj
      · rw [scope_get_set_ne _ e] at h; exact w.N j hj q h
    · obtain ⟨c, h1, h2, h3, h4⟩ := (mem_pendingOf_plain w.plain).mp hj
      have hjex : some j ≠ ex := fun e => hP j e.symm hj
      by_cases e : q = key
      · rw [e, scope_get_set_eq] at h; simp only [Option.some.injEq] at h
        exact hjex (hv j h).1.symm
      · rw [scope_get_set_ne _ e] at h
        obtain ⟨c', hc', hor⟩ := w.V q j h hjex
        rw [h2] at hc'; cases hc'
        rcases hor with hor | ⟨a1, _⟩
        · exact e (hor.trans h4)
        · rw [h4] at a1
          have := H q a1
          rw [h] at this; simp only [Option.some.injEq] at this
          exact hjex (hv j this.symm).1.symm
  · intro j hj
    rcases List.mem_append.mp hj with hj | hj
    · exact w.Uf j hj
    · obtain ⟨c, _, h2, h3, _⟩ := (mem_pendingOf_plain w.plain).mp hj
      exact ⟨c, h2, h3⟩
  · intro k hk hm
    rcases List.mem_append.mp hm with hm | hm
    · exact w.X k hk hm
    · exact hP k hk hm

/-- `_visit_Store` at module level, abstractly -/
theorem storeU_abs {u : UState} (h : Shape u) (key : Str) (v : Val) :
    Shape (storeU u key v) ∧ topScope (storeU u key v) = (topScope u).set key v ∧
    (storeU u key v).checkers = marksOf (topScope u) u.checkers (ancestors key) ∧
    (storeU u key v).unused = u.unused ++
      pendingOf (marksOf (topScope u) u.checkers (ancestors key)) key ((topScope u).get key) ∧
    (storeU u key v).line = u.line ∧ Frame u (storeU u key v) := by
  obtain ⟨f1, f2, _, f4, _, _⟩ := storeU_facts h key v
  obtain ⟨_, l2, l3, _, _, _, _, _⟩ := looks_facts (ancestors key) u h
  have lc := looks_checkers (ancestors key) u h
  refine ⟨f1, f2, ?_, ?_, f4, frame_store h key v⟩
  · rw [storeU_eq h]
    show (looks u (ancestors key)).checkers = _
    exact lc
  · rw [storeU_eq h]
    show (looks u (ancestors key)).unused ++ pendingOf (looks u (ancestors key)).checkers key
      ((topScope (looks u (ancestors key))).get key) = _
    rw [l2, l3, lc]

abbrev UWs (ex : Option Nat) (u : UState) : Prop := UW ex (topScope u) u.checkers u.unused

theorem UWs.stU {ex : Option Nat} {u : UState} (h : Shape u) (w : UWs ex u) (key : Str) (v : Val)
    (H : ∀ n ∈ ancestors key, (topScope u).get n = some v)
    (hv : ∀ j, v = .obj j → ex = some j ∧ j < u.checkers.length)
    (hP : ∀ k, ex = some k →
      k ∉ pendingOf (marksOf (topScope u) u.checkers (ancestors key)) key ((topScope u).get key)) :
    UWs ex (storeU u key v) := by
  obtain ⟨_, a2, a3, a4, _, _⟩ := storeU_abs h key v
  have w1 : UW ex (topScope u) (marksOf (topScope u) u.checkers (ancestors key)) u.unused := UW.marks (ancestors key) w
  have sid := (marksOf_facts (topScope u) (ancestors key) u.checkers w.plain).1
  have := w1.store key v H (fun j hj => ⟨(hv j hj).1, by rw [sid.1]; exact (hv j hj).2⟩) hP
  show UW ex (topScope (storeU u key v)) (storeU u key v).checkers (storeU u key v).unused
  rw [a2, a3, a4]; exact this

theorem ancestors_simple {x : Str} (hx : simpleName x = true) : ancestors x = [] := by
  unfold ancestors; rw [prefixes_simple hx]; rfl

theorem UWs.storeSimple {u : UState} (h : Shape u) (w : UWs none u) {x : Str} (hx : simpleName x = true) :
    UWs none (storeU u x .none) :=
  UWs.stU h w x .none (by rw [ancestors_simple hx]; intro n hn; cases hn) (fun j hj => by cases hj)
    (fun k hk => by cases hk)

/-! ### one import alias -/

theorem setUsed_setUsed (cs : List Checker) (k : Nat) (a b : Bool) : setUsed (setUsed cs k a) k b = setUsed cs k b := by
  apply List.ext_getElem?
  intro j
  rw [getElem?_setUsed, getElem?_setUsed, getElem?_setUsed]
  by_cases e : k = j
  · simp only [e, if_true]
    cases cs[j]? <;> rfl
  · simp [e]

theorem setUsed_id {cs : List Checker} {k : Nat} {c : Checker} {b : Bool} (hc : cs[k]? = some c) (hu : c.used = b) :
    setUsed cs k b = cs := by
  unfold setUsed
  apply modify_id_of
  intro a ha
  rw [hc] at ha; cases ha
  cases c; simp only at hu; subst hu; rfl

theorem marks_self {T : Scope} {cs0 : List Checker} {k : Nat} (hp : PlainCs cs0) : ∀ (names : List Str) (flag : Bool),
    (∀ n ∈ names, findInScope T (prefixesRev (splitDots n)) = some (.obj k)) →
    ∃ flag', marksOf T (setUsed cs0 k flag) names = setUsed cs0 k flag'
  | [], flag, _ => ⟨flag, rfl⟩
  | n :: r, flag, h => by
    have h1 : marksOf T (setUsed cs0 k flag) (n :: r) = marksOf T (markFound (setUsed cs0 k flag) (some (.obj k))) r := by
      show marksOf T (markFound _ (findInScope T (prefixesRev (splitDots n)))) r = _
      rw [h n (List.mem_cons_self ..)]
    rw [h1]
    have h2 : markFound (setUsed cs0 k flag) (some (.obj k)) = setUsed cs0 k true := by
      show markUsed _ k = _
      rw [markUsed_plain (hp.sameId (setUsed_sameId cs0 k flag)), setUsed_setUsed]
    rw [h2]
    exact marks_self hp r true (fun m hm => h m (List.mem_cons_of_mem _ hm))

theorem UW.fresh {T cs un} (w : UW none T cs un) (b : Str) (l i : Nat) :
    UW (some cs.length) T (cs ++ [freshChecker b l i]) un := by
  refine ⟨w.plain.append b l i, ?_, ?_, w.N, ?_, ?_⟩
  · intro q j h _
    obtain ⟨c, hc, hor⟩ := w.V q j h (by simp)
    exact ⟨c, getElem?_append_some _ hc, hor⟩
  · intro q j h
    have := w.L q j h
    simp only [List.length_append, List.length_cons, List.length_nil]; omega
  · intro j hj
    obtain ⟨c, hc, hu⟩ := w.Uf j hj
    exact ⟨c, getElem?_append_some _ hc, hu⟩
  · intro k hk hm
    simp only [Option.some.injEq] at hk
    obtain ⟨c, hc, _⟩ := w.Uf k hm
    have := (List.getElem?_eq_some_iff.mp hc).1
    omega

theorem alias_fold {b : Str} {k l i : Nat} {cs0 : List Checker} (hp0 : PlainCs cs0) (hk0 : cs0[k]? = some (freshChecker b l i)) :
    ∀ (rest done : List Str) (u : UState), Shape u → UWs (some k) u →
    (∀ q, (topScope u).get q = some (.obj k) ↔ q ∈ done) →
    (∃ flag, u.checkers = setUsed cs0 k flag) →
    (∀ pre key post, rest = pre ++ key :: post → (∀ n ∈ ancestors key, n ∈ done ++ pre) ∧ b ∉ done ++ pre) →
    Shape (rest.foldl (fun st key => storeU st key (.obj k)) u) ∧
    UWs (some k) (rest.foldl (fun st key => storeU st key (.obj k)) u) ∧
    (∀ q, (topScope (rest.foldl (fun st key => storeU st key (.obj k)) u)).get q =
      if q ∈ rest then some (.obj k) else (topScope u).get q) ∧
    (∃ flag, (rest.foldl (fun st key => storeU st key (.obj k)) u).checkers = setUsed cs0 k flag) ∧
    (rest.foldl (fun st key => storeU st key (.obj k)) u).line = u.line ∧
    Frame u (rest.foldl (fun st key => storeU st key (.obj k)) u)
  | [], _, u, h, w, _, hf, _ => ⟨h, w, fun q => by simp, hf, rfl, Frame.refl u⟩
  | key :: post, done, u, h, w, hvk, ⟨flag, hf⟩, hch => by
    simp only [List.foldl_cons]
    obtain ⟨a1, a2, a3, a4, a5, a6⟩ := storeU_abs h key (.obj k)
    obtain ⟨hanc, hbd⟩ := hch [] key post rfl
    simp only [List.append_nil] at hanc hbd
    have hklt : k < cs0.length := (List.getElem?_eq_some_iff.mp hk0).1
    have hH : ∀ n ∈ ancestors key, (topScope u).get n = some (.obj k) := fun n hn => (hvk n).mpr (hanc n hn)
    obtain ⟨flag', hm⟩ := marks_self (T := topScope u) hp0 (ancestors key) flag
      (fun n hn => findInScope_self _ n _ (hH n hn))
    rw [← hf] at hm
    have w1 : UWs (some k) (storeU u key (.obj k)) := by
      refine UWs.stU h w key (.obj k) hH ?_ ?_
      · intro j hj
        simp only [Val.obj.injEq] at hj
        subst hj
        exact ⟨rfl, by rw [hf]; simp [setUsed]; exact hklt⟩
      · intro k' hk' hmem
        simp only [Option.some.injEq] at hk'
        subst hk'
        rw [hm] at hmem
        have hpl : PlainCs (setUsed cs0 k flag') := hp0.sameId (setUsed_sameId cs0 k flag')
        obtain ⟨c, h1, h2, _, h4⟩ := (mem_pendingOf_plain hpl).mp hmem
        rw [getElem?_setUsed, if_pos rfl, hk0] at h2
        simp only [Option.map_some, Option.some.injEq] at h2
        subst h2
        have : key ∈ done := (hvk key).mp h1
        simp only [freshChecker] at h4
        rw [← h4] at this
        exact hbd this
    obtain ⟨g1, g2, g3, g4, g5, g6⟩ := alias_fold hp0 hk0 post (done ++ [key]) (storeU u key (.obj k)) a1 w1
      (by
        intro q
        rw [a2]
        by_cases e : q = key
        · subst e; simp [scope_get_set_eq]
        · rw [scope_get_set_ne _ e, hvk q]; simp [e])
      ⟨flag', by rw [a3]; exact hm⟩
      (by
        intro pre key2 post2 he
        have := hch (key :: pre) key2 post2 (by rw [he]; rfl)
        simpa using this)
    refine ⟨g1, g2, ?_, g4, g5.trans a5, a6.trans g6⟩
    intro q
    rw [g3 q, a2]
    by_cases e : q = key
    · subst e; simp [scope_get_set_eq]
    · rw [scope_get_set_ne _ e]; simp [e]

theorem dropLast_length_lt : ∀ (ps : List Str) (P : List Str), P ∈ (prefixes ps).dropLast → P.length < ps.length
  | [], P, h => by simp [prefixes] at h
  | [x], P, h => by simp [prefixes] at h
  | x :: y :: r, P, h => by
    have hne : (prefixes (y :: r)).map (fun z => x :: z) ≠ [] := by simp [prefixes]
    have e : (prefixes (x :: y :: r)).dropLast = [x] :: ((prefixes (y :: r)).dropLast).map (fun z => x :: z) := by
      show ([x] :: (prefixes (y :: r)).map (fun z => x :: z)).dropLast = _
      rw [List.dropLast_cons_of_ne_nil hne, List.map_dropLast]
    rw [e] at h
    rcases List.mem_cons.mp h with rfl | h
    · simp
    · obtain ⟨Q, hQ, rfl⟩ := List.mem_map.mp h
      have := dropLast_length_lt (y :: r) Q hQ
      simp only [List.length_cons] at this ⊢; omega

theorem not_mem_ancestors_self {b : Str} (hparts : ∀ p ∈ splitDots b, simpleName p = true) : b ∉ ancestors b := by
  intro h
  unfold ancestors at h
  obtain ⟨P, hP, hj⟩ := List.mem_map.mp h
  have hP' : P ∈ prefixes (splitDots b) := List.dropLast_subset _ hP
  have hsd : splitDots (joinDots P) = P :=
    splitDots_joinDots P (prefixes_mem_ne_nil hP') (fun y hy => simpleName_dotFree (hparts y (prefixes_sub hP' y hy)))
  rw [hj] at hsd
  have := dropLast_length_lt _ P hP
  rw [hsd] at this
  exact Nat.lt_irrefl _ this

/-- the keys of an admissible alias: the ancestors of the bound name, then the bound name -/
theorem keysOf_shape {a : Alias} (hparts : ∀ p ∈ splitDots a.name, simpleName p = true)
    (has : ∀ n, a.asname = some n → simpleName n = true) :
    keysOf a = ancestors (a.asname.getD a.name) ++ [a.asname.getD a.name] ∧
      a.asname.getD a.name ∉ ancestors (a.asname.getD a.name) := by
  obtain ⟨_, hstar⟩ := chainOK_keysOf hparts has
  cases hasn : a.asname with
  | some n =>
    have hn := has n hasn
    simp only [Option.getD_some]
    rw [ancestors_simple hn]
    exact ⟨by simp [keysOf, hasn], by simp⟩
  | none =>
    simp only [Option.getD_none]
    refine ⟨?_, not_mem_ancestors_self hparts⟩
    unfold keysOf ancestors
    simp [hasn, hstar]

theorem append_singleton_split {α} {pre post A : List α} {key b : α} (h : pre ++ key :: post = A ++ [b]) (hb : b ∈ pre) : b ∈ A := by
  rcases List.append_eq_append_iff.mp h with ⟨a', h1, _⟩ | ⟨c', h1, h2⟩
  · rw [h1]; exact List.mem_append_left _ hb
  · have hl := congrArg List.length h2
    simp only [List.length_cons, List.length_nil, List.length_append] at hl
    have : c' = [] := List.eq_nil_of_length_eq_zero (by omega)
    rw [this, List.append_nil] at h1
    rw [← h1]; exact hb

/-- one `import` alias that creates a checker -/
theorem alias_step {u : UState} (h : Shape u) (w : UWs none u) {keys : List Str} {b : Str} (idx : Nat)
    (hk : keys = ancestors b ++ [b]) (hb : b ∉ ancestors b) (hch : ChainOK keys) :
    Shape (stepU u (.importAlias keys b idx false)) ∧ UWs none (stepU u (.importAlias keys b idx false)) ∧
    (stepU u (.importAlias keys b idx false)).checkers = u.checkers ++ [freshChecker b u.line idx] ∧
    (∀ q, (topScope (stepU u (.importAlias keys b idx false))).get q =
      if q ∈ keys then some (.obj u.checkers.length) else (topScope u).get q) ∧
    (stepU u (.importAlias keys b idx false)).line = u.line ∧ Frame u (stepU u (.importAlias keys b idx false)) := by
  rw [stepU_alias]
  have hk0 : (u.checkers ++ [freshChecker b u.line idx])[u.checkers.length]? = some (freshChecker b u.line idx) :=
    getElem?_append_new _ _
  have hp0 : PlainCs (u.checkers ++ [freshChecker b u.line idx]) := w.plain.append _ _ _
  have w0 : UWs (some u.checkers.length) { u with checkers := u.checkers ++ [freshChecker b u.line idx] } := UW.fresh w b u.line idx
  obtain ⟨g1, g2, g3, ⟨flag, g4⟩, g5, g6⟩ := alias_fold hp0 hk0 keys [] { u with checkers := u.checkers ++ [freshChecker b u.line idx] }
    (h.checkers _) w0
    (by
      intro q
      simp only [List.not_mem_nil, iff_false]
      intro hq
      exact Nat.lt_irrefl _ (w.L q _ hq))
    ⟨false, (setUsed_id (b := false) hk0 rfl).symm⟩
    (by
      intro pre key post he
      simp only [List.nil_append]
      refine ⟨hch pre key post he, fun hbp => hb ?_⟩
      rw [hk] at he
      exact append_singleton_split he.symm hbp)
  generalize keys.foldl (fun st key => storeU st key (.obj u.checkers.length))
      { u with checkers := u.checkers ++ [freshChecker b u.line idx] } = u2 at g1 g2 g3 g4 g5 g6 ⊢
  have hreset : resetUsed u2.checkers u.checkers.length = u.checkers ++ [freshChecker b u.line idx] := by
    rw [resetUsed_plain g2.plain, g4, setUsed_setUsed, setUsed_id (b := false) hk0 rfl]
  rw [hreset]
  have g3' : ∀ q, (topScope u2).get q = if q ∈ keys then some (.obj u.checkers.length) else (topScope u).get q := fun q => g3 q
  refine ⟨g1.checkers _, ?_, rfl, g3', g5, (frame_checkers u _).trans (g6.trans (frame_checkers _ _))⟩
  show UW none (topScope u2) (u.checkers ++ [freshChecker b u.line idx]) u2.unused
  have hget : ∀ j, j ≠ u.checkers.length → ∀ c, (setUsed (u.checkers ++ [freshChecker b u.line idx]) u.checkers.length flag)[j]? = some c →
      (u.checkers ++ [freshChecker b u.line idx])[j]? = some c := by
    intro j hj c hc
    rw [getElem?_setUsed, if_neg (Ne.symm hj)] at hc; exact hc
  refine ⟨hp0, ?_, ?_, g2.N, ?_, fun k hk => by cases hk⟩
  · intro q j hq _
    by_cases e : j = u.checkers.length
    · subst e
      refine ⟨_, hk0, ?_⟩
      have hmem : q ∈ keys := by
        by_cases hn : q ∈ keys
        · exact hn
        · rw [g3' q, if_neg hn] at hq
          exact absurd (w.L q _ hq) (Nat.lt_irrefl _)
      rw [hk] at hmem
      show q = b ∨ (q ∈ ancestors b ∧ (topScope u2).get b = _)
      rcases List.mem_append.mp hmem with hm | hm
      · right
        refine ⟨hm, ?_⟩
        rw [g3' b, if_pos (by rw [hk]; simp)]
      · left; simpa using hm
    · obtain ⟨c, hc, hor⟩ := g2.V q j hq (by simpa using e)
      rw [g4] at hc
      exact ⟨c, hget j e c hc, hor⟩
  · intro q j hq
    have := g2.L q j hq
    rw [g4] at this
    simpa [setUsed] using this
  · intro j hj
    obtain ⟨c, hc, hu⟩ := g2.Uf j hj
    rw [g4] at hc
    have e : j ≠ u.checkers.length := fun e => g2.X _ rfl (e ▸ hj)
    exact ⟨c, hget j e c hc, hu⟩

/-! ### part 2: the missing-import analysis at module level -/

def ATop (st : AState) : Scope := st.heap.get st.stack.top

/-- the registry (`sys.modules`) holds no `None` -/
def regNoNone (reg : Registry) : Bool := reg.mods.all (fun m => m.2 != Val.none)

theorem regNoNone_get {reg : Registry} (h : regNoNone reg = true) (p : Str) : reg.get p ≠ some .none := by
  intro hc
  have hm := assocGet_mem hc
  simp only [regNoNone, List.all_eq_true] at h
  have := h _ hm
  simp at this

theorem deadend_none {reg : Registry} (hr : regNoNone reg = true) {pn : Str} {rest : List Str} :
    ¬ ∃ pre part post var' pname', rest = pre ++ part :: post ∧ Follows reg .none pn pre var' pname' ∧
      reg.get pname' = some var' ∧ reg.getattr var' part = none := by
  rintro ⟨pre, part, post, var', pname', _, hf, hg, _⟩
  cases hf with
  | nil => exact regNoNone_get hr _ hg
  | cons h1 _ _ => exact regNoNone_get hr _ h1

/-- the needs-import decision only depends on which prefixes the (None-valued) top scope binds -/
theorem sni_congr {reg : Registry} (hr : regNoNone reg = true) (ho hn : Heap) (ids : List Nat) (tp : Nat) (n : Str)
    (outer : ∀ i, i ≠ tp → ∀ q, (hn.get i).get q = (ho.get i).get q)
    (vo : ∀ q v, (ho.get tp).get q = some v → v = .none) (vn : ∀ q v, (hn.get tp).get q = some v → v = .none)
    (pre : (∃ p ∈ prefixes (splitDots n), ((ho.get tp).get (joinDots p)).isSome = true) ↔
      (∃ p ∈ prefixes (splitDots n), ((hn.get tp).get (joinDots p)).isSome = true)) :
    (symbolNeedsImport reg hn ids n).1 = (symbolNeedsImport reg ho ids n).1 := by
  rw [Bool.eq_iff_iff, symbolNeedsImport_spec, symbolNeedsImport_spec]
  constructor
  · intro h i hi p hp var hv
    by_cases e : i = tp
    · exfalso
      subst e
      obtain ⟨p', hp', hs⟩ := pre.mp ⟨p, hp, by rw [hv]; rfl⟩
      cases hg : (hn.get i).get (joinDots p') with
      | none => rw [hg] at hs; cases hs
      | some w =>
        have hw := vn _ _ hg
        subst hw
        exact deadend_none hr (h i hi p' hp' _ hg)
    · rw [← outer i e] at hv; exact h i hi p hp var hv
  · intro h i hi p hp var hv
    by_cases e : i = tp
    · exfalso
      subst e
      obtain ⟨p', hp', hs⟩ := pre.mpr ⟨p, hp, by rw [hv]; rfl⟩
      cases hg : (ho.get i).get (joinDots p') with
      | none => rw [hg] at hs; cases hs
      | some w =>
        have hw := vo _ _ hg
        subst hw
        exact deadend_none hr (h i hi p' hp' _ hg)
    · rw [outer i e] at hv; exact h i hi p hp var hv

theorem hasStar_congr (ho hn : Heap) (ids : List Nat) (h : ∀ i ∈ ids, (hn.get i).get ['*'] = (ho.get i).get ['*']) :
    hasStar hn ids = hasStar ho ids := by
  unfold hasStar
  induction ids with
  | nil => rfl
  | cons i r ih =>
    simp only [List.any_cons]
    rw [h i (List.mem_cons_self ..), ih (fun j hj => h j (List.mem_cons_of_mem _ hj))]

theorem checkLoad_facts (reg : Registry) (st : AState) (name : Str) (ids : List Nat) (line : Nat) :
    (checkLoad reg st name ids line).heap = st.heap ∧ (checkLoad reg st name ids line).stack = st.stack ∧
    (checkLoad reg st name ids line).inFunc = st.inFunc ∧ (checkLoad reg st name ids line).deferred = st.deferred ∧
    (checkLoad reg st name ids line).line = st.line ∧
    ∀ m, m ∈ (checkLoad reg st name ids line).missing.map (·.name) ↔
      m ∈ st.missing.map (·.name) ∨ (((symbolNeedsImport reg st.heap ids name).1 && !hasStar st.heap ids) = true ∧ m = name) := by
  unfold checkLoad
  dsimp only
  by_cases hneed : ((symbolNeedsImport reg st.heap ids name).1 && !hasStar (st.emit (symbolNeedsImport reg st.heap ids name).2).heap ids) = true
  · rw [if_pos hneed]
    have hneed' : ((symbolNeedsImport reg st.heap ids name).1 && !hasStar st.heap ids) = true := hneed
    split
    · rename_i hany
      refine ⟨rfl, rfl, rfl, rfl, rfl, fun m => ⟨fun h => .inl h, fun h => ?_⟩⟩
      rcases h with h | ⟨_, rfl⟩
      · exact h
      · simp only [AState.emit, List.any_eq_true, decide_eq_true_eq] at hany
        obtain ⟨x, hx, _, hxn⟩ := hany
        exact List.mem_map.mpr ⟨x, hx, hxn⟩
    · refine ⟨rfl, rfl, rfl, rfl, rfl, fun m => ?_⟩
      simp only [AState.emit, List.map_append, List.mem_append, List.map_cons, List.map_nil, List.mem_singleton]
      constructor
      · rintro (h | h)
        · exact .inl h
        · exact .inr ⟨hneed', h⟩
      · rintro (h | ⟨_, h⟩)
        · exact .inl h
        · exact .inr h
  · rw [if_neg hneed]
    have hneed' : ¬ ((symbolNeedsImport reg st.heap ids name).1 && !hasStar st.heap ids) = true := hneed
    refine ⟨rfl, rfl, rfl, rfl, rfl, fun m => ⟨fun h => .inl h, fun h => ?_⟩⟩
    rcases h with h | ⟨h, _⟩
    · exact h
    · exact absurd h hneed'

def Good (U : List (Nat × Nat)) (cs : List Checker) : Prop := ∀ (k : Nat) (c : Checker), cs[k]? = some c → c.used = true → pairOf c ∉ U

theorem Good.back {U : List (Nat × Nat)} {cs cs' : List Checker} (g : Good U cs') (s : SameId cs cs') (m : UsedMono cs cs') : Good U cs := by
  intro k c hc hu
  obtain ⟨c', hc'⟩ := s.back hc
  obtain ⟨c2, hc2, _, _, _, e4, e5⟩ := s.2 k c' hc'
  rw [hc] at hc2; cases hc2
  have := g k c' hc' (m k c c' hc hc' hu)
  unfold pairOf at this ⊢
  rw [← e4, ← e5]; exact this

def AEq (ao an : AState) : Prop :=
  (∀ m, m ∈ an.missing.map (·.name) ↔ m ∈ ao.missing.map (·.name)) ∧
  an.deferred.map (fun d => (d.name, d.ids)) = ao.deferred.map (fun d => (d.name, d.ids))

structure Sim3 (U : List (Nat × Nat)) (ao an : AState) (uo : UState) : Prop where
  su : Shape uo
  wu : UWs none uo
  stk : an.stack = ao.stack
  fo : ao.inFunc = false
  fn : an.inFunc = false
  lo : ao.stack.top < ao.heap.length
  ln : an.stack.top < an.heap.length
  tp2 : 2 ≤ ao.stack.top
  tpm : ao.stack.top ∈ normIds ao.stack.ids
  outer : ∀ i, i ≠ ao.stack.top → ∀ q, (an.heap.get i).get q = (ao.heap.get i).get q
  vo : ∀ q v, (ATop ao).get q = some v → v = .none
  vn : ∀ q v, (ATop an).get q = some v → v = .none
  low : ∀ i, i = 0 ∨ i = 1 → ∀ q, (uo.heap.get i).get q = (ao.heap.get i).get q ∧ ∀ v, (ao.heap.get i).get q = some v → v = .none
  u3 : ∀ q, (uo.heap.get 3).get q = none
  nostar : (ATop ao).get ['*'] = none
  keysU : ∀ q, ((ATop ao).get q).isSome = ((topScope uo).get q).isSome
  sub : ∀ q, ((ATop an).get q).isSome = true → ((ATop ao).get q).isSome = true
  keepN : ∀ q, (topScope uo).get q = some .none → ((ATop an).get q).isSome = true
  keepO : ∀ q k c, (topScope uo).get q = some (.obj k) → uo.checkers[k]? = some c → pairOf c ∉ U → ((ATop an).get q).isSome = true
  defSub : ∀ d ∈ ao.deferred, d.name ∈ (uo.deferred ++ uo.useMarks).map (·.1)
  cond : Good U uo.checkers → AEq ao an

theorem Sim3.topN {U ao an uo} (s : Sim3 U ao an uo) : ATop an = an.heap.get ao.stack.top := by unfold ATop; rw [s.stk]

/-- a name has a bound prefix in the top scope of the original program iff it has one in the reduced program, provided the
    checker the unused-import analysis finds for it is not one of the deleted ones -/
theorem Sim3.prefixEquiv {U ao an uo} (s : Sim3 U ao an uo) (n : Str)
    (hfound : ∀ k c, findInScope (topScope uo) (prefixesRev (splitDots n)) = some (.obj k) → uo.checkers[k]? = some c → pairOf c ∉ U) :
    (∃ p ∈ prefixes (splitDots n), ((ATop ao).get (joinDots p)).isSome = true) ↔
      (∃ p ∈ prefixes (splitDots n), ((ATop an).get (joinDots p)).isSome = true) := by
  constructor
  · rintro ⟨p, hp, hs⟩
    rw [s.keysU] at hs
    cases hf : findInScope (topScope uo) (prefixesRev (splitDots n)) with
    | none =>
      exfalso
      rw [findInScope_none_iff] at hf
      have := hf p (by unfold prefixesRev; exact List.mem_reverse.mpr hp)
      rw [this] at hs; cases hs
    | some v =>
      obtain ⟨p', hp', hv⟩ := findInScope_some hf
      have hp'' : p' ∈ prefixes (splitDots n) := by unfold prefixesRev at hp'; exact List.mem_reverse.mp hp'
      cases v with
      | none => exact ⟨p', hp'', s.keepN _ hv⟩
      | obj k =>
        have hk := s.wu.L _ k hv
        exact ⟨p', hp'', s.keepO _ k _ hv (List.getElem?_eq_getElem hk) (hfound k _ hf (List.getElem?_eq_getElem hk))⟩
  · rintro ⟨p, hp, hs⟩
    exact ⟨p, hp, s.sub _ hs⟩

theorem Sim3.sniEq {reg : Registry} (hr : regNoNone reg = true) {U ao an uo} (s : Sim3 U ao an uo) (n : Str)
    (hfound : ∀ k c, findInScope (topScope uo) (prefixesRev (splitDots n)) = some (.obj k) → uo.checkers[k]? = some c → pairOf c ∉ U) :
    (symbolNeedsImport reg an.heap an.stack.ids n).1 = (symbolNeedsImport reg ao.heap ao.stack.ids n).1 := by
  rw [s.stk]
  refine sni_congr hr ao.heap an.heap ao.stack.ids ao.stack.top n s.outer s.vo (by rw [← s.topN]; exact s.vn) ?_
  have := s.prefixEquiv n hfound
  rw [s.topN] at this
  exact this

theorem Sim3.starEq {U ao an uo} (s : Sim3 U ao an uo) : hasStar an.heap an.stack.ids = hasStar ao.heap ao.stack.ids := by
  rw [s.stk]
  apply hasStar_congr
  intro i _
  by_cases e : i = ao.stack.top
  · subst e
    have h1 : (ATop ao).get ['*'] = none := s.nostar
    have h2 : (ATop an).get ['*'] = none := by
      cases h : (ATop an).get ['*'] with
      | none => rfl
      | some v =>
        have := s.sub ['*'] (by rw [h]; rfl)
        rw [h1] at this; cases this
    rw [s.topN] at h2
    rw [h2]; exact h1.symm
  · exact s.outer i e _

theorem topScope_of_heap {u u' : UState} (h : u'.heap = u.heap) : topScope u' = topScope u := by unfold topScope; rw [h]

theorem Sim3.reU {U ao an uo uo'} (s : Sim3 U ao an uo) (su : Shape uo') (wu : UWs none uo') (hh : uo'.heap = uo.heap)
    (sid : SameId uo.checkers uo'.checkers) (mono : UsedMono uo.checkers uo'.checkers)
    (hd : ∀ e ∈ uo.deferred ++ uo.useMarks, e ∈ uo'.deferred ++ uo'.useMarks) : Sim3 U ao an uo' := by
  have ht := topScope_of_heap hh
  refine { su := su, wu := wu, stk := s.stk, fo := s.fo, fn := s.fn, lo := s.lo, ln := s.ln, tp2 := s.tp2, tpm := s.tpm,
           outer := s.outer, vo := s.vo, vn := s.vn, low := by rw [hh]; exact s.low, u3 := by rw [hh]; exact s.u3,
           nostar := s.nostar, keysU := by rw [ht]; exact s.keysU, sub := s.sub, keepN := by rw [ht]; exact s.keepN,
           keepO := ?_, defSub := ?_, cond := fun g => s.cond (g.back sid mono) }
  · intro q k c' hq hc' hp
    rw [ht] at hq
    obtain ⟨c, hc, _, _, _, e4, e5⟩ := sid.2 k c' hc'
    refine s.keepO q k c hq hc ?_
    unfold pairOf at hp ⊢
    rw [← e4, ← e5]; exact hp
  · intro d hdm
    obtain ⟨e, he, hee⟩ := List.mem_map.mp (s.defSub d hdm)
    exact List.mem_map.mpr ⟨e, hd e he, hee⟩

theorem Sim3.reA {U ao an uo ao' an'} (s : Sim3 U ao an uo)
    (ho : ao'.heap = ao.heap) (hso : ao'.stack = ao.stack) (hfo : ao'.inFunc = ao.inFunc)
    (hdo : ∀ d ∈ ao'.deferred, d.name ∈ (uo.deferred ++ uo.useMarks).map (·.1))
    (hn : an'.heap = an.heap) (hsn : an'.stack = an.stack) (hfn : an'.inFunc = an.inFunc)
    (hc : Good U uo.checkers → AEq ao' an') : Sim3 U ao' an' uo := by
  have hto : ATop ao' = ATop ao := by unfold ATop; rw [ho, hso]
  have htn : ATop an' = ATop an := by unfold ATop; rw [hn, hsn]
  exact { su := s.su, wu := s.wu, stk := by rw [hsn, hso]; exact s.stk, fo := by rw [hfo]; exact s.fo, fn := by rw [hfn]; exact s.fn,
          lo := by rw [ho, hso]; exact s.lo, ln := by rw [hn, hsn]; exact s.ln, tp2 := by rw [hso]; exact s.tp2,
          tpm := by rw [hso]; exact s.tpm, outer := by rw [ho, hn, hso]; exact s.outer, vo := by rw [hto]; exact s.vo,
          vn := by rw [htn]; exact s.vn, low := by rw [ho]; exact s.low, u3 := s.u3, nostar := by rw [hto]; exact s.nostar,
          keysU := by rw [hto]; exact s.keysU, sub := by rw [hto, htn]; exact s.sub, keepN := by rw [htn]; exact s.keepN,
          keepO := by rw [htn]; exact s.keepO, defSub := hdo, cond := hc }

/-- the checker found by a lookup is marked afterwards: under `Good` it is not a deleted one -/
theorem found_good {U : List (Nat × Nat)} {cs : List Checker} (hp : PlainCs cs) (f : Option Val)
    (g : Good U (markFound cs f)) : ∀ (k : Nat) (c : Checker), f = some (.obj k) → cs[k]? = some c → pairOf c ∉ U := by
  intro k c hf hc
  subst hf
  have sid := markFound_sameId hp (some (.obj k))
  obtain ⟨c', hc'⟩ := sid.back hc
  obtain ⟨c2, hc2, _, _, _, e4, e5⟩ := sid.2 k c' hc'
  rw [hc] at hc2; cases hc2
  have := g k c' hc' (markFound_at hp k hc')
  unfold pairOf at this ⊢
  rw [← e4, ← e5]; exact this

theorem Sim3.load {reg : Registry} (hr : regNoNone reg = true) {U ao an uo} (s : Sim3 U ao an uo) (d : Str) :
    Sim3 U (checkLoad reg ao d ao.stack.ids ao.line) (checkLoad reg an d an.stack.ids an.line)
      { uo with checkers := markFound uo.checkers (findInScope (topScope uo) (prefixesRev (splitDots d))) } := by
  obtain ⟨o1, o2, o3, o4, _, o6⟩ := checkLoad_facts reg ao d ao.stack.ids ao.line
  obtain ⟨n1, n2, n3, n4, _, n6⟩ := checkLoad_facts reg an d an.stack.ids an.line
  have sid := markFound_sameId s.wu.plain (findInScope (topScope uo) (prefixesRev (splitDots d)))
  have mono := markFound_mono s.wu.plain (findInScope (topScope uo) (prefixesRev (splitDots d)))
  have s1 : Sim3 U ao an { uo with checkers := markFound uo.checkers (findInScope (topScope uo) (prefixesRev (splitDots d))) } :=
    s.reU (s.su.checkers _) (s.wu.look _) rfl sid mono (fun e he => he)
  refine s1.reA o1 o2 o3 (by rw [o4]; exact s1.defSub) n1 n2 n3 ?_
  intro g
  obtain ⟨a1, a2⟩ := s.cond (g.back sid mono)
  have hsni := s.sniEq hr d (found_good s.wu.plain _ g)
  refine ⟨fun m => ?_, by rw [n4, o4]; exact a2⟩
  rw [n6 m, o6 m, a1 m, hsni, s.starEq]

theorem deferGlobal_facts (reg : Registry) (st : AState) (n : Str) :
    (deferGlobal reg st n).heap = st.heap ∧ (deferGlobal reg st n).stack = st.stack ∧
    (deferGlobal reg st n).inFunc = st.inFunc ∧ (deferGlobal reg st n).missing = st.missing ∧
    (deferGlobal reg st n).line = st.line ∧
    (deferGlobal reg st n).deferred =
      if (symbolNeedsImport reg st.heap st.stack.ids n).1 = true then st.deferred ++ [⟨n, st.stack.ids, st.line⟩] else st.deferred := by
  unfold deferGlobal
  dsimp only
  split <;> simp [AState.emit, *]

theorem findBinding_none_of {heap : Heap} {parts : List Str} : ∀ (l : List Nat),
    (∀ i ∈ l, ∀ p ∈ prefixes parts, (heap.get i).get (joinDots p) = none) → findBinding heap parts l = none
  | [], _ => rfl
  | i :: r, h => by
    simp only [findBinding]
    have : findInScope (heap.get i) (prefixesRev parts) = none := by
      rw [findInScope_none_iff]
      intro p hp
      exact h i (List.mem_cons_self ..) p (by unfold prefixesRev at hp; exact List.mem_reverse.mp hp)
    rw [this]
    exact findBinding_none_of r (fun j hj => h j (List.mem_cons_of_mem _ hj))

/-- a name that the missing-import analysis defers is deferred by the unused-import analysis too -/
theorem Sim3.needsU {reg : Registry} (hr : regNoNone reg = true) {U ao an uo} (s : Sim3 U ao an uo) (n : Str)
    (h : (symbolNeedsImport reg ao.heap ao.stack.ids n).1 = true) : (sniU uo uo.stack.ids n).1 = true := by
  rw [symbolNeedsImport_spec] at h
  have hnone : ∀ i ∈ normIds ao.stack.ids, (∀ q v, (ao.heap.get i).get q = some v → v = .none) →
      ∀ p ∈ prefixes (splitDots n), (ao.heap.get i).get (joinDots p) = none := by
    intro i hi hv p hp
    cases hg : (ao.heap.get i).get (joinDots p) with
    | none => rfl
    | some w =>
      have := hv _ _ hg
      subst this
      exact absurd (h i hi p hp _ hg) (deadend_none hr)
  rw [sniU_fst s.su]
  constructor
  · rw [findInScope_none_iff]
    intro p hp
    have hp' : p ∈ prefixes (splitDots n) := by unfold prefixesRev at hp; exact List.mem_reverse.mp hp
    have := hnone _ s.tpm s.vo p hp'
    have hk := s.keysU (joinDots p)
    unfold ATop at hk
    rw [this] at hk
    cases hg : (topScope uo).get (joinDots p) with
    | none => rfl
    | some w => rw [hg] at hk; cases hk
  · apply findBinding_none_of
    intro i hi p hp
    simp only [List.mem_cons, List.not_mem_nil, or_false] at hi
    rcases hi with rfl | rfl | rfl
    · exact s.u3 _
    · rw [(s.low 1 (.inr rfl) _).1]
      exact hnone 1 (mem_normIds_iff.mpr (.inr (.inl rfl))) (fun q v hq => (s.low 1 (.inr rfl) q).2 v hq) p hp
    · rw [(s.low 0 (.inl rfl) _).1]
      exact hnone 0 (mem_normIds_iff.mpr (.inl rfl)) (fun q v hq => (s.low 0 (.inl rfl) q).2 v hq) p hp

/-- the three analyses store the same keys (`bn = false`: the reduced program does not have the statement) -/
theorem Sim3.storeKeys {U ao an uo} (s : Sim3 U ao an uo) (keys : List Str) (bn : Bool) (val : Val) (uo' : UState)
    (extra : List Checker) (su : Shape uo') (wu : UWs none uo') (fr : Frame uo uo')
    (hT : ∀ q, (topScope uo').get q = if q ∈ keys then some val else (topScope uo).get q)
    (hcs : uo'.checkers = uo.checkers ++ extra)
    (hbn : bn = false → ∃ (k : Nat) (c : Checker), val = .obj k ∧ uo'.checkers[k]? = some c ∧ pairOf c ∈ U)
    (hstar : ['*'] ∉ keys) :
    Sim3 U (keys.foldl storeTop ao) (if bn then keys.foldl storeTop an else an) uo' := by
  obtain ⟨o1, o2, o3, o4, o5, o6⟩ := storeKeys_get keys ao s.lo
  have hN : (if bn then keys.foldl storeTop an else an).stack = an.stack ∧
      (if bn then keys.foldl storeTop an else an).heap.length = an.heap.length ∧
      (if bn then keys.foldl storeTop an else an).inFunc = an.inFunc ∧
      (if bn then keys.foldl storeTop an else an).missing = an.missing ∧
      (if bn then keys.foldl storeTop an else an).deferred = an.deferred ∧
      ∀ i q, ((if bn then keys.foldl storeTop an else an).heap.get i).get q =
        if bn = true ∧ i = an.stack.top ∧ q ∈ keys then some Val.none else (an.heap.get i).get q := by
    cases bn with
    | false => simp
    | true => simpa using storeKeys_get keys an s.ln
  generalize (if bn then keys.foldl storeTop an else an) = an' at hN ⊢
  obtain ⟨n1, n2, n3, n4, n5, n6⟩ := hN
  have hstk : an'.stack = (keys.foldl storeTop ao).stack := by rw [n1, o1]; exact s.stk
  have htop : an.stack.top = ao.stack.top := by rw [s.stk]
  have hTo : ∀ q, (ATop (keys.foldl storeTop ao)).get q = if q ∈ keys then some Val.none else (ATop ao).get q := by
    intro q; unfold ATop; rw [o1, o6]; simp
  have hTn : ∀ q, (ATop an').get q = if bn = true ∧ q ∈ keys then some Val.none else (ATop an).get q := by
    intro q; unfold ATop; rw [n1, n6]; simp
  have hbnT : ∀ q, q ∈ keys → (∀ (k : Nat) (c : Checker), val = .obj k → uo'.checkers[k]? = some c → pairOf c ∉ U) → bn = true := by
    intro q _ hh
    cases hb : bn with
    | true => rfl
    | false =>
      obtain ⟨k, c, e1, e2, e3⟩ := hbn hb
      exact absurd e3 (hh k c e1 e2)
  have hold : ∀ (k : Nat) (c : Checker), k < uo.checkers.length → uo'.checkers[k]? = some c → uo.checkers[k]? = some c := by
    intro k c hk hc
    rw [hcs, List.getElem?_append_left hk] at hc; exact hc
  refine { su := su, wu := wu, stk := hstk, fo := by rw [o3]; exact s.fo, fn := by rw [n3]; exact s.fn,
           lo := by rw [o1, o2]; exact s.lo, ln := by rw [n1, n2]; exact s.ln, tp2 := by rw [o1]; exact s.tp2,
           tpm := by rw [o1]; exact s.tpm, outer := ?_, vo := ?_, vn := ?_, low := ?_, u3 := ?_, nostar := ?_, keysU := ?_,
           sub := ?_, keepN := ?_, keepO := ?_, defSub := ?_, cond := ?_ }
  · intro i hi q
    rw [o1] at hi
    rw [n6, o6, if_neg (fun h => hi (h.2.1.trans htop)), if_neg (fun h => hi h.1)]
    exact s.outer i hi q
  · intro q v h
    rw [hTo] at h
    split at h
    · cases h; rfl
    · exact s.vo q v h
  · intro q v h
    rw [hTn] at h
    split at h
    · cases h; rfl
    · exact s.vn q v h
  · intro i hi q
    have h4 : i ≠ 4 := by rcases hi with rfl | rfl <;> decide
    have htp : i ≠ ao.stack.top := by have := s.tp2; rcases hi with rfl | rfl <;> omega
    rw [fr.outer i h4, o6, if_neg (fun h => htp h.1)]
    exact s.low i hi q
  · intro q; rw [fr.outer 3 (by decide)]; exact s.u3 q
  · rw [hTo, if_neg hstar]; exact s.nostar
  · intro q
    rw [hTo, hT]
    by_cases hq : q ∈ keys
    · simp [hq]
    · simp only [hq, if_false]; exact s.keysU q
  · intro q h
    rw [hTo]
    by_cases hq : q ∈ keys
    · simp [hq]
    · rw [hTn, if_neg (fun h => hq h.2)] at h
      simp only [hq, if_false]; exact s.sub q h
  · intro q h
    rw [hT] at h
    rw [hTn]
    by_cases hq : q ∈ keys
    · rw [if_pos hq] at h
      simp only [Option.some.injEq] at h
      have := hbnT q hq (fun k c e => by rw [h] at e; cases e)
      simp [this, hq]
    · rw [if_neg hq] at h
      rw [if_neg (fun h => hq h.2)]; exact s.keepN q h
  · intro q k c h hc hp
    rw [hT] at h
    rw [hTn]
    by_cases hq : q ∈ keys
    · rw [if_pos hq] at h
      simp only [Option.some.injEq] at h
      have := hbnT q hq (fun k2 c2 e e2 => by
        rw [h] at e; simp only [Val.obj.injEq] at e; subst e
        rw [hc] at e2; cases e2; exact hp)
      simp [this, hq]
    · rw [if_neg hq] at h
      rw [if_neg (fun h => hq h.2)]
      exact s.keepO q k c h (hold k c (s.wu.L q k h) hc) hp
  · intro d hd
    rw [o5] at hd
    rw [fr.defer, fr.marks]; exact s.defSub d hd
  · intro g
    have g0 : Good U uo.checkers := by
      intro k c hc hu
      exact g k c (by rw [hcs]; exact List.getElem?_append_left (List.getElem?_eq_some_iff.mp hc).1 ▸ hc) hu
    obtain ⟨a1, a2⟩ := s.cond g0
    exact ⟨by rw [n4, o4]; exact a1, by rw [n5, o5]; exact a2⟩

theorem sameId_pairs {cs cs' : List Checker} (s : SameId cs cs') : cs'.map pairOf = cs.map pairOf := by
  apply List.ext_getElem?
  intro k
  simp only [List.getElem?_map]
  cases hc' : cs'[k]? with
  | none =>
    have : cs[k]? = none := by
      rw [List.getElem?_eq_none_iff] at hc' ⊢; rw [← s.1]; exact hc'
    rw [this]
  | some c' =>
    obtain ⟨c, hc, _, _, _, e4, e5⟩ := s.2 k c' hc'
    rw [hc]
    simp only [Option.map_some, pairOf, e4, e5]

theorem Sim3.lineU {U ao an uo} (s : Sim3 U ao an uo) (l : Nat) : Sim3 U ao an { uo with line := l } :=
  s.reU (s.su.line l) s.wu rfl (SameId.refl _) (fun _ c c' h h' hu => by rw [h] at h'; cases h'; exact hu) (fun _ he => he)

theorem Sim3.lineO {U ao an uo} (s : Sim3 U ao an uo) (l : Nat) : Sim3 U { ao with line := l } an uo :=
  s.reA rfl rfl rfl s.defSub rfl rfl rfl s.cond

theorem Sim3.lineN {U ao an uo} (s : Sim3 U ao an uo) (l : Nat) : Sim3 U ao { an with line := l } uo :=
  s.reA rfl rfl rfl s.defSub rfl rfl rfl s.cond

theorem Sim3.allStep {reg : Registry} (hr : regNoNone reg = true) {U ao an uo} (s : Sim3 U ao an uo) (n : Str) :
    Sim3 U (deferGlobal reg ao n) (deferGlobal reg an n) (Pfb.C04.allStep uo n) ∧ (Pfb.C04.allStep uo n).line = uo.line ∧
      (Pfb.C04.allStep uo n).checkers.map pairOf = uo.checkers.map pairOf := by
  obtain ⟨d, m, e1, a1, b1⟩ := allStep_eq s.su n
  obtain ⟨o1, o2, o3, o4, _, o6⟩ := deferGlobal_facts reg ao n
  obtain ⟨n1, n2, n3, n4, _, n6⟩ := deferGlobal_facts reg an n
  have sid := markFound_sameId s.wu.plain (findInScope (topScope uo) (prefixesRev (splitDots n)))
  have mono := markFound_mono s.wu.plain (findInScope (topScope uo) (prefixesRev (splitDots n)))
  rw [e1]
  refine ⟨?_, rfl, sameId_pairs sid⟩
  have s1 : Sim3 U ao an { uo with checkers := markFound uo.checkers (findInScope (topScope uo) (prefixesRev (splitDots n))), deferred := uo.deferred ++ d, useMarks := uo.useMarks ++ m } :=
    s.reU (s.su.defer _ d m (fun e he => by rw [a1 e he])) (s.wu.look _) rfl sid mono (fun e he => by
      simp only [List.mem_append] at he ⊢
      rcases he with he | he
      · exact .inl (.inl he)
      · exact .inr (.inl he))
  refine s1.reA o1 o2 o3 ?_ n1 n2 n3 ?_
  · intro d' hd'
    rw [o6] at hd'
    split at hd'
    · rename_i hsn
      rcases List.mem_append.mp hd' with hd' | hd'
      · exact s1.defSub d' hd'
      · simp only [List.mem_singleton] at hd'
        subst hd'
        have hb := b1 (.inl (s.needsU hr n hsn))
        have hmem : (n, [0, 1, 3, 4]) ∈ d ++ m := by rw [hb]; simp
        refine List.mem_map.mpr ⟨(n, [0, 1, 3, 4]), ?_, rfl⟩
        simp only [List.mem_append] at hmem ⊢
        rcases hmem with h | h
        · exact .inl (.inr h)
        · exact .inr (.inr h)
    · exact s1.defSub d' hd'
  · intro g
    obtain ⟨c1, c2⟩ := s.cond (g.back sid mono)
    have hsni := s.sniEq hr n (found_good s.wu.plain _ g)
    refine ⟨by rw [n4, o4]; exact c1, ?_⟩
    rw [n6, o6, hsni, s.stk]
    split
    · simp only [List.map_append, List.map_cons, List.map_nil, c2]
    · exact c2

theorem Sim3.allNames {reg : Registry} (hr : regNoNone reg = true) {U} : ∀ (names : List Str) {ao an uo}, Sim3 U ao an uo →
    Sim3 U (names.foldl (deferGlobal reg) ao) (names.foldl (deferGlobal reg) an) (names.foldl Pfb.C04.allStep uo) ∧
      (names.foldl Pfb.C04.allStep uo).line = uo.line ∧
      (names.foldl Pfb.C04.allStep uo).checkers.map pairOf = uo.checkers.map pairOf
  | [], _, _, _, s => ⟨s, rfl, rfl⟩
  | n :: r, _, _, _, s => by
    simp only [List.foldl_cons]
    obtain ⟨s1, l1, p1⟩ := s.allStep hr n
    obtain ⟨s2, l2, p2⟩ := Sim3.allNames hr r s1
    exact ⟨s2, l2.trans l1, p2.trans p1⟩

theorem sim3_loads {reg : Registry} (hr : regNoNone reg = true) {U} : ∀ (L : List Str) {ao an uo}, Sim3 U ao an uo →
    Sim3 U (runOps reg ao (L.map Op.load)) (runOps reg an (L.map Op.load)) (runOpsU uo (L.map Op.load)) ∧
      (runOpsU uo (L.map Op.load)).line = uo.line ∧ (runOpsU uo (L.map Op.load)).checkers.map pairOf = uo.checkers.map pairOf
  | [], _, _, _, s => ⟨s, rfl, rfl⟩
  | d :: r, ao, an, uo, s => by
    simp only [List.map_cons]
    rw [Pfb.PyCore.runOps_cons, Pfb.PyCore.runOps_cons, runOpsU_cons]
    have ho : step reg ao (.load d) = checkLoad reg ao d ao.stack.ids ao.line := by simp [step, s.fo]
    have hn : step reg an (.load d) = checkLoad reg an d an.stack.ids an.line := by simp [step, s.fn]
    have hu : stepU uo (.load d) = { uo with checkers := markFound uo.checkers (findInScope (topScope uo) (prefixesRev (splitDots d))) } := by
      rw [← sniU_top s.su]; simp [stepU, s.su.inFunc]
    rw [ho, hn, hu]
    obtain ⟨s2, l2, p2⟩ := sim3_loads hr r (s.load hr d)
    exact ⟨s2, l2, p2.trans (sameId_pairs (markFound_sameId s.wu.plain _))⟩

/-! ### statements -/

def isFuture (m : Option Str) : Bool := m == some "__future__".toList

/-- the (line, alias index) pairs of the aliases that create a checker / that do not (`from __future__ import …`) -/
def ckAl (m : Option Str) (ln : Nat) : Nat → List Alias → List (Nat × Nat)
  | _, [] => []
  | idx, _ :: r => (if isFuture m then [] else [(ln, idx)]) ++ ckAl m ln (idx + 1) r
def futAl (m : Option Str) (ln : Nat) : Nat → List Alias → List (Nat × Nat)
  | _, [] => []
  | idx, _ :: r => (if isFuture m then [(ln, idx)] else []) ++ futAl m ln (idx + 1) r

def ckStmt (ln : Nat) : Stmt → List (Nat × Nat)
  | .import_ names => ckAl none ln 0 names
  | .importFrom m names => ckAl (some m) ln 0 names
  | .located l s => ckStmt l s
  | _ => []
def futStmt (ln : Nat) : Stmt → List (Nat × Nat)
  | .import_ names => futAl none ln 0 names
  | .importFrom m names => futAl (some m) ln 0 names
  | .located l s => futStmt l s
  | _ => []
def ckProg : Nat → List Stmt → List (Nat × Nat)
  | _, [] => []
  | ln, s :: r => ckStmt ln s ++ ckProg (lineAfter ln s) r
def futProg : Nat → List Stmt → List (Nat × Nat)
  | _, [] => []
  | ln, s :: r => futStmt ln s ++ futProg (lineAfter ln s) r

theorem step_alias (reg : Registry) (st : AState) (m : Option Str) (idx : Nat) (a : Alias) :
    step reg st (cAlias m idx a) = (keysOf a).foldl storeTop st := rfl

theorem sim3_aliases {reg : Registry} {U : List (Nat × Nat)} (m : Option Str) :
    ∀ (names : List Alias) (idx idx' : Nat) (ao an : AState) (uo : UState), Sim3 U ao an uo →
    (∀ a ∈ names, (∀ p ∈ splitDots a.name, simpleName p = true) ∧ (∀ n, a.asname = some n → simpleName n = true)) →
    (isFuture m = true → ∀ a ∈ names, simpleName a.name = true) →
    (∀ π ∈ futAl m uo.line idx names, π ∉ U) →
    Sim3 U (runOps reg ao (cAliases m idx names)) (runOps reg an (cAliases m idx' (keepAliases U uo.line idx names)))
        (runOpsU uo (cAliases m idx names)) ∧
      (runOpsU uo (cAliases m idx names)).line = uo.line ∧
      (runOpsU uo (cAliases m idx names)).checkers.map pairOf = uo.checkers.map pairOf ++ ckAl m uo.line idx names
  | [], _, _, _, _, _, s, _, _, _ => ⟨s, rfl, by simp [ckAl, cAliases, runOpsU]⟩
  | a :: r, idx, idx', ao, an, uo, s, hok, hfs, hfu => by
    obtain ⟨hparts, has⟩ := hok a (List.mem_cons_self ..)
    obtain ⟨hch, hstar⟩ := chainOK_keysOf hparts has
    obtain ⟨hshape, hbn⟩ := keysOf_shape hparts has
    have hnostar : ['*'] ∉ keysOf a := (keysOf_facts hparts has).2.1
    have hrest := fun b hb => hok b (List.mem_cons_of_mem _ hb)
    have hfs' := fun h b hb => hfs h b (List.mem_cons_of_mem _ hb)
    simp only [cAliases, keepAliases]
    rw [Pfb.PyCore.runOps_cons, runOpsU_cons, step_alias, cAlias_keysOf]
    by_cases hfut : isFuture m = true
    · -- `from __future__ import x`: no checker, kept
      have hU : (uo.line, idx) ∉ U := hfu _ (by simp [futAl, hfut])
      have hp : decide (a.name = ['*'] ∨ m = some "__future__".toList) = true := by
        simp only [isFuture, beq_iff_eq] at hfut; simp [hfut]
      rw [if_neg hU, hp]
      simp only [cAliases]
      rw [Pfb.PyCore.runOps_cons, step_alias, stepU_plain]
      have hx : simpleName (a.asname.getD a.name) = true := by
        cases hasn : a.asname with
        | none => exact hfs hfut a (List.mem_cons_self ..)
        | some n => exact has n hasn
      have hkeys : keysOf a = [a.asname.getD a.name] := by rw [hshape, ancestors_simple hx]; rfl
      rw [hkeys]
      simp only [List.foldl_cons, List.foldl_nil]
      obtain ⟨a1, a2, a3, _, a5, a6⟩ := storeU_abs s.su (a.asname.getD a.name) .none
      have s1 := s.storeKeys [a.asname.getD a.name] true .none (storeU uo (a.asname.getD a.name) .none) []
        a1 (UWs.storeSimple s.su s.wu hx) a6
        (by intro q; rw [a2]; by_cases e : q = a.asname.getD a.name
            · subst e; simp [scope_get_set_eq]
            · rw [scope_get_set_ne _ e]; simp [e])
        (by rw [a3, ancestors_simple hx]; simp [marksOf])
        (fun h => by cases h) (by rw [← hkeys]; exact hnostar)
      simp only [List.foldl_cons, List.foldl_nil, if_true] at s1
      obtain ⟨g1, g2, g3⟩ := sim3_aliases m r (idx + 1) (idx' + 1) _ _ _ s1 hrest hfs'
        (by rw [a5]; intro π hπ; exact hfu π (by simp only [futAl]; exact List.mem_append_right _ hπ))
      rw [a5] at g1 g2 g3
      refine ⟨g1, g2, ?_⟩
      rw [g3, a3, ancestors_simple hx]
      simp [marksOf, ckAl, hfut]
    · have hp : decide (a.name = ['*'] ∨ m = some "__future__".toList) = false := by
        have hne : m ≠ some "__future__".toList := by intro h; apply hfut; simp [isFuture, h]
        exact decide_eq_false (by rintro (h | h); exact hstar h; exact hne h)
      rw [hp]
      obtain ⟨b1, b2, b3, b4, b5, b6⟩ := alias_step s.su s.wu idx hshape hbn hch
      have hnew : (stepU uo (.importAlias (keysOf a) (a.asname.getD a.name) idx false)).checkers[uo.checkers.length]? =
          some (freshChecker (a.asname.getD a.name) uo.line idx) := by rw [b3]; exact getElem?_append_new _ _
      have hfu' : ∀ π ∈ futAl m uo.line (idx + 1) r, π ∉ U := fun π hπ => hfu π (by simp only [futAl]; exact List.mem_append_right _ hπ)
      by_cases hU : (uo.line, idx) ∈ U
      · rw [if_pos hU]
        have s1 := s.storeKeys (keysOf a) false (.obj uo.checkers.length) _ [freshChecker (a.asname.getD a.name) uo.line idx]
          b1 b2 b6 b4 b3 (fun _ => ⟨_, _, rfl, hnew, hU⟩) hnostar
        obtain ⟨g1, g2, g3⟩ := sim3_aliases m r (idx + 1) idx' _ _ _ s1 hrest hfs' (by rw [b5]; exact hfu')
        rw [b5] at g1 g2 g3
        refine ⟨g1, g2, ?_⟩
        rw [g3, b3]
        simp [ckAl, hfut, pairOf, freshChecker]
      · rw [if_neg hU]
        simp only [cAliases]
        rw [Pfb.PyCore.runOps_cons, step_alias]
        have s1 := s.storeKeys (keysOf a) true (.obj uo.checkers.length) _ [freshChecker (a.asname.getD a.name) uo.line idx]
          b1 b2 b6 b4 b3 (fun h => by cases h) hnostar
        simp only [if_true] at s1
        obtain ⟨g1, g2, g3⟩ := sim3_aliases m r (idx + 1) (idx' + 1) _ _ _ s1 hrest hfs' (by rw [b5]; exact hfu')
        rw [b5] at g1 g2 g3
        refine ⟨g1, g2, ?_⟩
        rw [g3, b3]
        simp [ckAl, hfut, pairOf, freshChecker]

theorem Sim3.storeSimple {U ao an uo} (s : Sim3 U ao an uo) {x : Str} (hx : simpleName x = true) :
    Sim3 U (storeTop ao x) (storeTop an x) (storeU uo x .none) ∧ (storeU uo x .none).line = uo.line ∧
      (storeU uo x .none).checkers = uo.checkers := by
  obtain ⟨a1, a2, a3, _, a5, a6⟩ := storeU_abs s.su x .none
  have hcs : (storeU uo x .none).checkers = uo.checkers := by rw [a3, ancestors_simple hx]; rfl
  have s1 := s.storeKeys [x] true .none (storeU uo x .none) [] a1 (UWs.storeSimple s.su s.wu hx) a6
    (by intro q; rw [a2]; by_cases e : q = x
        · subst e; simp [scope_get_set_eq]
        · rw [scope_get_set_ne _ e]; simp [e])
    (by rw [hcs]; simp) (fun h => by cases h) (by simp only [List.mem_singleton]; exact fun h => simpleName_ne_star hx h.symm)
  simp only [List.foldl_cons, List.foldl_nil, if_true] at s1
  exact ⟨s1, a5, hcs⟩

theorem sim3_stmt {reg : Registry} (hr : regNoNone reg = true) {U : List (Nat × Nat)} (fx : Fixes) (D : Bool) :
    ∀ (stmt : Stmt) (ln ln' : Nat) (ao an : AState) (uo : UState),
    Sim3 U ao an uo → fragBStmt D stmt = true → (∀ π ∈ futStmt uo.line stmt, π ∉ U) →
    Sim3 U (runOps reg ao (cStmt fx ln stmt)) (runOps reg an (cStmts fx ln' (dropStmt U uo.line stmt).toList))
        (runOpsU uo (cStmt fx ln stmt)) ∧
      (runOpsU uo (cStmt fx ln stmt)).line = lineAfter uo.line stmt ∧
      (runOpsU uo (cStmt fx ln stmt)).checkers.map pairOf = uo.checkers.map pairOf ++ ckStmt uo.line stmt
  | .expr e, ln, ln', ao, an, uo, s, hf, _ => by
    simp only [fragBStmt] at hf
    simp only [dropStmt, Option.toList, cStmts, cStmt, List.append_nil, lineAfter, ckStmt]
    rw [cExpr_loads fx D e hf]
    exact sim3_loads hr (loadsOf e) s
  | .assign ts e, ln, ln', ao, an, uo, s, hf, _ => by
    simp only [fragBStmt, Bool.and_eq_true] at hf
    cases hsn : singleName ts with
    | none => rw [hsn] at hf; simp at hf
    | some x =>
      have hts := singleName_eq hsn
      subst hts
      rw [hsn] at hf
      have hx : simpleName x = true := hf.1
      simp only [dropStmt, Option.toList, cStmts, cStmt, List.append_nil, lineAfter, ckStmt]
      rw [cExpr_loads fx D e hf.2]
      have hst : cTargets fx [Expr.name x] = [Op.store x] := by simp [cTargets, cTarget]
      rw [hst, Pfb.PyCore.runOps_append, Pfb.PyCore.runOps_append, Pfb.PyCore.runOps_append, Pfb.PyCore.runOps_append,
        runOpsU_append, runOpsU_append]
      obtain ⟨a, la, pa⟩ := sim3_loads hr (loadsOf e) s
      obtain ⟨a2, la2, pa2⟩ := a.storeSimple hx
      have e1 : ∀ st : AState, runOps reg st [Op.store x] = storeTop st x := fun _ => rfl
      rw [e1, e1, stepU_store]
      rcases cAll_ops x e with hc | ⟨ns, hc⟩
      · rw [hc]
        exact ⟨a2, la2.trans la, by show List.map pairOf (storeU _ x .none).checkers = _; rw [pa2, pa]⟩
      · rw [hc]
        have e2 : ∀ st : AState, st.inFunc = false → runOps reg st [Op.allNames ns] = ns.foldl (deferGlobal reg) st := by
          intro st h; simp [runOps, step, h]
        rw [e2 _ a2.fo, e2 _ a2.fn]
        show Sim3 U _ _ (stepU _ (.allNames ns)) ∧ (stepU _ (.allNames ns)).line = _ ∧ (stepU _ (.allNames ns)).checkers.map pairOf = _
        rw [stepU_allNames _ a2.su.inFunc]
        obtain ⟨a3, la3, pa3⟩ := Sim3.allNames hr ns a2
        exact ⟨a3, la3.trans (la2.trans la), by rw [pa3, pa2, pa]⟩
  | .pass, ln, ln', ao, an, uo, s, _, _ => ⟨s, rfl, by simp [ckStmt, cStmt, runOpsU]⟩
  | .import_ names, ln, ln', ao, an, uo, s, hf, hfu => by
    simp only [fragBStmt, List.all_eq_true] at hf
    have hnew : cStmts fx ln' (dropStmt U uo.line (.import_ names)).toList = cAliases none 0 (keepAliases U uo.line 0 names) := by
      simp only [dropStmt]
      split
      · rename_i h; rw [h]; rfl
      · simp [Option.toList, cStmts, cStmt]
    rw [hnew]
    exact sim3_aliases none names 0 0 ao an uo s (fun a ha => importAliasOK_parts (hf a ha)) (fun h => by simp [isFuture] at h) hfu
  | .importFrom m names, ln, ln', ao, an, uo, s, hf, hfu => by
    simp only [fragBStmt, List.all_eq_true] at hf
    have hnew : cStmts fx ln' (dropStmt U uo.line (.importFrom m names)).toList = cAliases (some m) 0 (keepAliases U uo.line 0 names) := by
      simp only [dropStmt]
      split
      · rename_i h; rw [h]; rfl
      · simp [Option.toList, cStmts, cStmt]
    rw [hnew]
    exact sim3_aliases (some m) names 0 0 ao an uo s (fun a ha => fromAliasOK_parts (hf a ha))
      (fun _ a ha => by have := hf a ha; simp only [fromAliasOK, Bool.and_eq_true] at this; exact this.1) hfu
  | .located l st, ln, ln', ao, an, uo, s, hf, hfu => by
    simp only [fragBStmt] at hf
    simp only [cStmt, lineAfter, ckStmt]
    rw [Pfb.PyCore.runOps_cons, runOpsU_cons]
    show Sim3 U (runOps reg { ao with line := l } (cStmt fx l st)) _ (runOpsU { uo with line := l } (cStmt fx l st)) ∧
      (runOpsU { uo with line := l } (cStmt fx l st)).line = _ ∧
      (runOpsU { uo with line := l } (cStmt fx l st)).checkers.map pairOf = _
    cases hd : dropStmt U l st with
    | none =>
      have ih := sim3_stmt hr fx D st l ln' { ao with line := l } an { uo with line := l } ((s.lineO l).lineU l) hf hfu
      simp only [hd, Option.toList, cStmts] at ih
      simp only [dropStmt, hd, Option.map_none, Option.toList, cStmts]
      exact ih
    | some st' =>
      have ih := sim3_stmt hr fx D st l l { ao with line := l } { an with line := l } { uo with line := l }
        (((s.lineO l).lineN l).lineU l) hf hfu
      simp only [hd, Option.toList, cStmts, List.append_nil] at ih
      simp only [dropStmt, hd, Option.map_some, Option.toList, cStmts, cStmt, List.append_nil]
      rw [Pfb.PyCore.runOps_cons]
      exact ih
  | .augAssign _ _, _, _, _, _, _, _, hf, _ => by simp [fragBStmt] at hf
  | .annAssign _ _ _, _, _, _, _, _, _, hf, _ => by simp [fragBStmt] at hf
  | .funcDef _ _ _ _ _, _, _, _, _, _, _, hf, _ => by simp [fragBStmt] at hf
  | .classDef _ _ _ _, _, _, _, _, _, _, hf, _ => by simp [fragBStmt] at hf
  | .for_ _ _ _ _, _, _, _, _, _, _, hf, _ => by simp [fragBStmt] at hf
  | .while_ _ _ _, _, _, _, _, _, _, hf, _ => by simp [fragBStmt] at hf
  | .if_ _ _ _, _, _, _, _, _, _, hf, _ => by simp [fragBStmt] at hf
  | .with_ _ _, _, _, _, _, _, _, hf, _ => by simp [fragBStmt] at hf
  | .try_ _ _ _ _, _, _, _, _, _, _, hf, _ => by simp [fragBStmt] at hf
  | .return_ _, _, _, _, _, _, _, hf, _ => by simp [fragBStmt] at hf
  | .raise_ _, _, _, _, _, _, _, hf, _ => by simp [fragBStmt] at hf
  | .delete _, _, _, _, _, _, _, hf, _ => by simp [fragBStmt] at hf
  | .global_ _, _, _, _, _, _, _, hf, _ => by simp [fragBStmt] at hf
  | .nonlocal_ _, _, _, _, _, _, _, hf, _ => by simp [fragBStmt] at hf

theorem sim3_stmts {reg : Registry} (hr : regNoNone reg = true) {U : List (Nat × Nat)} (fx : Fixes) (D : Bool) :
    ∀ (ss : List Stmt) (ln ln' : Nat) (ao an : AState) (uo : UState),
    Sim3 U ao an uo → fragB D ss = true → (∀ π ∈ futProg uo.line ss, π ∉ U) →
    Sim3 U (runOps reg ao (cStmts fx ln ss)) (runOps reg an (cStmts fx ln' (dropFrom U uo.line ss))) (runOpsU uo (cStmts fx ln ss)) ∧
      (runOpsU uo (cStmts fx ln ss)).checkers.map pairOf = uo.checkers.map pairOf ++ ckProg uo.line ss
  | [], _, _, _, _, _, s, _, _ => ⟨s, by simp [ckProg, cStmts, runOpsU]⟩
  | st :: r, ln, ln', ao, an, uo, s, hf, hfu => by
    simp only [fragB, List.all_cons, Bool.and_eq_true] at hf
    simp only [cStmts, dropFrom, cStmts_append, Pfb.PyCore.runOps_append, runOpsU_append, ckProg]
    obtain ⟨s1, l1, p1⟩ := sim3_stmt hr fx D st ln ln' ao an uo s hf.1
      (fun π hπ => hfu π (by simp only [futProg]; exact List.mem_append_left _ hπ))
    have ih := sim3_stmts hr fx D r ln ln' _ _ _ s1 hf.2
      (by rw [l1]; exact fun π hπ => hfu π (by simp only [futProg]; exact List.mem_append_right _ hπ))
    rw [l1] at ih
    exact ⟨ih.1, by rw [ih.2, p1, List.append_assoc]⟩

/-! ### the start and the end of the three analyses -/

theorem sim3_init (U : List (Nat × Nat)) (builtins : Scope) (ns : List Scope) (am dn : Bool) (hb : builtinsPlain builtins = true) :
    Sim3 U (initState builtins ns) (initState builtins ns) (initU builtins am dn) := by
  have hsh := shape_init builtins am dn hb
  have htu := topScope_init builtins am dn
  have htop := init_top builtins ns
  have hpriv : ATop (initState builtins ns) = {} := by unfold ATop; rw [htop]; exact initHeap_priv builtins ns
  have hg : ∀ q, ({} : Scope).get q = none := fun q => rfl
  have hlen : (initState builtins ns).heap.length = 3 + ns.length + 1 := by simp [initState]; omega
  refine { su := hsh, wu := ?_, stk := rfl, fo := rfl, fn := rfl, lo := by rw [htop, hlen]; omega, ln := by rw [htop, hlen]; omega,
           tp2 := by rw [htop]; omega, tpm := ?_, outer := fun _ _ _ => rfl, vo := ?_, vn := ?_, low := ?_, u3 := ?_,
           nostar := by rw [hpriv]; rfl, keysU := ?_, sub := fun _ h => h, keepN := ?_, keepO := ?_,
           defSub := fun d hd => by simp [initState] at hd, cond := fun _ => ⟨fun _ => Iff.rfl, rfl⟩ }
  · show UW none (topScope (initU builtins am dn)) [] []
    rw [htu]
    exact ⟨fun k c h => (by simp at h), fun q j h => (by rw [hg] at h; cases h), fun q j h => (by rw [hg] at h; cases h),
      fun j hj => (by simp at hj), fun j hj => (by simp at hj), fun k hk => (by cases hk)⟩
  · obtain ⟨scopes, hids, _⟩ := initState_ids builtins ns
    rw [htop, hids]
    exact mem_normIds_iff.mpr (.inr (.inr (List.mem_append_right _ (List.mem_singleton.mpr rfl))))
  · intro q v h; rw [hpriv, hg] at h; cases h
  · intro q v h; rw [hpriv, hg] at h; cases h
  · intro i hi q
    rcases hi with rfl | rfl
    · have e1 : (initU builtins am dn).heap.get 0 = builtins := rfl
      have e2 : (initState builtins ns).heap.get 0 = builtins := by simp [initState, Heap.get]
      rw [e1, e2]
      refine ⟨rfl, fun v hv => ?_⟩
      have hm := assocGet_mem hv
      simp only [builtinsPlain, List.all_eq_true] at hb
      have := hb _ hm
      simpa using this
    · have e1 : (initU builtins am dn).heap.get 1 = { items := [("__file__".toList, Val.none)] } := rfl
      have e2 : (initState builtins ns).heap.get 1 = { items := [("__file__".toList, Val.none)] } := by simp [initState, Heap.get]
      rw [e1, e2]
      refine ⟨rfl, fun v hv => ?_⟩
      simp only [Scope.get, assocGet] at hv
      split at hv
      · cases hv; rfl
      · cases hv
  · intro q; exact hg q
  · intro q; rw [hpriv, htu]
  · intro q h; rw [htu, hg] at h; cases h
  · intro q k c h; rw [htu, hg] at h; cases h

theorem Sim3.sniEqI {reg : Registry} (hr : regNoNone reg = true) {U ao an uo} (s : Sim3 U ao an uo) (ids : List Nat) (n : Str)
    (hfound : ∀ k c, findInScope (topScope uo) (prefixesRev (splitDots n)) = some (.obj k) → uo.checkers[k]? = some c → pairOf c ∉ U) :
    (symbolNeedsImport reg an.heap ids n).1 = (symbolNeedsImport reg ao.heap ids n).1 := by
  refine sni_congr hr ao.heap an.heap ids ao.stack.top n s.outer s.vo (by rw [← s.topN]; exact s.vn) ?_
  have := s.prefixEquiv n hfound
  rw [s.topN] at this
  exact this

theorem Sim3.starEqI {U ao an uo} (s : Sim3 U ao an uo) (ids : List Nat) : hasStar an.heap ids = hasStar ao.heap ids := by
  apply hasStar_congr
  intro i _
  by_cases e : i = ao.stack.top
  · subst e
    have h1 : (ATop ao).get ['*'] = none := s.nostar
    have h2 : (ATop an).get ['*'] = none := by
      cases h : (ATop an).get ['*'] with
      | none => rfl
      | some v =>
        have := s.sub ['*'] (by rw [h]; rfl)
        rw [h1] at this; cases this
    rw [s.topN] at h2
    rw [h2]; exact h1.symm
  · exact s.outer i e _

theorem fold_checkLoad_names (reg : Registry) (Ho Hn : Heap) : ∀ (dlo dln : List Deferred) (sto stn : AState),
    sto.heap = Ho → stn.heap = Hn →
    dln.map (fun d => (d.name, d.ids)) = dlo.map (fun d => (d.name, d.ids)) →
    (∀ d ∈ dlo, ((symbolNeedsImport reg Hn d.ids d.name).1 && !hasStar Hn d.ids) =
      ((symbolNeedsImport reg Ho d.ids d.name).1 && !hasStar Ho d.ids)) →
    (∀ m, m ∈ stn.missing.map (·.name) ↔ m ∈ sto.missing.map (·.name)) →
    ∀ m, m ∈ (dln.foldl (fun st d => checkLoad reg st d.name d.ids d.line) stn).missing.map (·.name) ↔
      m ∈ (dlo.foldl (fun st d => checkLoad reg st d.name d.ids d.line) sto).missing.map (·.name)
  | [], [], _, _, _, _, _, _, h => h
  | [], _ :: _, _, _, _, _, hm, _, _ => by simp at hm
  | _ :: _, [], _, _, _, _, hm, _, _ => by simp at hm
  | d :: ro, d' :: rn, sto, stn, ho, hn, hm, hs, h => by
    simp only [List.map_cons, List.cons.injEq, Prod.mk.injEq] at hm
    obtain ⟨⟨e1, e2⟩, hm'⟩ := hm
    simp only [List.foldl_cons]
    obtain ⟨o1, _, _, _, _, o6⟩ := checkLoad_facts reg sto d.name d.ids d.line
    obtain ⟨n1, _, _, _, _, n6⟩ := checkLoad_facts reg stn d'.name d'.ids d'.line
    refine fold_checkLoad_names reg Ho Hn ro rn _ _ (o1.trans ho) (n1.trans hn) hm'
      (fun x hx => hs x (List.mem_cons_of_mem _ hx)) ?_
    intro m
    rw [n6 m, o6 m, h m, e1, e2, hn, ho, hs d (List.mem_cons_self ..)]

/-! ### `sorted(set(…))` only depends on the set -/

def SortedS (l : List Str) : Prop := l.Pairwise (fun a b => strLt a b = true)

theorem insertSorted_sorted (x : Str) : ∀ (l : List Str), SortedS l → SortedS (insertSorted x l)
  | [], _ => by simp [insertSorted, SortedS]
  | y :: ys, h => by
    unfold SortedS at h
    rw [List.pairwise_cons] at h
    simp only [insertSorted]
    split
    · exact List.pairwise_cons.mpr h
    · rename_i hne
      split
      · rename_i hlt
        refine List.pairwise_cons.mpr ⟨?_, List.pairwise_cons.mpr h⟩
        intro z hz
        rcases List.mem_cons.mp hz with rfl | hz
        · exact hlt
        · exact Pfb.C11.strLt_trans x y z hlt (h.1 z hz)
      · rename_i hlt
        refine List.pairwise_cons.mpr ⟨?_, insertSorted_sorted x ys h.2⟩
        intro z hz
        rcases mem_insertSorted.mp hz with rfl | hz
        · cases hyx : strLt y z with
          | true => rfl
          | false =>
            exfalso
            have : strLt z y = false := by simpa using hlt
            exact hne (Pfb.C11.strLt_connected z y this hyx)
        · exact h.1 z hz

theorem sortedSet_sorted : ∀ (l : List Str), SortedS (sortedSet l)
  | [] => by simp [sortedSet, SortedS]
  | x :: r => by
    show SortedS (insertSorted x (sortedSet r))
    exact insertSorted_sorted x _ (sortedSet_sorted r)

theorem sorted_ext : ∀ (l1 l2 : List Str), SortedS l1 → SortedS l2 → (∀ x, x ∈ l1 ↔ x ∈ l2) → l1 = l2
  | [], [], _, _, _ => rfl
  | [], b :: _, _, _, h => by have := (h b).mpr (List.mem_cons_self ..); simp at this
  | a :: _, [], _, _, h => by have := (h a).mp (List.mem_cons_self ..); simp at this
  | a :: r1, b :: r2, h1, h2, h => by
    unfold SortedS at h1 h2
    rw [List.pairwise_cons] at h1 h2
    have hab : a = b := by
      rcases List.mem_cons.mp ((h a).mp (List.mem_cons_self ..)) with e | ha
      · exact e
      · rcases List.mem_cons.mp ((h b).mpr (List.mem_cons_self ..)) with e | hb
        · exact e.symm
        · have x1 := h2.1 a ha
          have x2 := h1.1 b hb
          rw [Pfb.C11.strLt_asymm a b x2] at x1; cases x1
    subst hab
    have hr : r1 = r2 := by
      refine sorted_ext r1 r2 h1.2 h2.2 (fun x => ⟨fun hx => ?_, fun hx => ?_⟩)
      · rcases List.mem_cons.mp ((h x).mp (List.mem_cons_of_mem _ hx)) with e | hx2
        · subst e
          have := h1.1 x hx
          rw [Pfb.C11.strLt_irrefl] at this; cases this
        · exact hx2
      · rcases List.mem_cons.mp ((h x).mpr (List.mem_cons_of_mem _ hx)) with e | hx2
        · subst e
          have := h2.1 x hx
          rw [Pfb.C11.strLt_irrefl] at this; cases this
        · exact hx2
    rw [hr]

theorem sortedSet_ext {l1 l2 : List Str} (h : ∀ x, x ∈ l1 ↔ x ∈ l2) : sortedSet l1 = sortedSet l2 :=
  sorted_ext _ _ (sortedSet_sorted l1) (sortedSet_sorted l2) (fun x => by rw [mem_sortedSet, mem_sortedSet]; exact h x)

/-! ### the theorem -/

/-- the lock step, for any list `U` of deleted imports that contains no `from __future__` alias and no import whose checker
    the unused-import analysis of the original program ever marks used -/
theorem keeps_missing_core {reg : Registry} (hr : regNoNone reg = true) (fx : Fixes) (builtins : Scope) (ns : List Scope)
    (prog : List Stmt) (D : Bool) (U : List (Nat × Nat)) (hfrag : fragB D prog = true) (hb : builtinsPlain builtins = true)
    (hfut : ∀ π ∈ futProg 0 prog, π ∉ U)
    (hgood : Good U (finishU (runOpsU (initU builtins fx.allUseMark fx.deferredNames) (cStmts fx 0 prog))).checkers) :
    findMissingFx fx reg builtins ns (dropFrom U 0 prog) = findMissingFx fx reg builtins ns prog := by
  have s0 := sim3_init U builtins ns fx.allUseMark fx.deferredNames hb
  obtain ⟨s, _⟩ := sim3_stmts hr fx D prog 0 0 _ _ _ s0 hfrag hfut
  have hline : (initU builtins fx.allUseMark fx.deferredNames).line = 0 := rfl
  rw [hline] at s
  generalize runOpsU (initU builtins fx.allUseMark fx.deferredNames) (cStmts fx 0 prog) = uo at s hgood
  rw [finishU_eq s.su] at hgood
  have hck : ({ looks uo ((uo.deferred ++ uo.useMarks).map (·.1)) with deferred := [], useMarks := [] } : UState).checkers =
      marksOf (topScope uo) uo.checkers ((uo.deferred ++ uo.useMarks).map (·.1)) := looks_checkers _ uo s.su
  rw [hck] at hgood
  obtain ⟨sid, mono, fmark⟩ := marksOf_facts (topScope uo) ((uo.deferred ++ uo.useMarks).map (·.1)) uo.checkers s.wu.plain
  obtain ⟨a1, a2⟩ := s.cond (hgood.back sid mono)
  unfold findMissingFx analyzeFx finishDeferred
  apply sortedSet_ext
  refine fold_checkLoad_names reg _ _ _ _ _ _ rfl rfl a2 ?_ a1
  intro d hd
  have hfound : ∀ (k : Nat) (c : Checker), findInScope (topScope uo) (prefixesRev (splitDots d.name)) = some (.obj k) →
      uo.checkers[k]? = some c → pairOf c ∉ U := by
    intro k c hf hc
    obtain ⟨c', hc'⟩ := sid.back hc
    obtain ⟨c2, hc2, _, _, _, e4, e5⟩ := sid.2 k c' hc'
    rw [hc] at hc2; cases hc2
    have := hgood k c' hc' (fmark d.name (s.defSub d hd) k hf c' hc')
    unfold pairOf at this ⊢
    rw [← e4, ← e5]; exact this
  rw [s.sniEqI hr d.ids d.name hfound, s.starEqI d.ids]

/-- **C04_removal_keeps_missing_fragB** — removing the imports that the unused-import analysis reports does not change the list
    of missing names: for the unchanged analysis and every combination of the repairs `fx`, every program of fragment B
    (`D = false` and `D = true`; `__all__ = [...]` included), every caller namespaces `ns`, every builtins namespace without
    `_UseChecker` values, every registry (`sys.modules`) without `None` values, provided the (line, alias index) pairs of the
    import aliases of the program are pairwise distinct (the model identifies a reported import by that pair:
    `witness_same_line`). -/
theorem C04_removal_keeps_missing_fragB (fx : Fixes) (reg : Registry) (builtins : Scope) (ns : List Scope) (prog : List Stmt)
    (D : Bool) (hfrag : fragB D prog = true) (hb : builtinsPlain builtins = true) (hr : regNoNone reg = true)
    (hpairs : (ckProg 0 prog ++ futProg 0 prog).Nodup) :
    findMissingFx fx reg builtins ns (dropUnused prog (findUnused fx builtins prog)) = findMissingFx fx reg builtins ns prog := by
  generalize hU : findUnused fx builtins prog = U
  obtain ⟨sA, pA⟩ := sim3_stmts hr fx D prog 0 0 _ _ _ (sim3_init [] builtins ns fx.allUseMark fx.deferredNames hb) hfrag
    (fun π _ h => by cases h)
  have hline : (initU builtins fx.allUseMark fx.deferredNames).line = 0 := rfl
  have hcs0 : (initU builtins fx.allUseMark fx.deferredNames).checkers = [] := rfl
  rw [hline, hcs0, List.map_nil, List.nil_append] at pA
  obtain ⟨hnd1, _, hdisj⟩ := List.nodup_append.mp hpairs
  refine keeps_missing_core hr fx builtins ns prog D U hfrag hb ?_ ?_
  all_goals
    unfold findUnused analyzeU scanUnusedU at hU
    generalize runOpsU (initU builtins fx.allUseMark fx.deferredNames) (cStmts fx 0 prog) = uo at sA pA hU ⊢
    have hfe := finishU_eq sA.su
    have hck : (finishU uo).checkers = marksOf (topScope uo) uo.checkers ((uo.deferred ++ uo.useMarks).map (·.1)) := by
      rw [hfe]; exact looks_checkers _ uo sA.su
    have hun : (finishU uo).unused = uo.unused := by
      rw [hfe]; exact (looks_facts _ uo sA.su).2.2.1
    obtain ⟨sid, _, _⟩ := marksOf_facts (topScope uo) ((uo.deferred ++ uo.useMarks).map (·.1)) uo.checkers sA.wu.plain
    have wf : UW none (topScope uo) (finishU uo).checkers uo.unused := by rw [hck]; exact UW.marks _ sA.wu
    have hpf : (finishU uo).checkers.map pairOf = ckProg 0 prog := by rw [hck, sameId_pairs sid]; exact pA
    have hscanck := (scanItems_facts ((finishU uo).heap.get (finishU uo).stack.top).items (finishU uo)).1
    have hfut : ∀ j ∈ (scanItems (finishU uo) ((finishU uo).heap.get (finishU uo).stack.top).items).unused,
        ∃ c, (finishU uo).checkers[j]? = some c ∧ c.used = false := by
      intro j hj
      rcases (scanItems_plain _ _ wf.plain j).mp hj with h | ⟨q, c, _, h2, h3, _⟩
      · rw [hun] at h; exact wf.Uf j h
      · exact ⟨c, h2, h3⟩
    have memU : ∀ π ∈ U, ∃ (j : Nat) (c : Checker), (finishU uo).checkers[j]? = some c ∧ c.used = false ∧ pairOf c = π := by
      intro π hπ
      rw [← hU] at hπ
      simp only [List.mem_filterMap] at hπ
      obtain ⟨j, hj, hjc⟩ := hπ
      rw [hscanck] at hjc
      obtain ⟨c, hc, hu⟩ := hfut j hj
      rw [hc] at hjc
      simp only [Option.map_some, Option.some.injEq] at hjc
      exact ⟨j, c, hc, hu, hjc⟩
  · intro π hπ hπU
    obtain ⟨j, c, hc, _, hp⟩ := memU π hπU
    have : π ∈ ckProg 0 prog := by
      rw [← hpf, ← hp]
      exact List.mem_map_of_mem (List.mem_of_getElem? hc)
    exact hdisj π this π hπ rfl
  · intro k c hc hu hπ
    obtain ⟨j, cj, hcj, huj, hp⟩ := memU _ hπ
    have hnd : ((finishU uo).checkers.map pairOf).Nodup := by rw [hpf]; exact hnd1
    have hk : k < ((finishU uo).checkers.map pairOf).length := by
      rw [List.length_map]; exact (List.getElem?_eq_some_iff.mp hc).1
    have e : ((finishU uo).checkers.map pairOf)[k]? = ((finishU uo).checkers.map pairOf)[j]? := by
      simp only [List.getElem?_map, hc, hcj, Option.map_some, hp]
    have := (List.getElem?_inj hk hnd).mp e
    subst this
    rw [hc] at hcj; cases hcj
    rw [hu] at huj; cases huj

/-! ### non-vacuity -/

/-- `import os, sys` / `import a.b` / `import a.c` / `from __future__ import division` / `os.path` / `z = a.b.q` / `zz` /
    `__all__ = ['late', 'z', 'nope']` / `import late` -/
def exK : List Stmt :=
  [.located 1 (.import_ [al "os", al "sys"]), .located 2 (.import_ [al "a.b"]), .located 3 (.import_ [al "a.c"]),
   .located 4 (.importFrom "__future__".toList [al "division"]), .located 5 (.expr (.attr (nm "os") "path".toList)),
   .located 6 (.assign [nm "z"] (.attr (.attr (nm "a") "b".toList) "q".toList)), .located 7 (.expr (nm "zz")),
   .located 8 (.assign [nm "__all__"] (.list [.str "late".toList, .str "z".toList, .str "nope".toList])),
   .located 9 (.import_ [al "late"])]
def exKreg : Registry := { mods := [("a".toList, .obj 1)], attrs := [] }
def exKns : List Scope := [{ items := [("b".toList, .obj 50)] }]

example : fragB true exK = true ∧ builtinsPlain exB = true ∧ regNoNone exKreg = true ∧
    (ckProg 0 exK ++ futProg 0 exK).Nodup ∧
    findUnused {} exB exK = [(1, 1), (3, 0)] ∧
    findMissingFx {} exKreg exB exKns exK = ["nope".toList, "zz".toList] ∧
    findMissingFx {} exKreg exB exKns (dropUnused exK (findUnused {} exB exK)) = ["nope".toList, "zz".toList] := by decide

/-! ### corollary: the remove stage of tidy-imports does not introduce a NameError -/

theorem keepAliases_sub (U : List (Nat × Nat)) (ln : Nat) : ∀ (names : List Alias) (idx : Nat) (a : Alias),
    a ∈ keepAliases U ln idx names → a ∈ names
  | [], _, _, h => by simp [keepAliases] at h
  | b :: r, idx, a, h => by
    simp only [keepAliases] at h
    split at h
    · exact List.mem_cons_of_mem _ (keepAliases_sub U ln r (idx + 1) a h)
    · rcases List.mem_cons.mp h with rfl | h
      · exact List.mem_cons_self ..
      · exact List.mem_cons_of_mem _ (keepAliases_sub U ln r (idx + 1) a h)

theorem fragBStmt_drop (D : Bool) (U : List (Nat × Nat)) : ∀ (st : Stmt) (ln : Nat) (st' : Stmt),
    fragBStmt D st = true → dropStmt U ln st = some st' → fragBStmt D st' = true
  | .import_ names, ln, st', hf, hd => by
    simp only [dropStmt] at hd
    split at hd
    · cases hd
    · rename_i h
      cases hd
      simp only [fragBStmt, List.all_eq_true] at hf ⊢
      exact fun a ha => hf a (keepAliases_sub U ln names 0 a ha)
  | .importFrom m names, ln, st', hf, hd => by
    simp only [dropStmt] at hd
    split at hd
    · cases hd
    · rename_i h
      cases hd
      simp only [fragBStmt, List.all_eq_true] at hf ⊢
      exact fun a ha => hf a (keepAliases_sub U ln names 0 a ha)
  | .located l s, ln, st', hf, hd => by
    simp only [dropStmt] at hd
    cases hs : dropStmt U l s with
    | none => rw [hs] at hd; cases hd
    | some s' =>
      rw [hs] at hd; cases hd
      simp only [fragBStmt] at hf ⊢
      exact fragBStmt_drop D U s l s' hf hs
  | .expr _, _, _, hf, hd => by simp only [dropStmt] at hd; cases hd; exact hf
  | .assign _ _, _, _, hf, hd => by simp only [dropStmt] at hd; cases hd; exact hf
  | .pass, _, _, hf, hd => by simp only [dropStmt] at hd; cases hd; exact hf
  | .augAssign _ _, _, _, hf, _ => by simp [fragBStmt] at hf
  | .annAssign _ _ _, _, _, hf, _ => by simp [fragBStmt] at hf
  | .funcDef _ _ _ _ _, _, _, hf, _ => by simp [fragBStmt] at hf
  | .classDef _ _ _ _, _, _, hf, _ => by simp [fragBStmt] at hf
  | .for_ _ _ _ _, _, _, hf, _ => by simp [fragBStmt] at hf
  | .while_ _ _ _, _, _, hf, _ => by simp [fragBStmt] at hf
  | .if_ _ _ _, _, _, hf, _ => by simp [fragBStmt] at hf
  | .with_ _ _, _, _, hf, _ => by simp [fragBStmt] at hf
  | .try_ _ _ _ _, _, _, hf, _ => by simp [fragBStmt] at hf
  | .return_ _, _, _, hf, _ => by simp [fragBStmt] at hf
  | .raise_ _, _, _, hf, _ => by simp [fragBStmt] at hf
  | .delete _, _, _, hf, _ => by simp [fragBStmt] at hf
  | .global_ _, _, _, hf, _ => by simp [fragBStmt] at hf
  | .nonlocal_ _, _, _, hf, _ => by simp [fragBStmt] at hf

theorem fragB_dropFrom (D : Bool) (U : List (Nat × Nat)) : ∀ (ss : List Stmt) (ln : Nat),
    fragB D ss = true → fragB D (dropFrom U ln ss) = true
  | [], _, _ => rfl
  | st :: r, ln, hf => by
    simp only [fragB, List.all_cons, Bool.and_eq_true] at hf
    simp only [dropFrom, fragB, List.all_append, Bool.and_eq_true]
    refine ⟨?_, fragB_dropFrom D U r _ hf.2⟩
    cases hd : dropStmt U ln st with
    | none => rfl
    | some st' => simp [Option.toList, fragBStmt_drop D U st ln st' hf.1 hd]

/-- **C04_tidy_remove_stage_safe_fragB** — for a program of fragment B without conditional expressions and `__all__` whose
    reference run completes without an exception, the reference run of the program from which the imports reported unused
    have been removed raises no NameError (for every fuel).  Precision of the missing-name analysis (`C05_precise_fragB`) is
    used for the original program, `C04_removal_keeps_missing_fragB` to carry "nothing missing" to the reduced program, and
    soundness (`C05_sound_fragB`) for the reduced program; the registry is instantiated with the empty one. -/
theorem C04_tidy_remove_stage_safe_fragB (fx : Fixes) (builtins : Scope) (ns : List Scope) (prog : List Stmt)
    (s0 : XState) (fuel fuel' : Nat) (D : Bool) (hfr : fragB D prog = true) (hpl : prog.all plainStmtB = true)
    (hag : Agree builtins ns s0) (hdf : D = true → nsDotFree builtins ns = true)
    (hb : builtinsPlain builtins = true) (hpairs : (ckProg 0 prog ++ futProg 0 prog).Nodup)
    (hok : (runProgram fuel prog [] s0).2 = .ok ()) :
    (runProgram fuel' (dropUnused prog (findUnused fx builtins prog)) [] s0).1.ne = [] := by
  have hrd : regDisjoint {} builtins ns = true := by simp [regDisjoint]
  have h1 := C05_precise_fragB fx {} builtins ns prog s0 fuel D hfr hpl hag hdf (fun _ => hrd) hok
  have h2 := C04_removal_keeps_missing_fragB fx {} builtins ns prog D hfr hb rfl hpairs
  rw [h1] at h2
  have hfr' : fragB D (dropUnused prog (findUnused fx builtins prog)) = true := fragB_dropFrom D _ prog 0 hfr
  cases hne : (runProgram fuel' (dropUnused prog (findUnused fx builtins prog)) [] s0).1.ne with
  | nil => rfl
  | cons n rest =>
    exfalso
    obtain ⟨d, hd, _⟩ := C05_sound_fragB fx {} builtins ns _ s0 fuel' D hfr' hag hdf n (by rw [hne]; exact List.mem_cons_self ..)
    rw [h2] at hd
    cases hd

/-- `import pa, pb` / `import pa.s1` / `from pa import m2 as y` / `x = pa.s1.m1` / `_K`: the run completes; reported unused:
    `pa` of line 1 (re-bound by line 2 before any read), `pb`, `y` -/
def exS : List Stmt :=
  [.located 1 (.import_ [al "pa", al "pb"]), .located 2 (.import_ [al "pa.s1"]),
   .located 3 (.importFrom "pa".toList [al "m2" (some "y")]),
   .located 4 (.assign [nm "x"] (.attr (.attr (nm "pa") "s1".toList) "m1".toList)), .located 5 (.expr (nm "_K"))]
example : fragB true exS = true ∧ exS.all plainStmtB = true ∧ nsDotFree exB [{}] = true ∧ builtinsPlain exB = true ∧
    (ckProg 0 exS ++ futProg 0 exS).Nodup ∧ findUnused {} exB exS = [(1, 0), (1, 1), (3, 0)] := by decide
example : Agree exB [{}] (mkState exB [{}]) := agree_mk _ _ (by decide) (by decide)
example : (runProgram 100 exS [] (mkState exB [{}])).2 = .ok () := by
  have h : isOk (runProgram 100 exS [] (mkState exB [{}])).2 = true := by decide +kernel
  revert h
  cases (runProgram 100 exS [] (mkState exB [{}])).2 <;> simp [isOk]

/-! ### witness: `builtinsPlain` is needed (a model artefact, as for `C04_no_unused_left_fragB`)

  With a builtins value that is the registry entry of its own name and lacks the attribute (`x` ↦ module object without `y`),
  `__all__ = ['x.y']` / `import x.y`: the unused-import analysis resolves `x.y` through the builtin `x` at once (no deferred
  lookup at the end of the module), so `import x.y` is reported unused; the missing-import analysis follows the attribute,
  fails, defers the name and finds the key `x.y` at the end — only as long as the import is there. -/
def wB2 : Scope := { items := [("x".toList, .obj 5)] }
def wReg2 : Registry := { mods := [("x".toList, .obj 5)], attrs := [] }
def wP2 : List Stmt := [.located 1 (.assign [nm "__all__"] (.list [.str "x.y".toList])), .located 2 (.import_ [al "x.y"])]
theorem witness_builtins_value : fragB true wP2 = true ∧ regNoNone wReg2 = true ∧ builtinsPlain wB2 = false ∧
    (ckProg 0 wP2 ++ futProg 0 wP2).Nodup ∧ findUnused {} wB2 wP2 = [(2, 0)] ∧
    findMissingFx {} wReg2 wB2 [{}] wP2 = [] ∧
    findMissingFx {} wReg2 wB2 [{}] (dropUnused wP2 (findUnused {} wB2 wP2)) = ["x.y".toList] := by decide

end Pfb.C04
