/-
  Pfb.C04.Props — property theorems for C04 (tidy-imports leaves nothing fixable
  behind and never guesses), over the block-level model `Pfb.Blocks`.

  Proved for ALL statement lists, scan results, databases and flags:
  * C04_never_guesses — every import present after the run was already there,
    or is mandatory, or is THE single database candidate of a missing name;
    a name with zero or several candidates contributes nothing.
  * C04_unique_added — a missing name with exactly one candidate ends up imported.
  * C04_placement — the block chosen for an added import ends before the line of
    the first use, or is a (fresh) empty block, which sits directly after the
    prologue (C01_insert_position).
  * C04_first_use_min — the line used for placement is the smallest line on
    which the name is reported missing.
  * C04_removed — a reported unused import is gone from the block that owns its line.
  "Running the result raises no NameError" needs the scope analysis (C05) and
  CPython; that is the direct oracle's part (execution of the output).
-/
import Pfb.Blocks.Lemmas
import Pfb.C01.Props
namespace Pfb.C04
open Pfb Pfb.Blocks Pfb.C01

theorem removeImport_subset (st st' : St) (imp : Imp) (ln : Nat) (h : removeImport st imp ln = .ok st') :
    ∀ i ∈ allImports st'.blocks, i ∈ allImports st.blocks := by
  unfold removeImport at h
  split at h
  · cases h; exact fun i hi => hi
  · split at h
    · cases h; exact fun i hi => hi
    · cases h
      intro i hi
      exact mem_allImports_updSet_filter _ _ _ _ hi
    · cases h
  · cases h

theorem removeAll_subset (st st' : St) (us : List (Nat × Imp)) (h : removeAll st us = .ok st') :
    ∀ i ∈ allImports st'.blocks, i ∈ allImports st.blocks := by
  induction us generalizing st with
  | nil => simp [removeAll] at h; cases h; exact fun i hi => hi
  | cons u us ih =>
    obtain ⟨ln, j⟩ := u
    simp only [removeAll] at h
    obtain ⟨st1, h1, h2⟩ := bind_ok h
    intro i hi
    exact removeImport_subset st st1 j ln h1 i (ih st1 h2 i hi)

theorem addMissingLoop_spec (known : List Imp) (all : List (Nat × Str)) (st st' : St) (added added' : List Imp)
    (ms : List (Nat × Str)) (h : addMissingLoop known all st added ms = .ok (st', added'))
    (hadd : ∀ i ∈ added, i ∈ allImports st.blocks) :
    (∀ i ∈ allImports st'.blocks, i ∈ allImports st.blocks ∨ ∃ m ∈ ms, lookupKnown known m.2 = [i]) ∧
    (∀ i ∈ allImports st.blocks, i ∈ allImports st'.blocks) ∧
    (∀ m ∈ ms, ∀ i, lookupKnown known m.2 = [i] → i ∈ allImports st'.blocks) := by
  induction ms generalizing st added with
  | nil =>
    simp [addMissingLoop] at h
    obtain ⟨rfl, _⟩ := h
    exact ⟨fun i hi => Or.inl hi, fun i hi => hi, by simp⟩
  | cons m ms ih =>
    obtain ⟨ln, name⟩ := m
    unfold addMissingLoop at h
    split at h
    · rename_i imp hk
      split at h
      · rename_i hin
        obtain ⟨a, b, c⟩ := ih st added h hadd
        refine ⟨?_, b, ?_⟩
        · intro i hi
          rcases a i hi with h1 | ⟨m', hm', hl⟩
          · exact Or.inl h1
          · exact Or.inr ⟨m', by simp [hm'], hl⟩
        · intro m' hm' i hl
          simp at hm'
          rcases hm' with rfl | hm'
          · simp only [] at hl
            rw [hk] at hl
            simp at hl
            subst hl
            exact b _ (hadd _ hin)
          · exact c m' hm' i hl
      · split at h
        · rename_i st1 h1
          have h2 := h
          obtain ⟨hin, hmono, hback⟩ := addImport_adds st st1 imp _ h1
          have hadd' : ∀ i ∈ imp :: added, i ∈ allImports st1.blocks := by
            intro i hi
            simp at hi
            rcases hi with rfl | hi
            · exact hin
            · exact hmono _ (hadd _ hi)
          obtain ⟨a, b, c⟩ := ih st1 (imp :: added) h2 hadd'
          refine ⟨?_, fun i hi => b _ (hmono _ hi), ?_⟩
          · intro i hi
            rcases a i hi with h1' | ⟨m', hm', hl⟩
            · rcases hback i h1' with rfl | h3
              · exact Or.inr ⟨(ln, name), by simp, hk⟩
              · exact Or.inl h3
            · exact Or.inr ⟨m', by simp [hm'], hl⟩
          · intro m' hm' i hl
            simp at hm'
            rcases hm' with rfl | hm'
            · simp only [] at hl
              rw [hk] at hl
              simp at hl
              subst hl
              exact b _ hin
            · exact c m' hm' i hl
        · rename_i h1
          have hin : imp ∈ allImports st.blocks := addImport_exists_mem st imp _ _ h1
          have hadd' : ∀ i ∈ imp :: added, i ∈ allImports st.blocks := by
            intro i hi
            simp at hi
            rcases hi with rfl | hi
            · exact hin
            · exact hadd _ hi
          obtain ⟨a, b, c⟩ := ih st (imp :: added) h hadd'
          refine ⟨?_, b, ?_⟩
          · intro i hi
            rcases a i hi with h1' | ⟨m', hm', hl⟩
            · exact Or.inl h1'
            · exact Or.inr ⟨m', by simp [hm'], hl⟩
          · intro m' hm' i hl
            simp at hm'
            rcases hm' with rfl | hm'
            · simp only [] at hl
              rw [hk] at hl
              simp at hl
              subst hl
              exact b _ hin
            · exact c m' hm' i hl
        · cases h
    · rename_i hk
      obtain ⟨a, b, c⟩ := ih st added h hadd
      refine ⟨?_, b, ?_⟩
      · intro i hi
        rcases a i hi with h1 | ⟨m', hm', hl⟩
        · exact Or.inl h1
        · exact Or.inr ⟨m', by simp [hm'], hl⟩
      · intro m' hm' i hl
        simp at hm'
        rcases hm' with rfl | hm'
        · exact absurd hl (hk i)
        · exact c m' hm' i hl

theorem addMandatoryLoop_spec (st st' : St) (ms : List Imp) (h : addMandatoryLoop st ms = .ok st') :
    (∀ i ∈ allImports st'.blocks, i ∈ allImports st.blocks ∨ i ∈ ms) ∧
    (∀ i ∈ allImports st.blocks, i ∈ allImports st'.blocks) := by
  induction ms generalizing st with
  | nil => simp [addMandatoryLoop] at h; cases h; exact ⟨fun i hi => Or.inl hi, fun i hi => hi⟩
  | cons m ms ih =>
    unfold addMandatoryLoop at h
    split at h
    · rename_i st1 h1
      obtain ⟨_, hmono, hback⟩ := addImport_adds st st1 m none h1
      obtain ⟨a, b⟩ := ih st1 h
      refine ⟨?_, fun i hi => b _ (hmono _ hi)⟩
      intro i hi
      rcases a i hi with h2 | h2
      · rcases hback i h2 with rfl | h3
        · right; simp
        · left; exact h3
      · right; simp [h2]
    · obtain ⟨a, b⟩ := ih st h
      refine ⟨?_, b⟩
      intro i hi
      rcases a i hi with h2 | h2
      · left; exact h2
      · right; simp [h2]
    · cases h

/-- **C04_never_guesses** — nothing is imported on a guess: every import held
    after the run was in the input, or is mandatory, or is the *only* database
    candidate for a name reported missing. -/
theorem C04_never_guesses (ss : List Stmt) (scan : Scan) (known mandatory : List Imp) (fl : Flags) (st : St)
    (h : fixStage2 ss scan known mandatory fl = .ok st) :
    ∀ i ∈ allImports st.blocks,
      i ∈ allImports (preprocess ss).blocks ∨ i ∈ mandatory ∨
      ∃ m ∈ scan.missing, lookupKnown known m.2 = [i] := by
  unfold fixStage2 at h
  obtain ⟨st1, h1, h⟩ := bind_ok h
  obtain ⟨st2, h2, h3⟩ := bind_ok h
  have s1 : ∀ i ∈ allImports st1.blocks, i ∈ allImports (preprocess ss).blocks := by
    unfold stageRemove at h1
    split at h1
    · exact removeAll_subset _ _ _ h1
    · cases h1; exact fun i hi => hi
  have s2 : ∀ i ∈ allImports st2.blocks, i ∈ allImports st1.blocks ∨ ∃ m ∈ scan.missing, lookupKnown known m.2 = [i] := by
    unfold stageMissing at h2
    split at h2
    · split at h2
      · rename_i st' added hl
        cases h2
        exact (addMissingLoop_spec _ _ _ _ _ _ _ hl (by simp)).1
      · cases h2
    · cases h2; exact fun i hi => Or.inl hi
  have s3 : ∀ i ∈ allImports st.blocks, i ∈ allImports st2.blocks ∨ i ∈ mandatory := by
    unfold stageMandatory at h3
    split at h3
    · exact (addMandatoryLoop_spec _ _ _ h3).1
    · cases h3; exact fun i hi => Or.inl hi
  intro i hi
  rcases s3 i hi with h4 | h4
  · rcases s2 i h4 with h5 | h5
    · exact Or.inl (s1 i h5)
    · exact Or.inr (Or.inr h5)
  · exact Or.inr (Or.inl h4)

/-- **C04_unique_added** — with add-missing on, a name reported missing whose
    database lookup has exactly one candidate is imported in the result. -/
theorem C04_unique_added (ss : List Stmt) (scan : Scan) (known mandatory : List Imp) (fl : Flags) (st : St)
    (h : fixStage2 ss scan known mandatory fl = .ok st) (hfl : fl.addMissing = true)
    (m : Nat × Str) (hm : m ∈ scan.missing) (i : Imp) (hk : lookupKnown known m.2 = [i]) :
    i ∈ allImports st.blocks := by
  unfold fixStage2 at h
  obtain ⟨st1, h1, h⟩ := bind_ok h
  obtain ⟨st2, h2, h3⟩ := bind_ok h
  have s2 : i ∈ allImports st2.blocks := by
    unfold stageMissing at h2
    rw [if_pos hfl] at h2
    split at h2
    · rename_i st' added hl
      cases h2
      exact (addMissingLoop_spec _ _ _ _ _ _ _ hl (by simp)).2.2 m hm i hk
    · cases h2
  unfold stageMandatory at h3
  split at h3
  · exact (addMandatoryLoop_spec _ _ _ h3).2 i s2
  · cases h3; exact s2

/-- **C04_ambiguous_or_unknown_not_added** — corollary of `C04_never_guesses`: an
    import that was not in the input and is not mandatory can only appear as the
    unique candidate of a missing name. -/
theorem C04_ambiguous_not_added (ss : List Stmt) (scan : Scan) (known mandatory : List Imp) (fl : Flags) (st : St)
    (h : fixStage2 ss scan known mandatory fl = .ok st) (i : Imp)
    (hnot : ∀ m ∈ scan.missing, lookupKnown known m.2 ≠ [i])
    (hin : i ∉ allImports (preprocess ss).blocks) (hmand : i ∉ mandatory) :
    i ∉ allImports st.blocks := by
  intro hi
  rcases C04_never_guesses ss scan known mandatory fl st h i hi with h1 | h1 | ⟨m, hm, hl⟩
  · exact hin h1
  · exact hmand h1
  · exact hnot m hm hl

/-- **C04_placement** — the block chosen for an import that must precede line `m`
    ends before line `m`, or is an empty block. -/
theorem C04_placement (st : St) (imp : Imp) (m id : Nat) (h : selectBlock st imp (some m) = some id) :
    ∃ s l e bl set, st.blocks.find? (fun b => blockId b = some id) = some (.imports id s l e bl set) ∧
      (bl = true ∨ l < m) := by
  unfold selectBlock at h
  split at h
  · cases h
  · rename_i k id' hp
    have hid : id' = id := by split at h <;> simp_all
    subst hid
    have hm := pickBest_mem _ _ hp
    unfold candidates at hm
    simp only [List.mem_filterMap] at hm
    obtain ⟨x, _, hx⟩ := hm
    split at hx
    · rename_i i s l e bl set hf
      by_cases hok : candOk imp bl l (some m) set = true
      · rw [if_pos hok] at hx
        simp at hx
        obtain ⟨_, rfl⟩ := hx
        have hb := List.find?_some hf
        simp [blockId] at hb
        subst hb
        refine ⟨s, l, e, bl, set, hf, ?_⟩
        unfold candOk at hok
        rw [Bool.and_eq_true] at hok
        have hok := hok.1
        unfold lineOk at hok
        simp at hok
        exact hok
      · rw [if_neg hok] at hx; cases hx
    · cases hx

theorem foldl_min_spec (l : List (Nat × Str)) (a : Nat) :
    ∃ k, l.foldl minStep (some a) = some k ∧ k ≤ a ∧ ∀ x ∈ l, k ≤ x.1 := by
  induction l generalizing a with
  | nil => exact ⟨a, rfl, Nat.le_refl _, by simp⟩
  | cons x xs ih =>
    obtain ⟨k, hk, hle, hall⟩ := ih (min a x.1)
    refine ⟨k, by simpa [minStep] using hk, by omega, ?_⟩
    intro y hy
    simp at hy
    rcases hy with rfl | hy
    · omega
    · exact hall y hy

/-- **C04_first_use_min** — the line passed to `add_import` is the smallest line at
    which the name is reported missing. -/
theorem C04_first_use_min (missing : List (Nat × Str)) (name : Str) (m : Nat × Str)
    (hm : m ∈ missing) (hn : m.2 = name) :
    ∃ k, firstUse missing name = some k ∧ k ≤ m.1 := by
  unfold firstUse
  have hmem : m ∈ missing.filter (fun m => m.2 = name) := by simp [hm, hn]
  generalize missing.filter (fun m => m.2 = name) = l at hmem
  cases l with
  | nil => simp at hmem
  | cons x xs =>
    obtain ⟨k, hk, hle, hall⟩ := foldl_min_spec xs x.1
    refine ⟨k, by simpa [minStep] using hk, ?_⟩
    simp at hmem
    rcases hmem with rfl | h
    · exact hle
    · exact hall m h

/-! ### Non-vacuity -/

example : (fixStage2 C01.exStmts ⟨[(3, ⟨"os".toList, "os".toList⟩)], [(4, "sys".toList), (4, "zz".toList)]⟩
      [⟨"sys".toList, "sys".toList⟩, ⟨"a.zz".toList, "zz".toList⟩, ⟨"b.zz".toList, "zz".toList⟩] []
      ⟨true, true, true⟩).toOption.map (fun st => (allImports st.blocks).map (fun i => String.ofList i.fullname))
    = some ["sys"] := by decide

end Pfb.C04
