/-
  Pfb.C15.Props — property theorems for C15
  ("`py` delivers arguments faithfully and never evaluates literals").

  The model (`Pfb.C15.Model`) follows `_parse_auto_apply_args`, `UserExpr`,
  `_interpret_arg_mode` and the global-option loop of lib/python/pyflyby/_py.py;
  its last section holds the vocabulary the statements below are written in.
  All helper lemmas are in `Pfb.C15.Lemmas`.
-/
import Pfb.C15.Lemmas
namespace Pfb.C15
open Pfb

/-- **C15_bind_agrees.**  On a signature as `inspect` describes it and a keyword
    dictionary as the option loop builds it, the three hand-written binding
    loops of `_parse_auto_apply_args` compute exactly Python's call binding:
    when `f(*pos, **kw)` binds, the parser delivers that binding (each chosen
    expression evaluated, in order); when it does not bind, the parser rejects,
    and with a reason that is really present (or because an evaluation failed
    first) — never with a binding. -/
theorem C15_bind_agrees (env : Env) (spec : ArgSpec) (hwf : WF spec) (pos : List Expr) (kw : Dict)
    (hk : KeysOk spec kw) :
    match pyBind spec Expr.dflt pos kw with
    | .ok b => bindPhase env spec pos kw = evalBinding env spec b
    | .error _ => ∃ e, bindPhase env spec pos kw = .error e ∧ Reason env spec pos kw e := by
  cases hb : pyBind spec Expr.dflt pos kw with
  | ok b => exact bindPhase_of_pyBind_ok env spec hwf pos kw b hb
  | error x =>
    have hs := bindPhase_sound env spec hwf pos kw hk
    cases hp : bindPhase env spec pos kw with
    | ok r =>
      obtain ⟨b, hb'⟩ := hs.1 r hp
      rw [hb] at hb'; cases hb'
    | error e => exact ⟨e, rfl, hs.2 e hp⟩

/-- **C15_auto** (stated for every mode).  Whatever `_parse_auto_apply_args`
    delivers — positionally or by keyword — is, for some original argument
    string `s` (an element of argv, the exact text after the first `=` of an
    element, or what stdin held), either the string `s` itself or the value of
    evaluating that same `s`; the latter never in string mode, never for a
    blank string, only when the evaluator produced a value, and in auto mode
    only when `s` parses as an expression (in particular `compile()` did not
    give up on it with a non-`SyntaxError`).  The only other delivered values
    are the defaults of the function's own parameters. -/
theorem C15_auto (env : Env) (spec : ArgSpec) (hwf : WF spec) (argv : List Str) (stdin : Str) (mode : Mode)
    (a : List Val) (k : List (Str × Val)) (h : parseAutoApply env spec argv stdin mode = .ok (a, k)) :
    ∀ v ∈ a ++ k.map (·.2),
      (∃ s, FromArgv argv stdin s ∧
        (v = .raw s ∨ (v = .evaluated s ∧ mode ≠ .string ∧ blank s = false ∧ env.outcome s = .value ∧
                       (mode = .auto → env.parsable s = true ∧ env.compileRaises s = false)))) ∨
      (∃ n ∈ spec.names, v = .dflt n) := by
  obtain ⟨p, occ, hs, hb⟩ := parse_ok h
  have hk := scan_keysOk env spec mode argv stdin p occ hs
  obtain ⟨e1, e2⟩ := scan_exprs env spec mode argv stdin none p occ hs
  intro v hv
  rcases delivered_sources env spec hwf p (dictOf occ) hk a k hb v hv with ⟨e, hsrc, hev⟩ | hd
  · left
    have hfrom : ExprFrom argv stdin mode e := by
      rcases hsrc with hp | ⟨key, hkey⟩
      · exact e1 e hp
      · exact e2 (key, e) (dictOf_mem occ _ hkey)
    obtain ⟨s, m, rfl, hs', hm⟩ := hfrom
    refine ⟨s, hs', ?_⟩
    rcases evalExpr_user env s m v hev with h1 | ⟨h1, h2, h3, h4, h5⟩
    · left; exact h1
    · right
      have hmm : m = mode := by
        rcases hm with hm | hm
        · exact hm
        · exact absurd hm h2
      subst hmm
      exact ⟨h1, h2, h3, h4, h5⟩
  · right; exact hd

/-- **C15_string_exact.**  In string mode (`--safe`, `--args=string`) every
    delivered value is exactly an original argument string (or a parameter's
    own default): nothing is evaluated, nothing is altered. -/
theorem C15_string_exact (env : Env) (spec : ArgSpec) (hwf : WF spec) (argv : List Str) (stdin : Str)
    (a : List Val) (k : List (Str × Val)) (h : parseAutoApply env spec argv stdin .string = .ok (a, k)) :
    ∀ v ∈ a ++ k.map (·.2), (∃ s, FromArgv argv stdin s ∧ v = .raw s) ∨ (∃ n ∈ spec.names, v = .dflt n) := by
  intro v hv
  rcases C15_auto env spec hwf argv stdin .string a k h v hv with ⟨s, hs, h1 | ⟨_, h2, _⟩⟩ | hd
  · left; exact ⟨s, hs, h1⟩
  · exact absurd rfl h2
  · right; exact hd

/-- **C15_string_noeval.**  In string mode the outcome of
    `_parse_auto_apply_args` — what is delivered, or which error — does not
    depend on the evaluator at all (neither on what parses as an expression nor
    on what `auto_eval` would do): literals are never evaluated. -/
theorem C15_string_noeval (e1 e2 : Env) (hs : SameSyntax e1 e2) (spec : ArgSpec) (argv : List Str) (stdin : Str) :
    parseAutoApply e1 spec argv stdin .string = parseAutoApply e2 spec argv stdin .string := by
  unfold parseAutoApply
  rw [← scan_env_indep e1 e2 hs spec .string argv stdin none]
  cases h : scan e1 spec .string argv stdin none with
  | error x => rfl
  | ok r =>
    obtain ⟨p, occ⟩ := r
    obtain ⟨i1, i2⟩ := scan_exprs e1 spec .string argv stdin none p occ h
    have lit : ∀ e, ExprFrom argv stdin .string e → evalExpr e1 e = evalExpr e2 e := by
      intro e he
      obtain ⟨s, m, rfl, _, hm⟩ := he
      have : m = .string := by rcases hm with h | h <;> exact h
      subst this
      simp [evalExpr]
    exact bindPhase_congr e1 e2 spec p (dictOf occ) (fun e he => lit e (i1 e he))
      (fun q hq => lit q.2 (i2 q (dictOf_mem occ q hq)))

/-- **C15_after_dashdash.**  In every mode, whenever the command line is
    accepted, the arguments that follow the first `--` reach the function as the
    exact original strings — unevaluated, in order, contiguous — among the
    positional arguments. -/
theorem C15_after_dashdash (env : Env) (spec : ArgSpec) (hwf : WF spec) (pre rest : List Str) (stdin : Str)
    (mode : Mode) (hpre : dd ∉ pre) (a : List Val) (k : List (Str × Val))
    (h : parseAutoApply env spec (pre ++ dd :: rest) stdin mode = .ok (a, k)) :
    ∃ front tail, a = front ++ rest.map Val.raw ++ tail := by
  obtain ⟨p, occ, hs, hb⟩ := parse_ok h
  have hk := scan_keysOk env spec mode _ stdin p occ hs
  obtain ⟨p0, rfl⟩ := scan_dashdash env spec mode rest pre stdin none p occ hpre hs
  obtain ⟨vs, tail, hv, rfl⟩ := delivered_positional env spec hwf _ _ hk a k hb
  obtain ⟨v1, v2, _, e2, rfl⟩ := evalAll_append_ok hv
  rw [evalAll_lits] at e2
  simp only [Except.ok.injEq] at e2
  subst e2
  exact ⟨v1, tail, rfl⟩

/-- **C15_binding_partial** — what holds of the code as it stands (any
    `env.exactFirst`).  For a command line typed in the documented forms in
    which no option names a parameter that is a proper prefix of another
    (`Agrees`, D16): if the equivalent Python call `f(*pos, **kw)` binds, the
    parser succeeds and delivers exactly that binding (each option bound to
    the parameter with its name or unique prefix, the last occurrence
    winning, every chosen string evaluated on its own); if Python would raise
    `TypeError`, the parser rejects — with a reason that is present — and never
    delivers a binding. -/
theorem C15_binding_partial (env : Env) (spec : ArgSpec) (hwf : WF spec) (mode : Mode)
    (items : List Item) (tail : Option (List Str)) (stdin : Str)
    (hok : ∀ it ∈ items, ItemOk env spec it)
    (hag : ∀ f t v, Item.opt f t v ∈ items → Agrees env spec (dashToUnderscore t)) :
    match pyBind spec Expr.dflt (callPos spec mode items tail stdin) (callKw spec mode items stdin) with
    | .ok b => parseAutoApply env spec (render items tail) stdin mode = evalBinding env spec b
    | .error _ => ∃ e, parseAutoApply env spec (render items tail) stdin mode = .error e ∧
        Reason env spec (callPos spec mode items tail stdin) (callKw spec mode items stdin) e := by
  have hs := scan_render env spec hwf mode tail items stdin hok hag
  have hk := scan_keysOk env spec mode _ stdin _ _ hs
  have := C15_bind_agrees env spec hwf (callPos spec mode items tail stdin) (callKw spec mode items stdin) hk
  unfold parseAutoApply
  rw [hs]
  exact this

/-- **C15_binding** — the full statement (the target): no restriction on
    parameter names.  It holds of the code with `fixes/C15-D16.diff`
    (`env.exactFirst = true`); for the unchanged code it is false
    (`C15_D16_witness`). -/
theorem C15_binding (env : Env) (hx : env.exactFirst = true) (spec : ArgSpec) (hwf : WF spec) (mode : Mode)
    (items : List Item) (tail : Option (List Str)) (stdin : Str)
    (hok : ∀ it ∈ items, ItemOk env spec it) :
    match pyBind spec Expr.dflt (callPos spec mode items tail stdin) (callKw spec mode items stdin) with
    | .ok b => parseAutoApply env spec (render items tail) stdin mode = evalBinding env spec b
    | .error _ => ∃ e, parseAutoApply env spec (render items tail) stdin mode = .error e ∧
        Reason env spec (callPos spec mode items tail stdin) (callKw spec mode items stdin) e :=
  C15_binding_partial env spec hwf mode items tail stdin hok (fun _ _ _ _ => Or.inl hx)

/-- **C15_accepts_only_bindable.**  For *any* argv (not only the documented
    forms): the parser succeeds only if the call it read — positional
    expressions, keyword dictionary — binds under Python's semantics, and then
    it delivers exactly that binding.  It never invents a binding. -/
theorem C15_accepts_only_bindable (env : Env) (spec : ArgSpec) (hwf : WF spec) (argv : List Str) (stdin : Str) (mode : Mode)
    (a : List Val) (k : List (Str × Val)) (h : parseAutoApply env spec argv stdin mode = .ok (a, k)) :
    ∃ b, pyBind spec Expr.dflt (callPosOf env spec mode argv stdin) (callKwOf env spec mode argv stdin) = .ok b ∧
      evalBinding env spec b = .ok (a, k) := by
  obtain ⟨p, occ, hs, hb⟩ := parse_ok h
  have hk := scan_keysOk env spec mode argv stdin p occ hs
  obtain ⟨b, h1, h2⟩ := bindPhase_ok_binding env spec hwf p (dictOf occ) hk _ hb
  refine ⟨b, ?_, h2⟩
  simp [callPosOf, callKwOf, hs, h1]

/-- **C15_delivered_binds.**  What the parser delivers is itself a valid call:
    `f(*args, **kwargs)` binds under Python's semantics, with every positional
    parameter filled positionally. -/
theorem C15_delivered_binds (env : Env) (spec : ArgSpec) (hwf : WF spec) (argv : List Str) (stdin : Str) (mode : Mode)
    (a : List Val) (k : List (Str × Val)) (h : parseAutoApply env spec argv stdin mode = .ok (a, k)) :
    spec.args.length ≤ a.length ∧ ∃ b, pyBind spec Val.dflt a k = .ok b := by
  obtain ⟨p, occ, hs, hb⟩ := parse_ok h
  exact delivered_binds env spec hwf p (dictOf occ) (scan_keysOk env spec mode argv stdin p occ hs) a k hb

/-- **C15_rejects_ambiguous.**  After any well-formed beginning, an option whose
    name is not a parameter name and is a prefix of two or more parameters is
    rejected as ambiguous — never guessed, never bound — whatever follows. -/
theorem C15_rejects_ambiguous (env : Env) (spec : ArgSpec) (hwf : WF spec) (mode : Mode)
    (its1 : List Item) (f : Form) (t v : Str) (its2 : List Item) (tail : Option (List Str)) (stdin : Str)
    (hok : ∀ it ∈ its1, ItemOk env spec it)
    (hag : ∀ f t v, Item.opt f t v ∈ its1 → Agrees env spec (dashToUnderscore t))
    (hsyn : OptSyntax env f t) (hnot : dashToUnderscore t ∉ spec.names) (m1 m2 : Str) (r : List Str)
    (hamb : spec.names.filter (fun a => (dashToUnderscore t).isPrefixOf a) = m1 :: m2 :: r) :
    parseAutoApply env spec (render (its1 ++ .opt f t v :: its2) tail) stdin mode = .error .ambiguous := by
  obtain ⟨c, t', rfl, _, _⟩ := hsyn.first
  have hn : dashToUnderscore (c :: t') ≠ [] := by simp [dashToUnderscore]
  have hres := resolveOpt_ambiguous env spec _ f.hasEq hn hnot m1 m2 r hamb
  unfold parseAutoApply
  rw [render_split, scan_bad_option env spec hwf mode its1 f _ v _ stdin _ hok hag hsyn hres]

/-- **C15_rejects_unknown.**  An option that names no parameter and is a prefix
    of none is rejected as unknown when the function has no `**kwargs` (a bare
    `--help`/`--h`/`--source` is the help request instead). -/
theorem C15_rejects_unknown (env : Env) (spec : ArgSpec) (hwf : WF spec) (mode : Mode)
    (its1 : List Item) (f : Form) (t v : Str) (its2 : List Item) (tail : Option (List Str)) (stdin : Str)
    (hok : ∀ it ∈ its1, ItemOk env spec it)
    (hag : ∀ f t v, Item.opt f t v ∈ its1 → Agrees env spec (dashToUnderscore t))
    (hsyn : OptSyntax env f t)
    (hnone : spec.names.filter (fun a => (dashToUnderscore t).isPrefixOf a) = []) (hv : spec.varkw = false)
    (hnh : ¬ (f.hasEq = false ∧
      (dashToUnderscore t = sHelp ∨ dashToUnderscore t = sH ∨ dashToUnderscore t = sSource))) :
    parseAutoApply env spec (render (its1 ++ .opt f t v :: its2) tail) stdin mode = .error .unknownOption := by
  obtain ⟨c, t', rfl, _, _⟩ := hsyn.first
  have hn : dashToUnderscore (c :: t') ≠ [] := by simp [dashToUnderscore]
  have hres := resolveOpt_unknown env spec _ f.hasEq hn hnone hv hnh
  unfold parseAutoApply
  rw [render_split, scan_bad_option env spec hwf mode its1 f _ v _ stdin _ hok hag hsyn hres]

/-- **C15_rejects_call.**  In string mode (no evaluation can fail) a command
    line in the documented forms whose equivalent Python call does not bind —
    a required parameter missing, a parameter given both positionally and by
    name, too many positional arguments — is rejected with the matching error
    and the condition named by that error really holds. -/
theorem C15_rejects_call (env : Env) (spec : ArgSpec) (hwf : WF spec)
    (items : List Item) (tail : Option (List Str)) (stdin : Str)
    (hok : ∀ it ∈ items, ItemOk env spec it)
    (hag : ∀ f t v, Item.opt f t v ∈ items → Agrees env spec (dashToUnderscore t))
    (x : BindErr)
    (hb : pyBind spec Expr.dflt (callPos spec .string items tail stdin) (callKw spec .string items stdin) = .error x) :
    ∃ e, parseAutoApply env spec (render items tail) stdin .string = .error e ∧ e ≠ .evalError ∧
      Reason env spec (callPos spec .string items tail stdin) (callKw spec .string items stdin) e := by
  have h := C15_binding_partial env spec hwf .string items tail stdin hok hag
  rw [hb] at h
  obtain ⟨e, he, hr⟩ := h
  refine ⟨e, he, ?_, hr⟩
  -- no evaluation can fail in string mode: every expression is a literal
  intro hee
  subst hee
  rcases hr with ⟨_, e, hsrc, y, hy⟩ | ⟨h, _⟩ | ⟨h, _⟩ | ⟨h, _⟩ | ⟨h, _⟩
  · have hs := scan_render env spec hwf .string tail items stdin hok hag
    obtain ⟨i1, i2⟩ := scan_exprs env spec .string _ stdin none _ _ hs
    have hfrom : ExprFrom (render items tail) stdin .string e := by
      rcases hsrc with hp | ⟨k, hk⟩
      · exact i1 e hp
      · exact i2 (k, e) (dictOf_mem _ _ hk)
    obtain ⟨s, m, rfl, _, hm⟩ := hfrom
    have : m = .string := by rcases hm with h | h <;> exact h
    subst this
    simp [evalExpr] at hy
  all_goals cases h

section Witness

/-- ASCII identifiers, every string evaluable; `fix` = with `fixes/C15-D16.diff` -/
def envW (fix : Bool) : Env :=
  { isIdent := asciiIdent, parsable := fun _ => true, outcome := fun _ => .value, exactFirst := fix }

/-- `def h(x, xy)` -/
def specW : ArgSpec := ⟨[['x'], ['x','y']], 0, false, [], [], false⟩

/-- `--x=1 --xy=2` -/
def itemsW : List Item := [.opt .ddEq ['x'] ['1'], .opt .ddEq ['x','y'] ['2']]

theorem specW_wf : WF specW := by decide

theorem itemsW_ok (fix : Bool) : ∀ it ∈ itemsW, ItemOk (envW fix) specW it := by
  intro it hit
  simp only [itemsW, List.mem_cons, List.mem_nil_iff, or_false] at hit
  rcases hit with rfl | rfl
  · exact ⟨['x'], ⟨⟨'x', [], rfl, by decide, by decide⟩, by decide, by cases fix <;> decide, by decide, by decide,
      by decide⟩⟩
  · exact ⟨['x','y'], ⟨⟨'x', ['y'], rfl, by decide, by decide⟩, by decide, by cases fix <;> decide, by decide,
      by decide, by decide⟩⟩

/-- the equivalent Python call `h(x='1', xy='2')` binds … -/
theorem witness_call_binds :
    pyBind specW Expr.dflt (callPos specW .string itemsW none []) (callKw specW .string itemsW []) =
      .ok ⟨[.user ['1'] .string, .user ['2'] .string], [], [], []⟩ := by decide

/-- … the unchanged parser rejects `--x=1 --xy=2` as ambiguous … -/
theorem witness_rejected :
    parseAutoApply (envW false) specW (render itemsW none) [] .string = .error .ambiguous := by decide

/-- … and with the proposed fix it delivers `h('1', '2')`. -/
theorem witness_fixed :
    parseAutoApply (envW true) specW (render itemsW none) [] .string = .ok ([.raw ['1'], .raw ['2']], []) := by decide

/-- **C15_D16_witness.**  The statement of `C15_binding` without the hypothesis
    `env.exactFirst = true` (i.e. for the code as it stands) is false:
    `def h(x, xy)` with `--x=1 --xy=2`. -/
theorem C15_D16_witness :
    ¬ (∀ (env : Env) (spec : ArgSpec), WF spec → ∀ (mode : Mode) (items : List Item) (tail : Option (List Str))
        (stdin : Str), (∀ it ∈ items, ItemOk env spec it) →
        match pyBind spec Expr.dflt (callPos spec mode items tail stdin) (callKw spec mode items stdin) with
        | .ok b => parseAutoApply env spec (render items tail) stdin mode = evalBinding env spec b
        | .error _ => ∃ e, parseAutoApply env spec (render items tail) stdin mode = .error e ∧
            Reason env spec (callPos spec mode items tail stdin) (callKw spec mode items stdin) e) := by
  intro H
  have h := H (envW false) specW specW_wf .string itemsW none [] (itemsW_ok false)
  rw [witness_call_binds] at h
  simp only [] at h
  rw [witness_rejected] at h
  revert h
  decide

/-! ### H2: `--name=` with nothing after the `=` (`def f(a, x=…)`, `py f --x= 5`) -/

/-- `def f(a, x=<default>)` -/
def specH2 : ArgSpec := ⟨[['a'], ['x']], 1, false, [], [], false⟩

/-- the code as it stands: `--x=` swallows the next argument, so `a` is missing … -/
theorem witness_H2_swallows :
    parseAutoApply (envW false) specH2 [w "--x=", w "5"] [] .string = .error .missingRequired := by decide

/-- … and as the last argument it is a `Missing argument` error; -/
theorem witness_H2_last :
    parseAutoApply (envW false) specH2 [w "5", w "--x="] [] .string = .error .missingArgEnd := by decide

/-- with `fixes/C15-H2.diff` both are the Python call `f('5', x='')`. -/
theorem witness_H2_fixed :
    parseAutoApply { envW false with eqValue := true } specH2 [w "--x=", w "5"] [] .string
        = .ok ([.raw (w "5"), .raw []], []) ∧
      parseAutoApply { envW false with eqValue := true } specH2 [w "5", w "--x="] [] .string
        = .ok ([.raw (w "5"), .raw []], []) := by decide

/-- **C15_eq_value.**  With the fix an option written with `=` never takes the next argument, whatever
    follows the `=`; as the code stands it does so exactly when nothing follows.  Without `=` both read the next. -/
theorem C15_eq_value (env : Env) (v : Str) :
    takesNext env false [] = true ∧
    (env.eqValue = true → takesNext env true v = false) ∧
    (env.eqValue = false → takesNext env true v = v.isEmpty) := by
  refine ⟨by simp [takesNext], fun h => by simp [takesNext, h], fun h => by simp [takesNext, h]⟩

end Witness

/-- **C15_last_wins.**  In the equivalent call every parameter receives the
    value of the *last* option that names it (by its name or unique prefix). -/
theorem C15_last_wins (spec : ArgSpec) (mode : Mode) (items : List Item) (stdin : Str) (m : Str) :
    dget (callKw spec mode items stdin) m = lastOcc (expectScan spec mode items stdin).2 m :=
  dget_dictOf _ _

/-- **C15_global_opts_suffix.**  Global option parsing (`--safe`, `--args=…`,
    `-q`, …) hands the command and its arguments on untouched: what remains is
    a suffix of the original argv. -/
theorem C15_global_opts_suffix (argv : List Str) (m : Option AMode) (o : GOut) (h : globalOpts argv m = .ok o) :
    ∃ pre, argv = pre ++ o.rest :=
  globalOpts_suffix_aux argv.length argv m o (Nat.le_refl _) h

/-- `--safe` puts the parser in string mode whatever came before (a later
    `--args=…` may still override it: the last mode option wins). -/
theorem C15_safe_sets_string (rest : List Str) (m : Option AMode) :
    globalOpts (w "--safe" :: rest) m = globalOpts rest (some .string) := by
  have : gstep (w "--safe") = .cont (fun _ => some .string) := by rfl
  simp [globalOpts, this]

section Examples

/-- `def g(foo, *rest, bar=…, key, **kw)` -/
def specE : ArgSpec := ⟨[w "foo"], 0, true, [w "bar", w "key"], [w "bar"], true⟩
/-- `1+2 -b 'x y' - --k=v --zz=$HOME -- --key -x` (prefixes `b`, `k`; `zz` goes to `**kw`) -/
def itemsE : List Item :=
  [.pos (w "1+2"), .opt .dSp (w "b") (w "x y"), .stdin, .opt .ddEq (w "k") (w "v"), .opt .ddEq (w "zz") (w "$HOME")]
def tailE : Option (List Str) := some [w "--key", w "-x"]

example : WF specE := by decide

example : ∀ it ∈ itemsE, ItemOk (envW false) specE it := by
  intro it hit
  simp only [itemsE, List.mem_cons, List.mem_nil_iff, or_false] at hit
  rcases hit with rfl | rfl | rfl | rfl | rfl
  · exact ⟨by decide, by decide, by decide⟩
  · exact ⟨w "bar", ⟨⟨'b', [], rfl, by decide, by decide⟩, by decide, by decide, by decide, by decide, by decide⟩⟩
  · trivial
  · exact ⟨w "key", ⟨⟨'k', [], rfl, by decide, by decide⟩, by decide, by decide, by decide, by decide, by decide⟩⟩
  · exact ⟨w "zz", ⟨⟨'z', ['z'], rfl, by decide, by decide⟩, by decide, by decide, by decide, by decide, by decide⟩⟩

/-- the unchanged code agrees with the property on this signature: no name is a proper prefix of another -/
example : ∀ f t v, Item.opt f t v ∈ itemsE → Agrees (envW false) specE (dashToUnderscore t) := by
  intro f t v hit
  simp only [itemsE, List.mem_cons, List.mem_nil_iff, or_false] at hit
  rcases hit with h | h | h | h | h <;> cases h <;> (right; decide)

/-- … and the model delivers `g(eval '1+2', <stdin>, '--key', '-x', bar=eval 'x y', key=eval 'v', zz=eval '$HOME')` -/
example : parseAutoApply (envW false) specE (render itemsE tailE) (w "IN") .auto =
    .ok ([.evaluated (w "1+2"), .raw (w "IN"), .raw (w "--key"), .raw (w "-x")],
         [(w "bar", .evaluated (w "x y")), (w "key", .evaluated (w "v")), (w "zz", .evaluated (w "$HOME"))]) := by
  decide

/-- hypotheses of `C15_after_dashdash` -/
example : dd ∉ [w "1+2", w "-b", w "x y"] := by decide

/-- hypotheses of `C15_rejects_ambiguous`: `def h(xa, xb)`, `--x=1` -/
example : OptSyntax (envW false) .ddEq (w "x") ∧ w "x" ∉ (⟨[w "xa", w "xb"], 0, false, [], [], false⟩ : ArgSpec).names ∧
    (⟨[w "xa", w "xb"], 0, false, [], [], false⟩ : ArgSpec).names.filter (fun a => (w "x").isPrefixOf a) = [w "xa", w "xb"] :=
  ⟨⟨⟨'x', [], rfl, by decide, by decide⟩, by decide, by decide⟩, by decide, by decide⟩

/-- hypotheses of `C15_rejects_call`: `def h(x, xy)` with only `--xy=2` does not bind -/
example : pyBind specW Expr.dflt (callPos specW .string [.opt .ddEq (w "xy") (w "2")] none [])
    (callKw specW .string [.opt .ddEq (w "xy") (w "2")] []) = .error .missing := by decide

/-- global options: `py -q --safe f 1+2` -/
example : globalOpts [w "-q", w "--safe", w "f", w "1+2"] none = .ok ⟨some .string, [w "f", w "1+2"]⟩ := by decide

/-- `compile()` gives up on the second argument (say `"-" * 5000 + "1"`, or a file name with an undecodable
    byte): auto mode delivers it as the original string, next to an evaluated neighbour, even when the
    evaluator would have failed on it -/
example : parseAutoApply
      { envW false with compileRaises := fun s => s = w "caf?.txt", outcome := fun s => if s = w "caf?.txt" then .error else .value }
      specE [w "2+3", w "caf?.txt", w "--bar=caf?.txt", w "--key", w "None"] [] .auto =
    .ok ([.evaluated (w "2+3"), .raw (w "caf?.txt")], [(w "bar", .raw (w "caf?.txt")), (w "key", .evaluated (w "None"))]) := by
  decide

end Examples

end Pfb.C15
