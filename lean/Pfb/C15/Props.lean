/-
  Pfb.C15.Props — property theorems for C15
  ("`py` delivers arguments faithfully and never evaluates literals").
-/
import Pfb.C15.Lemmas
namespace Pfb.C15
open Pfb

/-! ## 1. The binding loops implement Python's call binding -/

/-- The reasons for which the binding phase may reject, each tied to the
    condition of the call that makes Python's own binder reject it. -/
def Reason (spec : ArgSpec) (pos : List Expr) (kw : Dict) (e : PErr) : Prop :=
  e = .evalError ∨
  (e = .bothPosKw ∧ ∃ a ∈ spec.args.take pos.length, dhas kw a = true) ∨
  (e = .missingRequired ∧ ∃ a ∈ spec.args.drop pos.length, dhas kw a = false ∧ posDefault spec a = false) ∨
  (e = .missingRequiredKw ∧ ∃ a ∈ spec.kwonly, dhas kw a = false ∧ spec.kwdefaults.contains a = false) ∨
  (e = .tooManyPos ∧ pos.length > spec.args.length ∧ spec.varargs = false)

/-- the keys of `kw` that the resolution step lets through: parameter names, or anything when `**kw` exists -/
def KeysOk (spec : ArgSpec) (kw : Dict) : Prop := spec.varkw = true ∨ ∀ p ∈ kw, p.1 ∈ spec.names

theorem bindPhase_of_pyBind_ok (env : Env) (spec : ArgSpec) (hwf : WF spec) (pos : List Expr) (kw : Dict)
    (b : Binding Expr) (h : pyBind spec Expr.dflt pos kw = .ok b) :
    bindPhase env spec pos kw = evalBinding env spec b := by
  unfold pyBind at h
  simp only [] at h
  split at h
  · simp at h
  rename_i c1
  split at h
  · simp at h
  rename_i c2
  split at h
  · simp at h
  rename_i c3
  split at h
  · simp at h
  rename_i c4
  split at h
  · simp at h
  simp only [Except.ok.injEq] at h
  subst h
  -- the conditions in usable form
  have c2' : ∀ a ∈ spec.args.take pos.length, dhas kw a = false := by
    intro a ha
    cases hd : dhas kw a with
    | false => rfl
    | true => exact absurd (List.any_eq_true.2 ⟨a, ha, hd⟩) c2
  have c3' : ∀ a ∈ spec.args.drop pos.length, dhas kw a = true ∨ hasDefault spec a = true := by
    intro a ha
    rw [hasDefault_arg hwf (List.mem_of_mem_drop ha)]
    cases hd : dhas kw a with
    | true => left; rfl
    | false =>
      right
      cases hp : posDefault spec a with
      | true => rfl
      | false => exact absurd (List.any_eq_true.2 ⟨a, ha, by simp [hd, hp]⟩) c3
  have c4' : ∀ a ∈ spec.kwonly, dhas kw a = true ∨ spec.kwdefaults.contains a = true := by
    intro a ha
    cases hd : dhas kw a with
    | true => left; rfl
    | false =>
      right
      cases hp : spec.kwdefaults.contains a with
      | true => rfl
      | false => exact absurd (List.any_eq_true.2 ⟨a, ha, by rw [hd, hp]; rfl⟩) c4
  -- keyword-only parameters are untouched by the first loop
  have hnotin : ∀ a ∈ spec.kwonly, (spec.args.drop pos.length).contains a = false := by
    intro a ha
    cases hc : (spec.args.drop pos.length).contains a with
    | false => rfl
    | true => exact (hwf.disjoint (List.mem_of_mem_drop (by simpa using hc)) ha).elim
  have hdget1 : ∀ a ∈ spec.kwonly,
      dget (kw.filter (fun p => !(spec.args.drop pos.length).contains p.1)) a = dget kw a := by
    intro a ha
    rw [dget_filter_keys kw (fun k => !(spec.args.drop pos.length).contains k) a]
    simp only [hnotin a ha, Bool.not_false, if_true]
  have c4'' : ∀ a ∈ spec.kwonly,
      dhas (kw.filter (fun p => !(spec.args.drop pos.length).contains p.1)) a = true ∨ hasDefault spec a = true := by
    intro a ha
    rw [hasDefault_kwonly hwf ha]
    unfold dhas
    rw [hdget1 a ha]
    exact c4' a ha
  have hkwexprs : argExprs (kw.filter (fun p => !(spec.args.drop pos.length).contains p.1)) spec.kwonly
      = spec.kwonly.map (fun a => (dget kw a).getD (.dflt a)) := by
    unfold argExprs
    apply List.map_congr_left
    intro a ha
    rw [hdget1 a ha]
  have hss : (kw.filter (fun p => !(spec.args.drop pos.length).contains p.1)).filter
        (fun p => !spec.kwonly.contains p.1) = kw.filter (fun p => !spec.names.contains p.1) := by
    rw [List.filter_filter]
    apply List.filter_congr
    intro p hp
    have hnt : p.1 ∉ spec.args.take pos.length := by
      intro hin
      have := c2' p.1 hin
      rw [dhas_false_iff] at this
      exact this p hp rfl
    have hsplit : p.1 ∈ spec.args ↔ p.1 ∈ spec.args.drop pos.length := by
      constructor
      · intro hin
        rw [← List.take_append_drop pos.length spec.args] at hin
        rcases List.mem_append.1 hin with h1 | h1
        · exact absurd h1 hnt
        · exact h1
      · exact List.mem_of_mem_drop
    unfold ArgSpec.names
    by_cases h1 : p.1 ∈ spec.args
    · simp [h1, hsplit.1 h1]
    · have : p.1 ∉ spec.args.drop pos.length := fun hh => h1 (hsplit.2 hh)
      simp [h1, this]
  unfold bindPhase evalBinding
  rw [bindArgs_spec env spec spec.args pos kw hwf.args_nodup c2' c3']
  unfold argExprs
  cases hA : evalAll env (pos.take spec.args.length ++
      (spec.args.drop pos.length).map fun a => (dget kw a).getD (.dflt a)) with
  | error e => rfl
  | ok vs =>
    simp only []
    rw [bindKwonly_spec env spec spec.kwonly _ hwf.kwonly_nodup c4'', hkwexprs]
    cases hK : evalAll env (spec.kwonly.map fun a => (dget kw a).getD (.dflt a)) with
    | error e => rfl
    | ok ks =>
      simp only [hss]
      have hextra : (if (pos.drop spec.args.length).isEmpty then (Except.ok [] : Except PErr (List Val))
            else if spec.varargs then evalAll env (pos.drop spec.args.length) else .error .tooManyPos)
          = evalAll env (pos.drop spec.args.length) := by
        cases hl : pos.drop spec.args.length with
        | nil => simp [evalAll]
        | cons x xs =>
          have hlen : pos.length > spec.args.length := by
            have : (pos.drop spec.args.length).length > 0 := by rw [hl]; simp
            simp at this; omega
          have hv : spec.varargs = true := by
            cases hv : spec.varargs with
            | true => rfl
            | false => exact absurd (by simp [hlen, hv]) c1
          simp [hv]
      rw [hextra]

theorem bindPhase_sound (env : Env) (spec : ArgSpec) (hwf : WF spec) (pos : List Expr) (kw : Dict)
    (hk : KeysOk spec kw) :
    (∀ r, bindPhase env spec pos kw = .ok r → ∃ b, pyBind spec Expr.dflt pos kw = .ok b) ∧
    (∀ e, bindPhase env spec pos kw = .error e → Reason spec pos kw e) := by
  cases h1 : bindArgs env spec spec.args pos kw with
  | error x =>
    constructor
    · intro r hr; simp [bindPhase, h1] at hr
    · intro e he
      simp only [bindPhase, h1] at he
      simp only [Except.error.injEq] at he
      subst he
      rcases bindArgs_err env spec spec.args pos kw x hwf.args_nodup h1 with h | ⟨h, a, ha, hd⟩ | ⟨h, a, ha, hd, hdef⟩
      · left; exact h
      · right; left; exact ⟨h, a, ha, hd⟩
      · right; right; left
        refine ⟨h, a, ha, hd, ?_⟩
        rwa [hasDefault_arg hwf (List.mem_of_mem_drop ha)] at hdef
  | ok r1 =>
    obtain ⟨c2', c3'⟩ := bindArgs_ok env spec spec.args pos kw r1 h1
    have hspec := bindArgs_spec env spec spec.args pos kw hwf.args_nodup c2' c3'
    rw [h1] at hspec
    cases hA : evalAll env (pos.take spec.args.length ++ argExprs kw (spec.args.drop pos.length)) with
    | error x => rw [hA] at hspec; simp at hspec
    | ok vs =>
      rw [hA] at hspec
      simp only [Except.ok.injEq] at hspec
      subst hspec
      -- facts about the dictionary handed to the second loop
      have hdget1 : ∀ a ∈ spec.kwonly,
          dget (kw.filter (fun p => !(spec.args.drop pos.length).contains p.1)) a = dget kw a := by
        intro a ha
        have hn : (spec.args.drop pos.length).contains a = false := by
          cases hc : (spec.args.drop pos.length).contains a with
          | false => rfl
          | true => exact (hwf.disjoint (List.mem_of_mem_drop (by simpa using hc)) ha).elim
        rw [dget_filter_keys kw (fun k => !(spec.args.drop pos.length).contains k) a]
        simp only [hn, Bool.not_false, if_true]
      have hdhas1 : ∀ a ∈ spec.kwonly,
          dhas (kw.filter (fun p => !(spec.args.drop pos.length).contains p.1)) a = dhas kw a := by
        intro a ha; unfold dhas; rw [hdget1 a ha]
      -- the pyBind conditions that the first loop established
      have hc2 : (spec.args.take pos.length).any (fun a => dhas kw a) = false := by
        cases hh : (spec.args.take pos.length).any (fun a => dhas kw a) with
        | false => rfl
        | true =>
          obtain ⟨a, ha, hd⟩ := List.any_eq_true.1 hh
          rw [c2' a ha] at hd; simp at hd
      have hc3 : (spec.args.drop pos.length).any (fun a => !dhas kw a && !posDefault spec a) = false := by
        cases hh : (spec.args.drop pos.length).any (fun a => !dhas kw a && !posDefault spec a) with
        | false => rfl
        | true =>
          obtain ⟨a, ha, hd⟩ := List.any_eq_true.1 hh
          have := c3' a ha
          rw [hasDefault_arg hwf (List.mem_of_mem_drop ha)] at this
          rcases this with h | h <;> simp [h] at hd
      have hc5 : (!spec.varkw && kw.any (fun p => !spec.names.contains p.1)) = false := by
        rcases hk with h | h
        · simp [h]
        · cases hh : kw.any (fun p => !spec.names.contains p.1) with
          | false => simp
          | true =>
            obtain ⟨p, hp, hd⟩ := List.any_eq_true.1 hh
            have := h p hp
            simp [this] at hd
      cases h2 : bindKwonly env spec spec.kwonly
          (kw.filter (fun p => !(spec.args.drop pos.length).contains p.1)) with
      | error x =>
        constructor
        · intro r hr; simp only [bindPhase, h1, h2] at hr; cases hr
        · intro e he
          simp only [bindPhase, h1, h2] at he
          simp only [Except.error.injEq] at he
          subst he
          rcases bindKwonly_err env spec spec.kwonly _ x hwf.kwonly_nodup h2 with h | ⟨h, a, ha, hd, hdef⟩
          · left; exact h
          · right; right; right; left
            refine ⟨h, a, ha, ?_, ?_⟩
            · rwa [hdhas1 a ha] at hd
            · rwa [hasDefault_kwonly hwf ha] at hdef
      | ok r2 =>
        have c4' := bindKwonly_ok env spec spec.kwonly _ r2 h2
        have hc4 : spec.kwonly.any (fun a => !dhas kw a && !spec.kwdefaults.contains a) = false := by
          cases hh : spec.kwonly.any (fun a => !dhas kw a && !spec.kwdefaults.contains a) with
          | false => rfl
          | true =>
            obtain ⟨a, ha, hd⟩ := List.any_eq_true.1 hh
            have := c4' a ha
            rw [hdhas1 a ha, hasDefault_kwonly hwf ha] at this
            rcases this with h | h
            · rw [h] at hd; simp at hd
            · rw [h] at hd; simp at hd
        obtain ⟨kvs, kw2⟩ := r2
        by_cases hl : (pos.drop spec.args.length).isEmpty = true
        · -- no extra positional arguments
          have hc1 : (decide (pos.length > spec.args.length) && !spec.varargs) = false := by
            have : pos.length ≤ spec.args.length := by
              have := List.isEmpty_iff.1 hl
              have h3 := congrArg List.length this
              simp at h3; omega
            simp; intro h; omega
          constructor
          · intro r _
            unfold pyBind
            simp only [hc1, hc2, hc3, hc4, hc5]
            exact ⟨_, rfl⟩
          · intro e he
            simp only [bindPhase, h1, h2, hl, if_true] at he
            cases hR : evalKw env kw2 with
            | error x => rw [hR] at he; simp at he; subst he; left; exact evalKw_error _ _ _ hR
            | ok rest => rw [hR] at he; simp at he
        · by_cases hv : spec.varargs = true
          · have hc1 : (decide (pos.length > spec.args.length) && !spec.varargs) = false := by simp [hv]
            constructor
            · intro r _
              unfold pyBind
              simp only [hc1, hc2, hc3, hc4, hc5]
              exact ⟨_, rfl⟩
            · intro e he
              simp only [bindPhase, h1, h2, hl, hv, if_true] at he
              cases hS : evalAll env (pos.drop spec.args.length) with
              | error x =>
                rw [hS] at he; simp at he; subst he; left; exact evalAll_error _ _ _ hS
              | ok xs =>
                rw [hS] at he
                cases hR : evalKw env kw2 with
                | error x => rw [hR] at he; simp at he; subst he; left; exact evalKw_error _ _ _ hR
                | ok rest => rw [hR] at he; simp at he
          · have hl' : (pos.drop spec.args.length).isEmpty = false := by
              cases hh : (pos.drop spec.args.length).isEmpty with
              | false => rfl
              | true => exact absurd hh hl
            have hv' : spec.varargs = false := by
              cases hh : spec.varargs with
              | false => rfl
              | true => exact absurd hh hv
            constructor
            · intro r hr
              simp only [bindPhase, h1, h2, hl', hv', Bool.false_eq_true, if_false] at hr
              cases hr
            · intro e he
              simp only [bindPhase, h1, h2, hl', hv', Bool.false_eq_true, if_false] at he
              simp only [Except.error.injEq] at he
              subst he
              right; right; right; right
              refine ⟨rfl, ?_, by simpa using hv⟩
              have : pos.drop spec.args.length ≠ [] := by
                intro h; exact hl (by simp [h])
              have h3 : (pos.drop spec.args.length).length > 0 := List.length_pos_iff.2 this
              simp at h3; omega

/-- **C15_bind_agrees.**  On a signature as `inspect` describes it and a keyword
    dictionary as the option loop builds it, the three hand-written binding
    loops of `_parse_auto_apply_args` compute exactly Python's call binding:
    when `f(*pos, **kw)` binds, the parser delivers that binding (each chosen
    expression evaluated, in order); when it does not bind, the parser rejects,
    and with a reason that is really present (or because an evaluation failed
    first) — never with a binding. -/
theorem C15_bind_agrees (env : Env) (spec : ArgSpec) (hwf : WF spec) (pos : List Expr) (kw : Dict)
    (hk : KeysOk spec kw) :
    match pyBind spec Expr.dflt pos kw with
    | .ok b => bindPhase env spec pos kw = evalBinding env spec b
    | .error _ => ∃ e, bindPhase env spec pos kw = .error e ∧ Reason spec pos kw e := by
  cases hb : pyBind spec Expr.dflt pos kw with
  | ok b => exact bindPhase_of_pyBind_ok env spec hwf pos kw b hb
  | error x =>
    have hs := bindPhase_sound env spec hwf pos kw hk
    cases hp : bindPhase env spec pos kw with
    | ok r =>
      obtain ⟨b, hb'⟩ := hs.1 r hp
      rw [hb] at hb'; cases hb'
    | error e => exact ⟨e, rfl, hs.2 e hp⟩

/-! ## 2. The option loop -/

theorem resolveOpt_bound (env : Env) (spec : ArgSpec) (n : Str) (eq : Bool) (m : Str)
    (h : resolveOpt env spec n eq = .bound m) : m ∈ spec.names ∨ spec.varkw = true := by
  unfold resolveOpt at h
  simp only [] at h
  split at h
  · rename_i m' hms
    simp only [Res.bound.injEq] at h
    subst h
    left
    split at hms
    · rename_i hc
      simp only [List.cons.injEq, and_true] at hms
      subst hms
      simp only [Bool.and_eq_true] at hc
      have : n ∈ matched spec n := by simpa using hc.2
      exact (List.mem_filter.1 this).1
    · have : m' ∈ matched spec n := by rw [hms]; simp
      exact (List.mem_filter.1 this).1
  · split at h
    · cases h
    · split at h
      · cases h
      · split at h
        · rename_i hv; right; exact hv
        · cases h
  · cases h

theorem optName_bound (env : Env) (spec : ArgSpec) (n : Str) (eq : Bool) (m : Str)
    (h : optName env spec n eq = .ok m) : m ∈ spec.names ∨ spec.varkw = true := by
  unfold optName at h
  split at h
  · cases h
  · split at h
    · cases h
    · cases h
    · cases h
    · rename_i m' hres
      simp only [Except.ok.injEq] at h; subst h
      exact resolveOpt_bound env spec _ _ _ hres

theorem addPos_ok {e : Expr} {r : Except PErr Scanned} {p occ} (h : addPos e r = .ok (p, occ)) :
    ∃ p', r = .ok (p', occ) ∧ p = e :: p' := by
  cases r with
  | error x => cases h
  | ok r =>
    obtain ⟨p', k'⟩ := r
    simp only [addPos, Except.ok.injEq, Prod.mk.injEq] at h
    exact ⟨p', by rw [h.2], h.1.symm⟩

theorem addKw_ok {m : Str} {e : Expr} {r : Except PErr Scanned} {p occ} (h : addKw m e r = .ok (p, occ)) :
    ∃ k', r = .ok (p, k') ∧ occ = (m, e) :: k' := by
  cases r with
  | error x => cases h
  | ok r =>
    obtain ⟨p', k'⟩ := r
    simp only [addKw, Except.ok.injEq, Prod.mk.injEq] at h
    exact ⟨k', by rw [h.1], h.2.symm⟩

theorem scan_keys (env : Env) (spec : ArgSpec) (mode : Mode) :
    ∀ (argv : List Str) (stdin : Str) (pending : Option Str) p occ,
      (∀ nm, pending = some nm → nm ∈ spec.names ∨ spec.varkw = true) →
      scan env spec mode argv stdin pending = .ok (p, occ) →
      ∀ q ∈ occ, q.1 ∈ spec.names ∨ spec.varkw = true := by
  intro argv
  induction argv with
  | nil =>
    intro stdin pending p occ _ h
    cases pending with
    | some nm => simp [scan] at h
    | none => simp [scan] at h; simp [h.2]
  | cons arg rest ih =>
    intro stdin pending p occ hp h
    cases pending with
    | some nm =>
      simp only [scan] at h
      split at h
      · cases h
      · obtain ⟨k', hr, rfl⟩ := addKw_ok h
        intro q hq
        simp at hq
        rcases hq with rfl | hq
        · exact hp nm rfl
        · exact ih stdin none p k' (by simp) hr q hq
    | none =>
      simp only [scan] at h
      split at h
      · cases h
      · cases h
      · obtain ⟨p', hr, _⟩ := addPos_ok h
        exact ih [] none p' occ (by simp) hr
      · simp only [Except.ok.injEq, Prod.mk.injEq] at h
        simp [← h.2]
      · rename_i n eq v _
        split at h
        · cases h
        · rename_i m hm
          have hm' := optName_bound env spec n eq m hm
          split at h
          · exact ih stdin (some m) p occ (by intro nm hnm; cases hnm; exact hm') h
          · obtain ⟨k', hr, rfl⟩ := addKw_ok h
            intro q hq
            simp at hq
            rcases hq with rfl | hq
            · exact hm'
            · exact ih stdin none p k' (by simp) hr q hq
      · obtain ⟨p', hr, _⟩ := addPos_ok h
        exact ih stdin none p' occ (by simp) hr

end Pfb.C15
