/-
  Pfb.C15.Model — the hand-written option parser of `py`
  (lib/python/pyflyby/_py.py): `UserExpr.__init__/_infer_and_evaluate`
  (555-690), `_parse_auto_apply_args` (693-865), `_interpret_arg_mode`
  (1319-1341), the global-option loop `_PyMain._parse_global_opts` (1695-1810),
  and — as the reference the parser is compared with — Python's call-binding
  semantics for the same signature shape (`pyBind`, what
  `inspect.Signature.bind` does for positional-or-keyword parameters, defaults,
  `*args`, keyword-only parameters and `**kwargs`).

  Parameters of the model (not modelled, supplied by the harness per case and
  universally quantified in the theorems): `Env.isIdent`
  (`str.isidentifier() and not keyword`), `Env.parsable`
  (`PythonBlock.parsable_as_expression`, i.e. CPython's parser) and
  `Env.outcome` (what `namespace.auto_eval` does with a text: a value, an
  `UnimportableNameError`, or another exception), and `Env.compileRaises`
  (CPython's `compile()` gives up on the text with something other than a
  `SyntaxError`: `UnicodeEncodeError` for lone surrogates — what argv holds for
  a file name with a non-UTF-8 byte —, `RecursionError` / `MemoryError` for
  very long or deeply nested text; `PythonBlock` records all of these as
  "not parsable", so in auto mode the original string is delivered).

  On a tree with `fixes/C15-H4.diff` (`block.compile()` before `auto_eval`)
  the harness also puts into `Env.compileRaises` the texts that the grammar
  accepts as an expression but on which `compile()` to code raises (`*1`,
  `(yield)`, `lambda x, x: 1`): they are delivered as the original string too.
  On the tree as it stands they reach `auto_eval` (`Env.outcome`).
  `Env.eqValue` selects `if not value` (false, as coded) / `if not equalsign`
  (true, `fixes/C15-H2.diff`) in the option loop, see `takesNext`.

  `Env.exactFirst = false` is the code as it stands; `true` is the code with
  `fixes/C15-D16.diff` (an exact parameter name wins over the names it is a
  prefix of).

  The keyword dictionary `got_keyword_args` is an association list with unique
  keys (`dset` replaces in place like a Python `dict`); the final
  `sorted(got_keyword_args.items())` only fixes an iteration order — every
  error raised in that loop is the same `ParseError("Error parsing value…")`
  and `parsed_kwargs` is a dict — so the model keeps dictionary order and both
  sides are sorted before they are compared.
-/
import Pfb.Basic
namespace Pfb.C15
open Pfb

inductive Mode | string | eval | auto
deriving DecidableEq, Repr

/-- `inspect.getfullargspec(f)`: `args`, `len(defaults)`, `varargs is not None`,
    `kwonlyargs`, the keys of `kwonlydefaults`, `varkw is not None`. -/
structure ArgSpec where
  args : List Str
  ndefaults : Nat
  varargs : Bool
  kwonly : List Str
  kwdefaults : List Str
  varkw : Bool
deriving DecidableEq, Repr

def ArgSpec.names (s : ArgSpec) : List Str := s.args ++ s.kwonly

/-- A delivered value: the original string, the result of evaluating the string,
    or the default object of the named parameter. -/
inductive Val
  | raw (s : Str)
  | evaluated (s : Str)
  | dflt (name : Str)
deriving DecidableEq, Repr

inductive PErr
  | wantHelp | wantSource
  | invalidOption | unknownOption | ambiguous
  | missingArgEnd | missingArgDashDash
  | bothPosKw | missingRequired | missingRequiredKw | tooManyPos
  | evalError
deriving DecidableEq, Repr

instance {ε α : Type} [DecidableEq ε] [DecidableEq α] : DecidableEq (Except ε α)
  | .ok a, .ok b => if h : a = b then isTrue (by rw [h]) else isFalse (fun e => h (by cases e; rfl))
  | .error a, .error b => if h : a = b then isTrue (by rw [h]) else isFalse (fun e => h (by cases e; rfl))
  | .ok _, .error _ => isFalse (fun e => by cases e)
  | .error _, .ok _ => isFalse (fun e => by cases e)

inductive Outcome | value | unimportable | error
deriving DecidableEq, Repr

structure Env where
  isIdent : Str → Bool
  parsable : Str → Bool
  outcome : Str → Outcome
  exactFirst : Bool
  compileRaises : Str → Bool := fun _ => false
  /-- `false`: the code as it stands (`if not value:` — an option written `--name=` with nothing after the `=`
      takes the NEXT argument as its value, like `--name`); `true`: the code with `fixes/C15-H2.diff`
      (`if not equalsign:` — `--name=` binds the empty string). -/
  eqValue : Bool := false

/-- A `UserExpr`: a user string with its argument mode (`"string"` is
    `raw_value`), or the `raw_value` expression of a parameter default. -/
inductive Expr
  | user (s : Str) (m : Mode)
  | dflt (name : Str)
deriving DecidableEq, Repr

/-- `not str(block).strip()` -/
def blank (s : Str) : Bool := s.all isPySpace

/-- `expr.value` (`UserExpr._infer_and_evaluate`) inside the `try … except
    Exception → ParseError("Error parsing value …")` of the caller. -/
def evalExpr (env : Env) : Expr → Except PErr Val
  | .dflt n => .ok (.dflt n)
  | .user s .string => .ok (.raw s)
  | .user s .eval =>
    if blank s then .error .evalError            -- ValueError("empty input")
    else match env.outcome s with
      | .value => .ok (.evaluated s)
      | _ => .error .evalError
  | .user s .auto =>
    if blank s then .ok (.raw s)
    else if env.compileRaises s then .ok (.raw s)   -- `except Exception` in `_ast_node_or_parse_exception`
    else if !env.parsable s then .ok (.raw s)
    else match env.outcome s with
      | .value => .ok (.evaluated s)
      | .unimportable => .ok (.raw s)
      | .error => .error .evalError

/-! ### `got_keyword_args` -/

abbrev Dict := List (Str × Expr)

def dget : List (Str × α) → Str → Option α
  | [], _ => none
  | (k', v) :: r, k => if k' = k then some v else dget r k

def dhas (d : List (Str × α)) (k : Str) : Bool := (dget d k).isSome

def dset : List (Str × α) → Str → α → List (Str × α)
  | [], k, v => [(k, v)]
  | (k', v') :: r, k, v => if k' = k then (k, v) :: r else (k', v') :: dset r k v

def derase (d : List (Str × α)) (k : Str) : List (Str × α) := d.filter (fun p => p.1 ≠ k)

/-- the dictionary after the assignments `d[k] = v` in order -/
def dictOf (occ : List (Str × α)) : List (Str × α) := occ.foldl (fun d p => dset d p.1 p.2) []

/-! ### option names -/

def helpTokens : List Str := [['-','-','?'], ['-','?'], ['?']]
def sourceTokens : List Str := [['-','-','?','?'], ['-','?','?'], ['?','?']]
def sHelp : Str := ['h','e','l','p']
def sH : Str := ['h']
def sSource : Str := ['s','o','u','r','c','e']

/-- `s.partition("=")` → (before, separator found, after) -/
def partitionEq : Str → Str × Bool × Str
  | [] => ([], false, [])
  | c :: cs =>
    if c = '=' then ([], true, cs)
    else match partitionEq cs with
      | (a, e, b) => (c :: a, e, b)

def dashToUnderscore (s : Str) : Str := s.map (fun c => if c = '-' then '_' else c)

/-- `prefix2argname.get(argname, [])`: the parameters (positional first, then
    keyword-only) that have `n` as a non-empty prefix. -/
def matched (spec : ArgSpec) (n : Str) : List Str :=
  spec.names.filter (fun a => !n.isEmpty && n.isPrefixOf a)

inductive Res
  | bound (name : Str)
  | help | source
  | err (e : PErr)
deriving DecidableEq, Repr

/-- lines 755-774 (+ the proposed exact-name rule when `env.exactFirst`) -/
def resolveOpt (env : Env) (spec : ArgSpec) (n : Str) (hasEq : Bool) : Res :=
  let ms := matched spec n
  let ms := if env.exactFirst && ms.contains n then [n] else ms
  match ms with
  | [m] => .bound m
  | [] =>
    if !hasEq && (n = sHelp || n = sH) then .help
    else if !hasEq && n = sSource then .source
    else if spec.varkw then .bound n
    else .err .unknownOption
  | _ :: _ :: _ => .err .ambiguous

/-- What an argument is syntactically (lines 732-752): a help / source request,
    `-` (stdin), `--` (separator), an option — its name after `-`→`_`, whether
    an `=` was present, the text after the first `=` — or a positional. -/
inductive Tok
  | help | source | stdin | dashdash
  | opt (name : Str) (hasEq : Bool) (value : Str)
  | pos
deriving DecidableEq, Repr

def classify (arg : Str) : Tok :=
  if helpTokens.contains arg then .help
  else if sourceTokens.contains arg then .source
  else if (['-'] : Str).isPrefixOf arg then
    if arg = ['-'] then .stdin
    else if arg = ['-','-'] then .dashdash
    else
      match partitionEq (if (['-','-'] : Str).isPrefixOf arg then arg.drop 2 else arg.drop 1) with
      | (n0, eq, v) => .opt (dashToUnderscore n0) eq v
  else .pos

/-- lines 753-774: the parameter an option name stands for -/
def optName (env : Env) (spec : ArgSpec) (n : Str) (hasEq : Bool) : Except PErr Str :=
  if !env.isIdent n then .error .invalidOption
  else match resolveOpt env spec n hasEq with
    | .help => .error .wantHelp
    | .source => .error .wantSource
    | .err e => .error e
    | .bound m => .ok m

/-- line 779: does the option take the next argument as its value?  As the code stands: whenever the text after
    the `=` is empty (also when an `=` was typed); with `fixes/C15-H2.diff`: exactly when no `=` was typed. -/
def takesNext (env : Env) (hasEq : Bool) (v : Str) : Bool :=
  if env.eqValue then !hasEq else v.isEmpty

abbrev Scanned := List Expr × List (Str × Expr)

def addPos (e : Expr) : Except PErr Scanned → Except PErr Scanned
  | .error x => .error x
  | .ok (p, k) => .ok (e :: p, k)

def addKw (m : Str) (e : Expr) : Except PErr Scanned → Except PErr Scanned
  | .error x => .error x
  | .ok (p, k) => .ok (p, (m, e) :: k)

/-- The `while args:` loop (lines 730-788).  `pending = some name`: an option
    without `=value` was read and `args.pop(0)` is about to supply its value.
    Result: `got_pos_args` and the keyword assignments in order. -/
def scan (env : Env) (spec : ArgSpec) (mode : Mode) :
    List Str → Str → Option Str → Except PErr Scanned
  | [], _, some _ => .error .missingArgEnd
  | [], _, none => .ok ([], [])
  | arg :: rest, stdin, some name =>
    if (['-','-'] : Str).isPrefixOf arg then .error .missingArgDashDash
    else addKw name (.user arg mode) (scan env spec mode rest stdin none)
  | arg :: rest, stdin, none =>
    match classify arg with
    | .help => .error .wantHelp
    | .source => .error .wantSource
    | .stdin => addPos (.user stdin .string) (scan env spec mode rest [] none)   -- a second read returns ""
    | .dashdash => .ok (rest.map (fun x => .user x .string), [])
    | .opt n eq v =>
      match optName env spec n eq with
      | .error e => .error e
      | .ok m =>
        if takesNext env eq v then scan env spec mode rest stdin (some m)
        else addKw m (.user v mode) (scan env spec mode rest stdin none)
    | .pos => addPos (.user arg mode) (scan env spec mode rest stdin none)

/-! ### binding (lines 709-716, 790-865) -/

/-- `argname in argname2default` -/
def hasDefault (spec : ArgSpec) (a : Str) : Bool :=
  (spec.args.drop (spec.args.length - spec.ndefaults) ++ spec.kwdefaults).contains a

def consArg (v : Val) :
    Except PErr (List Val × List Expr × Dict) → Except PErr (List Val × List Expr × Dict)
  | .error e => .error e
  | .ok (vs, l, kw) => .ok (v :: vs, l, kw)

def consKw (a : Str) (v : Val) :
    Except PErr (List (Str × Val) × Dict) → Except PErr (List (Str × Val) × Dict)
  | .error e => .error e
  | .ok (vs, kw) => .ok ((a, v) :: vs, kw)

/-- the `for i, argname in enumerate(argspec.args)` loop; the second component
    of the result is `got_pos_args[len(argspec.args):]`, the third what is left
    of `got_keyword_args`. -/
def bindArgs (env : Env) (spec : ArgSpec) :
    List Str → List Expr → Dict → Except PErr (List Val × List Expr × Dict)
  | [], pos, kw => .ok ([], pos, kw)
  | a :: as, p :: ps, kw =>
    if dhas kw a then .error .bothPosKw
    else match evalExpr env p with
      | .error e => .error e
      | .ok v => consArg v (bindArgs env spec as ps kw)
  | a :: as, [], kw =>
    match dget kw a with
    | some e => match evalExpr env e with
      | .error x => .error x
      | .ok v => consArg v (bindArgs env spec as [] (derase kw a))
    | none =>
      if hasDefault spec a then consArg (.dflt a) (bindArgs env spec as [] kw)
      else .error .missingRequired

/-- the `for argname in argspec.kwonlyargs` loop -/
def bindKwonly (env : Env) (spec : ArgSpec) :
    List Str → Dict → Except PErr (List (Str × Val) × Dict)
  | [], kw => .ok ([], kw)
  | a :: as, kw =>
    match dget kw a with
    | some e => match evalExpr env e with
      | .error x => .error x
      | .ok v => consKw a v (bindKwonly env spec as (derase kw a))
    | none =>
      if hasDefault spec a then consKw a (.dflt a) (bindKwonly env spec as kw)
      else .error .missingRequiredKw

def evalAll (env : Env) : List Expr → Except PErr (List Val)
  | [] => .ok []
  | e :: es => match evalExpr env e with
    | .error x => .error x
    | .ok v => match evalAll env es with
      | .error x => .error x
      | .ok vs => .ok (v :: vs)

def evalKw (env : Env) : Dict → Except PErr (List (Str × Val))
  | [] => .ok []
  | (k, e) :: es => match evalExpr env e with
    | .error x => .error x
    | .ok v => match evalKw env es with
      | .error x => .error x
      | .ok vs => .ok ((k, v) :: vs)

abbrev Delivered := List Val × List (Str × Val)

def bindPhase (env : Env) (spec : ArgSpec) (pos : List Expr) (kw : Dict) : Except PErr Delivered :=
  match bindArgs env spec spec.args pos kw with
  | .error e => .error e
  | .ok (vs, left, kw1) =>
    match bindKwonly env spec spec.kwonly kw1 with
    | .error e => .error e
    | .ok (kvs, kw2) =>
      let extra : Except PErr (List Val) :=
        if left.isEmpty then .ok []
        else if spec.varargs then evalAll env left
        else .error .tooManyPos
      match extra with
      | .error e => .error e
      | .ok xs => match evalKw env kw2 with
        | .error e => .error e
        | .ok rest => .ok (vs ++ xs, kvs ++ rest)

/-- `_parse_auto_apply_args(argspec, argv, namespace, arg_mode)` with
    `sys.stdin.read()` = `stdin`. -/
def parseAutoApply (env : Env) (spec : ArgSpec) (argv : List Str) (stdin : Str) (mode : Mode) :
    Except PErr Delivered :=
  match scan env spec mode argv stdin none with
  | .error e => .error e
  | .ok (pos, occ) => bindPhase env spec pos (dictOf occ)

/-! ### Python's call binding for the same signature shape -/

structure Binding (α : Type) where
  args : List α                 -- one per `spec.args`
  star : List α                 -- `*args`
  kwonly : List α               -- one per `spec.kwonly`
  starstar : List (Str × α)     -- `**kwargs`
deriving DecidableEq, Repr

inductive BindErr | tooMany | multiple | missing | missingKw | unexpected
deriving DecidableEq, Repr

def posDefault (spec : ArgSpec) (a : Str) : Bool :=
  (spec.args.drop (spec.args.length - spec.ndefaults)).contains a

/-- `inspect.signature(f).bind(*pos, **kw)` followed by `apply_defaults()`;
    `kw` has unique keys.  Stated with list predicates, not as a loop. -/
def pyBind (spec : ArgSpec) (dflt : Str → α) (pos : List α) (kw : List (Str × α)) :
    Except BindErr (Binding α) :=
  let n := spec.args.length
  if pos.length > n && !spec.varargs then .error .tooMany
  else if (spec.args.take pos.length).any (fun a => dhas kw a) then .error .multiple
  else if (spec.args.drop pos.length).any (fun a => !dhas kw a && !posDefault spec a) then .error .missing
  else if spec.kwonly.any (fun a => !dhas kw a && !spec.kwdefaults.contains a) then .error .missingKw
  else if !spec.varkw && kw.any (fun p => !spec.names.contains p.1) then .error .unexpected
  else .ok {
    args := pos.take n ++ (spec.args.drop pos.length).map (fun a => (dget kw a).getD (dflt a))
    star := pos.drop n
    kwonly := spec.kwonly.map (fun a => (dget kw a).getD (dflt a))
    starstar := kw.filter (fun p => !spec.names.contains p.1) }

/-- What reaches the function for a binding: evaluate in the parser's order
    and lay the result out as `(args, kwargs)`. -/
def evalBinding (env : Env) (spec : ArgSpec) (b : Binding Expr) : Except PErr Delivered :=
  match evalAll env b.args with
  | .error e => .error e
  | .ok a => match evalAll env b.kwonly with
    | .error e => .error e
    | .ok k => match evalAll env b.star with
      | .error e => .error e
      | .ok s => match evalKw env b.starstar with
        | .error e => .error e
        | .ok ss => .ok (a ++ s, spec.kwonly.zip k ++ ss)

/-! ### `_interpret_arg_mode` and the global options of `py` -/

inductive AMode | string | eval | auto | error
deriving DecidableEq, Repr

def asciiLower (c : Char) : Char :=
  if 'A'.toNat ≤ c.toNat && c.toNat ≤ 'Z'.toNat then Char.ofNat (c.toNat + 32) else c

/-- `s.strip()` -/
def strip (s : Str) : Str := ((s.dropWhile isPySpace).reverse.dropWhile isPySpace).reverse

def w (s : String) : Str := s.toList

/-- `_interpret_arg_mode(arg)` for a string argument (`none` = ValueError);
    `str.lower` is modelled on ASCII letters. -/
def interpretArgMode (s : Str) : Option AMode :=
  if s = w "auto" then some .auto else if s = w "eval" then some .eval else if s = w "string" then some .string else
  let r := (strip s).map asciiLower
  if [w "eval", w "evaluate", w "exprs", w "expr", w "expressions", w "expression", w "e"].contains r then some .eval
  else if [w "strings", w "string", w "str", w "strs", w "literal", w "literals", w "s"].contains r then some .string
  else if [w "auto", w "automatic", w "a"].contains r then some .auto
  else if r = w "error" then some .error
  else none

/-- `_interpret_output_mode(arg)` succeeds -/
def validOutputMode (s : Str) : Bool :=
  let r := ((strip s).map asciiLower).filter (fun c => c ≠ '-' && c ≠ '_')
  [w "none", w "no", w "n", w "silent", w "interactive", w "i", w "print", w "p", w "string", w "str", w "repr", w "r",
   w "pprint", w "pp", w "reprifnotnone", w "reprunlessnone", w "rn", w "pprintifnotnone", w "pprintunlessnone",
   w "ppn", w "systemexit", w "exit", w "raise"].contains r

def validPostmortem (v : Str) : Bool :=
  let r := strip (v.map asciiLower)
  [w "yes", w "y", w "always", w "true", w "t", w "1", w "enable", w "", w "no", w "n", w "never", w "false", w "f",
   w "0", w "disable", w "auto", w "automatic", w "default", w "if-tty"].contains r

structure GOut where
  argMode : Option AMode
  rest : List Str
deriving DecidableEq, Repr

/-- What one global option does to the loop of `_parse_global_opts`:
    stop (keeping the argument or — `--interactive`/`--debug`, after which the
    code `break`s — dropping it), fail with `ValueError`, go on with a new
    argument mode, or go on after `args.pop(0)` supplied the option's value. -/
inductive GStep
  | stop (dropArg : Bool)
  | err
  | cont (f : Option AMode → Option AMode)
  | contPop (k : Str → Option (Option AMode → Option AMode))

def gstep (arg : Str) : GStep :=
  let dbgWords := [w "debug", w "pdb", w "ipdb", w "dbg"]
  let isDbgWord := dbgWords.contains arg
  if !isDbgWord && !(['-'] : Str).isPrefixOf arg then .stop false
  else
    let body := if isDbgWord then w "debug"
                else if (['-','-'] : Str).isPrefixOf arg then arg.drop 2 else arg.drop 1
    match partitionEq body with
    | (name, eq, value) =>
      let novalue (k : GStep) : GStep := if eq then .err else k
      if [w "interactive", w "i"].contains name then novalue (.stop true)
      else if (dbgWords ++ [w "d"]).contains name then novalue (.stop true)
      else if name = w "verbose" then novalue (.cont id)
      else if [w "quiet", w "q"].contains name then novalue (.cont id)
      else if name = w "safe" then novalue (.cont fun _ => some .string)
      else if [w "arguments", w "argument", w "args", w "arg", w "arg_mode", w "arg-mode", w "argmode"].contains name then
        if eq then
          match interpretArgMode value with
          | none => .err
          | some am => .cont fun _ => some am
        else .contPop fun v => (interpretArgMode v).map fun am _ => some am
      else if [w "output", w "output_mode", w "output-mode", w "out", w "outmode", w "out_mode", w "out-mode", w "o"].contains name then
        if eq then (if validOutputMode value then .cont id else .err)
        else .contPop fun v => if validOutputMode v then some id else none
      else if [w "print", w "pprint", w "silent", w "repr"].contains name then novalue (.cont id)
      else if name = w "postmortem" then (if validPostmortem value then .cont id else .err)
      else if [w "no-postmortem", w "np"].contains name then novalue (.cont id)
      else if [w "add-deprecated-builtins", w "add_deprecated_builtins"].contains name then .cont id
      else .stop false

/-- The `while args:` loop of `_PyMain._parse_global_opts` restricted to what
    decides `self.arg_mode` and `self.args` (`.error ()` = ValueError). -/
def globalOpts : List Str → Option AMode → Except Unit GOut
  | [], m => .ok ⟨m, []⟩
  | arg :: rest, m =>
    match gstep arg with
    | .stop false => .ok ⟨m, arg :: rest⟩
    | .stop true => .ok ⟨m, rest⟩
    | .err => .error ()
    | .cont f => globalOpts rest (f m)
    | .contPop k =>
      match rest with
      | [] => .error ()
      | v :: rest' =>
        match k v with
        | none => .error ()
        | some f => globalOpts rest' (f m)

/-! ### identifiers (ASCII part of `is_identifier`; used by the driver and the witnesses) -/

def isIdStart (c : Char) : Bool :=
  ('a'.toNat ≤ c.toNat && c.toNat ≤ 'z'.toNat) || ('A'.toNat ≤ c.toNat && c.toNat ≤ 'Z'.toNat) || c = '_'

def isIdCont (c : Char) : Bool := isIdStart c || ('0'.toNat ≤ c.toNat && c.toNat ≤ '9'.toNat)

def pyKeywords : List Str :=
  ["False", "None", "True", "and", "as", "assert", "async", "await", "break", "class", "continue", "def", "del",
   "elif", "else", "except", "finally", "for", "from", "global", "if", "import", "in", "is", "lambda", "nonlocal",
   "not", "or", "pass", "raise", "return", "try", "while", "with", "yield"].map String.toList

/-- `s.isidentifier() and not keyword.iskeyword(s)` for ASCII `s` -/
def asciiIdent : Str → Bool
  | [] => false
  | c :: cs => isIdStart c && cs.all isIdCont && !pyKeywords.contains (c :: cs)

/-! ## Specification vocabulary

  Everything below is used only to *state* the theorems of `Pfb.C15.Props`
  (it is not part of the model of the code): well-formed signatures, the
  documented command-line forms and their rendering to argv, the property's
  own reading of an option name, the equivalent Python call of a command
  line, and the reasons for rejection. -/

/-- value of the last assignment to `k` -/
def lastOcc : List (Str × α) → Str → Option α
  | [], _ => none
  | (k', v) :: r, k =>
    match lastOcc r k with
    | some x => some x
    | none => if k' = k then some v else none

/-- some expression of the call `f(*pos, **kw)` fails to evaluate -/
def EvalFails (env : Env) (pos : List Expr) (kw : Dict) : Prop :=
  ∃ e, (e ∈ pos ∨ ∃ k, (k, e) ∈ kw) ∧ ∃ y, evalExpr env e = .error y

/-- What `inspect.getfullargspec` guarantees: parameter names are distinct and
    `kwonlydefaults` only names keyword-only parameters. -/
def WF (spec : ArgSpec) : Prop := spec.names.Nodup ∧ ∀ a ∈ spec.kwdefaults, a ∈ spec.kwonly

instance (spec : ArgSpec) : Decidable (WF spec) := by unfold WF; infer_instance

/-- The reasons for which the binding phase may reject, each tied to the
    condition of the call that makes Python's own binder reject it. -/
def Reason (env : Env) (spec : ArgSpec) (pos : List Expr) (kw : Dict) (e : PErr) : Prop :=
  (e = .evalError ∧ EvalFails env pos kw) ∨
  (e = .bothPosKw ∧ ∃ a ∈ spec.args.take pos.length, dhas kw a = true) ∨
  (e = .missingRequired ∧ ∃ a ∈ spec.args.drop pos.length, dhas kw a = false ∧ posDefault spec a = false) ∨
  (e = .missingRequiredKw ∧ ∃ a ∈ spec.kwonly, dhas kw a = false ∧ spec.kwdefaults.contains a = false) ∨
  (e = .tooManyPos ∧ pos.length > spec.args.length ∧ spec.varargs = false)

/-- the keys of `kw` that the resolution step lets through: parameter names, or anything when `**kw` exists -/
def KeysOk (spec : ArgSpec) (kw : Dict) : Prop := spec.varkw = true ∨ ∀ p ∈ kw, p.1 ∈ spec.names

/-- `s` is an original argument string: an element of `argv`, the exact text
    after the first `=` of an element, what stdin held, or `""` (stdin read twice). -/
def FromArgv (argv : List Str) (stdin : Str) (s : Str) : Prop :=
  s ∈ argv ∨ (∃ a ∈ argv, ∃ pre, a = pre ++ '=' :: s ∧ '=' ∉ pre) ∨ s = stdin ∨ s = []

/-- two environments that differ at most in the evaluator (`parsable`, `outcome`) -/
def SameSyntax (e1 e2 : Env) : Prop :=
  e1.isIdent = e2.isIdent ∧ e1.exactFirst = e2.exactFirst ∧ e1.eqValue = e2.eqValue

def dd : Str := ['-','-']

/-- the four documented option forms: `--k=v`, `--k v`, `-k=v`, `-k v` -/
inductive Form | ddEq | ddSp | dEq | dSp
deriving DecidableEq, Repr

def Form.dashes : Form → Str
  | .ddEq | .ddSp => ['-','-']
  | .dEq | .dSp => ['-']

def Form.hasEq : Form → Bool
  | .ddEq | .dEq => true
  | .ddSp | .dSp => false

/-- one element of a command line as the user means it -/
inductive Item
  | pos (s : Str)
  | opt (f : Form) (typed : Str) (v : Str)
  | stdin
deriving DecidableEq, Repr

def renderItem : Item → List Str
  | .pos s => [s]
  | .stdin => [['-']]
  | .opt f t v => if f.hasEq then [f.dashes ++ t ++ '=' :: v] else [f.dashes ++ t, v]

/-- the argv a command line is typed as; `tail = some r` is a final `-- r…` -/
def render : List Item → Option (List Str) → List Str
  | [], none => []
  | [], some r => dd :: r
  | it :: its, tail => renderItem it ++ render its tail

/-- **The property's reading of an option name** (independent of the code): the
    parameter with that name, else the only parameter it is a prefix of, else —
    when the function takes `**kwargs` — the name itself; otherwise rejected. -/
def resolveSpec (spec : ArgSpec) (n : Str) : Option Str :=
  if spec.names.contains n then some n
  else match spec.names.filter (fun a => n.isPrefixOf a) with
    | [m] => some m
    | [] => if spec.varkw then some n else none
    | _ :: _ :: _ => none

/-- a positional argument in the documented sense: no leading dash, not a help request -/
def PlainPos (s : Str) : Prop :=
  (['-'] : Str).isPrefixOf s = false ∧ helpTokens.contains s = false ∧ sourceTokens.contains s = false

/-- an option in one of the documented forms, naming parameter `m` -/
structure OptOk (env : Env) (spec : ArgSpec) (f : Form) (t v m : Str) : Prop where
  first : ∃ c t', t = c :: t' ∧ c ≠ '?' ∧ (f.dashes = ['-'] → c ≠ '-')
  noEq : '=' ∉ t
  ident : env.isIdent (dashToUnderscore t) = true
  value : if f.hasEq then v ≠ [] else dd.isPrefixOf v = false
  resolves : resolveSpec spec (dashToUnderscore t) = some m
  /-- a bare `--help` / `--h` / `--source` that matches no parameter is the help request, not an option -/
  notHelp : ¬ (f.hasEq = false ∧
      (dashToUnderscore t = sHelp ∨ dashToUnderscore t = sH ∨ dashToUnderscore t = sSource) ∧
      matched spec (dashToUnderscore t) = [])

def ItemOk (env : Env) (spec : ArgSpec) : Item → Prop
  | .pos s => PlainPos s
  | .stdin => True
  | .opt f t v => ∃ m, OptOk env spec f t v m

/-- The hypothesis under which the *unchanged* code reads option names as the
    property does: no option names a parameter that is a proper prefix of
    another parameter (D16).  Always true with `fixes/C15-D16.diff`. -/
def Agrees (env : Env) (spec : ArgSpec) (n : Str) : Prop :=
  env.exactFirst = true ∨ (n ∈ spec.names → ∀ m ∈ spec.names, n.isPrefixOf m = true → m = n)

/-- what the command line means: positional expressions and keyword assignments in order -/
def expectScan (spec : ArgSpec) (mode : Mode) : List Item → Str → Scanned
  | [], _ => ([], [])
  | .pos s :: r, sin => (.user s mode :: (expectScan spec mode r sin).1, (expectScan spec mode r sin).2)
  | .stdin :: r, sin => (.user sin .string :: (expectScan spec mode r []).1, (expectScan spec mode r []).2)
  | .opt _ t v :: r, sin =>
    ((expectScan spec mode r sin).1,
     ((resolveSpec spec (dashToUnderscore t)).getD [], .user v mode) :: (expectScan spec mode r sin).2)

def tailLits : Option (List Str) → List Expr
  | none => []
  | some r => r.map (fun x => .user x .string)

/-- what the option loop read (for stating results about arbitrary argv) -/
def callPosOf (env : Env) (spec : ArgSpec) (mode : Mode) (argv : List Str) (stdin : Str) : List Expr :=
  match scan env spec mode argv stdin none with
  | .ok (p, _) => p
  | .error _ => []

def callKwOf (env : Env) (spec : ArgSpec) (mode : Mode) (argv : List Str) (stdin : Str) : Dict :=
  match scan env spec mode argv stdin none with
  | .ok (_, occ) => dictOf occ
  | .error _ => []

/-- The equivalent Python call of a command line: `f(*pos, **kw)` with the
    positional strings in order and, per parameter, the value of the **last**
    option naming it (`dictOf` — see `dget_dictOf`). -/
def callPos (spec : ArgSpec) (mode : Mode) (items : List Item) (tail : Option (List Str)) (stdin : Str) : List Expr :=
  (expectScan spec mode items stdin).1 ++ tailLits tail

def callKw (spec : ArgSpec) (mode : Mode) (items : List Item) (stdin : Str) : Dict :=
  dictOf (expectScan spec mode items stdin).2

/-- an option token that is syntactically fine (its name need not resolve) -/
structure OptSyntax (env : Env) (f : Form) (t : Str) : Prop where
  first : ∃ c t', t = c :: t' ∧ c ≠ '?' ∧ (f.dashes = ['-'] → c ≠ '-')
  noEq : '=' ∉ t
  ident : env.isIdent (dashToUnderscore t) = true

end Pfb.C15
